"""Per-property configuration of bin/check: harness sources, tiers, evidence text."""

COMMON_ASSUME = [
    "libvna is rebuilt from the working tree with clang -O1, ASan+UBSan+LSan, asserts on; behaviour under other compilers/optimisation levels is not explored",
    "the tape engine (harness/common/pbt*.{hpp,cpp}) generates, replays and shrinks cases faithfully",
]


def tiers(quick, thorough):
    return {"quick": quick, "thorough": thorough}


PROPS = {}

PROPS["C15"] = {
    "technique": "stateful property-based testing against an abstract array model (random op sequences + bounded-exhaustive small-scope enumeration), sanitizers as part of the oracle",
    "level_text": "exploration: every generated/enumerated operation sequence is checked step by step against the array model; violations are shrunk to a minimal replayable sequence. Right level because the property quantifies over unbounded histories: sampling plus exhaustive small scopes is what PBT can give.",
    "design_ref": "DESIGN.md section 3 C15",
    "sources": ["harness/props/C15.cpp"],
    "rule": "random operation sequences (init/resize/set_type/add_frequency/cell,matrix,vector setters/z0+fz0 setters/in-place convert/boundary getters; dims 0..5, indices from {-1,0,n-1,n,n+1}) and bounded-exhaustive enumeration of all sequences over a 9-operation small-scope alphabet (dims 0..2); after every step every getter is compared bit-for-bit with the abstract array model; non-trivial = sequence of >= 2 steps containing a shrink-then-regrow in some dimension, a z0 mode switch, or a boundary-index access; distinct = distinct choice tapes",
    "assumptions": COMMON_ASSUME + ["arraymodel.hpp is a faithful reading of vnadata(3) (flat row-major storage per frequency; 0/0/50-ohm initial values; preserve/reset rules of the z0 modes)"],
    "exhaustive_scope": "all operation sequences of the small-scope alphabet up to the depth given by max_size of the enum job",
    "tiers": tiers(
        quick=[{"name": "rand", "mode": "run", "count": 20000, "max_size": 100, "shards": 8},
               {"name": "enum", "mode": "enum", "count": 400000, "max_size": 2, "shards": 1}],
        thorough=[{"name": "rand", "mode": "run", "count": 40000, "max_size": 100, "shards": 14},
                  {"name": "enum", "mode": "enum", "count": 100000000, "max_size": 3, "shards": 16, "max_seconds": 1500}],
    ),
}
PROPS["C13"] = {
    "technique": "stateful property-based testing against an abstract document model (descriptor ASTs printed with random legal whitespace and two independent key quoters), bounded-exhaustive small-scope enumeration, sanitizers in the oracle",
    "level_text": "exploration: generated and enumerated operation sequences over set/set_subtree/delete/copy/queries/malformed descriptors/quote_key are compared step by step with the document model; failures shrink to a minimal replayable sequence.",
    "design_ref": "DESIGN.md section 3 C13",
    "sources": ["harness/props/C13.cpp"],
    "rule": "random operation sequences (<= 200 ops) and bounded-exhaustive enumeration over a 5-operation alphabet on keys {a,b}, indices {0,1}; after every step the tree read through type/count/keys/get/get_subtree must equal the document model and return values/errno must match vnaproperty(3); non-trivial = sequence whose descriptors mix map and list levels and that contains a replace-of-conflicting-type, a list insert/delete with index shift, or a key needing quotes; distinct = distinct choice tapes",
    "assumptions": COMMON_ASSUME + ["docmodel.hpp is a faithful reading of vnaproperty(3)", "errno is not compared where two documented causes apply to the same call (missing element met before a malformed tail; insert subscript in a look-up)"],
    "exhaustive_scope": "all operation sequences of the small-scope alphabet up to the depth given by max_size of the enum job",
    "tiers": tiers(
        quick=[{"name": "rand", "mode": "run", "count": 8000, "max_size": 100, "shards": 8},
               {"name": "enum", "mode": "enum", "count": 3000000, "max_size": 2, "shards": 2, "max_seconds": 120}],
        thorough=[{"name": "rand", "mode": "run", "count": 100000, "max_size": 100, "shards": 14},
                  {"name": "enum", "mode": "enum", "count": 100000000, "max_size": 3, "shards": 16, "max_seconds": 1500}],
    ),
}

NOT_APPLICABLE = {}
