"""Per-property configuration of bin/check.  One file per property in bin/props.d/<ID>.py,
each defining a dict P (harness sources, tiers, evidence text) -- see bin/props.d/C15.py."""
import glob, importlib.util, os, sys

_here = os.path.dirname(os.path.abspath(__file__))
sys.path.insert(0, _here)
from props_common import *   # noqa

PROPS = {}
for _f in sorted(glob.glob(os.path.join(_here, "props.d", "C*.py"))):
    _pid = os.path.basename(_f)[:-3]
    _spec = importlib.util.spec_from_file_location("props_" + _pid, _f)
    _m = importlib.util.module_from_spec(_spec)
    _spec.loader.exec_module(_m)
    PROPS[_pid] = _m.P

# properties deliberately not claimed: id -> reason (empty: every property is meant to be claimed)
NOT_APPLICABLE = {}
