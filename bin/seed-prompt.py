import json,sys
pid=sys.argv[1]; n=sys.argv[2] if len(sys.argv)>2 else "1"; avoid=sys.argv[3] if len(sys.argv)>3 else ""
for l in open('/verif/properties.jsonl'):
    d=json.loads(l)
    if d['id']==pid: break
tag="%s-%s"%(pid,n)
print(f"""You are given a copy of the C library libvna (vector network analyzer calibration, network parameter conversion, Touchstone/NPD file I/O) in /tmp/seed-{tag} . It is an independent copy with its own .git; work ONLY inside that directory and do not read or use anything under /verif or /repo.

The library is supposed to satisfy this semantic property:

TITLE: {d['title']}
STATEMENT: {d['statement']}
QUANTIFIED OVER: {d['quantifier']['text']}

Your task: make a small, realistic change to the library's source under /tmp/seed-{tag}/src (the kind of regression a maintainer could plausibly introduce in a refactoring or an "optimisation": off-by-one, wrong index or offset, swapped arguments, missing case, stale state, wrong loop bound, sign slip, a check moved after its use ...) that BREAKS this property, such that
 (1) the library still compiles without new warnings that would give it away,
 (2) the existing test suite still passes completely: `make -C /tmp/seed-{tag} check` (25 tests; the tree is already configured and built; if the build system complains, run ./configure in that directory first),
 (3) the breakage needs something specific to manifest - a particular dimension/type combination, an unusual but valid input, a multi-step sequence of operations, a failure at a particular point, or two cooperating sites that each look fine alone - NOT something that ordinary use or a trivial smoke test would expose at once. Prefer changes located in the core logic the property is about (read the relevant source and man pages in src/*.3 first), not in error messages or dead code.

"""+(("Another engineer has already tried the following kind of change for this property; choose something clearly DIFFERENT in location and mechanism: "+avoid+"\n\n") if avoid else "")+"""Then write a demonstration: a small C program using only the public API (headers in src/: vnacal.h vnaconv.h vnadata.h vnaerr.h vnaproperty.h; link against src/.libs/libvna.a or the objects, plus -lyaml -lm) that exits 0 on the UNMODIFIED library and exits non-zero, printing what went wrong, on the changed library.

Deliver in /tmp/seed-{tag}/_seed/ :
 - patch.diff   : output of `git diff -- src` (the change only; must apply with `git apply` to a clean checkout)
 - demo.c       : the demonstration program
 - run_demo.sh  : builds demo.c against the library in the directory given as $1 (default /tmp/seed-{tag}) and runs it; exit status = demo's exit status
 - notes.md     : what the change is, exactly which inputs / sequences expose it, why the existing tests miss it, and what you ran to verify
Verify all of this yourself before finishing: with the change applied `make check` passes and run_demo.sh fails; with the change reverted (git stash / git checkout) run_demo.sh passes. Leave the change APPLIED in the working tree when you finish. Final answer: a short summary of the change and of the verification you ran.""")
