from props_common import *

P = {
    "technique": "property-based round-trip testing against an abstract document model with an independent YAML reader (yaml-cpp) as second oracle; trees built through the public API from code-point-constructed UTF-8 strings; sanitizers and LeakSanitizer in the oracle",
    "level_text": "exploration: every generated tree is exported, re-imported three ways (string, FILE*, calibration file) and read by an independent YAML implementation; each result is compared node for node and byte for byte with the document model; failures shrink to a minimal replayable tree.",
    "design_ref": "DESIGN.md section 3 C14",
    "sources": ["harness/props/C14.cpp"],
    "ldflags": ["-lyaml-cpp"],
    "rule": "random trees of depth <= 6 (scalars, nulls, maps, lists, empty maps/lists, nulls inside maps and lists; <= 53 nodes) built through vnaproperty_set/set_subtree or vnacal_property_set/set_subtree with quoted keys (library quoter and an independent one; full paths, relative descriptors on set_subtree anchors, [i] and [+] subscripts, # for nulls, {} and [] for empty collections); keys and scalars are valid UTF-8 constructed from code points (ASCII punctuation, spaces in every position, LF, TAB, CR, other C0 controls except NUL, DEL, C1, NEL, LS/PS, BOM, 2/3-byte BMP, U+FFFE/FFFF, astral) or drawn from a pool of 260 YAML look-alikes (null/bool/number spellings, indicators, quotes, block-scalar headers, document markers, every chomping and indentation situation of multi-line text), text longer than the 80-column fold width, scalars of 15-40 KB (beyond libyaml's 16 KiB buffers), keys longer than 128 and 1024 bytes; oracle: export to an open_memstream FILE* succeeds silently and leaves the tree unchanged, import_yaml_from_string and _from_file (fmemopen) into a fresh root (and, one case in three, into a root with unrelated content: vnaproperty(3) 'replacing any existing content') reproduce the model exactly (kinds, key order, list order, nulls, scalars byte for byte), yaml-cpp reading the same text sees the same tree after un-quoting the keys with an independent implementation of the descriptor key syntax; 50 % of the cases repeat this through vnacal_save/vnacal_load (memfd) for global properties and 20 % also for the properties of a 1x1 T8 calibration; 1 case in 16 also exports to an unwritable FILE* / saves to /dev/full (must return -1 without sanitizer report or leak); non-trivial = tree contains a key needing quoting, a YAML-look-alike scalar, a multi-line scalar or an empty collection; distinct = distinct choice tapes; class histogram per character class separately for keys (key:*) and values (val:*)",
    "assumptions": COMMON_ASSUME + [
        "docmodel.hpp / read_tree() observe the tree only through the public getters of vnaproperty(3)",
        "yaml-cpp 0.7 is a correct YAML 1.2 reader for the documents libyaml emits, except that it decodes the escapes \\N and \\_ to the lone bytes 0x85 / 0xA0; the harness restores exactly those bytes",
        "strings with NUL and byte strings that are not valid UTF-8 are outside the property (C09)",
    ],
    "tiers": tiers(
        quick=[{"name": "rand", "mode": "run", "count": 10000, "max_size": 100, "shards": 16, "max_seconds": 70}],
        thorough=[{"name": "rand", "mode": "run", "count": 200000, "max_size": 100, "shards": 16, "max_seconds": 1200}],
    ),
}
