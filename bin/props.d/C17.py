from props_common import *

P = {
    "technique": "metamorphic property-based testing: pairs of calibration descriptions related by one documented equivalence (T1..T8) must correct a random device identically; scenarios from the independent VNA model, sanitizers in the oracle",
    "level_text": "exploration: for each generated scenario one of the eight transformations is applied and both descriptions are solved and applied by libvna; results must agree to a conditioning-scaled rounding bound (exact and 1e-3-perturbed data as the property allows).",
    "design_ref": "DESIGN.md section 3 C17",
    "sources": ["harness/props/C17.cpp"],
    "rule": "random scenario (as C01) plus one transformation: T1 through/line/mapped spelling, T2 full vs abbreviated matrices (exact data), T3 order of standards, T4 common complex scale on a and b, T5 unrelated parameters and calibration in the same vnacal_t, T6 one vnacal_new_t per frequency, T7 E12 vs UE14, T8 port renumbering (exact data); non-trivial = the transformation changed the call sequence and the calibration has >= 2 ports; distinct = distinct choice tapes; T5 makes 0..8 unrelated parameters (scalar / vector / unknown) and a helper calibration first and deletes a random subset, and in half of the multi-port cases the calibration under test carries one unknown reflection used on two ports (label T5:shared-unknown); T3/T5/T6: two thirds of the cases put vector standards on their own 6..9 knots (smooth non-rational values; data then count as perturbed); T6 modes: fresh vnacal_t per frequency / one vnacal_t with the frequencies descending / one vnacal_t in random order; T4 scales 0.1..10 or 1e-12..1e12",
    "assumptions": COMMON_ASSUME + ["bound 1e4*eps*kappa*10 (exact) / additionally *(1+kappa*1e-3) for perturbed least-squares data"],
    "tiers": tiers(
        quick=[{"name": "rand", "mode": "run", "count": 300, "max_size": 60, "shards": 16, "max_seconds": 75, "shrink_seconds": 60}],
        thorough=[{"name": "rand", "mode": "run", "count": 10000, "max_size": 100, "shards": 16, "max_seconds": 1500, "shrink_seconds": 300}],
    ),
}
