from props_common import *

P = {
    "technique": "property-based testing of the Touchstone/NPD loaders with files produced by an independent writer (tsio) in random equivalent spellings; sanitizers as part of the oracle",
    "level_text": "exploration: every generated ground truth is written in two randomly chosen equivalent spellings; both must load without error to the truth and to each other; violations are shrunk to a minimal replayable pair. Right level because the property quantifies over an unbounded set of well-formed files.",
    "design_ref": "DESIGN.md section 3 C08",
    "sources": ["harness/props/C08.cpp"],
    "rule": "ground truth: type S/Z/Y/H/G, 1..8 ports (v1: 1..4), 1..5 ascending frequencies, equal/unequal real z0 (NPD-only truths: complex or per-frequency z0), values 1e-4..1e4 with random phases, symmetric half of the time; each case holds two spellings drawn from: Touchstone 1 / Touchstone 2 / NPD framing, unit Hz/kHz/MHz/GHz, RI/MA/DB, option-line fields in any order or defaulted, letter case, '!' / '#' comments, blank lines, spaces/tabs, CRLF, missing final newline, Full/Upper/Lower, 12_21/21_12, [Reference] on one or several lines, keyword order, noise blocks, NPD header order and extra column groups, file name/extension or vnadata_set_filetype; non-trivial = some spelling uses a unit other than Hz, a format other than RI, Upper/Lower, 21_12, a noise block, a defaulted option or decoration, and F >= 2; distinct = distinct choice tapes",
    "assumptions": COMMON_ASSUME + [
        "tsio.hpp writes well-formed files in the dialect the library itself writes/accepts ([Two-Port Order]; NPD '#:z0' after '#:ports'; comma-separated '#:parameters'); its own reader must read every generated file back to the truth (self-check inside the harness)",
        "numbers are written with 17 significant digits, so RI values, z0 and Hz frequencies must load bit-exactly; MA/DB, scaled units and Touchstone 1 normalisation are compared within 512*eps*kappa (kappa = 1 polar, 1 + 0.115*|dB| for dB, +1 for the normalisation)",
    ],
    "tiers": tiers(
        quick=[{"name": "rand", "mode": "run", "count": 16000, "max_size": 100, "shards": 16, "max_seconds": 60}],
        thorough=[{"name": "rand", "mode": "run", "count": 600000, "max_size": 100, "shards": 16, "max_seconds": 1200}],
    ),
}
