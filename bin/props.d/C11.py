from props_common import *

P = {
    "technique": "stateful property-based testing: generated call sequences over the whole public API with valid / boundary / invalid argument classes, exact-size heap buffers, ASan+UBSan+LSan and asserts in the oracle",
    "level_text": "exploration: generated histories over a pool of live objects are executed under sanitizers; a failing history is shrunk (whole operations first) to a minimal replayable sequence. Right level because the property quantifies over unbounded histories and argument values.",
    "design_ref": "DESIGN.md section 3 C11",
    "sources": ["harness/props/C11.cpp"],
    "rule": "to be completed",
    "assumptions": COMMON_ASSUME,
    "tiers": tiers(
        quick=[{"name": "rand", "mode": "run", "count": 600, "max_size": 100, "shards": 14, "hang_seconds": 30}],
        thorough=[{"name": "rand", "mode": "run", "count": 8000, "max_size": 100, "shards": 16, "hang_seconds": 30}],
    ),
}
