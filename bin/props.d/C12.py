from props_common import *

P = {
    "technique": "exhaustive allocation-failure enumeration over scripted API histories (compile-time allocator hook in libvna's translation units, tape engine in enum mode), sanitizers and LeakSanitizer in the oracle",
    "level": "fault_enumeration",
    "level_text": "fault enumeration: for every scripted history every allocation requested by libvna code (malloc/calloc/realloc/strdup/vasprintf) in every step is failed once, exhaustively; the faulted call must succeed or fail cleanly with ENOMEM, the repeated call and the rest of the script must reproduce the fault-free observable state, nothing may leak or trip a sanitizer. Right level because the property quantifies over fault points of histories: a finite set per history that can be enumerated completely.",
    "design_ref": "DESIGN.md section 3 C12",
    "variant": "fi",
    "sources": ["harness/props/C12.cpp", "harness/common/alloc_hook.c"],
    "rule": "case = (script, fault point); the script is run fault-free counting libvna allocations per step, then again with allocation k of step s returning NULL/ENOMEM once, the same call repeated if it failed, and the rest of the script; distinct = (script, step, k); non-trivial = fault point whose call actually failed (allocation not absorbed)",
    "assumptions": COMMON_ASSUME + [
        "only allocations requested by libvna's own translation units are failed (alloc_hook.h is force-included into them); libyaml, libm and libc keep the real allocator",
        "one fault per history; the history itself is valid (every step succeeds without fault)",
        "observable state = getters, property trees, text of saved files, apply output; handle values and addresses are not compared",
    ],
    "exhaustive_scope": "every (script, step, allocation index) of the hand-written scripts in harness/props/C12.cpp",
    "tiers": tiers(
        quick=[{"name": "enum", "mode": "enum", "count": 10000000, "max_size": 1, "shards": 16, "max_seconds": 600}],
        thorough=[{"name": "enum", "mode": "enum", "count": 10000000, "max_size": 1, "shards": 16, "max_seconds": 1500}],
    ),
}
