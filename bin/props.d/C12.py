from props_common import *

P = {
    "technique": "exhaustive allocation-failure enumeration over scripted API histories (compile-time allocator hook in libvna's translation units, tape engine in enum mode), sanitizers and LeakSanitizer in the oracle",
    "level": "fault_enumeration",
    "level_text": "fault enumeration: for every scripted history every allocation requested by libvna code (malloc/calloc/realloc/strdup/vasprintf) in every step is failed once, exhaustively; the faulted call must succeed or fail cleanly with ENOMEM, the repeated call and the rest of the script must reproduce the fault-free observable state, nothing may leak or trip a sanitizer. Right level because the property quantifies over fault points of histories: a finite set per history that can be enumerated completely.",
    "design_ref": "DESIGN.md section 3 C12",
    "variant": "fi",
    "sources": ["harness/props/C12.cpp", "harness/common/alloc_hook.c"],
    "rule": "case = (script, variant, fault point); the script is run fault-free counting the allocations libvna requests in every step, then again with allocation k of step s returning NULL/ENOMEM once, the same call repeated without fault if it failed, and the rest of the script; 22 hand-written scripts (vnadata alloc/init/resize/z0 modes/convert/formats/NPD/Touchstone 1+2 save+load; vnaproperty set/queries/copy/quote/YAML export+import; vnacal parameters of every kind across the table growth; E12 SOLT, T8 a/b through every add_* entry point, TRL, auto solve with an unknown, weighted solve with an error model on its own grid, correlated parameters, three calibrations with replace/delete/find, T16/U16; type-changing overwrites of property-tree nodes in every direction through set/set_subtree/delete/copy/import and vnacal_property_*; unknown and correlated parameters shared by three vnacal_new_t structures with 3, 2 and 4 frequency points; replacement of a k-field vnadata format by j-field ones (j<k, j>k, none) directly and through NPD #:parameters; add_calibration, properties, save, load, apply) plus, in the thorough tier, a generated family of 144 calibration histories (8 types x {1x1,2x2,2x1|1x2} x F in {1,2,3} x {m, a/b}); oracle: the faulted call succeeds (then without a non-warning callback) or returns its documented failure value with errno == ENOMEM and, for functions documented to report, a VNAERR_SYSTEM callback; no sanitizer report; after a FAILED call the step's observations (getters, property walks, vnacal_get_parameter_value at several frequencies) are made on the objects as the failure left them and must not crash and must give documented answers (finite value or HUGE_VAL with errno); every vnadata observation includes the bytes vnadata_fsave writes to a memory stream and every vnacal observation the bytes vnacal_save writes to a memory file; if a failed call left every getter as it was, those bytes must be unchanged too; the repeated call succeeds; digest (returned handles/indices, getters, property trees, bytes saved by every observed object, text of saved files, apply output) equals the fault-free run; LeakSanitizer clean after every case whose heap grew; distinct = (script, variant, step, k); non-trivial = fault point whose call actually failed (allocation not absorbed)",
    "assumptions": COMMON_ASSUME + [
        "only allocations requested by libvna's own translation units are failed (alloc_hook.h is force-included into them); libyaml, libm and libc keep the real allocator",
        "one fault per history; the history itself is valid (every step succeeds without fault)",
        "observable state = getters, property trees, text of saved files, apply output; handle values and addresses are not compared",
    ],
    "exhaustive_scope": "every (script, step, allocation index) of the 22 hand-written scripts and of variant 0 of the generated family (quick); plus all 144 generated calibration histories (thorough)",
    "tiers": tiers(
        # max_size 1: hand-written scripts + variant 0 of the generated family; max_size 2: all generated variants
        quick=[{"name": "enum", "mode": "enum", "count": 10000000, "max_size": 1, "shards": 16, "max_seconds": 600, "hang_seconds": 60}],
        thorough=[{"name": "enum", "mode": "enum", "count": 100000000, "max_size": 2, "shards": 16, "max_seconds": 1500, "hang_seconds": 60}],
    ),
}
