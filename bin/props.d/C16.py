from props_common import *

P = {
    "technique": "stateful property-based testing against a table model (calibration slots and parameter handles), scenarios with known truth so slot contents are recognisable, a shadow clone history without parameter deletions, sanitizers and leak checking in the oracle",
    "level_text": "exploration: generated histories (depth <= 100) over one vnacal_t and up to three vnacal_new_t are compared step by step with the table model; failures shrink to a minimal replayable history.",
    "design_ref": "DESIGN.md section 3 C16",
    "sources": ["harness/props/C16.cpp"],
    "rule": "random histories over make_scalar/vector/unknown/correlated_parameter, delete_parameter (live, predefined, deleted, never allocated, negative), new_alloc (1x1 of all 8 types, 2x2 SOLT; every vnacal_new_t on the first 1..3 points of one of three frequency bands: overlapping-but-different, disjoint; unknown and correlated handles are shared between the vnacal_new_t and solved repeatedly on different grids), add_single_reflect_m/double_reflect_m/through_m, solve, add_calibration (new and existing names), delete_calibration, find/get_*, global and per-calibration property set/delete, get_parameter_value, new_free, vnacal_free at the end with whatever is still allocated; after every step every index -2..end+1 and every handle -2..top+2 is compared with the table model, slot contents are recognised by correcting a synthetic DUT measurement through the slot's own error box; a solved unknown / correlated parameter must return the truth of its MOST RECENT solve at that solve's frequencies and refuse frequencies well outside them; non-trivial = >= 2 live calibrations at some point and (a delete or replace, or a parameter deleted while a vnacal_new_t uses it); distinct = distinct choice tapes",
    "assumptions": COMMON_ASSUME + [
        "which free slot vnacal_add_calibration picks and which handle number a make function returns are tracked, not asserted (only: not a live one, and the one find/get then honour)",
        "vnacal_make_scalar_parameter may return the predefined handle of the same value (0, +1, -1); deleting a predefined handle may succeed or fail, the handle must stay valid either way",
        "standards are added with live handles whose frequency range covers the calibration's (vector parameters, and unknown / correlated parameters tied to one through their chain or sigma grid, only on the band of their knots: values are needed at knots only); a correlated parameter is only added while its `other` handle is live, and the standard behind it is the standard behind its `other` (zero correlation residual at the truth); solves are asserted only for determined, well-conditioned standard sets (three reflects pairwise >= 0.4 apart per port, plus a through for 2x2)",
    ],
    "tiers": tiers(
        quick=[{"name": "rand", "mode": "run", "count": 8000, "max_size": 100, "shards": 12}],
        thorough=[{"name": "rand", "mode": "run", "count": 40000, "max_size": 100, "shards": 16}],
    ),
}
