from props_common import *

P = {
    "technique": "property-based testing against an independent physical E-term VNA model (differential oracle), generated standards through every vnacal_new_add_* entry point, sanitizers in the oracle",
    "level_text": "exploration: each generated calibration scenario (type x dims x form x standards x port maps x abbreviated matrices x vector standards) is solved by libvna and the corrected S of a random device is compared with the device fed into the independent physical model, to a conditioning-scaled rounding bound.",
    "design_ref": "DESIGN.md section 3 C01",
    "sources": ["harness/props/C01.cpp"],
    "ldflags": ["-lyaml-cpp"],
    "rule": "random scenarios: type in 8 types, dims 1..4 (rectangular where the type allows), m or a/b, 1..4 frequencies, random error box per frequency from vnamodel (structure allowed by the type), standards = sufficient baseline (3 distant reflects per diagonal port, through/line/mapped 2-port between every diagonal port and every other port, random full P-port standards for 16-term types) + 0..3 extras, shuffled, sufficiency and conditioning confirmed by the model's Jacobian identifiability test (kappa < 1e5); non-trivial = a/b form, rectangular shape, >= 2 frequencies, abbreviated measurement matrix, entry point other than mapped_matrix, permuted port map or vector standard; distinct = distinct choice tapes; a third of the cases create 6..40 unrelated parameters first and delete a random run of them (sparse / recycled handles)",
    "assumptions": COMMON_ASSUME + ["vnamodel.hpp (M = El + Er (I - S Em)^-1 S Et with the per-type sparsity and per-column switch terms) spans the error networks each type can represent", "tolerance CTOL*eps*kappa_J*10 with CTOL = 1e4 (calibrated: largest observed ratio < 1)"],
    "tiers": tiers(
        quick=[{"name": "rand", "mode": "run", "count": 500, "max_size": 60, "shards": 16, "max_seconds": 75, "shrink_seconds": 60}],
        thorough=[{"name": "rand", "mode": "run", "count": 15000, "max_size": 100, "shards": 16, "max_seconds": 1500, "shrink_seconds": 300}],
    ),
}
