from props_common import *

P = {
    "technique": "property-based testing of all 90 vnaconv_* functions against an independent reference built from the defining port relations of vnaconv(3) (constraint null spaces, long-double linear algebra), sanitizers as part of the oracle",
    "level_text": "exploration: random well-conditioned networks, each converted by the library and checked against the defining relation of the output type on the states of the input; violations are shrunk to a minimal replayable case. Right level because the property quantifies over all complex matrices and impedances: sampling with per-case condition-scaled tolerances is what PBT can give.",
    "design_ref": "DESIGN.md section 3 C04",
    "sources": ["harness/props/C04.cpp"],
    "rule": "one case = one of the 90 functions (uniform), n = 2 (two-port) or 1..6 (n-port), z0 class (all equal real / all equal complex / all different, Re z0 in [1,500], Im z0 in [-200,200]), n independent random states (dyadic, uniform or passive-ish power waves, optionally at an impedance level 0.01..100 x z0) turned into the input matrix by convref, or the input matrix itself from small dyadic numbers including zeros; cases whose conversion condition number exceeds 1e6 are rebuilt (label 'rebuilt'; 'filtered' if 6 attempts fail). Checked per case: defining relation of the output on the input's states, aliased call bit-identical, round trip, n-port vs two-port at n=2, zi/zin vs terminated input impedance. non-trivial = every evaluated (non-filtered) case, because the aliased call is made in every case (DESIGN rule: z0 unequal or complex, or n >= 3, or aliased call); the z0 class / n>=3 breakdown is in the histogram; distinct = distinct choice tapes",
    "assumptions": COMMON_ASSUME + [
        "convref.hpp is a faithful reading of the tables of vnaconv(3) (power waves a=K(v+Zi)/2, b=K(v-Z*i)/2, K=1/sqrt|Re Z|; T: [b1;a1]=T[a2;b2]; U: [a2;b2]=U[b1;a1]; A: [v1;i1]=A[v2;-i2]; B: [v2;-i2]=B[v1;i1]); its self-test checks it on a series element and a 3-port star",
        "tolerances are c*eps*gamma*kappa in normalised units (voltages / sqrt|z0|, currents * sqrt|z0|) with kappa computed per case from the input (first-order perturbation bound, see convref.hpp), gamma = max |z0|/Re z0 for functions that take z0 (loss inherent to power waves with reactive reference impedances), c = 1000 calibrated >= 100x the largest ratio observed (8.3 over 9.6e6 cases); inputs closer than kappa = 1e6 to the singular set are outside the claim",
        "exactly on the set zin_k = -z0_k (pole of the reflection coefficient; the network terminated in z0 at all ports has a natural mode) a non-finite result of a ...zi/...zin function is accepted and counted (label accepted:nonfinite-zin-at-pole-of-reflection), a finite one must be right; vnaconv(3) allows inf/nan where the conversion is nondeterministic",
    ],
    "tiers": tiers(
        quick=[{"name": "rand", "mode": "run", "count": 120000, "max_size": 100, "shards": 16, "max_seconds": 60}],
        thorough=[{"name": "rand", "mode": "run", "count": 3000000, "max_size": 100, "shards": 16, "max_seconds": 1200}],
    ),
}
