from props_common import *

P = {
    "technique": "bounded-exhaustive enumeration (all subsets of a standards pool, solve after every addition) plus random orders/numbers, classified by an independent identifiability test; sanitizers in the oracle",
    "level_text": "exploration with an exhaustively enumerated core: every subset of a pool of <= 8 standards for every type and dimension <= 2 (quick) is accumulated one standard at a time with a solve after each; prefixes with fewer equations than unknowns must fail with EDOM, prefixes the model finds determining must solve and correct a device.",
    "design_ref": "DESIGN.md section 3 C20",
    "sources": ["harness/props/C20.cpp"],
    "rule": "pool (<= 8) = up to three reflects per port (thinned first when capping, never below one per port), a through per pair, one or two random full-matrix standards, a double reflect entered as a matrix with explicit VNACAL_ZERO cells, a sparse multi-port standard with reciprocal or one-directional transmission cells and explicit zeros elsewhere; enum: type x legal dims (<= 2) x form x every subset of the pool x 3 orders with fixed numbers; run: dims <= 3, random numbers, random orders; each prefix classified too-few (equations < unknowns per system) / determining (Jacobian rank full, kappa < 1e5, leakage cells sampled) / gray (nothing asserted); non-trivial = history in which a failed solve is followed by a successful one on the same object; distinct = distinct choice tapes; the pool also holds one or two single reflects with an UNKNOWN reflection (guess within 10 %): prefixes containing them are judged by the too-few clause only, with total equations < systems x error terms + unknown parameters; half of the cases create 6..40 unrelated parameters first and delete a random run of them (from the auxiliary stream); rectangular calibrations also get a reflect on a port outside the square part of the measurement matrix (no equations, but an isolation measurement)",
    "assumptions": COMMON_ASSUME + ["equations are counted as vnacal_new(3) describes (measured cells with a signal path and known S row/column)", "a leakage term never sampled without a signal path is documented to stay undetermined: such sets are 'gray'"],
    "exhaustive_scope": "all (type, dims <= 2, form, subset of the pool, 3 orders) with one fixed set of numbers",
    "tiers": tiers(
        quick=[{"name": "enum", "mode": "enum", "count": 10000000, "max_size": 2, "shards": 12, "max_seconds": 80, "shrink_seconds": 60},
               {"name": "rand", "mode": "run", "count": 600, "max_size": 60, "shards": 8, "max_seconds": 60, "shrink_seconds": 60}],
        thorough=[{"name": "enum", "mode": "enum", "count": 100000000, "max_size": 3, "shards": 12, "max_seconds": 1500},
                  {"name": "rand", "mode": "run", "count": 40000, "max_size": 100, "shards": 16, "max_seconds": 1500}],
    ),
}
