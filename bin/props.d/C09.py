"""C09 -- every file parser is total.  Custom driver: libFuzzer targets with a semantic
oracle (harness/fuzz/fz_*.c), a deterministic prefix enumerator over seed files, regress replays.

Contract (same as the tape-engine path of bin/check): rebuild from $VERIF_REPO, run, print
`VIOLATION property=C09 replay=<path>` and exit 1 on a violation, write evidence/C09.json, exit 0
otherwise.  `bin/check C09 --replay <artifact>` replays one artifact; the artifact's file name
starts with `[open-]<target>.` (fz_vnadata_load / fz_vnacal_load / fz_yaml).
"""
from props_common import *
import glob, hashlib, json, os, re, shutil, subprocess, sys, time
from concurrent.futures import ThreadPoolExecutor

PID = "C09"
TARGETS = ["fz_vnadata_load", "fz_vnacal_load", "fz_yaml"]
CORPUS = {"fz_vnadata_load": "corpus/vnadata", "fz_vnacal_load": "corpus/vnacal", "fz_yaml": "corpus/yaml"}
SELECTOR = {".s1p": b"0", ".s2p": b"1", ".s3p": b"2", ".s4p": b"3", ".ts": b"4", ".npd": b"5"}

TIERS = {
    # procs per target, seconds of the seeded campaign, seconds of the empty-corpus campaign,
    # targets fuzzed concurrently, number of seeds whose prefixes are enumerated per target (None = all up to max bytes)
    "quick": {"procs": 4, "seeded_s": 25, "empty_s": 0, "parallel_targets": True,
              "prefix_seeds": {"fz_vnadata_load": 3, "fz_vnacal_load": 2, "fz_yaml": 1}, "prefix_max_bytes": 12000, "valgrind": False},
    "thorough": {"procs": 16, "seeded_s": 170, "empty_s": 100, "parallel_targets": False,
                 "prefix_seeds": {"fz_vnadata_load": 49, "fz_vnacal_load": 14, "fz_yaml": 40}, "prefix_max_bytes": 70000, "valgrind": True},
}
LIBFUZZER_COMMON = ["-max_len=4096", "-timeout=10", "-rss_limit_mb=2560", "-malloc_limit_mb=2560", "-print_final_stats=1",
                    "-detect_leaks=1", "-use_value_profile=0"]
IGNORED_ARTIFACTS = ("oom-", "slow-unit-")


def _splitmix(x):
    x = (x + 0x9E3779B97F4A7C15) & (2**64 - 1)
    z = x
    z = ((z ^ (z >> 30)) * 0xBF58476D1CE4E5B9) & (2**64 - 1)
    z = ((z ^ (z >> 27)) * 0x94D049BB133111EB) & (2**64 - 1)
    return z ^ (z >> 31)


def _hash_str(s):
    h = 1469598103934665603
    for ch in s.encode():
        h = ((h ^ ch) * 1099511628211) & (2**64 - 1)
    return h


class Ctx:
    """paths, environment and binaries of one run"""

    def __init__(self, check, tier, seed):
        import vbuild
        self.check, self.vbuild, self.tier, self.seed = check, vbuild, tier, seed
        self.verif = vbuild.VERIF
        self.run = os.path.join(vbuild.BUILD, "run", PID)
        self.fuzzdir = os.path.join(self.verif, "harness", "fuzz")
        self.exe = {}
        self.stats_dirs = []

    def build(self):
        vb = self.vbuild
        hh = vb.file_hash(os.path.join(self.fuzzdir, "fz_common.h"))[:12]   # vbuild does not hash harness/fuzz/*.h
        for t in TARGETS:
            self.exe[t] = vb.build_harness(t, [os.path.join(self.fuzzdir, t + ".c")], variant="fuzz", fuzzer=True,
                                           extra_cflags=["-I" + self.fuzzdir, "-std=gnu11", "-DFZ_HDR=" + hh])

    def build_standalone(self):
        vb = self.vbuild
        hh = vb.file_hash(os.path.join(self.fuzzdir, "fz_common.h"))[:12]
        out = {}
        for t in TARGETS:
            out[t] = vb.build_harness(t + "-sa", [os.path.join(self.fuzzdir, t + ".c")], variant="plain",
                                      extra_cflags=["-I" + self.fuzzdir, "-std=gnu11", "-DFZ_STANDALONE=1", "-DFZ_HDR=" + hh])
        return out

    def env(self, sym=False, stats=None, extra=None):
        base = self.check.SYM_ENV if sym else self.check.SAN_ENV
        e = dict(os.environ)
        e.update(base)
        # honest allocation failures come back as NULL / ENOMEM instead of killing the process
        e["ASAN_OPTIONS"] = e["ASAN_OPTIONS"] + ":max_allocation_size_mb=256:malloc_context_size=12"
        e["PBT_TMPDIR"] = self.run
        for k in ("FZ_STATS_DIR", "FZ_NO_SKIP", "FZ_VERBOSE", "FZ_NO_MUTATOR"):
            e.pop(k, None)
        if stats:
            os.makedirs(stats, exist_ok=True)
            e["FZ_STATS_DIR"] = stats
            if stats not in self.stats_dirs:
                self.stats_dirs.append(stats)
        if extra:
            e.update(extra)
        return e


# ----------------------------------------------------------------------------- classification
def target_of(path):
    name = os.path.basename(path)
    if name.startswith("open-"):
        name = name[5:]
    for t in TARGETS:
        if name.startswith(t + "."):
            return t
    return None


def classify(rc, out, repo_src=None):
    """-> failure code (None = passed).  kind[@innermost libvna function]"""
    m = re.search(r"^C09-VIOLATION code=(\S+)", out, re.M)
    if m:
        return m.group(1)
    kind = None
    m = re.search(r"ERROR: AddressSanitizer: ([A-Za-z0-9_-]+)", out)
    if m:
        kind = "asan." + m.group(1)
    if not kind:
        m = re.search(r"runtime error: (.*)", out)
        if m:
            msg = re.sub(r"0x[0-9a-f]+|-?\d+(\.\d+)?(e[+-]?\d+)?", "N", m.group(1))
            kind = "ubsan." + re.sub(r"[^A-Za-z]+", "_", msg).strip("_")[:60]
    if not kind and "ERROR: LeakSanitizer" in out:
        kind = "lsan.leak"
    if not kind and "ERROR: libFuzzer: timeout" in out:
        return "hang"
    if not kind and "ERROR: libFuzzer: out-of-memory" in out:
        return "oom"
    if not kind and re.search(r"Assertion .* failed", out):
        kind = "assert"
    if not kind and "ERROR: libFuzzer: deadly signal" in out:
        kind = "signal"
    if not kind:
        if rc == 0:
            return None
        return "exit.%s" % rc
    site = None
    for fm in re.finditer(r"^\s*#\d+ 0x[0-9a-f]+ in (\S+) (\S+?):\d+", out, re.M):
        fn, path = fm.group(1), fm.group(2)
        if "/src/" in path and "/harness/" not in path and os.path.basename(path).startswith(("vna", "archdep")):
            site = fn
            break
    return kind + ("@" + site if site else "")


def kind_of(code):
    return code.split("@")[0] if code else code


def run_files(cx, target, files, sym=False, stats=None, extra_env=None, timeout=120, extra_args=()):
    cmd = [cx.exe[target], "-timeout=30", "-rss_limit_mb=2560", "-malloc_limit_mb=2560"] + list(extra_args) + list(files)
    try:
        r = subprocess.run(cmd, stdout=subprocess.PIPE, stderr=subprocess.STDOUT, text=True, errors="replace",
                           env=cx.env(sym=sym, stats=stats, extra=extra_env), timeout=timeout, cwd=cx.run)
    except subprocess.TimeoutExpired as ex:
        so = ex.stdout or ""
        if isinstance(so, bytes):
            so = so.decode("latin-1")
        return 124, so + "\nERROR: libFuzzer: timeout (driver limit %d s)" % timeout
    return r.returncode, r.stdout


def replay_one(cx, path, sym=False, no_skip=False, stats=None, verbose=False):
    """-> (code or None, output)"""
    t = target_of(path)
    if t is None:
        return "replay.unknown_target", "cannot tell the target from the file name %s (expected [open-]<target>.<name>)" % path
    extra = {}
    if no_skip:
        extra["FZ_NO_SKIP"] = "1"
    if verbose:
        extra["FZ_VERBOSE"] = "1"
    rc, out = run_files(cx, t, [path], sym=sym, stats=stats, extra_env=extra, timeout=150)
    return classify(rc, out), out


def confirm(cx, path, code, no_skip=False):
    """three fresh processes, same failure kind every time"""
    n = 0
    for _ in range(3):
        c, _o = replay_one(cx, path, sym=False, no_skip=no_skip)
        if c is not None and kind_of(c) == kind_of(code):
            n += 1
    return n == 3


def confirm_hang(cx, path):
    """DESIGN 1.6: three isolated runs with a 30 s limit, all three must be killed"""
    t = target_of(path)
    killed = 0
    for _ in range(3):
        rc, out = run_files(cx, t, [path], timeout=45)
        if classify(rc, out) == "hang" or rc == 124:
            killed += 1
    return killed == 3


# ----------------------------------------------------------------------------- minimisation
def ddmin(cx, target, data, code, budget_s=25.0):
    """delta debugging on lines, then on bytes, keeping the failure kind; selector byte of vnadata kept"""
    t0 = time.time()
    keep = 1 if target == "fz_vnadata_load" else 0
    tmp = os.path.join(cx.run, "min-%s-%d" % (target, os.getpid()))
    want = kind_of(code)
    tests = [0]

    def fails(cand):
        if time.time() - t0 > budget_s:
            return False
        tests[0] += 1
        p = os.path.join(os.path.dirname(tmp), target + ".min-" + os.path.basename(tmp))
        open(p, "wb").write(cand)
        rc, out = run_files(cx, target, [p], timeout=60)
        c = classify(rc, out)
        return c is not None and kind_of(c) == want

    def reduce(units, join):
        n = 2
        while len(units) >= 2 and time.time() - t0 < budget_s:
            chunk = max(1, len(units) // n)
            removed = False
            i = 0
            while i < len(units):
                cand_units = units[:i] + units[i + chunk:]
                if cand_units != units and fails(join(cand_units)):
                    units = cand_units
                    n = max(n - 1, 2)
                    removed = True
                else:
                    i += chunk
            if not removed:
                if chunk == 1:
                    break
                n = min(len(units), n * 2)
        return units

    head, body = data[:keep], data[keep:]
    lines = body.splitlines(keepends=True)
    lines = reduce(lines, lambda u: head + b"".join(u))
    body = b"".join(lines)
    if len(body) <= 400:
        chars = [body[i:i + 1] for i in range(len(body))]
        chars = reduce(chars, lambda u: head + b"".join(u))
        body = b"".join(chars)
    try:
        os.unlink(os.path.join(os.path.dirname(tmp), target + ".min-" + os.path.basename(tmp)))
    except OSError:
        pass
    return head + body, tests[0]


# ----------------------------------------------------------------------------- corpora
def seed_files(cx, target):
    d = os.path.join(cx.verif, CORPUS[target])
    return sorted(f for f in glob.glob(os.path.join(d, "*")) if os.path.isfile(f))


def seed_bytes(target, path):
    data = open(path, "rb").read()
    if target == "fz_vnadata_load":
        ext = os.path.splitext(path)[1].lower()
        return SELECTOR.get(ext, b"5") + data
    return data


def make_seed_dir(cx, target, with_regress=True):
    d = os.path.join(cx.run, target, "seeds")
    shutil.rmtree(d, ignore_errors=True)
    os.makedirs(d)
    for f in seed_files(cx, target):
        open(os.path.join(d, os.path.basename(f)), "wb").write(seed_bytes(target, f))
    if with_regress:
        for f in sorted(glob.glob(os.path.join(cx.verif, "regress", PID, target + ".*"))):
            shutil.copyfile(f, os.path.join(d, "regress-" + os.path.basename(f)))
    return d


def pick_prefix_seeds(cx, target, n):
    """deterministic choice: smallest file of each kind first, then by size"""
    # the first seed of each kind should not be a trivial file: prefer those above a minimum size
    floor = {"fz_vnadata_load": 100, "fz_vnacal_load": 600, "fz_yaml": 150}[target]
    files = sorted(seed_files(cx, target), key=lambda f: (os.path.getsize(f) < floor, os.path.getsize(f), f))
    if target == "fz_vnadata_load":
        def kind(f):
            b = os.path.basename(f)
            return "npd" if b.endswith(".npd") else ("v2" if b.endswith(".ts") else "v1")
    elif target == "fz_vnacal_load":
        def kind(f):
            return "legacy" if open(f, "rb").read(7) == b"#VNACAL" else "new"
    else:
        def kind(f):
            return "yaml"
    chosen, seen = [], set()
    for f in files:
        if kind(f) not in seen:
            seen.add(kind(f))
            chosen.append(f)
    for f in files:
        if len(chosen) >= n:
            break
        if f not in chosen:
            chosen.append(f)
    return chosen[:max(n, 0)] if n < len(chosen) else chosen


def write_prefixes(cx, target, seeds, shards, max_bytes):
    base = os.path.join(cx.run, target, "prefix")
    shutil.rmtree(base, ignore_errors=True)
    dirs = []
    for s in range(shards):
        d = os.path.join(base, "s%02d" % s)
        os.makedirs(d)
        dirs.append(d)
    count, used, k = 0, [], 0
    budget = max_bytes
    for f in seeds:
        raw = open(f, "rb").read()
        if len(raw) > budget:
            continue
        budget -= len(raw)
        used.append(os.path.basename(f))
        sel = seed_bytes(target, f)[:len(seed_bytes(target, f)) - len(raw)]
        for i in range(len(raw) + 1):
            p = os.path.join(dirs[k % shards], "%s.p%05d" % (os.path.basename(f), i))
            open(p, "wb").write(sel + raw[:i])
            k += 1
            count += 1
    return dirs, count, used


def read_counters(dirs):
    tot = {}
    for d in dirs:
        for f in glob.glob(os.path.join(d, "*.cnt")):
            t = os.path.basename(f).split(".")[0]
            for line in open(f, errors="replace"):
                p = line.split()
                if len(p) == 2 and p[1].isdigit():
                    tot.setdefault(t, {})
                    tot[t][p[0]] = tot[t].get(p[0], 0) + int(p[1])
    return tot


# ----------------------------------------------------------------------------- campaigns
def fuzz_worker(cx, target, idx, out_dir, seed_dir, art_dir, seconds, tag):
    """one libFuzzer process; restarted after oom / timeout / slow exits until the time is used up"""
    t_end = time.time() + seconds
    logs = []
    attempt = 0
    stats = os.path.join(cx.run, target, "stats-" + tag)
    while True:
        left = int(t_end - time.time())
        if left < 3 and attempt > 0:
            break
        left = max(left, 3)
        sseed = (_splitmix(cx.seed ^ _splitmix(_hash_str(target + tag) + idx * 1000 + attempt)) % (2**31 - 2)) + 1
        cmd = [cx.exe[target]] + LIBFUZZER_COMMON + ["-max_total_time=%d" % left, "-seed=%d" % sseed,
                                                    "-artifact_prefix=%s/%s." % (art_dir, target), out_dir]
        if seed_dir:
            cmd.append(seed_dir)
        log = os.path.join(cx.run, target, "log-%s-%d-%d.txt" % (tag, idx, attempt))
        with open(log, "w") as fh:
            try:
                r = subprocess.run(cmd, stdout=fh, stderr=subprocess.STDOUT, env=cx.env(stats=stats), cwd=cx.run, timeout=left + 120)
                rc = r.returncode
            except subprocess.TimeoutExpired:
                rc = 124
        logs.append(log)
        attempt += 1
        tail = open(log, errors="replace").read()[-6000:]
        if rc == 0:
            break
        # a resource artifact: keep going with a new seed; anything else ends this worker
        if ("ERROR: libFuzzer: out-of-memory" in tail or "ERROR: libFuzzer: timeout" in tail or rc == 124) and attempt < 50:
            continue
        break
    return logs


def run_campaign(cx, targets, procs, seconds, seeded, tag):
    jobs = []
    dirs = {}
    for t in targets:
        out_dir = os.path.join(cx.run, t, "corpus-" + tag)
        art_dir = os.path.join(cx.run, t, "artifacts-" + tag)
        for d in (out_dir, art_dir):
            shutil.rmtree(d, ignore_errors=True)
            os.makedirs(d)
        for old in glob.glob(os.path.join(cx.run, t, "log-%s-*" % tag)):
            os.unlink(old)
        shutil.rmtree(os.path.join(cx.run, t, "stats-" + tag), ignore_errors=True)
        seed_dir = make_seed_dir(cx, t) if seeded else None
        dirs[t] = (out_dir, seed_dir, art_dir)
        for i in range(procs):
            jobs.append((t, i, out_dir, seed_dir, art_dir))
    logs = {t: [] for t in targets}
    with ThreadPoolExecutor(max_workers=max(1, len(jobs))) as ex:
        futs = [(j[0], ex.submit(fuzz_worker, cx, j[0], j[1], j[2], j[3], j[4], seconds, tag)) for j in jobs]
        for t, f in futs:
            logs[t] += f.result()
    return dirs, logs


def parse_logs(logs):
    """libFuzzer's own numbers, for the notes: executed units, best cov/ft, exec/s"""
    res = {"executed_units": 0, "cov": 0, "ft": 0, "exec_per_s": 0}
    for lg in logs:
        txt = open(lg, errors="replace").read()
        m = re.findall(r"stat::number_of_executed_units:\s+(\d+)", txt)
        if m:
            res["executed_units"] += int(m[-1])
        m = re.findall(r"stat::average_exec_per_sec:\s+(\d+)", txt)
        if m:
            res["exec_per_s"] += int(m[-1])
        for cm in re.finditer(r"cov: (\d+) ft: (\d+)", txt):
            res["cov"] = max(res["cov"], int(cm.group(1)))
            res["ft"] = max(res["ft"], int(cm.group(2)))
    return res


# ----------------------------------------------------------------------------- the driver
def custom(pid, a, check):
    import vbuild
    t0 = time.time()
    tier = TIERS[a.tier]
    cx = Ctx(check, a.tier, a.seed)
    os.makedirs(cx.run, exist_ok=True)
    cx.build()
    faildir = os.path.join(check.FAILDIR, PID)

    # ---- replay of one artifact
    if a.replay:
        path = os.path.abspath(a.replay)
        no_skip = os.path.basename(path).startswith("open-")
        code, out = replay_one(cx, path, sym=True, no_skip=no_skip, verbose=True)
        print(out)
        if code is None:
            print("replay passed")
            return 0
        print("failure %s" % code)
        print("VIOLATION property=%s replay=%s" % (PID, path))
        return 1

    for d in glob.glob(os.path.join(cx.run, "*", "stats-*")) + [os.path.join(cx.run, "stats-regress")]:
        shutil.rmtree(d, ignore_errors=True)
    violations = []         # (code, replay path, first line of the report)
    notes = []
    phases = {}
    tp = [time.time()]

    def phase(name):
        now = time.time()
        phases[name] = round(now - tp[0], 1)
        tp[0] = now
    known = check.load_known()
    open_kf = [k for k in known.get("open", []) if k.get("property") == PID]
    kf_seen = []

    def report_line(out):
        for line in out.splitlines():
            if line.startswith("C09-VIOLATION") or "ERROR:" in line or "runtime error:" in line or "Assertion" in line:
                return line.strip()[:400]
        return (out.strip().splitlines() or [""])[-1][:400]

    def kf_for(code, out):
        for k in open_kf:
            if kind_of(k.get("code")) == kind_of(code) and (k.get("code") == code or "@" not in k.get("code", "")):
                pat = k.get("msg_regex")
                if not pat or re.search(pat, out or "", re.S):
                    return k
        return None

    # ---- 1. open known findings (replayed with the exclusions switched off) and regress files
    stats_regress = os.path.join(cx.run, "stats-regress")
    listed = set()
    for k in open_kf:
        rp = os.path.join(cx.verif, k["replay"])
        listed.add(os.path.abspath(rp))
        code, out = replay_one(cx, rp, sym=True, no_skip=True, stats=stats_regress)
        if code is not None and kf_for(code, out) is k:
            print("KNOWN-FINDING: property=%s %s [%s]" % (PID, k.get("what", code), k["id"]))
            kf_seen.append(k["id"])
        elif code is None:
            print("note: known finding %s no longer reproduces (replay passes)" % k["id"])
        else:
            violations.append((code, rp, report_line(out)))
    n_regress = 0
    for rp in sorted(glob.glob(os.path.join(cx.verif, "regress", PID, "*"))):
        if os.path.abspath(rp) in listed or not os.path.isfile(rp) or target_of(rp) is None:
            continue
        n_regress += 1
        if os.path.basename(rp).startswith("open-"):
            # an open finding the lead has not listed yet: the targets exclude its region, say so and go on
            code, out = replay_one(cx, rp, sym=True, no_skip=True, stats=stats_regress)
            if code is not None:
                print("KNOWN-FINDING: property=%s %s [unlisted, %s]" % (PID, code, os.path.relpath(rp, cx.verif)))
                kf_seen.append(os.path.basename(rp))
            code, out = replay_one(cx, rp, stats=stats_regress)       # with the exclusion it must pass
            if code is not None:
                violations.append((code, rp, report_line(out)))
            continue
        code, out = replay_one(cx, rp, stats=stats_regress)
        if code is not None:
            code, out = replay_one(cx, rp, sym=True)
            violations.append((code or "replay.flaky", rp, report_line(out)))

    phase("build+regress")
    # ---- 2. every prefix of a few seeds of every kind
    prefix_info = {}
    prefix_jobs = []
    for t in TARGETS:
        seeds = pick_prefix_seeds(cx, t, tier["prefix_seeds"][t])
        shards = 4 if a.tier == "quick" else 5
        dirs, count, used = write_prefixes(cx, t, seeds, shards, int(tier["prefix_max_bytes"] * min(1.0, max(a.scale, 0.05))))
        prefix_info[t] = {"files": count, "seeds": used}
        art = os.path.join(cx.run, t, "artifacts-prefix")
        shutil.rmtree(art, ignore_errors=True)
        os.makedirs(art)
        for d in dirs:
            prefix_jobs.append((t, d, art))

    def run_prefix(job):
        t, d, art = job
        return job, run_files(cx, t, [d], stats=os.path.join(cx.run, t, "stats-prefix"), timeout=1500,
                              extra_args=["-runs=0", "-max_len=1000000", "-detect_leaks=1", "-artifact_prefix=%s/%s." % (art, t)])

    with ThreadPoolExecutor(max_workers=vbuild.JOBS) as ex:
        prefix_results = list(ex.map(run_prefix, prefix_jobs))
    for (t, d, art), (rc, out) in prefix_results:
        code = classify(rc, out)
        if code is not None and not glob.glob(os.path.join(art, "*")):
            notes.append("prefix pass of %s in %s ended with %s but left no artifact: %s" % (t, d, code, report_line(out)))
            if code not in ("oom",):
                violations.append((code, "(no artifact) " + d, report_line(out)))

    phase("prefixes")
    # ---- 3. coverage-guided campaigns
    campaigns = []
    scale = a.scale
    tgroups = [TARGETS] if tier["parallel_targets"] else [[t] for t in TARGETS]
    fuzz_logs = {t: [] for t in TARGETS}
    corpus_dirs = {t: [] for t in TARGETS}
    artifact_dirs = {t: [os.path.join(cx.run, t, "artifacts-prefix")] for t in TARGETS}
    for tag, secs, seeded in (("seeded", tier["seeded_s"], True), ("empty", tier["empty_s"], False)):
        secs = int(secs * scale)
        if secs <= 0:
            continue
        for grp in tgroups:
            dirs, logs = run_campaign(cx, grp, tier["procs"], secs, seeded, tag)
            for t in grp:
                fuzz_logs[t] += logs[t]
                corpus_dirs[t].append(dirs[t][0])
                if dirs[t][1] and dirs[t][1] not in corpus_dirs[t]:
                    corpus_dirs[t].append(dirs[t][1])
                artifact_dirs[t].append(dirs[t][2])
        campaigns.append({"corpus": tag, "seconds_per_target": secs, "processes_per_target": tier["procs"]})

    phase("campaigns")
    # ---- 4. triage of artifacts
    os.makedirs(faildir, exist_ok=True)
    ignored = {"oom": 0, "slow-unit": 0, "timeout_not_confirmed": 0}
    for t in TARGETS:
        arts = []
        for d in artifact_dirs[t]:
            arts += sorted(glob.glob(os.path.join(d, t + ".*")), key=lambda p: (os.path.getsize(p), p))
        by_kind = {}
        timeouts_examined = 0
        for p in arts:
            base = os.path.basename(p)[len(t) + 1:]
            if base.startswith("oom-"):
                ignored["oom"] += 1
                continue
            if base.startswith("slow-unit-"):
                ignored["slow-unit"] += 1
                continue
            if base.startswith("timeout-"):
                # smallest first; one confirmed hang is enough, and at most three candidates are examined (3 x 30 s each)
                if "hang" in by_kind or timeouts_examined >= 3:
                    continue
                timeouts_examined += 1
                if confirm_hang(cx, p):
                    by_kind.setdefault("hang", []).append((p, "hang", "ERROR: libFuzzer: timeout, confirmed 3x in isolation with a 30 s limit"))
                else:
                    ignored["timeout_not_confirmed"] += 1
                continue
            if not (base.startswith("crash-") or base.startswith("leak-")):
                continue
            if sum(len(v) for v in by_kind.values()) >= 12:
                continue
            code, out = replay_one(cx, p, sym=True)
            if code is None:
                notes.append("artifact %s does not reproduce in isolation; treated as inconclusive" % p)
                continue
            if code == "oom":
                ignored["oom"] += 1
                continue
            by_kind.setdefault(kind_of(code), []).append((p, code, report_line(out)))
        for kind, lst in sorted(by_kind.items()):
            p, code, line = lst[0]
            if kind != "hang" and not confirm(cx, p, code):
                print("note: failure %s of %s did not reproduce 3/3; treated as inconclusive" % (code, p))
                notes.append("inconclusive: %s %s" % (code, p))
                continue
            k = kf_for(code, line)
            if k:
                print("KNOWN-FINDING: property=%s %s [%s] (met again: %s)" % (PID, k.get("what", code), k["id"], os.path.basename(p)))
                continue
            data = open(p, "rb").read()
            ntests = 0
            if kind != "hang":
                small, ntests = ddmin(cx, t, data, code, budget_s=25.0 if a.tier == "quick" else 60.0)
                if len(small) < len(data):
                    data = small
            h = hashlib.sha1(data).hexdigest()[:12]
            dst = os.path.join(faildir, "%s.%s-%s" % (t, re.sub(r"[^A-Za-z0-9_.@-]", "_", code)[:80], h))
            open(dst, "wb").write(data)
            code2, out2 = replay_one(cx, dst, sym=True, verbose=True)
            with open(dst + ".report.txt", "w") as fh:
                fh.write("failure %s (%d inputs of this kind in this run; minimised with %d test runs)\n%s\n" % (code, len(lst), ntests, out2))
            violations.append((code, dst, line))

    phase("triage")
    # ---- 5. census of the final corpora: how many distinct units reached the data sections
    census = {}

    def run_census(t):
        ds = [d for d in corpus_dirs[t] if os.path.isdir(d)]
        sd = os.path.join(cx.run, t, "stats-census")
        shutil.rmtree(sd, ignore_errors=True)
        if not ds:
            return t, {}, 0
        rc, out = run_files(cx, t, ds, stats=sd, timeout=1200, extra_args=["-runs=0", "-max_len=1000000", "-detect_leaks=0",
                                                                          "-artifact_prefix=%s/%s.census-" % (os.path.join(cx.run, t), t)])
        cnt = read_counters([sd]).get(t, {})
        nfiles = sum(len(os.listdir(d)) for d in ds)
        return t, cnt, nfiles

    if not violations:
        with ThreadPoolExecutor(max_workers=3) as ex:
            for t, cnt, nfiles in ex.map(run_census, TARGETS):
                census[t] = {"corpus_units": nfiles, "counters": cnt}
        cx.stats_dirs = [d for d in cx.stats_dirs if not d.endswith("stats-census")]

    phase("census")
    # ---- 6. valgrind replay of the merged corpus through the unsanitized build (thorough)
    valgrind_info = None
    if tier["valgrind"] and not violations and shutil.which("valgrind"):
        valgrind_info = valgrind_pass(cx, corpus_dirs, violations, faildir, report_line)

    phase("valgrind")
    # ---- 7. evidence
    counters = read_counters(cx.stats_dirs)
    evals = sum(c.get("execs", 0) for c in counters.values())
    distinct = sum(c["counters"].get("nontrivial", 0) for c in census.values())
    if not census:
        distinct = sum(c.get("nontrivial", 0) for c in read_counters([os.path.join(cx.run, t, "stats-prefix") for t in TARGETS]).values())
    samples = []
    for t in TARGETS:
        picked = 0
        for d in corpus_dirs[t]:
            for f in sorted(os.listdir(d))[:400] if os.path.isdir(d) else []:
                if picked >= 2:
                    break
                raw = open(os.path.join(d, f), "rb").read(160)
                if len(raw) < 12:
                    continue
                first = raw.split(b"\n")[0][:100].decode("latin-1")
                samples.append("%s %s/%s: %r" % (t, os.path.basename(d), f, first))
                picked += 1
    if not samples:
        samples = ["(no corpus unit recorded)"]
    libfuzzer = {t: parse_logs(fuzz_logs[t]) for t in TARGETS}
    cov = {
        "evaluations": int(evals),
        "distinct_nontrivial": int(distinct),
        "rule": P["rule"],
        "samples": samples,
        "class_histogram": {t: {k: v for k, v in sorted(c.items()) if v} for t, c in counters.items()},
        "final_corpus_census": census,
        "prefix_enumeration": prefix_info,
        "exhaustive": False,
        "exhaustive_scope": "every prefix (truncation at every byte) of the seed files named in prefix_enumeration is executed; the campaigns are sampling",
        "campaigns": campaigns,
        "libfuzzer": libfuzzer,
        "regress_replayed": n_regress,
        "known_findings_reported": kf_seen,
        "ignored_artifacts": ignored,
        "notes": notes,
        "phase_seconds": phases,
    }
    if valgrind_info is not None:
        cov["valgrind_replay"] = valgrind_info
    check.write_evidence(PID, a.tier, a.seed, "exploration", cov, P["assumptions"], time.time() - t0, len(violations))

    if violations:
        for code, rp, line in violations:
            print("failure %s: %s" % (code, line))
            print("VIOLATION property=%s replay=%s" % (PID, rp))
        return 1
    print("OK property=%s tier=%s evaluations=%d distinct_nontrivial=%d wall=%.1fs" % (PID, a.tier, evals, distinct, time.time() - t0))
    return 0


def valgrind_pass(cx, corpus_dirs, violations, faildir, report_line):
    """memcheck sees uninitialised reads ASan cannot; replays a coverage-minimised corpus through the -O2 build"""
    sa = cx.build_standalone()
    # valgrind 3.19 cannot read clang 14's DWARF 5 ("debuginfo reader: ensure_valid failed"): replay a copy without debug sections
    for t in list(sa):
        vg_exe = sa[t] + ".vg"
        shutil.copyfile(sa[t], vg_exe)
        os.chmod(vg_exe, 0o755)
        subprocess.run(["strip", "--strip-debug", vg_exe], check=False)
        sa[t] = vg_exe
    info = {}
    jobs = []
    for t in TARGETS:
        merged = os.path.join(cx.run, t, "corpus-merged")
        shutil.rmtree(merged, ignore_errors=True)
        os.makedirs(merged)
        ds = [d for d in corpus_dirs[t] if os.path.isdir(d)]
        subprocess.run([cx.exe[t], "-merge=1", "-max_len=4096", "-timeout=30", "-rss_limit_mb=2560", merged] + ds, stdout=subprocess.DEVNULL,
                       stderr=subprocess.DEVNULL, env=cx.env(), cwd=cx.run, timeout=1500)
        files = sorted(glob.glob(os.path.join(merged, "*")), key=lambda p: (os.path.getsize(p), p))[:1500]
        info[t] = {"files": len(files), "errors": 0}
        for i in range(0, len(files), 60):
            jobs.append((t, files[i:i + 60]))

    def vg(job):
        t, files = job
        e = dict(os.environ)
        e["PBT_TMPDIR"] = cx.run
        r = subprocess.run(["valgrind", "-q", "--error-exitcode=97", "--leak-check=full", "--errors-for-leak-kinds=definite",
                            "--track-origins=yes", sa[t]] + files, stdout=subprocess.PIPE, stderr=subprocess.STDOUT, text=True,
                           errors="replace", env=e, cwd=cx.run, timeout=3000)
        return t, files, r.returncode, r.stdout

    with ThreadPoolExecutor(max_workers=16) as ex:
        for t, files, rc, out in ex.map(vg, jobs):
            if rc == 0:
                continue
            genuine = re.search(r"^==\d+== (Invalid (read|write|free)|Conditional jump|Use of uninitialised|Syscall param|Mismatched free|"
                                r"Source and destination overlap|Process terminating|\d[\d,]* bytes in \d[\d,]* blocks are definitely lost)", out, re.M) \
                or re.search(r"^C09-VIOLATION", out, re.M)
            if not genuine:
                # the tool itself failed (cannot start, cannot read the binary, killed): not a verdict on libvna
                info[t]["tool_failures"] = info[t].get("tool_failures", 0) + 1
                info[t].setdefault("tool_failure_sample", (out.strip().splitlines() or ["rc=%d" % rc])[-1][:200])
                continue
            info[t]["errors"] += 1
            # which file: the last "Running:" line before the first valgrind error line
            cur = None
            bad = None
            for line in out.splitlines():
                if line.startswith("Running: "):
                    cur = line[9:].strip()
                elif re.match(r"==\d+== (Invalid|Conditional|Use of uninit|Syscall param|\d+ bytes in)", line) and bad is None:
                    bad = cur
            m = re.search(r"^C09-VIOLATION code=(\S+)", out, re.M)
            code = m.group(1) if m else "valgrind.memcheck"
            src = bad or files[0]
            dst = os.path.join(faildir, "%s.%s-%s" % (t, code, hashlib.sha1(open(src, "rb").read()).hexdigest()[:12]))
            os.makedirs(faildir, exist_ok=True)
            shutil.copyfile(src, dst)
            open(dst + ".report.txt", "w").write(out[-20000:])
            violations.append((code, dst, report_line(out) if m else next((line_ for line_ in out.splitlines() if line_.startswith("==")), "valgrind error")))
    return info


def setup():
    """bin/setup: build the instrumented library and the three targets"""
    import types
    cx = Ctx(types.SimpleNamespace(SAN_ENV={}, SYM_ENV={}), "quick", 0)
    cx.build()
    for t in TARGETS:
        print("built", PID, t)


P = {
    "setup": setup,
    "technique": "coverage-guided fuzzing (libFuzzer, ASan+UBSan+LSan, asserts on) of the three file loaders with a semantic oracle inside each target, a structure-aware token/line mutator, plus deterministic enumeration of every prefix of seed files",
    "level": "exploration",
    "level_text": "exploration: byte strings derived from valid files of every kind (seed corpus of Touchstone 1/2, NPD, .vnacal incl. legacy versions, YAML) by libFuzzer's mutations and a token/line/number/keyword mutator, and every truncation of seed files, are fed to vnadata_fload, vnacal_load and vnaproperty_import_yaml_from_string/_from_file; each result is judged by the oracle in the target (clean failure shape, or self-consistent object that survives save + reload) and by the sanitizers. Right level because the property quantifies over all byte strings: sampling guided by coverage plus exhaustive truncation of seeds is what testing can give.",
    "design_ref": "DESIGN.md section 3 C09",
    "custom": custom,
    "sources": ["harness/fuzz/fz_vnadata_load.c", "harness/fuzz/fz_vnacal_load.c", "harness/fuzz/fz_yaml.c", "harness/fuzz/fz_common.h"],
    "rule": "inputs = (a) every prefix of selected seed files, (b) libFuzzer campaigns (-max_len=4096, fixed -seed per process derived from VERIF_SEED) started from the committed seed corpus and, in the thorough tier, from an empty corpus, with a custom mutator that deletes/duplicates/swaps/moves tokens and lines, perturbs numbers, inserts format keywords, wraps tokens in YAML collection syntax and truncates; evaluations = calls of LLVMFuzzerTestOneInput counted by the targets (regress + prefixes + campaigns); non-trivial = the loader got past the header: object loaded with >= 1 port and >= 1 frequency (YAML: tree with >= 2 nodes) or the load failed after at least one data row / with well-formed YAML carrying data; distinct_nontrivial = number of units of the final corpora (distinct by content, each executed once in a census pass) that are non-trivial; inputs declaring more than 4096 ports/rows/columns/frequencies/list index or more than 2^20 cells are skipped and counted (excluded_huge)",
    "assumptions": [
        "libvna is rebuilt from the working tree with clang -O1, ASan+UBSan+LSan and -fsanitize=fuzzer-no-link, asserts on; behaviour under other compilers/optimisation levels is not explored (thorough tier: the coverage-minimised corpus is replayed through an -O2 build under valgrind memcheck)",
        "libFuzzer and the oracle code in harness/fuzz/fz_*.c / fz_common.h are trusted; libyaml is trusted (the targets use it to pre-scan declared sizes)",
        "inputs are at most 4096 bytes during the campaigns; inputs declaring sizes above 4096 (or more than 2^20 cells in total) are skipped: integer overflow of the library's size arithmetic and honest memory exhaustion are outside the explored domain (DESIGN.md section 6)",
        "allocation failures are not injected here (C12 does that); allocations above 256 MiB fail with ENOMEM by sanitizer option, which the oracle accepts as a clean system error",
        "termination is judged by a watchdog: 10 s per unit in libFuzzer, then three isolated re-runs with a 30 s limit; oom-/slow-unit- artifacts are ignored",
        "re-save comparison: numeric equality of finite values for vnadata (as C06), bit equality (NaN = NaN) for calibration files; values with non-finite components are not compared for vnadata because the loaders build complex numbers by arithmetic (re + I*im)",
        "no term getter exists in the public vnacal API: error terms are read through vnacal_internal.h",
    ],
    "tiers": tiers(quick=[], thorough=[]),
}
