from props_common import *

P = {
    "technique": "stateful property-based testing of save/load round trips; the harness' own .vnacal writer supplies calibrations of every type and shape with arbitrary error terms (current and legacy file versions), an independent yaml-cpp reader inspects what vnacal_save writes; sanitizers and leak checking in the oracle",
    "level_text": "exploration: generated histories (load of harness-written files, solved calibrations, add/replace/delete, property trees, both precision setters) end in save -> independent read -> load -> compare -> apply; failures shrink to a minimal replayable history.",
    "design_ref": "DESIGN.md section 3 C07",
    "sources": ["harness/props/C07.cpp"],
    "ldflags": ["-lyaml-cpp"],
    "rule": "histories start from vnacal_create, from a harness-written file ('#VNACal 1.0', '#VNACAL 3.x', '#VNACAL 2.x'; 0..3 calibrations of any of the 8 types, dimensions 1..4 incl. rectangular, 1..4 frequencies, complex z0, property trees, conditioned or arbitrary finite error terms, hex / 17-digit / p-digit numbers) or from the library's compat-V2.vnacal; then add solved 1x1 calibrations of every type under new or existing names, delete, set/delete global and per-calibration properties, set_fprecision / set_dprecision in {1..40, MAX, a few larger values, invalid values}, and round trips (save; independent yaml-cpp read: version line, names, order, type, dims, f, z0, property trees, all blocks, digits/hex of every number; save at MAX = exact memory image; load; getters and property trees; re-save of the loaded object at MAX equals the text bit for bit; vnacal_apply_m on original and loaded object), optionally continuing on the loaded object; non-trivial = >= 2 calibrations in a save, or a delete/replace, or a non-default precision, or a non-empty property tree; distinct = distinct choice tapes",
    "assumptions": COMMON_ASSUME + [
        "calfile.hpp (yaml-cpp + strtod) reads .vnacal text faithfully; block shapes per type as in vnacal_layout.h",
        "the legacy 2.x layout (sets:, e = rows x columns cells of [el, er, em]) is the one vnacal_load.c and tests/compat-V2.vnacal establish",
        "frequencies that would no longer be strictly ascending after rounding to the frequency precision in force cannot survive any text format: the history raises the precision first (counted: fprecision-raised-to-keep-ascending)",
        "calibration names that a YAML reader takes for null (~, null) or that are empty are not generated: yaml-cpp cannot tell them from null",
        "apply agreement below VNACAL_MAX_PRECISION is asserted for well-conditioned terms saved with >= 4 digits only; arbitrary finite terms are compared as terms, and by apply bit for bit at MAX",
    ],
    "tiers": tiers(
        quick=[{"name": "rand", "mode": "run", "count": 1000, "max_size": 100, "shards": 12}],
        thorough=[{"name": "rand", "mode": "run", "count": 40000, "max_size": 100, "shards": 16, "max_seconds": 1200}],
    ),
}
