from props_common import *

P = {
    "technique": "property-based testing: generated knot vectors with values from exactly reproducible rational functions, random query orders (history independence vs fresh objects), range scenarios (cover / >= 5% shortfall low, high, both) through every consumer",
    "level_text": "exploration: knots must be bit-exact, rational dependence reproduced to rounding, values independent of query history; every >= 5% range shortfall of a vector standard, apply request, parameter query or noise grid must be refused with EINVAL, every full cover accepted; apply off-grid exact for frequency-independent error terms.",
    "design_ref": "DESIGN.md section 3 C10",
    "sources": ["harness/props/C10.cpp"],
    "rule": "three generators: (A) vnacal_get_parameter_value on vector parameters of 1..12 knots (log/linear, jittered), values from the rational family the window reproduces, queries at knots / midpoints / random / repeated / inside the 1% slack in random order, each also asked of a fresh identical parameter; (B+C) one-port calibrations whose three standards are vector parameters on their own grids (cover or >= 5% shortfall at low/high/both ends, frequency vector set before or after the standards), then apply at on- and off-grid frequencies inside the band and >= 5% outside; (D) noise grids of 1 point with a frequency vector, the calibration grid, own grids with cover / shortfall; non-trivial = off-knot query, two-knot vector, >= 3 queries, or any range scenario; distinct = distinct choice tapes; consumer E (correlated sigma grids): a standard whose cell is a correlated parameter with a sigma grid of 2..8 knots that covers the band / misses it by >= 5 % at the low end, the high end or both, or with a 1-point sigma (frequency ignored), 'other' = scalar / covering vector / unknown, added before or after vnacal_new_set_frequency_vector: shortfalls must be refused with EINVAL (by the add or by set_frequency_vector), the others accepted",
    "assumptions": COMMON_ASSUME + ["misses between 1% and 5% are not asserted (the slack is internal)", "rational reproduction bound 1e6*eps with poles kept one band-width off the real axis (largest observed ratio tracked in the evidence)", "correlated-parameter sigma grids are exercised by C02/C18 only (no getter exists)"],
    "tiers": tiers(
        quick=[{"name": "rand", "mode": "run", "count": 150000, "max_size": 60, "shards": 12, "max_seconds": 60}],
        thorough=[{"name": "rand", "mode": "run", "count": 3000000, "max_size": 100, "shards": 16, "max_seconds": 1200}],
    ),
}
