from props_common import *

P = {
    "technique": "stateful property-based testing against an abstract array model (random op sequences + bounded-exhaustive small-scope enumeration), sanitizers as part of the oracle",
    "level_text": "exploration: every generated/enumerated operation sequence is checked step by step against the array model; violations are shrunk to a minimal replayable sequence. Right level because the property quantifies over unbounded histories: sampling plus exhaustive small scopes is what PBT can give.",
    "design_ref": "DESIGN.md section 3 C15",
    "sources": ["harness/props/C15.cpp"],
    "rule": "random operation sequences (init/resize/set_type/add_frequency/cell,matrix,vector setters/z0+fz0 setters/in-place convert/boundary getters; dims 0..5, indices from {-1,0,n-1,n,n+1}) and bounded-exhaustive enumeration of all sequences over a 9-operation small-scope alphabet (dims 0..2); after every step every getter is compared bit-for-bit with the abstract array model; non-trivial = sequence of >= 2 steps containing a shrink-then-regrow in some dimension, a z0 mode switch, or a boundary-index access; distinct = distinct choice tapes",
    "assumptions": COMMON_ASSUME + ["arraymodel.hpp is a faithful reading of vnadata(3) (flat row-major storage per frequency; 0/0/50-ohm initial values; preserve/reset rules of the z0 modes)"],
    "exhaustive_scope": "all operation sequences of the small-scope alphabet up to the depth given by max_size of the enum job",
    "tiers": tiers(
        quick=[{"name": "rand", "mode": "run", "count": 20000, "max_size": 100, "shards": 8},
               {"name": "enum", "mode": "enum", "count": 400000, "max_size": 2, "shards": 1},
               {"name": "fuzz", "mode": "fuzz", "seconds": 20, "shards": 4}],
        thorough=[{"name": "rand", "mode": "run", "count": 40000, "max_size": 100, "shards": 14},
                  {"name": "enum", "mode": "enum", "count": 100000000, "max_size": 3, "shards": 16, "max_seconds": 1500},
                  {"name": "fuzz", "mode": "fuzz", "seconds": 600, "shards": 8}],
    ),
}
