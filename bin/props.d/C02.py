from props_common import *

P = {
    "technique": "property-based testing against the independent VNA model: generated TRL and Levenberg-Marquardt self-calibration instances with known truth, guesses within a stated radius, tolerance/iteration knobs; hang watchdog; sanitizers in the oracle",
    "level_text": "exploration: each generated self-calibration instance is solved by libvna; a successful solve must return the true parameter values and correct a device to a small multiple of the configured tolerances; failures must be EDOM with a MATH callback; the call must return (watchdog).",
    "design_ref": "DESIGN.md section 3 C02",
    "sources": ["harness/props/C02.cpp"],
    "rule": "three generators: TRL analytic path (2x2 T8/U8/TE10/UE10, through + double reflect with one unknown R + line with unknown l, guesses within 25%), near-TRL (reflect as a single reflect), LM path (C01 scenario on every type, dims 1..3, 1..3 standard cells re-declared unknown (guess within 0.1) or correlated to their true value, tolerances 1e-4..1e-12, iteration limit 1..3 or 30..100, optional error weighting); cases kept only when the model's Jacobian incl. the unknown parameters is determining (kappa < 1e4) with enough excess equations; non-trivial = successful solve with an unknown in a partially specified standard, >= 2 unknowns, a correlated parameter, or iteration limit <= 3 (all TRL successes count); distinct = distinct choice tapes; after a successful solve, 1 case in 3 (TRL) / 1 in 2 (LM) solves the same unknown handles AGAIN on another frequency grid of the same length (same vnacal_new_t after vnacal_new_set_frequency_vector, or a second vnacal_new_t of the same vnacal_t) and the values queried at the new frequencies must be the new solve's; error boxes contain exactly ideal terms (directivity / match / leakage drawn below 0.004 become 0): a TRL instance with a perfectly matched port is solved by the library's iterative path and judged with the default tolerance 1e-6 (label TRL:ideal-port)",
    "assumptions": COMMON_ASSUME + ["'within the basin' is approximated by the stated guess radius; success rate is reported in the class histogram, not asserted for the LM path", "bound 1e3*max(p_tol,et_tol) + 1e4*eps*kappa*10 + 1e-9 for parameters, 10x for the corrected device"],
    "tiers": tiers(
        quick=[{"name": "rand", "mode": "run", "count": 400, "max_size": 60, "shards": 16, "max_seconds": 75, "shrink_seconds": 60, "hang_seconds": 30}],
        thorough=[{"name": "rand", "mode": "run", "count": 10000, "max_size": 100, "shards": 16, "max_seconds": 1500, "shrink_seconds": 300, "hang_seconds": 60}],
    ),
}
