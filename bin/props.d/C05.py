from props_common import *

P = {
    "technique": "differential property-based testing of vnadata_convert against the named vnaconv_* functions (bit-exact), the abstract array model (dimensions, z0 modes, later resizes) and the convref network reference (chained conversions); bounded-exhaustive enumeration of all type pairs x z0 modes; sanitizers as part of the oracle",
    "level_text": "exploration: random objects (all 11 types, 0..5 ports, 0..4 frequencies, three z0 modes, fresh or pre-filled destinations, objects with an earlier life) are converted out of place and in place and compared with the per-frequency application of the vnaconv function of the corresponding name; every (from, to, z0 mode) combination is enumerated once. Right level because the property quantifies over configurations and histories: enumeration of the finite table plus sampling of the rest.",
    "design_ref": "DESIGN.md section 3 C05",
    "sources": ["harness/props/C05.cpp"],
    "rule": "one case = (from type, to type incl. invalid values, z0 mode default/ordinary/per-frequency, shape valid for the from type incl. 0x0 and N != 2 for 2x2-only targets, F in 0..4, data = well-conditioned random network or arbitrary numbers, destination fresh or pre-filled with another type/shape/z0 mode, optional earlier life of the objects with other dimensions); the call is made out of place AND in place on an identical copy in every case; accepted: result bit-identical to the vnaconv function named from->to applied per frequency with that frequency's z0 (n-port or two-port function at 2x2), f and z0/fz0 carried over, in-place == out-of-place, input untouched; optional third type C: A->B->C and A->C both the network of A (convref, tolerance c*eps*kappa); rejected: -1, EINVAL, USAGE callback, full dump of the destination unchanged; then a tail of <= 6 resize / in-place convert / add_frequency / boundary-getter operations compared step by step with the array model of a freshly built object. non-trivial = every case (the in-place call is part of every case; DESIGN rule: per-frequency z0, or in-place, or chained, or resize after matrix->Zin), breakdown in the histogram; distinct = distinct choice tapes",
    "assumptions": COMMON_ASSUME + [
        "arraymodel.hpp is a faithful reading of vnadata(3) (as for C15); ArrayModel::convert_ok is the table of accepted (from, to, dimensions) combinations read from vnadata(3)",
        "'the corresponding vnaconv function' is the one whose name is vnaconv_<from>to<to>[n]; for 2x2 S/Z/Y pairs both the two-port and the n-port function of that name are accepted",
        "convref.hpp is a faithful reading of vnaconv(3) (as for C04); chain tolerance c = 1000",
    ],
    "exhaustive_scope": "all 11 x 11 (from, to) type pairs x 3 z0 modes, each with one derived instance (shape, data, 2 frequencies), called out of place and in place",
    "tiers": tiers(
        quick=[{"name": "rand", "mode": "run", "count": 60000, "max_size": 100, "shards": 15, "max_seconds": 60},
               {"name": "enum", "mode": "enum", "count": 1000, "max_size": 1, "shards": 1}],
        thorough=[{"name": "rand", "mode": "run", "count": 1500000, "max_size": 100, "shards": 15, "max_seconds": 1200},
                  {"name": "enum", "mode": "enum", "count": 1000, "max_size": 1, "shards": 1}],
    ),
}
