from props_common import *

P = {
    "technique": "property-based testing with a long-double reference: generated badly row-scaled / permuted / graded / exactly singular matrices through the n-port conversions, vnacal_apply (a/b) and vnacal_new_solve; row-scaling-invariant error bounds; reference least-squares minimiser",
    "level_text": "exploration: forward error of every matrix inverse against a long-double reference must stay within c*n*eps*kappa of the ROW-EQUILIBRATED matrix (so row order and row scaling cannot matter), exactly singular inputs must come back non-finite or astronomically large, exact zero pivots in apply/solve must be reported with EDOM, over-determined solves must return the least-squares minimiser of the documented equations.",
    "design_ref": "DESIGN.md section 3 C19",
    "ldflags": ["-lyaml-cpp"],
    "sources": ["harness/props/C19.cpp"],
    "rule": "four generators: (a) ztoyn/ytozn on n = 1..8 matrices A = P*D*Q (Q well conditioned, optional column grading, D = 2^k with k in [-26,26], P a row permutation) and exactly singular variants (duplicate row, row = 2x another, zero row/column); (b) vnacal_apply with a/b whose columns are scaled by 2^k, and exactly singular a; (c) exactly determined 1x1 / 2x2 solves with a duplicated standard or an unmeasured port; (d) noisy over-determined T16 against the reference minimiser; non-trivial = row scaling changes the condition number by >= 1e6, any exactly singular case, any (b),(c),(d) case; distinct = distinct choice tapes; (e) row-scaled over-determined solve: T8/U8/T16/U16 1x1..2x2, a determining set (kappa <= 1e3) plus one consistent standard with S larger by 1e2..1e8 at a random position, exact data; the saved error terms (independent reader) must satisfy the documented equations of every standard with a normwise backward error <= 1e3 eps; the device's forward error is tracked; (a2) division residual: vnaconv_ztosn with uniform real z0, W = Z + z0 I with prescribed condition number 1..1e10 (graded upwards), |S W - (Z - z0 I)| <= 1e3 n eps (|S||W| + |Z - z0 I|)",
    "assumptions": COMMON_ASSUME + ["numerically (not exactly) rank-deficient systems are not asserted", "bounds: 300*n*eps*kappa_equil for inverses (largest ratio tracked in the evidence)"],
    "tiers": tiers(
        quick=[{"name": "rand", "mode": "run", "count": 40000, "max_size": 60, "shards": 16, "max_seconds": 70}],
        thorough=[{"name": "rand", "mode": "run", "count": 1000000, "max_size": 100, "shards": 16, "max_seconds": 1500}],
    ),
}
