from props_common import *

P = {
    "technique": "property-based testing with a long-double reference: generated badly row-scaled / permuted / graded / exactly singular matrices through the n-port conversions, vnacal_apply (a/b) and vnacal_new_solve; row-scaling-invariant error bounds; reference least-squares minimiser",
    "level_text": "exploration: forward error of every matrix inverse against a long-double reference must stay within c*n*eps*kappa of the ROW-EQUILIBRATED matrix (so row order and row scaling cannot matter), exactly singular inputs must come back non-finite or astronomically large, exact zero pivots in apply/solve must be reported with EDOM, over-determined solves must return the least-squares minimiser of the documented equations.",
    "design_ref": "DESIGN.md section 3 C19",
    "sources": ["harness/props/C19.cpp"],
    "rule": "four generators: (a) ztoyn/ytozn on n = 1..8 matrices A = P*D*Q (Q well conditioned, optional column grading, D = 2^k with k in [-26,26], P a row permutation) and exactly singular variants (duplicate row, row = 2x another, zero row/column); (b) vnacal_apply with a/b whose columns are scaled by 2^k, and exactly singular a; (c) exactly determined 1x1 / 2x2 solves with a duplicated standard or an unmeasured port; (d) noisy over-determined T16 against the reference minimiser; non-trivial = row scaling changes the condition number by >= 1e6, any exactly singular case, any (b),(c),(d) case; distinct = distinct choice tapes",
    "assumptions": COMMON_ASSUME + ["numerically (not exactly) rank-deficient systems are not asserted", "bounds: 300*n*eps*kappa_equil for inverses (largest ratio tracked in the evidence)"],
    "tiers": tiers(
        quick=[{"name": "rand", "mode": "run", "count": 20000, "max_size": 60, "shards": 12, "max_seconds": 70}],
        thorough=[{"name": "rand", "mode": "run", "count": 1000000, "max_size": 100, "shards": 16, "max_seconds": 1500}],
    ),
}
