from props_common import *

P = {
    "technique": "property-based testing with the independent VNA model: exact data decided per case (weighted == unweighted, disable restores bit-for-bit), noisy and outlier data as seeded batches tested against explicit binomial acceptance bands per type family",
    "level_text": "exploration: per-case exact-data clauses plus aggregated rejection-rate clauses (400 noisy / 100 outlier scenarios per batch, bands with false-alarm probability < 1e-9) for each of the four type families and both significance levels; noise grids of 1, 2, N points are drawn into the same statistics.",
    "design_ref": "DESIGN.md section 3 C18",
    "sources": ["harness/props/C18.cpp"],
    "rule": "case = (class, type family, seed); all numbers of a case come from a fixed stream seeded from the tape; exact class: one over-determined fully-known scenario (dims 1..3, 1..3 frequencies, sigma_nf 1e-6..1e-2, sigma_tr 0 or 1e-5..1e-1, linear sigma(f) given as 1 value / on the calibration grid / on an own 2-point or 5-point grid); noisy batch: 400 scenarios with complex Gaussian noise of exactly the declared size; outlier batch: 100 scenarios with one standard displaced by 100 sigma; non-trivial = every batch, and exact cases with sigma_tr != 0, an own noise grid or a column-system type; distinct = distinct choice tapes; noise-grid-interpolation class (decided per case): noise of exactly a straight-line model sigma(f) is added, the model is declared once on its own grid of 2..5 knots spanning 0.8 fmin..1.25 fmax (calibration frequencies fall between the knots) and once value by value on the calibration grid, significance 1e-9: both must be accepted and correct the device identically (<= 1e-9); the own-grid variants of the exact / noisy / outlier classes use the same wider span, rising or falling",
    "assumptions": COMMON_ASSUME + ["rejection-rate bands: alpha=.05 -> 1..125 of 400, alpha=.01 -> 0..45 of 400 (true rate within [alpha/4, 4 alpha] accepted, >= 0.5 rejected, each with probability > 1 - 1e-9); outliers: >= 90 of 100 rejected"],
    "tiers": tiers(
        quick=[{"name": "rand", "mode": "run", "count": 80, "max_size": 60, "shards": 16, "max_seconds": 70, "shrink_seconds": 90, "hang_seconds": 120}],
        thorough=[{"name": "rand", "mode": "run", "count": 3000, "max_size": 100, "shards": 16, "max_seconds": 1500, "shrink_seconds": 300, "hang_seconds": 120}],
    ),
}
