from props_common import *

P = {
    "technique": "stateful property-based testing against an abstract document model (descriptor ASTs printed with random legal whitespace and two independent key quoters), bounded-exhaustive small-scope enumeration, sanitizers in the oracle",
    "level_text": "exploration: generated and enumerated operation sequences over set/set_subtree/delete/copy/queries/malformed descriptors/quote_key are compared step by step with the document model; failures shrink to a minimal replayable sequence.",
    "design_ref": "DESIGN.md section 3 C13",
    "sources": ["harness/props/C13.cpp"],
    "rule": "random operation sequences (<= 200 ops; a quarter of them through vnacal_property_* on the global root of a vnacal_t) and bounded-exhaustive enumeration over a 5-operation alphabet on keys {a,b}, indices {0,1}; after every step the tree read through type/count/keys/get/get_subtree must equal the document model and return values/errno must match vnaproperty(3); non-trivial = sequence whose descriptors mix map and list levels and that contains a replace-of-conflicting-type, a list insert/delete with index shift, or a key needing quotes; distinct = distinct choice tapes; 1 random set in 10 appends a list index beyond INT_MAX to an otherwise valid path: must fail (EINVAL / ENOMEM) and leave the tree unchanged",
    "assumptions": COMMON_ASSUME + ["docmodel.hpp is a faithful reading of vnaproperty(3)", "errno is not compared where two documented causes apply to the same call (missing element met before a malformed tail; insert subscript in a look-up)"],
    "exhaustive_scope": "all operation sequences of the small-scope alphabet up to the depth given by max_size of the enum job",
    "tiers": tiers(
        quick=[{"name": "rand", "mode": "run", "count": 8000, "max_size": 100, "shards": 8},
               {"name": "enum", "mode": "enum", "count": 3000000, "max_size": 2, "shards": 2, "max_seconds": 120},
               {"name": "fuzz", "mode": "fuzz", "seconds": 20, "shards": 4}],
        thorough=[{"name": "rand", "mode": "run", "count": 100000, "max_size": 100, "shards": 14},
                  {"name": "enum", "mode": "enum", "count": 100000000, "max_size": 3, "shards": 16, "max_seconds": 1500},
                  {"name": "fuzz", "mode": "fuzz", "seconds": 600, "shards": 8}],
    ),
}

