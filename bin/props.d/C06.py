from props_common import *

P = {
    "technique": "property-based testing of save/load against an independent Touchstone/NPD reader (tsio) and an independent conversion reference (tsconv); sanitizers as part of the oracle",
    "level_text": "exploration: every generated object/file-type/format/precision combination is saved, the text is parsed by an independent reader and compared with numbers computed from the defining port relations, then loaded back; violations are shrunk to a minimal replayable case. Right level because the property quantifies over an unbounded cross product of configurations and values.",
    "design_ref": "DESIGN.md section 3 C06",
    "sources": ["harness/props/C06.cpp"],
    "rule": "random objects (all 10 parameter types, 1..6 ports, 1..4 frequencies, equal/unequal/complex/per-frequency z0, network-derived or free-magnitude 1e-12..1e12 values) x file type by extension (.s1p-.s4p .ts .npd other none) and by vnadata_set_filetype x format list from the grammar of vnadata(3) (1 entry for Touchstone, 1-4 for NPD, any letter case, refusals generated on purpose) x fprecision/dprecision in {default, 1..17, MAX}; non-trivial = the saver accepted the case and it has >= 2 ports or a non-default precision or a multi-entry list or non-real/unequal z0; distinct = distinct choice tapes",
    "assumptions": COMMON_ASSUME + [
        "tsio.hpp reads Touchstone 1/2 and NPD as a third-party tool would (it stands in for them); tsconv.hpp implements the port relations of vnaconv(3) and the format formulas of vnadata(3) in long double",
        "tolerances follow the printed text: 0.6*10^(1-p) relative for significant-digit fields, 0.6*10^-d degrees for angles printed with d decimals, exact at VNADATA_MAX_PRECISION in ri; conversion noise is bounded by C*eps*(|y| + element-wise sensitivity) with the constants calibrated in notes/agent-files.md",
        "frequencies are generated strictly ascending and distinct at the requested fprecision; f = 0 only without R-C/R-L views",
    ],
    "tiers": tiers(
        quick=[{"name": "rand", "mode": "run", "count": 30000, "max_size": 100, "shards": 16, "max_seconds": 60}],
        thorough=[{"name": "rand", "mode": "run", "count": 600000, "max_size": 100, "shards": 16, "max_seconds": 1200}],
    ),
}
