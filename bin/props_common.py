"""Shared helpers for bin/props.d/*.py"""

COMMON_ASSUME = [
    "libvna is rebuilt from the working tree with clang -O1, ASan+UBSan+LSan, asserts on; behaviour under other compilers/optimisation levels is not explored",
    "the tape engine (harness/common/pbt*.{hpp,cpp}) generates, replays and shrinks cases faithfully",
]


def tiers(quick, thorough):
    return {"quick": quick, "thorough": thorough}
