#!/usr/bin/env python3
"""Incremental sanitizer builds of libvna (from the CURRENT working tree of the
repository) and of the verification harnesses.  No autotools involved.

Environment:
  VERIF_REPO   repository root (default /repo)
  VERIF_BUILD  build directory   (default /verif/build)
"""
import hashlib, json, os, subprocess, sys, glob, shutil
from concurrent.futures import ThreadPoolExecutor

VERIF = os.path.dirname(os.path.dirname(os.path.abspath(__file__)))
REPO = os.environ.get("VERIF_REPO", "/repo")
BUILD = os.environ.get("VERIF_BUILD", os.path.join(VERIF, "build"))
JOBS = int(os.environ.get("VERIF_JOBS", "16"))
GUARD = "LIBVNA_VERIF"

CC = "clang"
CXX = "clang++"
BASE = ["-gline-tables-only", "-O1", "-fno-omit-frame-pointer", "-DHAVE_CONFIG_H", "-D" + GUARD + "=1"]
SAN = ["-fsanitize=address,undefined", "-fno-sanitize-recover=all", "-fno-sanitize=nonnull-attribute"]
VARIANTS = {
    "asan": BASE + SAN,
    "fuzz": BASE + SAN + ["-fsanitize=fuzzer-no-link"],
    "fi": BASE + SAN + ["-include", os.path.join(VERIF, "harness/common/alloc_hook.h")],
    "plain": ["-g", "-gdwarf-4", "-O2", "-DHAVE_CONFIG_H", "-D" + GUARD + "=1"],
}
LIB_GLOBS = ["archdep.c", "vnacal_*.c", "vnacommon_*.c", "vnaerr_*.c", "vnaconv_*.c", "vnadata_*.c", "vnaproperty*.c"]


def sha(*parts):
    h = hashlib.sha256()
    for p in parts:
        if isinstance(p, str):
            p = p.encode()
        h.update(p)
        h.update(b"\0")
    return h.hexdigest()


def file_hash(path):
    with open(path, "rb") as f:
        return hashlib.sha256(f.read()).hexdigest()


def lib_sources():
    src = os.path.join(REPO, "src")
    out = []
    for g in LIB_GLOBS:
        out += sorted(glob.glob(os.path.join(src, g)))
    return out


def config_dir():
    """Directory holding config.h: the repository's own if present, else our copy."""
    d = os.path.join(BUILD, "cfg")
    os.makedirs(d, exist_ok=True)
    srcs = [os.path.join(REPO, "config.h"), os.path.join(VERIF, "harness/common/config.h")]
    for s in srcs:
        if os.path.exists(s):
            dst = os.path.join(d, "config.h")
            data = open(s, "rb").read()
            if not os.path.exists(dst) or open(dst, "rb").read() != data:
                open(dst, "wb").write(data)
            return d
    raise SystemExit("no config.h available")


def run(cmd, **kw):
    r = subprocess.run(cmd, stdout=subprocess.PIPE, stderr=subprocess.STDOUT, text=True, **kw)
    if r.returncode != 0:
        sys.stderr.write("BUILD FAILED: " + " ".join(cmd) + "\n" + r.stdout + "\n")
        raise SystemExit(3)
    return r.stdout


def build_lib(variant="asan"):
    flags = VARIANTS[variant]
    cfg = config_dir()
    src = os.path.join(REPO, "src")
    odir = os.path.join(BUILD, "lib-" + variant)
    os.makedirs(odir, exist_ok=True)
    hdr_hash = sha(*[file_hash(h) for h in sorted(glob.glob(os.path.join(src, "*.h")))],
                   file_hash(os.path.join(cfg, "config.h")), " ".join(flags))
    if variant == "fi":
        hdr_hash = sha(hdr_hash, file_hash(os.path.join(VERIF, "harness/common/alloc_hook.h")))
    stamps_path = os.path.join(odir, "STAMPS.json")
    try:
        stamps = json.load(open(stamps_path))
    except Exception:
        stamps = {}
    todo, objs = [], []
    for c in lib_sources():
        o = os.path.join(odir, os.path.basename(c)[:-2] + ".o")
        objs.append(o)
        key = sha(hdr_hash, file_hash(c))
        if stamps.get(o) != key or not os.path.exists(o):
            todo.append((c, o, key))

    def comp(t):
        c, o, key = t
        run([CC] + flags + ["-I" + cfg, "-I" + src, "-c", c, "-o", o])
        return o, key

    if todo:
        with ThreadPoolExecutor(JOBS) as ex:
            for o, key in ex.map(comp, todo):
                stamps[o] = key
    lib = os.path.join(odir, "libvna.a")
    # drop objects whose source vanished
    keep = set(objs)
    for o in glob.glob(os.path.join(odir, "*.o")):
        if o not in keep:
            os.unlink(o)
    if todo or not os.path.exists(lib):
        if os.path.exists(lib):
            os.unlink(lib)
        run(["ar", "rcs", lib] + objs)
        json.dump(stamps, open(stamps_path, "w"))
    return lib


def build_harness(name, sources, variant="asan", extra_cflags=(), extra_ldflags=(), fuzzer=False):
    """Compile harness sources (C or C++) and link against libvna.a of the variant."""
    lib = build_lib(variant)
    cfg = config_dir()
    src = os.path.join(REPO, "src")
    odir = os.path.join(BUILD, "h-" + variant)
    os.makedirs(odir, exist_ok=True)
    flags = list(VARIANTS[variant])
    if variant == "fi":
        # the alloc hook is for libvna's translation units only
        i = flags.index("-include"); del flags[i:i + 2]
    common_hdrs = sorted(glob.glob(os.path.join(VERIF, "harness/common/*.h*")) + glob.glob(os.path.join(VERIF, "harness/props/*.h*")) + glob.glob(os.path.join(VERIF, "harness/props/*.inc")) + glob.glob(os.path.join(VERIF, "harness/fuzz/*.h")))
    hh = sha(*[file_hash(h) for h in common_hdrs], *[file_hash(h) for h in sorted(glob.glob(os.path.join(src, "*.h")))])
    objs, todo = [], []
    for s in sources:
        o = os.path.join(odir, name + "-" + os.path.basename(s).replace(".", "_") + ".o")
        objs.append(o)
        iscxx = s.endswith(".cpp")
        cmd = [CXX if iscxx else CC] + flags + (["-std=gnu++17", "-I" + os.path.join(VERIF, "harness/cxxinc")] if iscxx else []) + \
              ["-I" + cfg, "-I" + src, "-I" + os.path.join(VERIF, "harness/common"), "-I" + os.path.join(VERIF, "harness/props")] + list(extra_cflags) + ["-c", s, "-o", o]
        key = sha(hh, file_hash(s), " ".join(cmd))
        st = o + ".stamp"
        if not os.path.exists(o) or not os.path.exists(st) or open(st).read() != key:
            todo.append((cmd, st, key))

    def comp(t):
        cmd, st, key = t
        run(cmd)
        open(st, "w").write(key)

    if todo:
        with ThreadPoolExecutor(JOBS) as ex:
            list(ex.map(comp, todo))
    exe = os.path.join(BUILD, "bin", name + "-" + variant)
    os.makedirs(os.path.dirname(exe), exist_ok=True)
    lkey = sha(file_hash(lib), *[file_hash(o) for o in objs], " ".join(extra_ldflags), str(fuzzer))
    lst = exe + ".stamp"
    if not os.path.exists(exe) or not os.path.exists(lst) or open(lst).read() != lkey:
        ld = [CXX] + [f for f in flags if f.startswith("-fsanitize") or f.startswith("-fno-sanitize")]
        if fuzzer:
            ld = [f for f in ld if f != "-fsanitize=fuzzer-no-link"] + ["-fsanitize=fuzzer"]
        run(ld + objs + [lib] + list(extra_ldflags) + ["-lyaml", "-lm", "-o", exe])
        open(lst, "w").write(lkey)
    return exe


if __name__ == "__main__":
    v = sys.argv[1] if len(sys.argv) > 1 else "asan"
    print(build_lib(v))
