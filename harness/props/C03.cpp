// C03 -- no API call sequence corrupts memory, invokes undefined behaviour or leaks; invalid
// arguments are answered with the documented failure value.
//
// Stateful executor over the whole public API (harness/common/apiexec*.hpp).  Oracle:
//   * no ASan / UBSan report, no assert, no hang: the engine (every case can be replayed in a forked
//     child; all buffers handed to the library are heap blocks of exactly the declared size);
//   * every call whose arguments are invalid by the man pages (Call::expect == XP_FAIL) returns its
//     documented failure value (-1 / NULL / HUGE_VAL);
//   * after freeing the pool with the matching free functions nothing is left allocated: the engine
//     runs LeakSanitizer whenever the heap grew across the case.
#include "pbt.hpp"
#include "apiexec.hpp"

const char *PBT_PROPERTY = "C03";
using namespace pbt;
using namespace apix;

namespace {
struct Obs : Observer {
    Ctx &c;
    long n_invalid = 0, n_fail = 0, n_ok = 0;
    explicit Obs(Ctx &c_) : c(c_) {}
    void after(Exec &x, Call &k) override {
        if (k.rk == R_VOID) return;
        if (k.failed) n_fail++; else n_ok++;
        if (k.expect == XP_FAIL) {
            n_invalid++;
            c.label(std::string("refused:") + k.why);
            if (!k.failed) c.fail("C03.invalid_accepted", "step %d: %s with an invalid argument (%s) did not return its failure value (returned %ld, errno %d)", x.step, k.fn, k.why, k.iret, k.err);
        } else if (k.expect == XP_OK && k.failed) c.label(std::string("valid_failed:") + k.fn);
    }
};
} // namespace

void pbt_property(Ctx &c) {
    Obs o(c);
    {
        Exec x(c, &o);
        size_t maxops = 300, mean = (size_t)(4 + c.size / 2);
        x.run(maxops, mean);
        x.finish();
        if (x.fail_then_ok || x.did_solve || x.did_saveload) c.nontrivial();
        if (x.fail_then_ok) c.label("fail-then-success-on-same-object");
        if (x.did_solve) c.label("solve");
        if (x.did_saveload) c.label("save/load");
        if (x.excl_zero_freq) c.label("excluded_known:zero-frequency-calibration");
        c.track_max("calls per case", (double)x.ncalls);
        c.track_max("invalid-class calls per case", (double)o.n_invalid);
    }
}
