// C13 -- the property tree behaves like a map/list/scalar document model.
#include "pbt.hpp"
#include "vna.hpp"
#include "docmodel.hpp"
#include "propgen.hpp"

const char *PBT_PROPERTY = "C13";
using namespace pbt;
using namespace doc;

namespace {

struct H {
    Ctx &c;
    // backend: a plain root pointer, or the global (ci = -1) root of a vnacal_t through vnacal_property_*
    vnacal_t *vcp = nullptr; ErrLog vlog;
    vnaproperty_t *root = nullptr;
    const vnaproperty_t *cur_root() { if (!vcp) return root; errno = 0; return vnacal_property_get_subtree(vcp, -1, "."); }
    int b_set(const char *s) { return vcp ? vnacal_property_set(vcp, -1, "%s", s) : vnaproperty_set(&root, "%s", s); }
    int b_set2(const char *q, const char *v) { return vcp ? vnacal_property_set(vcp, -1, "%s=%s", q, v) : vnaproperty_set(&root, "%s=%s", q, v); }
    int b_delete(const char *s) { return vcp ? vnacal_property_delete(vcp, -1, "%s", s) : vnaproperty_delete(&root, "%s", s); }
    int b_type(const char *s) { return vcp ? vnacal_property_type(vcp, -1, "%s", s) : vnaproperty_type(root, "%s", s); }
    int b_count(const char *s) { return vcp ? vnacal_property_count(vcp, -1, "%s", s) : vnaproperty_count(root, "%s", s); }
    const char *b_get(const char *s) { return vcp ? vnacal_property_get(vcp, -1, "%s", s) : vnaproperty_get(root, "%s", s); }
    const char **b_keys(const char *s) { return vcp ? vnacal_property_keys(vcp, -1, "%s", s) : vnaproperty_keys(root, "%s", s); }
    vnaproperty_t *b_get_subtree(const char *s) { return vcp ? vnacal_property_get_subtree(vcp, -1, "%s", s) : vnaproperty_get_subtree(root, "%s", s); }
    vnaproperty_t **b_set_subtree(const char *s) { return vcp ? vnacal_property_set_subtree(vcp, -1, "%s", s) : vnaproperty_set_subtree(&root, "%s", s); }
    vnaproperty_t *clip = nullptr;      // "clipboard": a detached copy
    NodeP m, mclip;
    PropGen g;
    int step = 0;
    bool f_conflict = false, f_shift = false, f_quoted = false, f_maplist = false;

    H(Ctx &c_) : c(c_), g(c_) {}
    ~H() { vnaproperty_delete(&root, "."); vnaproperty_delete(&clip, "."); if (vcp) vnacal_free(vcp); }

    void compare(const char *what) {
        std::string why;
        NodeP got = read_tree(cur_root(), why);
        if (!why.empty()) c.fail("C13.walk_failed", "step %d (%s): %s", step, what, why.c_str());
        if (!equal(got, m)) c.fail("C13.model_mismatch", "step %d (%s): object %s  model %s", step, what, show(got).c_str(), show(m).c_str());
    }
    void check_fail(const Res &r, bool failed, int err, const char *fn, const std::string &ds) {
        if (r.ok) { PBT_CHECK(c, !failed, "C13.valid_refused", "step %d: %s(%s) failed (errno %d: %s) but the model accepts it; model %s", step, fn, esc(ds).c_str(), err, strerror(err), show(m).c_str()); }
        else {
            PBT_CHECK(c, failed, "C13.invalid_accepted", "step %d: %s(%s) succeeded but the model refuses it (errno %d); model %s", step, fn, esc(ds).c_str(), r.err, show(m).c_str());
            if (!r.err_any) PBT_CHECK(c, err == r.err, "C13.errno", "step %d: %s(%s) failed with errno %d (%s), documented %d (%s)", step, fn, esc(ds).c_str(), err, strerror(err), r.err, strerror(r.err));
        }
    }

    void run() {
        if (!c.exhaustive && c.chance(1, 4)) { vcp = vnacal_create(errlog_fn, &vlog); PBT_CHECK(c, vcp != nullptr, "C13.vnacal_create", "vnacal_create failed"); c.label("backend:vnacal_property(global)"); }
        size_t maxops = c.exhaustive ? (size_t)c.size : 200;
        size_t mean = c.exhaustive ? 1 : (size_t)(3 + c.size);
        for (size_t n = 0; (c.mark(), c.more(n, mean, maxops)); n++) { step++; one_op(); }
        if (f_maplist && (f_conflict || f_shift || f_quoted)) c.nontrivial();
        if (f_conflict) c.label("replace-conflicting-type");
        if (f_shift) c.label("list-index-shift");
        if (f_quoted) c.label("quoted-key");
    }

    void note_desc(const Desc &d, const NodeP &before) {
        bool hk = false, hl = false;
        for (auto &e : d.path) { if (e.t == Elem::KEY) { hk = true; if (PropGen::needs_quote(e.key)) f_quoted = true; } else hl = true; }
        if (hk && hl) f_maplist = true;
        (void)before;
    }

    void one_op() {
        int op = c.exhaustive ? (int)c.draw(5) : c.weighted({10, 4, 6, 2, 6, 2, 2, 2});
        switch (op) {
        case 0: {   // set
            Desc d = g.gen_desc(m, true);
            if (!c.exhaustive && d.tail == Desc::NONE && !d.path.empty() && c.chance(1, 10)) {
                // a list index beyond INT_MAX at the END of an otherwise valid path (which may have inserted cells on
                // its way): no such list can exist, the call must fail -- and, like every refused set, change nothing
                static const char *const big[5] = {"2147483648", "3000000000", "4294967295", "4294967296", "99999999999999999999"};
                std::string ds = g.print(d) + "[" + big[c.draw(5)] + "]=" + g.gen_value();
                c.note("set(%s)   [index beyond INT_MAX: must be refused, tree unchanged]", esc(ds).c_str());
                errno = 0;
                int rc = b_set(ds.c_str()); int err = errno;
                PBT_CHECK(c, rc == -1 && (err == EINVAL || err == ENOMEM), "C13.invalid_accepted", "step %d: set(%s) with a list index beyond INT_MAX returned %d (errno %d: %s)", step, esc(ds).c_str(), rc, err, strerror(err));
                c.label(d.has_insert() ? "set:index-beyond-INT_MAX-after-insertion" : "set:index-beyond-INT_MAX");
                int nins = 0; for (auto &e : d.path) if (e.t == Elem::INS || e.t == Elem::APP) nins++;
                if (nins >= 2) c.label("set:refused-after-two-insertions");
                break;      // the model is unchanged; compare() after the op checks that the tree is too
            }
            bool isnull = c.chance(1, 5);
            std::string val = isnull ? "" : g.gen_value();
            std::string ds = g.print(d) + (isnull ? "#" : "=" + val);
            c.note("set(%s)", esc(ds).c_str());
            NodeP before = clone(m);
            Res r = op_set(&m, d, isnull, val);
            if (!r.ok) m = before;      // a refused set changes nothing
            errno = 0;
            int rc = b_set(ds.c_str()); int err = errno;
            check_fail(r, rc != 0, err, "set", ds);
            note_desc(d, before);
            if (r.ok && conflict(before, d)) f_conflict = true;
            for (auto &e : d.path) if (e.t == Elem::INS) f_shift = true;
            break;
        }
        case 1: {   // set_subtree (+ optional set through the returned anchor)
            Desc d = g.gen_desc(m, true);
            std::string ds = g.print(d);
            c.note("set_subtree(%s)", esc(ds).c_str());
            NodeP before = clone(m);
            NodeP *slot = descend_set(&m, d);
            errno = 0;
            vnaproperty_t **anchor = b_set_subtree(ds.c_str());
            PBT_CHECK(c, anchor != nullptr, "C13.valid_refused", "step %d: set_subtree(%s) failed errno %d", step, esc(ds).c_str(), errno);
            note_desc(d, before);
            if (conflict(before, d)) f_conflict = true;
            if (c.boolean()) {
                std::string val = g.gen_value();
                c.note("  set(anchor, .=%s)", esc(val).c_str());
                int rc = vnaproperty_set(anchor, ".=%s", val.c_str());
                PBT_CHECK(c, rc == 0, "C13.valid_refused", "step %d: set through set_subtree anchor failed", step);
                *slot = Node::scalar(val);
            }
            break;
        }
        case 2: {   // delete
            Desc d = g.gen_desc(m, false);
            std::string ds = g.print(d);
            c.note("delete(%s)", esc(ds).c_str());
            NodeP before = clone(m);
            Res r = op_delete(&m, d);
            if (!r.ok) m = before;
            errno = 0;
            int rc = b_delete(ds.c_str()); int err = errno;
            check_fail(r, rc != 0, err, "delete", ds);
            note_desc(d, before);
            if (r.ok && !d.path.empty() && d.path.back().t == Elem::IDX && d.tail == Desc::NONE) f_shift = true;
            break;
        }
        case 3: {   // copy: whole tree to the clipboard, or clipboard into a subtree
            if (c.boolean() || !mclip) {
                c.note("copy(clip <- root)");
                int rc = vnaproperty_copy(&clip, cur_root());
                PBT_CHECK(c, rc == 0, "C13.valid_refused", "step %d: copy failed", step);
                mclip = clone(m);
            } else {
                Desc d = g.gen_desc(m, true);
                std::string ds = g.print(d);
                c.note("copy(%s <- clip)", esc(ds).c_str());
                NodeP *slot = descend_set(&m, d);
                *slot = clone(mclip);
                vnaproperty_t **anchor = b_set_subtree(ds.c_str());
                PBT_CHECK(c, anchor != nullptr, "C13.valid_refused", "step %d: set_subtree(%s) failed", step, esc(ds).c_str());
                int rc = vnaproperty_copy(anchor, clip);
                PBT_CHECK(c, rc == 0, "C13.valid_refused", "step %d: copy failed", step);
            }
            std::string why; NodeP got = read_tree(clip, why);
            if (!why.empty()) c.fail("C13.walk_failed", "step %d (clip): %s", step, why.c_str());
            if (!equal(got, mclip)) c.fail("C13.copy_mismatch", "step %d: copy %s  expected %s", step, show(got).c_str(), show(mclip).c_str());
            break;
        }
        case 4: {   // queries by descriptor: type, count, keys, get, get_subtree
            Desc d = g.gen_desc(m, false);
            std::string ds = g.print(d);
            c.note("query(%s)", esc(ds).c_str());
            note_desc(d, m);
            query(d, ds);
            break;
        }
        case 5: {   // malformed descriptors into every function: failure (EINVAL; the look-up functions may meet a
                    // missing element before the malformed tail: ENOENT), nothing changes
            std::string ds = g.gen_malformed();
            c.note("malformed(%s)", esc(ds).c_str());
            c.label("malformed");
            errno = 0; int t = b_type(ds.c_str()); int e1 = errno;
            PBT_CHECK(c, t == -1 && (e1 == EINVAL || e1 == ENOENT), "C13.malformed_accepted", "step %d: type(%s) -> %d errno %d", step, esc(ds).c_str(), t, e1);
            errno = 0; int n = b_count(ds.c_str()); e1 = errno;
            PBT_CHECK(c, n == -1 && (e1 == EINVAL || e1 == ENOENT), "C13.malformed_accepted", "step %d: count(%s) -> %d errno %d", step, esc(ds).c_str(), n, e1);
            errno = 0; const char *s = b_get(ds.c_str()); e1 = errno;
            PBT_CHECK(c, s == nullptr && (e1 == EINVAL || e1 == ENOENT), "C13.malformed_accepted", "step %d: get(%s) errno %d", step, esc(ds).c_str(), e1);
            errno = 0; const char **k = b_keys(ds.c_str()); e1 = errno;
            PBT_CHECK(c, k == nullptr && (e1 == EINVAL || e1 == ENOENT), "C13.malformed_accepted", "step %d: keys(%s) errno %d", step, esc(ds).c_str(), e1);
            errno = 0; vnaproperty_t *st = b_get_subtree(ds.c_str()); e1 = errno;
            PBT_CHECK(c, st == nullptr && (e1 == EINVAL || e1 == ENOENT), "C13.malformed_accepted", "step %d: get_subtree(%s) errno %d", step, esc(ds).c_str(), e1);
            errno = 0; int rc = b_delete(ds.c_str()); e1 = errno;
            PBT_CHECK(c, rc == -1 && (e1 == EINVAL || e1 == ENOENT), "C13.malformed_accepted", "step %d: delete(%s) -> %d errno %d", step, esc(ds).c_str(), rc, e1);
            if (ds.empty() || ds.back() != '\\') {      // a trailing backslash would quote the '='
                errno = 0; rc = b_set((ds + "=v").c_str()); e1 = errno;
                PBT_CHECK(c, rc == -1 && e1 == EINVAL, "C13.malformed_accepted", "step %d: set(%s=v) -> %d errno %d", step, esc(ds).c_str(), rc, e1);
            }
            errno = 0; vnaproperty_t **a = b_set_subtree(ds.c_str()); e1 = errno;
            PBT_CHECK(c, a == nullptr && e1 == EINVAL, "C13.malformed_accepted", "step %d: set_subtree(%s) errno %d", step, esc(ds).c_str(), e1);
            break;
        }
        case 6: {   // set refused for its form: "desc" without = or #, or assignment to {} / []
            Desc d = g.gen_desc(m, true);
            std::string ds = g.print(d);
            int form = (int)c.draw(3);
            std::string full;
            if (form == 0) full = ds;                                  // no '=' or '#'
            else if (form == 1) { Desc d2 = d; d2.tail = Desc::MAPT; full = g.print(d2) + "=x"; }
            else { Desc d2 = d; d2.tail = Desc::LISTT; full = g.print(d2) + "#"; }
            c.note("refused_set(%s)", esc(full).c_str());
            c.label("refused-set");
            errno = 0; int rc = b_set(full.c_str()); int err = errno;
            PBT_CHECK(c, rc == -1 && err == EINVAL, "C13.invalid_accepted", "step %d: set(%s) -> %d errno %d, expected -1/EINVAL", step, esc(full).c_str(), rc, err);
            // set_subtree / get_subtree with trailing tokens
            std::string tr = ds + (c.boolean() ? "=1" : "#");
            errno = 0; vnaproperty_t **a = b_set_subtree(tr.c_str()); err = errno;
            PBT_CHECK(c, a == nullptr && err == EINVAL, "C13.invalid_accepted", "step %d: set_subtree(%s) with trailing token accepted (errno %d)", step, esc(tr).c_str(), err);
            break;
        }
        default: {  // quote_key round trip on a fresh key of the root map
            std::string k = g.gen_key(true);
            char *q = vnaproperty_quote_key(k.c_str());
            PBT_CHECK(c, q != nullptr, "C13.quote_null", "quote_key returned NULL");
            std::string qs = q; free(q);
            std::string val = g.gen_value();
            c.note("quote_key(%s) -> %s ; set", esc(k).c_str(), esc(qs).c_str());
            f_quoted = f_quoted || PropGen::needs_quote(k);
            Desc d; Elem e; e.t = Elem::KEY; e.key = k; d.path.push_back(e);
            NodeP before = clone(m);
            op_set(&m, d, false, val);
            int rc = b_set2(qs.c_str(), val.c_str());
            PBT_CHECK(c, rc == 0, "C13.quote_key", "step %d: set(%s=..) with library-quoted key %s failed errno %d", step, esc(qs).c_str(), esc(k).c_str(), errno);
            const char *got = b_get(qs.c_str());
            PBT_CHECK(c, got && val == got, "C13.quote_key", "step %d: get(%s) after set returned %s", step, esc(qs).c_str(), got ? esc(got).c_str() : "NULL");
            if (conflict(before, d)) f_conflict = true;
            break;
        }
        }
        compare("after op");
    }

    // did forcing the tree along d replace a node of a conflicting type?
    static bool conflict(const NodeP &before, const Desc &d) {
        NodeP n = before;
        for (auto &e : d.path) {
            if (!n) return false;
            if (e.t == Elem::KEY) { if (n->kind != Node::MAP) return true; NodeP *s = n->find(e.key); if (!s) return false; n = *s; }
            else { if (n->kind != Node::LIST) return true; if (e.t != Elem::IDX || e.idx >= (int)n->list.size()) return false; n = n->list[e.idx]; }
        }
        return false;
    }

    void query(const Desc &d, const std::string &ds) {
        NodeP *slot = nullptr; NodeP coll;
        NodeP mm = m;
        Res r = descend_ro(&mm, d, &slot, &coll);
        NodeP n = r.ok ? *slot : nullptr;
        // type
        errno = 0; int t = b_type(ds.c_str()); int err = errno;
        if (!r.ok) check_fail(r, t == -1, err, "type", ds);
        else if (!n) PBT_CHECK(c, t == -1, "C13.query", "step %d: type(%s) of a null node returned %d", step, esc(ds).c_str(), t);
        else { int want = n->kind == Node::SCALAR ? 's' : n->kind == Node::MAP ? 'm' : 'l'; PBT_CHECK(c, t == want, "C13.query", "step %d: type(%s) = %d, model '%c'", step, esc(ds).c_str(), t, want); }
        // count
        errno = 0; int cnt = b_count(ds.c_str()); err = errno;
        if (!r.ok) check_fail(r, cnt == -1, err, "count", ds);
        else if (!n) PBT_CHECK(c, cnt == -1, "C13.query", "step %d: count(%s) of a null node returned %d", step, esc(ds).c_str(), cnt);
        else if (n->kind == Node::SCALAR) PBT_CHECK(c, cnt == -1 && err == EINVAL, "C13.query", "step %d: count(%s) of a scalar returned %d errno %d", step, esc(ds).c_str(), cnt, err);
        else { int want = n->kind == Node::MAP ? (int)n->map.size() : (int)n->list.size(); PBT_CHECK(c, cnt == want, "C13.query", "step %d: count(%s) = %d, model %d", step, esc(ds).c_str(), cnt, want); }
        // get
        errno = 0; const char *s = b_get(ds.c_str()); err = errno;
        if (!r.ok) check_fail(r, s == nullptr, err, "get", ds);
        else if (!n) PBT_CHECK(c, s == nullptr, "C13.query", "step %d: get(%s) of a null node returned a string", step, esc(ds).c_str());
        else if (n->kind != Node::SCALAR) PBT_CHECK(c, s == nullptr && err == EINVAL, "C13.query", "step %d: get(%s) of a non-scalar: ptr %p errno %d", step, esc(ds).c_str(), (const void *)s, err);
        else PBT_CHECK(c, s && n->sval == s, "C13.query", "step %d: get(%s) = %s, model %s", step, esc(ds).c_str(), s ? esc(s).c_str() : "NULL", esc(n->sval).c_str());
        // keys
        errno = 0; const char **k = b_keys(ds.c_str()); err = errno;
        if (!r.ok) check_fail(r, k == nullptr, err, "keys", ds);
        else if (!n) PBT_CHECK(c, k == nullptr, "C13.query", "step %d: keys(%s) of a null node non-NULL", step, esc(ds).c_str());
        else if (n->kind != Node::MAP) PBT_CHECK(c, k == nullptr && err == EINVAL, "C13.query", "step %d: keys(%s) of a non-map: errno %d", step, esc(ds).c_str(), err);
        else {
            PBT_CHECK(c, k != nullptr, "C13.query", "step %d: keys(%s) NULL for a map", step, esc(ds).c_str());
            size_t i = 0; for (; k[i]; i++) PBT_CHECK(c, i < n->map.size() && n->map[i].first == k[i], "C13.query", "step %d: keys(%s)[%zu] = %s", step, esc(ds).c_str(), i, esc(k[i]).c_str());
            PBT_CHECK(c, i == n->map.size(), "C13.query", "step %d: keys(%s) has %zu entries, model %zu", step, esc(ds).c_str(), i, n->map.size());
        }
        free((void *)k);
        // get_subtree
        errno = 0; vnaproperty_t *st = b_get_subtree(ds.c_str()); err = errno;
        if (!r.ok) check_fail(r, st == nullptr && err != 0, err, "get_subtree", ds);
        else {
            if (!n) PBT_CHECK(c, st == nullptr && err == 0, "C13.query", "step %d: get_subtree(%s) of a null node: ptr %p errno %d (documented: NULL with errno untouched)", step, esc(ds).c_str(), (void *)st, err);
            std::string why; NodeP got = read_tree(st, why);
            PBT_CHECK(c, why.empty() && equal(got, n), "C13.query", "step %d: get_subtree(%s) = %s, model %s %s", step, esc(ds).c_str(), show(got).c_str(), show(n).c_str(), why.c_str());
        }
    }
};

} // namespace

void pbt_property(Ctx &c) {
    H h(c);
    h.run();
}
