// C18 -- measurement-error modelling weights without bias and judges consistency sanely.
// exact data: decided per case; noisy / outlier data: rejection rates aggregated over a batch of
// scenarios whose numbers come from a fixed stream seeded from the tape (deterministic per case).
#include "pbt.hpp"
#include "calscen.hpp"

const char *PBT_PROPERTY = "C18";
using namespace pbt;
using namespace cs;

static const long double EPS = 1.1102230246251565e-16L;
static pbt::Shared g_aux;

namespace {

static const int FAMILY[4][2] = {{vm::T8, vm::U8}, {vm::TE10, vm::UE10}, {vm::T16, vm::U16}, {vm::UE14, vm::E12}};
static const char *FAMNAME[4] = {"T8/U8", "TE10/UE10", "T16/U16", "UE14/E12"};

// over-determined, fully known scenario (>= 2 excess equations per system).  For the per-column types (UE14, E12) with
// >= 2 columns, half of the scenarios are MIXED instead: the extra standards are reflects on ports other than the first,
// so the first column's system has as few equations as the baseline gives it (often exactly as many as unknowns)
// while the later columns are over-determined; *mixed_exact says that the first system is exactly determined.
bool gen_scenario(Ctx &a, Scenario &sc, int type, int maxdim, int F, bool *mixed_exact = nullptr) {
    if (mixed_exact) *mixed_exact = false;
    sc = Scenario();
    sc.type = type;
    gen_dims(a, type, maxdim, sc.r, sc.c);
    sc.P = std::max(sc.r, sc.c);
    sc.F = F; sc.ab = false;
    sc.freq = gen_freqs(a, F);
    for (int f = 0; f < F; f++) sc.box.push_back(gen_box(a, type, sc.r, sc.c));
    // a third of the scenarios: a ROUGH test set -- port match up to 0.7 and receiver / source tracking unbalanced by up to
    // 3:1 between ports and columns -- so that the residual weighting (the V matrices) is far from the identity
    if (a.chance(1, 3)) for (auto &b : sc.box) {
        auto unb = [&]() { return (long double)std::pow(3.0, 2 * (double)a.unit() - 1); };
        if (vm::is_colsys(type)) for (int j = 0; j < sc.c; j++) { for (int i = 0; i < b.P; i++) b.Emc[j](i, i) *= 3.5L; for (int i = 0; i < sc.r; i++) b.Erc[j](i, i) *= unb(); b.Etc[j] *= unb(); }
        else { for (int i = 0; i < b.P; i++) b.Em(i, i) *= 3.5L; for (int i = 0; i < sc.r; i++) b.Er(i, i) *= unb(); for (int j = 0; j < sc.c; j++) b.Et(j, j) *= unb(); }
    }
    Gen g(a, sc);
    std::vector<int> inorder; for (int p = 0; p < sc.P; p++) inorder.push_back(p);
    if (vm::is_16(type)) {
        // error modelling on 16-term types needs the complete S matrix of every standard
        int eq = sc.r * sc.c, unk = unknowns_per_system(sc);
        int n = (unk + eq - 1) / eq + 3;
        for (int i = 0; i < n; i++) sc.stds.push_back(g.full_random(a.boolean() ? inorder : g.perm_ports(sc.P), true));
    } else {
        bool mixed = vm::is_colsys(type) && sc.c >= 2 && a.boolean();
        g.baseline(); if (!mixed) g.extras(); g.cover_leakage();
        if (mixed) {
            int U = unknowns_per_system(sc), excess = 2 + (a.chance(1, 4) ? (int)a.range(4, 10) : 0);      // slightly (mostly) or heavily over-determined later columns
            for (int guard = 0; guard < 64; guard++) {
                auto eq = count_equations(sc, sc.stds.size());
                int need = -1; for (int j = 1; j < (int)eq.size(); j++) if (eq[j] < U + excess) { need = j; break; }
                if (need < 0) break;
                sc.stds.push_back(g.single(need, rnd_disk(a, 0.2L, 1.0L), true));
            }
            auto eq = count_equations(sc, sc.stds.size());
            if (eq[0] < U) return false;
            if (mixed_exact) *mixed_exact = eq[0] == U;
            g.shuffle();
            for (int f = 0; f < F; f++) { vm::Ident id = ident_at(sc, f); if (!id.determining || id.kappa > 1e3L) return false; }
            sc.dut = gen_dut(a, sc.P, F);
            return true;
        }
    }
    for (int guard = 0; guard < 8; guard++) {
        auto eq = count_equations(sc, sc.stds.size()); int U = unknowns_per_system(sc);
        bool enough = true; for (int e : eq) if (e < U + 2) enough = false;
        if (enough) break;
        if (vm::is_16(type)) sc.stds.push_back(g.full_random(inorder, true));
        else sc.stds.push_back(g.single((int)a.draw(std::min(sc.r, sc.c)), rnd_disk(a, 0.2L, 1.0L), true));
    }
    g.shuffle();
    for (int f = 0; f < F; f++) { vm::Ident id = ident_at(sc, f); if (!id.determining || id.kappa > 1e3L) return false; }
    sc.dut = gen_dut(a, sc.P, F);
    return true;
}

// sigma(f) = s0 * (1 + slope * x(f)), x = (f - fa) / (fb - fa) (or 1 - that when falling): a straight line in the
// frequency, which every interpolating spline through points on it reproduces.  [fa, fb] is the calibration band
// for the variants declared on the calibration grid and a wider span (0.8 fmin .. 1.25 fmax) for the variants
// declared on the noise model's own grid, so that the calibration frequencies fall BETWEEN its knots.
struct Noise {
    double nf0 = 1e-4, tr0 = 0, slope = 0, fa = 0, fb = 0; int grid = 0, np = 2; bool with_tr = false, falling = false;
    // table mode (the "through the given points" clause): arbitrary, non-collinear values at knots tf that include every
    // calibration frequency; the model is only ever evaluated AT knots
    std::vector<double> tf, tshape;      // knot frequencies, shape factor (1 .. 1 + slope) at each knot
    double x(double f) const { if (fb <= fa) return 0; double t = (f - fa) / (fb - fa); return falling ? 1 - t : t; }
    double at(double s0, double f) const {
        if (!tf.empty()) { for (size_t k = 0; k < tf.size(); k++) if (tf[k] == f) return s0 * tshape[k]; return NAN; }
        return s0 * (1 + slope * x(f));
    }
};

// declare the noise model to libvna using the chosen grid variant
int set_m_error(Runner &run, const Scenario &sc, const Noise &n) {
    std::vector<double> fv, nf, tr;
    switch (n.grid) {
    case 0: nf = {n.nf0}; tr = {n.tr0}; return vnacal_new_set_m_error(run.vnp, nullptr, 1, nf.data(), n.with_tr ? tr.data() : nullptr);   // one value, NULL vector (only sound when slope == 0)
    case 1: for (int f = 0; f < sc.F; f++) { nf.push_back(n.at(n.nf0, sc.freq[f])); tr.push_back(n.at(n.tr0, sc.freq[f])); }   // on the calibration grid, NULL frequency vector
        return vnacal_new_set_m_error(run.vnp, nullptr, sc.F, nf.data(), n.with_tr ? tr.data() : nullptr);
    default:    // own grid of np points spanning [fa, fb]
        if (!n.tf.empty()) { for (double f : n.tf) { fv.push_back(f); nf.push_back(n.at(n.nf0, f)); tr.push_back(n.at(n.tr0, f)); } return vnacal_new_set_m_error(run.vnp, fv.data(), (int)fv.size(), nf.data(), n.with_tr ? tr.data() : nullptr); }
        for (int i = 0; i < n.np; i++) { double f = n.fa + (n.fb - n.fa) * i / (n.np - 1); fv.push_back(f); nf.push_back(n.at(n.nf0, f)); tr.push_back(n.at(n.tr0, f)); }
        return vnacal_new_set_m_error(run.vnp, fv.data(), n.np, nf.data(), n.with_tr ? tr.data() : nullptr);
    }
}

// complex Gaussian noise of total variance sigma^2 (each component sigma / sqrt 2)
C gauss(Ctx &a, long double sigma) {
    long double u1 = a.unit(), u2 = a.unit(); if (u1 < 1e-300L) u1 = 1e-300L;
    long double rr = sqrtl(-2 * logl(u1));
    return C(rr * cosl(2 * M_PIl * u2), rr * sinl(2 * M_PIl * u2)) * (sigma / sqrtl(2));
}
void add_noise(Ctx &a, Scenario &sc, const Noise &n, int outlier_std) {
    for (size_t s = 0; s < sc.stds.size(); s++) {
        Standard &st = sc.stds[s]; st.add_noise.clear();
        for (int f = 0; f < sc.F; f++) {
            Mat M; sc.box[f].measure(st.Sfull[f], M);
            Mat N(sc.r, sc.c);
            long double nf = n.at(n.nf0, sc.freq[f]), tr = n.with_tr ? n.at(n.tr0, sc.freq[f]) : 0;
            for (int i = 0; i < sc.r; i++) for (int j = 0; j < sc.c; j++) {
                long double sg = sqrtl(nf * nf + tr * tr * std::norm(M(i, j)));
                N(i, j) = gauss(a, sg);
                if ((int)s == outlier_std) N(i, j) += polar(100 * sg, 2 * M_PIl * a.unit());
            }
            st.add_noise.push_back(N);
        }
    }
}

// returns solve rc; fills corrected DUT if solved and apply is possible
int solve(Ctx &c, Scenario &sc, const Noise *n, double alpha, std::vector<Mat> *out, std::string &msg, int &err, bool *math_cb = nullptr, bool then_disable = false, std::vector<Mat> *out_disabled = nullptr) {
    Runner run(c, sc); run.rnd = nullptr; run.create(); run.alloc();
    if (n) {
        int rc = set_m_error(run, sc, *n);
        PBT_CHECK(c, rc == 0, "C18.set_m_error_refused", "vnacal_new_set_m_error (grid variant %d, F=%d) refused: %s", n->grid, sc.F, run.log.text().c_str());
        rc = vnacal_new_set_pvalue_limit(run.vnp, alpha);
        PBT_CHECK(c, rc == 0, "C18.set_pvalue_limit", "set_pvalue_limit(%g) failed: %s", alpha, run.log.text().c_str());
    }
    int idx = 0;
    for (auto &st : sc.stds) { int rc = run.add(st); PBT_CHECK(c, rc == 0, "C18.add_refused", "standard %d (%s) refused: %s", idx, st.describe().c_str(), run.log.text().c_str()); idx++; }
    run.log.clear(); errno = 0;
    int rc = vnacal_new_solve(run.vnp); err = errno; msg = run.log.text();
    if (math_cb) *math_cb = run.log.n_nonwarning() >= 1 && run.log.last()->category == VNAERR_MATH;
    PBT_CHECK(c, rc != 0 || run.log.n_nonwarning() == 0, "C18.success_with_error_callback", "solve returned 0 but reported: %s", msg.c_str());
    if (rc == 0 && out && run.apply_supported()) {
        int ci = vnacal_add_calibration(run.vcp, "c", run.vnp); ci = vnacal_find_calibration(run.vcp, "c");
        PBT_CHECK(c, ci >= 0 && run.apply(ci, sc.dut, *out) == 0, "C18.apply_failed", "apply failed: %s", run.log.text().c_str());
    }
    if (rc == 0 && then_disable) {
        PBT_CHECK(c, vnacal_new_set_m_error(run.vnp, nullptr, 1, nullptr, nullptr) == 0, "C18.disable_refused", "set_m_error(NULL, NULL) refused: %s", run.log.text().c_str());
        run.log.clear();
        PBT_CHECK(c, vnacal_new_solve(run.vnp) == 0, "C18.solve_after_disable", "solve after disabling the error model failed: %s", run.log.text().c_str());
        if (out_disabled && run.apply_supported()) {
            int ci = vnacal_add_calibration(run.vcp, "d", run.vnp); ci = vnacal_find_calibration(run.vcp, "d");
            PBT_CHECK(c, ci >= 0 && run.apply(ci, sc.dut, *out_disabled) == 0, "C18.apply_failed", "apply failed: %s", run.log.text().c_str());
        }
    }
    return rc;
}

Noise gen_noise(Ctx &a, const Scenario &sc, int force_grid = -1) {
    Noise n;
    n.nf0 = std::pow(10.0, -6 + 4 * (double)a.unit());
    n.with_tr = a.boolean();
    n.tr0 = n.with_tr ? std::pow(10.0, -5 + 4 * (double)a.unit()) : 0;
    n.grid = force_grid >= 0 ? force_grid : (int)a.draw(4);
    n.slope = n.grid == 0 ? 0 : 4 * (double)a.unit();      // sigma changes up to 5x across the span
    n.falling = a.boolean();
    n.np = n.grid == 2 ? 2 : 3 + (int)a.draw(3);
    if (n.grid >= 2) { n.fa = 0.8 * sc.freq[0]; n.fb = 1.25 * sc.freq.back(); }
    else { n.fa = sc.freq[0]; n.fb = sc.freq.back(); if (sc.F == 1) n.slope = 0; }
    // sigma(f) stays inside the property's domain (sigma_nf <= 1e-2, sigma_tr <= 1e-1) over the whole span
    n.nf0 = std::min(n.nf0, 1e-2 / (1 + n.slope)); if (n.with_tr) n.tr0 = std::min(n.tr0, 1e-1 / (1 + n.slope));
    return n;
}

} // namespace

void pbt_property(Ctx &c) {
    int mode = c.weighted({30, 2, 1, 10});      // exact / noisy batch / outlier batch / noise-grid interpolation
    int fam = (int)c.draw(4);
    uint64_t seed = c.draw(1ull << 40);
    Ctx a; a.sh = &g_aux; a.rng = pbt::mix(seed, 0x18); a.size = 30;
    c.label(std::string("family:") + FAMNAME[fam]);

    if (mode == 0) {    // ---- exact data, decided per case --------------------------------------
        Scenario sc; int type = FAMILY[fam][a.draw(2)]; int F = 1 + (int)a.draw(3);
        if (!gen_scenario(a, sc, type, 3, F)) { c.label("filtered:conditioning"); return; }
        Noise n = gen_noise(a, sc);
        double alpha = a.boolean() ? 0.01 : 0.05;
        c.note("exact: %s  sigma_nf %.3g sigma_tr %.3g slope %.2f grid-variant %d alpha %g", sc.describe().c_str(), n.nf0, n.tr0, n.slope, n.grid, alpha);
        for (auto &st : sc.stds) c.note("  %s", st.describe().c_str());
        c.label("class:exact");
        char gl[32]; snprintf(gl, sizeof gl, "grid-variant:%d", n.grid); c.label(gl);
        std::vector<Mat> plain, weighted, disabled; std::string msg; int err;
        int rc0 = solve(c, sc, nullptr, alpha, &plain, msg, err);
        PBT_CHECK(c, rc0 == 0, "C18.unweighted_failed", "unweighted solve failed: %s", msg.c_str());
        int rc1 = solve(c, sc, &n, alpha, &weighted, msg, err, nullptr, true, &disabled);
        PBT_CHECK(c, rc1 == 0, "C18.exact_rejected", "data that fit the error model exactly were rejected with error modelling on (errno %d): %s", err, msg.c_str());
        if (!plain.empty()) {
            long double worst = 0, wd = 0;
            for (int f = 0; f < sc.F; f++) for (size_t k = 0; k < plain[f].a.size(); k++) { worst = std::max(worst, std::abs(plain[f].a[k] - weighted[f].a[k])); wd = std::max(wd, std::abs(plain[f].a[k] - disabled[f].a[k])); }
            c.track_max("exact: |weighted - unweighted| / (eps*1e3*10)", (double)(worst / (EPS * 1e4L)));
            PBT_CHECK(c, worst <= 1e4L * EPS * 1e4L, "C18.exact_differs", "exact data: weighted and unweighted calibrations correct the device differently by %.3Lg", worst);
            PBT_CHECK(c, wd == 0, "C18.disable_not_restored", "after set_m_error(NULL, NULL) the result differs from the unweighted one by %.3Lg (must be bit-identical)", wd);
        }
        if (n.with_tr || n.grid >= 2 || vm::is_colsys(sc.type)) c.nontrivial();
        return;
    }
    if (mode == 3) {    // ---- "interpolated through the given points", decided per case -------------
        // The same straight-line noise model is declared (A) on its own, wider grid of 2..5 knots and (B) value by
        // value on the calibration grid.  The data carry noise of exactly that model, so the weights matter; the
        // significance is 1e-9, so a correctly modelled data set is not rejected.  A and B must agree: same
        // verdict, same corrected device (the weights differ by rounding only).
        Scenario sc; int type = FAMILY[fam][a.draw(2)]; int F = 1 + (int)a.draw(3);
        if (!gen_scenario(a, sc, type, 2, F)) { c.label("filtered:conditioning"); return; }
        Noise n = gen_noise(a, sc, 2 + (int)a.draw(2));
        if (a.chance(2, 3)) { n.with_tr = true; if (n.tr0 == 0) n.tr0 = std::pow(10.0, -5 + 4 * (double)a.unit()); }
        n.slope = 0.5 + 3.5 * (double)a.unit();
        // keep sigma(f) inside the property's domain over the whole span (sigma_nf <= 1e-2, sigma_tr <= 1e-1); this clause
        // is about interpolation, so it stays a decade below the top, where the iteratively re-weighted solve converges easily
        n.nf0 = std::min(n.nf0, 1e-3 / (1 + n.slope)); if (n.with_tr) n.tr0 = std::min(n.tr0, 1e-2 / (1 + n.slope));
        // half of the cases: CURVED data.  The knots are 0.8 fmin, every calibration frequency, optionally a point between
        // neighbours, and 1.25 fmax; the value at each knot is arbitrary (not on a line).  Every calibration frequency is a
        // knot, so "through the given points" fixes the expected value there without any model of the interpolation.
        bool curved = a.boolean();
        if (curved) {
            n.tf.push_back(0.8 * sc.freq[0]);
            for (int f = 0; f < sc.F; f++) { n.tf.push_back(sc.freq[f]); if (f + 1 < sc.F && a.boolean()) n.tf.push_back(0.5 * (sc.freq[f] + sc.freq[f + 1])); }
            n.tf.push_back(1.25 * sc.freq.back());
            for (size_t k = 0; k < n.tf.size(); k++) n.tshape.push_back(1 + n.slope * (double)a.unit());
            n.np = (int)n.tf.size(); n.fa = n.tf.front(); n.fb = n.tf.back();
        }
        add_noise(a, sc, n, -1);
        Noise nb = n; nb.grid = 1;
        c.note("interp: %s  sigma_nf %.3g sigma_tr %.3g slope %.2f %s, own grid of %d knots on %.6g..%.6g, calibration %.6g..%.6g", sc.describe().c_str(), n.nf0, n.with_tr ? n.tr0 : 0.0, n.slope, n.falling ? "falling" : "rising", n.np, n.fa, n.fb, sc.freq[0], sc.freq.back());
        c.label("class:noise-grid-interpolation"); c.label(n.with_tr ? "interp:nf+tr" : "interp:nf-only"); c.label(curved ? "interp:curved-through-knots" : "interp:straight-line-between-knots"); { char gl[32]; snprintf(gl, sizeof gl, "interp:knots=%d", n.np); c.label(gl); }
        std::vector<Mat> oa, ob; std::string ma, mb; int ea, eb;
        int ra = solve(c, sc, &n, 1e-9, &oa, ma, ea);
        int rb = solve(c, sc, &nb, 1e-9, &ob, mb, eb);
        // the reference declaration being rejected is a (rare) event of the rate clause, not of this one: nothing to compare
        if (rb != 0) { c.label("interp:reference-rejected"); c.note("   reference declaration rejected: %s", mb.c_str()); return; }
        PBT_CHECK(c, ra == 0, "C18.noise_grid_not_interpolated", "the same noise model declared on its own grid (%d knots) is rejected (errno %d: %s) while the declaration on the calibration grid is accepted", n.np, ea, ma.c_str());
        long double worst = 0;
        for (size_t f = 0; f < oa.size(); f++) for (size_t k = 0; k < oa[f].a.size(); k++) worst = std::max(worst, std::abs(oa[f].a[k] - ob[f].a[k]));
        c.track_max("interp: |own grid - calibration grid| / 1e-9", (double)(worst / 1e-9L));
        PBT_CHECK(c, worst <= 1e-9L, "C18.noise_grid_not_interpolated", "the noise model declared on its own grid (%d knots) and on the calibration grid correct the device differently by %.3Lg", n.np, worst);
        c.nontrivial();
        return;
    }
    // ---- aggregated classes ---------------------------------------------------------------------
    bool outlier = mode == 2;
    int N = outlier ? 100 : 400;
    double alpha = a.boolean() ? 0.01 : 0.05;
    int rejected = 0, done = 0, math_ok = 0;
    int sub_n = 0, sub_rej = 0;      // sub-population: tracking-dominated noise on a multi-port calibration (weights genuinely unequal)
    int mix_n = 0, mix_rej = 0;      // sub-population: per-column type whose first system is exactly determined while later ones are over-determined
    for (int i = 0; i < N * 3 && done < N; i++) {
        Scenario sc; int type = FAMILY[fam][a.draw(2)]; int F = 1 + (int)a.draw(2);
        bool mixed_exact = false;
        if (!gen_scenario(a, sc, type, 2, F, &mixed_exact)) continue;
        Noise n = gen_noise(a, sc);
        int victim = -1;
        if (outlier) {
            // the displaced standard must be REDUNDANT (the rest still determines the terms, with every leakage
            // cell still sampled); otherwise its error is absorbed by the terms only it determines and no
            // consistency test can see it
            std::vector<int> cand;
            for (size_t s = 0; s < sc.stds.size(); s++) {
                Scenario rest = sc; rest.stds.erase(rest.stds.begin() + s);
                bool ok = leakage_uncovered(rest).empty();
                for (int f = 0; ok && f < sc.F; f++) ok = ident_at(rest, f).determining;
                auto eq = count_equations(rest, rest.stds.size()); for (int e : eq) if (e < unknowns_per_system(rest) + 1) ok = false;
                if (ok) cand.push_back((int)s);
            }
            if (cand.empty()) continue;
            victim = cand[a.draw(cand.size())];
        }
        add_noise(a, sc, n, victim);
        std::string msg; int err; bool mcb = false;
        int rc = solve(c, sc, &n, alpha, nullptr, msg, err, &mcb);
        done++;
        bool sub = !outlier && n.with_tr && n.tr0 >= 10 * n.nf0 && sc.P >= 2;
        if (sub) { sub_n++; if (rc != 0) sub_rej++; }
        if (!outlier && mixed_exact) { mix_n++; if (rc != 0) mix_rej++; }
        if (getenv("C18_DIAG")) fprintf(stderr, "DIAG %s %dx%d F=%d grid=%d tr=%d slope=%.2f nstd=%zu rc=%d %s\n", vm::tname(sc.type), sc.r, sc.c, sc.F, n.grid, (int)n.with_tr, n.slope, sc.stds.size(), rc, rc ? msg.c_str() : "");
        if (rc != 0) { rejected++; if (err == EDOM && mcb) math_ok++; else c.fail("C18.rejection_report", "rejection reported with errno %d (%s) / %s", err, strerror(err), msg.c_str()); }
    }
    c.note("%s batch: family %s alpha %g: %d of %d scenarios rejected", outlier ? "outlier" : "noisy", FAMNAME[fam], alpha, rejected, done);
    c.label(outlier ? "class:outlier-batch" : "class:noisy-batch");
    c.nontrivial();
    PBT_CHECK(c, done == N, "C18.generator", "could only build %d of %d scenarios", done, N);
    if (outlier) {
        c.track_max("outlier: accepted fraction", 1.0 - (double)rejected / N);
        PBT_CHECK(c, rejected >= 90, "C18.outlier_accepted", "family %s: only %d of %d data sets with a standard off by 100 sigma were rejected", FAMNAME[fam], rejected, N);
    } else {
        // acceptance band for a true rejection rate in [alpha/4, 4 alpha] (N = 400): P(false alarm) < 1e-9
        int lo = alpha == 0.05 ? 1 : 0, hi = alpha == 0.05 ? 125 : 45;
        c.track_max(std::string("noisy ") + FAMNAME[fam] + (alpha == 0.05 ? ": rejected/400 at alpha .05" : ": rejected/400 at alpha .01"), (double)rejected / N);
        c.track_max(std::string("noisy ") + FAMNAME[fam] + (alpha == 0.05 ? ": -rejected/400 at alpha .05" : ": -rejected/400 at alpha .01"), -(double)rejected / N);
        // same clause on the sub-population where the weights matter most (true rate <= 4 alpha accepted
        // with probability > 1 - 1e-9: mean + 6.2 sigma of Bin(sub_n, 4 alpha), at least 8)
        if (sub_n >= 40) {
            double p4 = 4 * alpha, lim = sub_n * p4 + 6.2 * sqrt(sub_n * p4 * (1 - p4)); if (lim < 8) lim = 8;
            c.track_max(std::string("noisy-sub ") + FAMNAME[fam] + (alpha == 0.05 ? ": rate at alpha .05" : ": rate at alpha .01"), (double)sub_rej / sub_n);
            c.note("   tracking-dominated multi-port sub-population: %d of %d rejected (limit %.0f)", sub_rej, sub_n, lim);
            PBT_CHECK(c, sub_rej <= lim, "C18.rejection_rate_tracking", "family %s, significance %g: %d of %d correctly-modelled tracking-dominated noisy data sets rejected (limit %.0f)", FAMNAME[fam], alpha, sub_rej, sub_n, lim);
        }
        if (mix_n >= 40) {
            double p4 = 4 * alpha, lim = mix_n * p4 + 6.2 * sqrt(mix_n * p4 * (1 - p4)); if (lim < 8) lim = 8;
            c.track_max(std::string("noisy-mixed ") + FAMNAME[fam] + (alpha == 0.05 ? ": rate at alpha .05" : ": rate at alpha .01"), (double)mix_rej / mix_n);
            c.note("   first system exactly determined, later ones over-determined: %d of %d rejected (limit %.0f)", mix_rej, mix_n, lim);
            c.label("noisy-batch:mixed-subpopulation>=40");
            PBT_CHECK(c, mix_rej <= lim, "C18.rejection_rate_mixed_systems", "family %s, significance %g: %d of %d correctly-modelled noisy data sets rejected where the first column's system is exactly determined and a later one over-determined (limit %.0f)", FAMNAME[fam], alpha, mix_rej, mix_n, lim);
        }
        PBT_CHECK(c, rejected >= lo && rejected <= hi, "C18.rejection_rate", "family %s, significance %g: %d of %d correctly-modelled noisy data sets rejected (accepted band %d..%d)", FAMNAME[fam], alpha, rejected, N, lo, hi);
    }
}
