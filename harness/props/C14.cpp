// C14 -- property trees survive YAML export and import unchanged, also when embedded in a
// calibration file written by vnacal_save and read by vnacal_load.
//
// Generator.  A document model (docmodel.hpp) of depth <= 6 is generated first: scalars, nulls,
// maps (also empty), lists (also empty), nulls inside maps and lists.  Keys and scalars are valid
// UTF-8 only, *constructed from code points* (never from raw bytes): ASCII letters/digits, all ASCII
// punctuation, spaces in every position, \n, \t, \r, the other C0 controls (never NUL), DEL, C1
// controls, NEL U+0085, LS/PS U+2028/9, BOM U+FEFF, 2- and 3-byte BMP characters, the noncharacters
// U+FFFE/U+FFFF, astral planes; plus pools of strings that look like YAML syntax or resolve to
// null/bool/int/float in YAML 1.1/1.2 (~ null Null NULL true 0x1 1e3 ": " "- " # quotes | > % @ ...),
// leading/trailing whitespace, empty string, multi-line text with every chomping situation, long
// text that the emitter folds (> 80 columns) and keys longer than libyaml's simple-key limit (128).
// The model is then built THROUGH THE API (vnaproperty_set / vnaproperty_set_subtree with keys quoted
// by vnaproperty_quote_key or by the harness' own quoter; full paths from the root mixed with
// relative descriptors on set_subtree anchors; "[i]" and "[+]" subscripts; "#" for nulls; "{}" /
// "[]" for empty collections) and read back with read_tree() to make sure the object under test
// really is the model (C14.build_mismatch would be a C13 matter).
//
// Oracle (statement of C14 + vnaproperty(3)).
//  1. vnaproperty_export_yaml_to_file to an open_memstream FILE* returns 0 and reports nothing
//     through the error callback; the text is valid UTF-8.
//  2. vnaproperty_import_yaml_from_string(text) and vnaproperty_import_yaml_from_file(fmemopen(text))
//     into a fresh root return 0, report nothing, and the tree read through the public getters
//     equals the model exactly (node kinds, key order, list order, nulls, every scalar byte for byte).
//  3. vnaproperty(3): import places the tree at rootptr "replacing any existing content": the same
//     import into a root that already holds an unrelated scalar / map / list must also give the model.
//  4. An independent YAML reader (yaml-cpp, not the libyaml the library uses) reading the same text
//     must see the same tree.  What the export code writes (vnaproperty.c _vnaproperty_yaml_export):
//       null node   -> plain scalar ~
//       scalar      -> YAML scalar holding the bytes of the value; style requested from libyaml:
//                      literal block if the value contains \n, double-quoted if it spells a YAML null
//                      (~ null Null NULL), otherwise "any" (libyaml picks plain/single/double)
//       map         -> block mapping in insertion order; each KEY is written as the string returned by
//                      vnaproperty_quote_key(key), i.e. in *quoted-descriptor form*: a backslash in
//                      front of every byte that is not an identifier byte (first byte: letter, '_',
//                      byte >= 0x80; later bytes additionally digit, '-', ' '), in front of every
//                      backslash and in front of trailing spaces.  The importer hands the YAML key text
//                      to vnaproperty_set_subtree as a descriptor.  The independent reader therefore
//                      un-quotes keys with its own implementation of the descriptor key syntax of
//                      vnaproperty(3) (unquote_key below) and refuses key text that is not a single
//                      well-formed quoted key (C14.yaml_key_not_quoted).
//       list        -> block sequence in order
//     This breaks symmetric export/import mistakes (both sides of the library agreeing on something
//     that is not YAML).  yaml-cpp 0.7 decodes the double-quoted escapes \N and \_ to the single
//     bytes 0x85 / 0xA0 (a known yaml-cpp defect); fix_yamlcpp() repairs exactly those lone bytes.
//  5. The same through the calibration container: the tree is built with vnacal_property_set /
//     vnacal_property_set_subtree as global properties (ci = -1) and a second tree as properties of
//     a calibration (1x1 T8, one frequency, short/open/match), vnacal_save to a memfd, vnacal_load,
//     both trees equal their models; yaml-cpp reads "properties" / calibrations[0].properties
//     from the same file and must agree as well.
//  Sanitizer reports, asserts, leaks (LeakSanitizer after every case whose heap grew) and hangs are
//  part of the oracle through the engine.
//
// Non-trivial: the tree contains a key needing quoting, a YAML-look-alike scalar, a multi-line
// scalar or an empty collection.  Labels: per-character-class histogram for keys and values
// (key:<class>, val:<class>), shapes, routes.
#include "pbt.hpp"
#include <yaml-cpp/yaml.h>
#include <sys/mman.h>
#include <sys/stat.h>
#include <fcntl.h>
#include <unistd.h>
#include <algorithm>
#include "vna.hpp"
#include "docmodel.hpp"
#include "propgen.hpp"

const char *PBT_PROPERTY = "C14";
using namespace pbt;
using namespace doc;

namespace {

// Notes and failure messages are pure ASCII (every byte outside 0x20..0x7e is written \\xNN): the engine
// truncates them at fixed byte counts and the driver decodes them as UTF-8.
std::string aesc(const std::string &s) {
    std::string o = "\"";
    for (unsigned char ch : s) {
        if (ch == '"' || ch == '\\') { o += '\\'; o += (char)ch; }
        else if (ch < 0x20 || ch >= 0x7f) { char b[8]; snprintf(b, sizeof b, "\\x%02x", ch); o += b; }
        else o += (char)ch;
    }
    return o + "\"";
}
std::string ascii(const std::string &s) {      // same for text that is already a message
    std::string o;
    for (unsigned char ch : s) { if ((ch < 0x20 && ch != '\n') || ch >= 0x7f) { char b[8]; snprintf(b, sizeof b, "\\x%02x", ch); o += b; } else o += (char)ch; }
    return o;
}
std::string ashow(const NodeP &n) {
    if (!n) return "~";
    switch (n->kind) {
    case Node::SCALAR: return aesc(n->sval);
    case Node::MAP: { std::string o = "{"; bool f = true; for (auto &p : n->map) { if (!f) o += ", "; f = false; o += aesc(p.first) + ": " + ashow(p.second); } return o + "}"; }
    default: { std::string o = "["; bool f = true; for (auto &e : n->list) { if (!f) o += ", "; f = false; o += ashow(e); } return o + "]"; }
    }
}

// ---------------------------------------------------------------- code point classes --
enum Cls { K_ALNUM, K_PUNCT, K_SPACE, K_NL, K_TAB, K_CR, K_C0, K_DEL, K_C1, K_NEL, K_LSPS, K_BOM, K_2B, K_3B, K_NONCHAR, K_ASTRAL, K_N };
const char *cls_name[K_N] = {"alnum", "punct", "space", "LF", "TAB", "CR", "C0-other", "DEL", "C1", "NEL", "LS-PS", "BOM", "2-byte", "3-byte", "nonchar-FFFE-FFFF", "astral"};

int classify(uint32_t cp) {
    if (cp == ' ') return K_SPACE;
    if (cp == '\n') return K_NL;
    if (cp == '\t') return K_TAB;
    if (cp == '\r') return K_CR;
    if (cp < 0x20) return K_C0;
    if (cp == 0x7f) return K_DEL;
    if (cp < 0x80) return isalnum((int)cp) ? K_ALNUM : K_PUNCT;
    if (cp == 0x85) return K_NEL;
    if (cp < 0xA0) return K_C1;
    if (cp == 0x2028 || cp == 0x2029) return K_LSPS;
    if (cp == 0xFEFF) return K_BOM;
    if (cp == 0xFFFE || cp == 0xFFFF) return K_NONCHAR;
    if (cp < 0x800) return K_2B;
    if (cp < 0x10000) return K_3B;
    return K_ASTRAL;
}

// strict UTF-8 decoder (shortest form, no surrogates, <= U+10FFFF); returns false on invalid input
bool decode_utf8(const std::string &s, std::vector<uint32_t> *out) {
    size_t i = 0, n = s.size();
    while (i < n) {
        unsigned char b = (unsigned char)s[i];
        uint32_t cp; int len;
        if (b < 0x80) { cp = b; len = 1; }
        else if (b >= 0xC2 && b <= 0xDF) { cp = b & 0x1F; len = 2; }
        else if (b >= 0xE0 && b <= 0xEF) { cp = b & 0x0F; len = 3; }
        else if (b >= 0xF0 && b <= 0xF4) { cp = b & 0x07; len = 4; }
        else return false;
        if (i + len > n) return false;
        for (int k = 1; k < len; k++) { unsigned char cb = (unsigned char)s[i + k]; if ((cb & 0xC0) != 0x80) return false; cp = (cp << 6) | (cb & 0x3F); }
        if ((len == 3 && cp < 0x800) || (len == 4 && (cp < 0x10000 || cp > 0x10FFFF)) || (cp >= 0xD800 && cp <= 0xDFFF)) return false;
        if (out) out->push_back(cp);
        i += len;
    }
    return true;
}

// ------------------------------------------------------------------ string generators --
struct SGen {
    Ctx &c;
    explicit SGen(Ctx &c_) : c(c_) {}

    uint32_t gen_cp() {
        switch (c.weighted({10, 6, 4, 2, 1, 1, 1, 1, 1, 1, 1, 1, 2, 2, 1, 2})) {
        case K_ALNUM: { static const char a[] = "abcxyzABZ019"; return (uint32_t)a[c.draw(sizeof a - 1)]; }
        case K_PUNCT: { static const char p[] = ":-#'\"|>%@`!&*?,[]{}~.=+\\/<>$^_();"; return (uint32_t)p[c.draw(sizeof p - 1)]; }
        case K_SPACE: return ' ';
        case K_NL: return '\n';
        case K_TAB: return '\t';
        case K_CR: return '\r';
        case K_C0: { static const unsigned char z[] = {0x01, 0x07, 0x08, 0x0b, 0x0c, 0x0e, 0x1b, 0x1f, 0x02, 0x10}; return z[c.draw(sizeof z)]; }
        case K_DEL: return 0x7f;
        case K_C1: { uint32_t v = 0x80 + (uint32_t)c.draw(0x20); return v == 0x85 ? 0x86 : v; }
        case K_NEL: return 0x85;
        case K_LSPS: return c.boolean() ? 0x2029 : 0x2028;
        case K_BOM: return 0xFEFF;
        case K_2B: { static const uint32_t s[] = {0xE9, 0xA0, 0xAD, 0xFF, 0x3A9, 0x7FF}; return c.chance(1, 2) ? 0xA0 + (uint32_t)c.draw(0x800 - 0xA0) : s[c.draw(6)]; }
        case K_3B: { static const uint32_t s[] = {0x20AC, 0x4E2D, 0xFFFD, 0x800, 0xD7FF, 0xE000, 0x2003, 0x3000, 0x200B, 0xFDD0}; return s[c.draw(10)]; }
        case K_NONCHAR: return c.boolean() ? 0xFFFF : 0xFFFE;
        default: { static const uint32_t s[] = {0x10000, 0x1F600, 0x10FFFF, 0x1FFFE, 0xE0001}; return c.boolean() ? 0x10000 + (uint32_t)c.draw(0x100000) : s[c.draw(5)]; }
        }
    }
    std::string gen_cps(size_t maxlen) {
        std::string o;
        size_t n = (size_t)c.range(0, (int64_t)maxlen);
        for (size_t i = 0; i < n; i++) PropGen::utf8(o, gen_cp());
        return o;
    }
    std::string word() {
        std::string o; size_t n = 1 + (size_t)c.draw(9);
        for (size_t i = 0; i < n; i++) o += (char)('a' + c.draw(26));
        return o;
    }
    // strings that look like YAML syntax or resolve to a non-string in YAML 1.1 / 1.2
    static const std::vector<std::string> &lookalikes() {
        static const std::vector<std::string> pool = {
            "~", "null", "Null", "NULL", "", "true", "false", "True", "yes", "no", "on", "off", "y", "n",
            "0x1", "1e3", "0", "1", "-1", "+1", "0o7", "017", "1_000", ".5", "1.", "+.inf", "-.INF", ".nan", ".NaN", "2001-01-01", "190:20:30", "0b101",
            ": ", "- ", ":", "-", "?", "? ", "- a", "-a", "a: b", "a:b", "a:", ":a", "a: ", "k: v: w", "? q", "- - x",
            "#", "# c", " #", "a #b", "a#b", "a # b: c",
            "'", "\"", "''", "\"\"", "'a'", "\"a\"", "it's", "say \"hi\"", "'a", "a'", "\"a", "a\"", "\\", "\\n", "a\\", "\\x41", "\\\"",
            "|", ">", "|-", ">+", "|2", "| x", "> x", "%", "%YAML 1.1", "%TAG ! tag:x,2000:", "@", "@at", "`", "`bt`",
            "!", "!!str x", "!t v", "&", "&a", "&a b", "*", "*a", "<<", "=", ",", "a, b", "[", "]", "{", "}", "[]", "{}", "[a, b]", "{a: b}", "[a", "a]", "{a", "a}",
            "---", "...", "--- x", "... x", "--- |", "---\na", "a\n---\nb", "a\n...\nb",
            " ", "  ", " a", "a ", " a ", "  a  ", "a  b", "\t", "\ta", "a\t", "a\tb", " \t ", "a \tb",
            "\n", "\n\n", "\n\n\n", "a\n", "a\n\n", "a\n\n\n", "\na", "\n\na", "a\nb", "a\n\nb", "a\nb\n", "a\n b", "a\n  b\n c", " a\nb", "  a\n b", "a \nb", "a\nb ", "a\n \nb", " \n", "\n ", " \n ", "a\n\tb", "\ta\nb", "a\n#b", "a\n- b", "a\nb: c", "a: b\nc: d", "- a\n- b", "#a\nb", "a\n'", "|\na", ">\na",
            "a\rb", "\r", "\r\n", "a\r\nb", "a\r\n", "a\n\rb", "\ra",
            "a\xC2\x85" "b", "\xC2\x85", "a\xC2\x85", "\xC2\x85" "a", "a\n\xC2\x85" "b", "a\xC2\x85\nb", "a \xC2\x85 b",
            "a\xE2\x80\xA8" "b", "\xE2\x80\xA8", "a\xE2\x80\xA9" "b", "\xE2\x80\xA9", "a\xE2\x80\xA8\nb", "a\n\xE2\x80\xA9", "\xE2\x80\xA8" "a", "a\xE2\x80\xA9",
            "\xEF\xBB\xBF", "\xEF\xBB\xBF" "a", "a\xEF\xBB\xBF", "a\xEF\xBB\xBF" "b", "\xEF\xBB\xBF\na", "a\n\xEF\xBB\xBF",
            "\x01", "a\x01", "\x1b[0m", "\x7f", "a\x7f" "b", "\x08", "\x0c", "a\x0b" "b", "\xC2\x80", "\xC2\x9F", "\xC2\xA0", "a\xC2\xA0", "\xC2\xA0" "a",
            "\xEF\xBF\xBE", "\xEF\xBF\xBF", "\xEF\xBF\xBD", "\xF0\x9F\x98\x80", "\xF4\x8F\xBF\xBF", "\xF0\x90\x80\x80" " x", "\xE2\x82\xAC", "\xC3\xA9t\xC3\xA9",
        };
        return pool;
    }
    std::string ws_bit() {
        switch (c.weighted({6, 2, 2, 1, 1, 1, 1})) {
        case 0: return " "; case 1: return "  "; case 2: return "\n"; case 3: return "\t"; case 4: return "\r"; case 5: return "\xC2\x85"; default: return "\xE2\x80\xA8";
        }
    }
    std::string long_text() {
        std::string o;
        size_t target = 70 + (size_t)c.draw(90 + (size_t)c.size * 2);
        int sep = c.weighted({6, 2, 1, 1, 1});      // single spaces | some double spaces | none | tabs | mixed with punctuation
        while (o.size() < target) {
            if (!o.empty()) {
                switch (sep) {
                case 0: o += ' '; break;
                case 1: o += c.chance(1, 3) ? "  " : " "; break;
                case 2: break;
                case 3: o += c.chance(1, 3) ? "\t" : " "; break;
                default: { static const char *q[] = {" ", ": ", " #", ", ", " - ", " '", "\" "}; o += q[c.draw(7)]; break; }
                }
            }
            o += c.chance(1, 8) ? gen_cps(4) : word();
        }
        return o;
    }
    std::string multi_line() {
        std::string o;
        size_t lead = (size_t)c.weighted({8, 2, 1});
        for (size_t i = 0; i < lead; i++) o += '\n';
        size_t lines = 1 + (size_t)c.draw(4);
        for (size_t i = 0; i < lines; i++) {
            if (i) { o += '\n'; if (c.chance(1, 5)) o += '\n'; }
            switch (c.weighted({6, 2, 2, 1, 2, 1})) {
            case 0: o += word(); break;
            case 1: o += std::string(1 + c.draw(3), ' ') + word(); break;
            case 2: o += word() + std::string(1 + c.draw(2), ' '); break;
            case 3: o += "\t" + word(); break;
            case 4: o += lookalikes()[c.draw(60)]; break;
            default: o += gen_cps(5); break;
            }
        }
        size_t trail = (size_t)c.weighted({5, 4, 2, 1});
        for (size_t i = 0; i < trail; i++) o += '\n';
        return o;
    }
    // larger than libyaml's 16 KiB emitter / reader buffers: multi-byte characters straddle the buffer ends
    std::string huge_text() {
        std::string unit = c.boolean() ? gen_cps(12) + " " + word() : long_text();
        if (unit.empty()) unit = "x";
        size_t target = 15000 + (size_t)c.draw(25000);
        std::string o;
        while (o.size() < target) { o += unit; if (c.chance(1, 3)) o += c.boolean() ? "\n" : " "; }
        return o;
    }
    std::string gen_value() {
        if (c.chance(1, 200)) return huge_text();
        switch (c.weighted({4, 9, 6, 4, 4, 2, 1})) {
        case 0: return word();
        case 1: return c.pick(lookalikes());
        case 2: return gen_cps(3 + (size_t)c.size / 10);
        case 3: {   // decorated look-alike: whitespace / another look-alike around it
            std::string o;
            if (c.boolean()) o += ws_bit();
            o += c.pick(lookalikes());
            if (c.boolean()) { o += c.boolean() ? ws_bit() : std::string(" "); o += c.pick(lookalikes()); }
            if (c.boolean()) o += ws_bit();
            return o;
        }
        case 4: return multi_line();
        case 5: return long_text();
        default: return gen_cps(40 + (size_t)c.size * 2);
        }
    }
    std::string gen_key() {
        std::string k;
        switch (c.weighted({6, 6, 5, 3, 1, 1})) {
        case 0: k = word(); break;
        case 1: k = c.pick(lookalikes()); break;
        case 2: k = gen_cps(2 + (size_t)c.size / 12); break;
        case 3: {
            static const std::vector<std::string> pool = {"key one", "x.y", "sp ", "  lead", "q\\", "0d", "-m", "a=b", "h#", "{c}", "[d]", "[0]", "[+]", "t\tb", "nl\nx", "+", "a  b", "a-b", "_u", "a.b.c", ".", "..", "a.", ".a", "a[0]", "a{}", "k ", " k", "\\.", "\\\\", "a\\ ", "a\\  ", " \\"};
            k = c.pick(pool); break;
        }
        case 4:     // beyond libyaml's 128-byte simple-key limit of the emitter, sometimes beyond the 1024 of the scanner
            k = long_text(); if (k.size() < 130) k += std::string(130 - k.size(), 'k');
            if (c.chance(1, 4)) { std::string w = word(); while (k.size() < 1100) k += (c.boolean() ? " " : "") + w; }
            break;
        default: k = multi_line(); break;
        }
        if (k.empty()) k = c.boolean() ? "k" : " ";
        return k;
    }
};

// does the scalar need care in YAML (would a naive plain rendering change its meaning)?
bool yaml_lookalike(const std::string &s) {
    if (s.empty()) return true;
    static const char *words[] = {"~", "null", "Null", "NULL", "true", "True", "TRUE", "false", "False", "FALSE", "yes", "Yes", "no", "No", "on", "On", "off", "Off", "y", "n", "Y", "N", ".inf", "+.inf", "-.inf", ".nan", ".NaN", ".INF", "-.INF", "---", "...", "<<", "="};
    for (const char *w : words) if (s == w) return true;
    if (strchr("-?:,[]{}#&*!|>'\"%@`", s[0])) return true;
    if (isspace((unsigned char)s[0]) || isspace((unsigned char)s.back())) return true;
    if (s.find(": ") != std::string::npos || s.find(" #") != std::string::npos || s.back() == ':') return true;
    { char *e = nullptr; errno = 0; (void)strtod(s.c_str(), &e); if (e && *e == 0 && e != s.c_str()) return true; }   // ints, floats, hex
    if ((isdigit((unsigned char)s[0]) || s[0] == '+' || s[0] == '.') && s.find_first_not_of("0123456789_.:+-eEoxXb") == std::string::npos) return true;
    return false;
}

// ---------------------------------------------------------------- tree generator --
struct TGen {
    Ctx &c; SGen s;
    int budget = 0; bool deep = false;
    explicit TGen(Ctx &c_) : c(c_), s(c_) {}
    NodeP gen_tree(int max_nodes) {
        budget = max_nodes;
        deep = c.chance(1, 5);
        return node(0);
    }
    NodeP node(int depth) {       // depth = number of path elements from the root to this node (<= 6)
        budget--;
        bool may_nest = depth < 6 && budget > 0;
        int kind = !may_nest ? c.weighted({8, 2, 0, 0, 1, 1})
                 : deep ? c.weighted({2, 1, 6, 6, 1, 1})
                 : depth == 0 ? c.weighted({3, 1, 6, 6, 1, 1})       // fewer single-leaf documents
                 : c.weighted({8, 2, 4, 4, 1, 1});
        switch (kind) {
        case 0: return Node::scalar(s.gen_value());
        case 1: return nullptr;
        case 2: {
            NodeP m = Node::mk(Node::MAP);
            size_t mean = deep ? 1 : 2 + (size_t)c.size / 25;
            for (size_t n = 0; budget > 0 && (c.mark(), c.more(n, mean, 12)); n++) {
                std::string k = s.gen_key();
                if (m->find(k)) continue;
                NodeP ch = node(depth + 1);
                m->map.push_back({k, ch});
            }
            if (m->map.empty() && budget > 0) m->map.push_back({s.gen_key(), node(depth + 1)});     // empty maps are kind 4
            return m;
        }
        case 3: {
            NodeP l = Node::mk(Node::LIST);
            size_t mean = deep ? 1 : 2 + (size_t)c.size / 25;
            for (size_t n = 0; budget > 0 && (c.mark(), c.more(n, mean, 12)); n++) l->list.push_back(node(depth + 1));
            if (l->list.empty() && budget > 0) l->list.push_back(node(depth + 1));                  // empty lists are kind 5
            return l;
        }
        case 4: return Node::mk(Node::MAP);
        default: return Node::mk(Node::LIST);
        }
    }
};

// ---------------------------------------------------------------- statistics of a model --
struct Stats {
    bool cls_key[K_N] = {}, cls_val[K_N] = {};
    bool quoted_key = false, lookalike = false, multiline = false, empty_map = false, empty_list = false;
    bool null_in_map = false, null_in_list = false, long_scalar = false, long_key = false, lookalike_key = false, huge_scalar = false, very_long_key = false;
    int depth = 0, nodes = 0;
    void scan_str(const std::string &x, bool *cls) { std::vector<uint32_t> cps; decode_utf8(x, &cps); for (uint32_t cp : cps) cls[classify(cp)] = true; }
    void walk(const NodeP &n, int d) {
        nodes++; depth = std::max(depth, d);
        if (!n) return;
        if (n->kind == Node::SCALAR) {
            scan_str(n->sval, cls_val);
            if (yaml_lookalike(n->sval)) lookalike = true;
            if (n->sval.find('\n') != std::string::npos) multiline = true;
            if (n->sval.size() > 80) long_scalar = true;
            if (n->sval.size() > 15000) huge_scalar = true;
        } else if (n->kind == Node::MAP) {
            if (n->map.empty()) empty_map = true;
            for (auto &p : n->map) {
                scan_str(p.first, cls_key);
                if (PropGen::needs_quote(p.first)) quoted_key = true;
                if (yaml_lookalike(p.first)) lookalike_key = true;
                if (p.first.size() > 128) long_key = true;
                if (p.first.size() > 1024) very_long_key = true;
                if (!p.second) null_in_map = true;
                walk(p.second, d + 1);
            }
        } else {
            if (n->list.empty()) empty_list = true;
            for (auto &e : n->list) { if (!e) null_in_list = true; walk(e, d + 1); }
        }
    }
    bool nontrivial() const { return quoted_key || lookalike || multiline || empty_map || empty_list; }
    void labels(Ctx &c, const NodeP &root, const char *pfx) const {
        std::string p = pfx;
        c.label(p + "root:" + (!root ? "null" : root->kind == Node::SCALAR ? "scalar" : root->kind == Node::MAP ? "map" : "list"));
        c.label(p + "depth:" + std::to_string(depth));
        for (int k = 0; k < K_N; k++) { if (cls_key[k]) c.label(std::string("key:") + cls_name[k]); if (cls_val[k]) c.label(std::string("val:") + cls_name[k]); }
        if (quoted_key) c.label("has:key-needing-quotes");
        if (lookalike_key) c.label("has:yaml-lookalike-key");
        if (lookalike) c.label("has:yaml-lookalike-scalar");
        if (multiline) c.label("has:multi-line-scalar");
        if (empty_map) c.label("has:empty-map");
        if (empty_list) c.label("has:empty-list");
        if (null_in_map) c.label("has:null-in-map");
        if (null_in_list) c.label("has:null-in-list");
        if (long_scalar) c.label("has:scalar>80-bytes");
        if (long_key) c.label("has:key>128-bytes");
        if (huge_scalar) c.label("has:scalar>15000-bytes");
        if (very_long_key) c.label("has:key>1024-bytes");
    }
};

// ---------------------------------------------------------------- RAII helpers --
struct Tree { vnaproperty_t *root = nullptr; ~Tree() { vnaproperty_delete(&root, "."); } };
// The pinned tree's vnacal_free() did not release calibrations and vnacal_new_add_* leaked a matrix per
// standard; both were repaired (known-findings.json: vnacal_free leak, vnm_s_matrix double alloc), so the
// calibration route runs under full leak checking like every other route.
struct Cal { vnacal_t *v = nullptr; ~Cal() { if (v) vnacal_free(v); } };
struct CalNew { vnacal_new_t *n = nullptr; ~CalNew() { if (n) vnacal_new_free(n); } };
struct Fd { int fd = -1; ~Fd() { if (fd >= 0) close(fd); } };
struct File { FILE *fp = nullptr; ~File() { if (fp) fclose(fp); } };
struct MemOut {
    char *buf = nullptr; size_t len = 0; FILE *fp = nullptr;
    MemOut() { fp = open_memstream(&buf, &len); }
    std::string finish() { if (fp) { fclose(fp); fp = nullptr; } return buf ? std::string(buf, len) : std::string(); }
    ~MemOut() { if (fp) fclose(fp); free(buf); }
};

// ---------------------------------------------------------------- build through the API --
struct Builder {
    Ctx &c; PropGen g;
    vnaproperty_t **root = nullptr;      // plain tree ...
    vnacal_t *vcp = nullptr; int ci = -1; // ... or calibration container (top-level calls go through vnacal_property_*)
    const char *what = "";
    explicit Builder(Ctx &c_) : c(c_), g(c_) {}

    void do_set(vnaproperty_t **anchor, const std::string &s) {
        int rc;
        if (anchor) { c.note("  %s: vnaproperty_set(<anchor>, %s)", what, aesc(s).c_str()); rc = vnaproperty_set(anchor, "%s", s.c_str()); }
        else if (vcp) { c.note("  %s: vnacal_property_set(vcp, %d, %s)", what, ci, aesc(s).c_str()); rc = vnacal_property_set(vcp, ci, "%s", s.c_str()); }
        else { c.note("  %s: vnaproperty_set(&root, %s)", what, aesc(s).c_str()); rc = vnaproperty_set(root, "%s", s.c_str()); }
        PBT_CHECK(c, rc == 0, "C14.build_refused", "%s: set(%s) failed: %s", what, aesc(s).c_str(), strerror(errno));
    }
    vnaproperty_t **do_sub(vnaproperty_t **anchor, const std::string &s) {
        vnaproperty_t **a;
        if (anchor) { c.note("  %s: vnaproperty_set_subtree(<anchor>, %s)", what, aesc(s).c_str()); a = vnaproperty_set_subtree(anchor, "%s", s.c_str()); }
        else if (vcp) { c.note("  %s: vnacal_property_set_subtree(vcp, %d, %s)", what, ci, aesc(s).c_str()); a = vnacal_property_set_subtree(vcp, ci, "%s", s.c_str()); }
        else { c.note("  %s: vnaproperty_set_subtree(&root, %s)", what, aesc(s).c_str()); a = vnaproperty_set_subtree(root, "%s", s.c_str()); }
        PBT_CHECK(c, a != nullptr, "C14.build_refused", "%s: set_subtree(%s) failed: %s", what, aesc(s).c_str(), strerror(errno));
        return a;
    }
    std::string quote(const std::string &k) {
        if (c.boolean()) return g.own_quote(k);
        char *q = vnaproperty_quote_key(k.c_str());
        PBT_CHECK(c, q != nullptr, "C14.build_refused", "quote_key(%s) returned NULL", aesc(k).c_str());
        std::string s = q; free(q);
        return s;
    }
    static bool leaf(const NodeP &n) { return !n || n->kind == Node::SCALAR || (n->kind == Node::MAP ? n->map.empty() : n->list.empty()); }

    void build(vnaproperty_t **anchor, const std::string &prefix, const NodeP &n) {
        if (!n) {
            if (prefix.empty()) { if (c.boolean()) do_set(anchor, ".#"); }
            else do_set(anchor, prefix + "#");
            return;
        }
        switch (n->kind) {
        case Node::SCALAR:
            do_set(anchor, (prefix.empty() ? std::string(".") : prefix) + "=" + n->sval);
            return;
        case Node::MAP:
            if (n->map.empty()) { do_sub(anchor, prefix + "{}"); return; }
            for (auto &p : n->map) {
                std::string np = prefix.empty() ? quote(p.first) : prefix + "." + quote(p.first);
                child(anchor, np, p.second);
            }
            return;
        default:
            if (n->list.empty()) { do_sub(anchor, prefix + "[]"); return; }
            for (size_t i = 0; i < n->list.size(); i++) {
                const NodeP &ch = n->list[i];
                bool via_anchor = c.chance(1, 4);
                bool append = (leaf(ch) || via_anchor) && c.boolean();      // "[+]" only where the element is created by a single call
                std::string np = prefix + (append ? std::string("[+]") : "[" + std::to_string(i) + "]");
                if (via_anchor) { vnaproperty_t **a = do_sub(anchor, np); build(a, "", ch); }
                else build(anchor, np, ch);
            }
            return;
        }
    }
    void child(vnaproperty_t **anchor, const std::string &np, const NodeP &ch) {
        if (c.chance(1, 4)) { vnaproperty_t **a = do_sub(anchor, np); build(a, "", ch); }
        else build(anchor, np, ch);
    }
};

// ---------------------------------------------------------------- independent YAML reader --
// Descriptor key syntax of vnaproperty(3), implemented independently of the library: a key starts
// with a letter, '_', a UTF-8 byte or a backslash-quoted character, continues with those plus
// digits, '-' and spaces; unquoted leading white space is skipped, unquoted trailing spaces trimmed.
bool unquote_key(const std::string &t, std::string &out, std::string &why) {
    out.clear();
    size_t i = 0, n = t.size();
    while (i < n && (t[i] == ' ' || t[i] == '\t' || t[i] == '\n' || t[i] == '\r' || t[i] == '\f' || t[i] == '\v')) i++;
    size_t protect = 0;
    bool first = true;
    for (; i < n; i++) {
        unsigned char ch = (unsigned char)t[i];
        if (ch == '\\') {
            if (i + 1 >= n) { why = "dangling backslash"; return false; }
            out += t[++i]; protect = out.size(); first = false; continue;
        }
        bool ok = isalpha(ch) || ch == '_' || ch >= 0x80 || (!first && (isdigit(ch) || ch == '-' || ch == ' '));
        if (!ok) { char b[64]; snprintf(b, sizeof b, "unquoted reserved byte 0x%02x at offset %zu", ch, i); why = b; return false; }
        out += (char)ch; first = false;
    }
    while (out.size() > protect && out.back() == ' ') out.pop_back();
    if (out.empty()) { why = "empty key"; return false; }
    return true;
}
// yaml-cpp 0.7 returns the escapes \N and \_ as the lone bytes 0x85 / 0xA0: restore them
std::string fix_yamlcpp(const std::string &s) {
    std::string o; size_t i = 0, n = s.size();
    while (i < n) {
        unsigned char b = (unsigned char)s[i];
        int len = b < 0x80 ? 1 : (b >= 0xC2 && b <= 0xDF) ? 2 : (b >= 0xE0 && b <= 0xEF) ? 3 : (b >= 0xF0 && b <= 0xF4) ? 4 : 0;
        if (len == 0) {
            if (b == 0x85 || b == 0xA0) { o += (char)0xC2; o += (char)b; i++; continue; }
            o += (char)b; i++; continue;
        }
        for (int k = 0; k < len && i < n; k++) o += s[i++];
    }
    return o;
}
NodeP from_yamlcpp(const YAML::Node &y, std::string &why, int depth = 0) {
    if (depth > 64) { why = "too deep"; return nullptr; }
    switch (y.Type()) {
    case YAML::NodeType::Null: return nullptr;
    case YAML::NodeType::Scalar: return Node::scalar(fix_yamlcpp(y.Scalar()));
    case YAML::NodeType::Sequence: {
        NodeP l = Node::mk(Node::LIST);
        for (YAML::const_iterator it = y.begin(); it != y.end(); ++it) { l->list.push_back(from_yamlcpp(*it, why, depth + 1)); if (!why.empty()) return nullptr; }
        return l;
    }
    case YAML::NodeType::Map: {
        NodeP m = Node::mk(Node::MAP);
        for (YAML::const_iterator it = y.begin(); it != y.end(); ++it) {
            if (!it->first.IsScalar()) { why = std::string("a map key is not a YAML string scalar (node type ") + (it->first.IsNull() ? "null" : "collection") + ")"; return nullptr; }
            std::string raw = fix_yamlcpp(it->first.Scalar()), k, kw;
            if (!unquote_key(raw, k, kw)) { why = "key text " + aesc(raw) + " is not one quoted descriptor key: " + kw; return nullptr; }
            if (m->find(k)) { why = "duplicate key " + aesc(k); return nullptr; }
            m->map.push_back({k, from_yamlcpp(it->second, why, depth + 1)});
            if (!why.empty()) return nullptr;
        }
        return m;
    }
    default: why = "undefined node"; return nullptr;
    }
}

std::string clip(const std::string &s, size_t n = 700) { return s.size() <= n ? s : s.substr(0, n) + "...[" + std::to_string(s.size()) + " bytes]"; }

// first difference between two models, as a path (for readable messages)
std::string first_diff(const NodeP &a, const NodeP &b, const std::string &path = ".") {
    if (!a || !b) return (!a && !b) ? "" : path + ": " + clip(ashow(a), 200) + " vs " + clip(ashow(b), 200);
    if (a->kind != b->kind) return path + ": kind " + clip(ashow(a), 200) + " vs " + clip(ashow(b), 200);
    if (a->kind == Node::SCALAR) return a->sval == b->sval ? "" : path + ": " + clip(aesc(a->sval), 300) + " vs " + clip(aesc(b->sval), 300);
    if (a->kind == Node::MAP) {
        for (size_t i = 0; i < a->map.size() && i < b->map.size(); i++) {
            if (a->map[i].first != b->map[i].first) return path + ": key #" + std::to_string(i) + " " + clip(aesc(a->map[i].first), 200) + " vs " + clip(aesc(b->map[i].first), 200);
            std::string d = first_diff(a->map[i].second, b->map[i].second, path + "{" + clip(aesc(a->map[i].first), 60) + "}");
            if (!d.empty()) return d;
        }
        if (a->map.size() != b->map.size()) return path + ": " + std::to_string(a->map.size()) + " vs " + std::to_string(b->map.size()) + " keys";
        return "";
    }
    for (size_t i = 0; i < a->list.size() && i < b->list.size(); i++) { std::string d = first_diff(a->list[i], b->list[i], path + "[" + std::to_string(i) + "]"); if (!d.empty()) return d; }
    if (a->list.size() != b->list.size()) return path + ": " + std::to_string(a->list.size()) + " vs " + std::to_string(b->list.size()) + " items";
    return "";
}

uint64_t fnv(const std::string &s) { uint64_t h = 1469598103934665603ull; for (unsigned char ch : s) h = (h ^ ch) * 1099511628211ull; return h; }
// developer aid (not part of the verdict): C14_DUMP_DIR=<dir> stores every exported document < 2 KiB
void dump_corpus(const char *ext, const std::string &text) {
    const char *d = getenv("C14_DUMP_DIR");
    if (!d || text.size() >= 2048) return;
    char p[600]; snprintf(p, sizeof p, "%s/%016llx.%s", d, (unsigned long long)fnv(text), ext);
    FILE *f = fopen(p, "wb"); if (f) { fwrite(text.data(), 1, text.size(), f); fclose(f); }
}

// ---------------------------------------------------------------- the checks --
struct H {
    Ctx &c;
    explicit H(Ctx &c_) : c(c_) {}

    void expect_tree(const vnaproperty_t *root, const NodeP &model, const char *code, const char *what, const std::string &text) {
        std::string why;
        NodeP got = read_tree(root, why);
        if (!why.empty()) c.fail("C14.walk_failed", "%s: %s", what, ascii(why).c_str());
        if (!equal(got, model))
            c.fail(code, "%s: tree differs from the original at %s (first: read back, second: original)\n--- YAML text ---\n%s", what, first_diff(got, model).c_str(), clip(aesc(text), 1500).c_str());
    }
    void expect_quiet(const ErrLog &log, const char *code, const char *what, const std::string &text) {
        if (log.n_total() != 0) c.fail(code, "%s reported through the error callback: %s\n--- YAML text ---\n%s", what, clip(ascii(log.text()), 600).c_str(), clip(aesc(text), 1500).c_str());
    }
    void check_yamlcpp(const std::string &text, const NodeP &model, const char *what, const char *sub1 = nullptr, int idx = -1, const char *sub2 = nullptr) {
        NodeP got; std::string why;
        try {
            YAML::Node y = YAML::Load(text);
            if (sub1) {
                PBT_CHECK(c, y.IsMap(), "C14.yamlcpp_file_shape", "%s: top level of the file is not a map", what);
                YAML::Node z = y[sub1];
                if (idx >= 0) { PBT_CHECK(c, z.IsSequence() && (size_t)idx < z.size(), "C14.yamlcpp_file_shape", "%s: %s[%d] missing", what, sub1, idx); YAML::Node w = z[idx]; YAML::Node p = w[sub2]; PBT_CHECK(c, p.IsDefined(), "C14.yamlcpp_file_shape", "%s: %s[%d].%s missing", what, sub1, idx, sub2); got = from_yamlcpp(p, why); }
                else { PBT_CHECK(c, z.IsDefined(), "C14.yamlcpp_file_shape", "%s: key %s missing", what, sub1); got = from_yamlcpp(z, why); }
            } else got = from_yamlcpp(y, why);
        } catch (const YAML::Exception &e) {
            c.fail("C14.yamlcpp_parse_error", "%s: the independent YAML reader rejects the exported text: %s\n--- YAML text ---\n%s", what, ascii(e.what()).c_str(), clip(aesc(text), 1500).c_str());
        }
        if (!why.empty()) c.fail(why.find("quoted descriptor key") != std::string::npos ? "C14.yaml_key_not_quoted" : "C14.yamlcpp_structure", "%s: independent YAML reader: %s\n--- YAML text ---\n%s", what, ascii(why).c_str(), clip(aesc(text), 1500).c_str());
        if (!equal(got, model))
            c.fail("C14.independent_reader_differs", "%s: an independent YAML reader (yaml-cpp) sees a different tree at %s (first: yaml-cpp, second: original)\n--- YAML text ---\n%s", what, first_diff(got, model).c_str(), clip(aesc(text), 1500).c_str());
    }

    // pre-existing content for the "replacing any existing content" clause of vnaproperty(3)
    void prefill(vnaproperty_t **root, const NodeP &model) {
        int rc = 0;
        switch (c.draw(3)) {
        case 0: rc = vnaproperty_set(root, ".=old"); c.note("  pre-existing content: scalar"); break;
        case 1:
            rc = vnaproperty_set(root, "zz\\ old=1");
            if (model && model->kind == Node::MAP && !model->map.empty()) { char *q = vnaproperty_quote_key(model->map[0].first.c_str()); if (q) { rc |= vnaproperty_set(root, "%s.sub[2]=old", q); free(q); } }
            c.note("  pre-existing content: map"); break;
        default:
            for (int i = 0; i < 14 && rc == 0; i++) rc = vnaproperty_set(root, "[+]=old%d", i);
            c.note("  pre-existing content: list of 14"); break;
        }
        PBT_CHECK(c, rc == 0, "C14.build_refused", "prefill failed");
    }

    void plain_roundtrip(const NodeP &model) {
        Tree t;
        Builder b(c); b.root = &t.root; b.what = "tree";
        b.build(nullptr, "", model);
        expect_tree(t.root, model, "C14.build_mismatch", "tree built through the API", "");

        // 1. export
        std::string text;
        {
            MemOut out; ErrLog log;
            PBT_CHECK(c, out.fp != nullptr, "harness.error", "open_memstream failed");
            errno = 0;
            int rc = vnaproperty_export_yaml_to_file(t.root, out.fp, "export.yaml", errlog_fn, &log);
            int e = errno;
            text = out.finish();
            PBT_CHECK(c, rc == 0, "C14.export_failed", "vnaproperty_export_yaml_to_file returned %d (errno %s; callback: %s) for %s", rc, strerror(e), clip(ascii(log.text()), 400).c_str(), clip(ashow(model), 1200).c_str());
            expect_quiet(log, "C14.export_reported_error", "successful export", text);
        }
        c.note("exported YAML: %s", clip(aesc(text), 1800).c_str());
        PBT_CHECK(c, !text.empty() && text.find('\0') == std::string::npos && decode_utf8(text, nullptr), "C14.export_invalid_utf8", "exported text is empty, contains NUL or is not valid UTF-8: %s", clip(aesc(text), 1500).c_str());
        dump_corpus("yaml", text);
        // export must not change the tree
        expect_tree(t.root, model, "C14.export_modified_tree", "tree after export", text);
        // failure path: a FILE* that cannot be written (unbuffered /dev/full) -> -1 (vnaproperty(3) RETURN VALUE),
        // no crash, no leak, tree untouched
        if (c.chance(1, 16)) {
            File f; f.fp = fopen("/dev/full", "w");
            if (!f.fp) c.label("skipped:no-/dev/full");
            else {
                c.label("route:export-to-unwritable-file");
                c.note("export to unbuffered /dev/full");
                setvbuf(f.fp, nullptr, _IONBF, 0);
                ErrLog log;
                int rc = vnaproperty_export_yaml_to_file(t.root, f.fp, "/dev/full", errlog_fn, &log);
                PBT_CHECK(c, rc == -1, "C14.export_write_error_ignored", "vnaproperty_export_yaml_to_file to an unwritable file returned %d", rc);
                expect_tree(t.root, model, "C14.export_modified_tree", "tree after failed export", text);
            }
        }

        // 2. import from string / from file into a fresh root
        {
            Tree r; ErrLog log;
            errno = 0;
            int rc = vnaproperty_import_yaml_from_string(&r.root, text.c_str(), errlog_fn, &log);
            PBT_CHECK(c, rc == 0, "C14.import_string_failed", "vnaproperty_import_yaml_from_string refused the library's own export (errno %s; callback: %s)\n--- YAML text ---\n%s", strerror(errno), clip(ascii(log.text()), 500).c_str(), clip(aesc(text), 1500).c_str());
            expect_quiet(log, "C14.import_reported_error", "successful import_yaml_from_string", text);
            expect_tree(r.root, model, "C14.import_string_differs", "import_yaml_from_string of the exported text", text);
        }
        {
            Tree r; ErrLog log; File in;
            in.fp = fmemopen((void *)text.data(), text.size(), "r");
            PBT_CHECK(c, in.fp != nullptr, "harness.error", "fmemopen failed");
            errno = 0;
            int rc = vnaproperty_import_yaml_from_file(&r.root, in.fp, "import.yaml", errlog_fn, &log);
            PBT_CHECK(c, rc == 0, "C14.import_file_failed", "vnaproperty_import_yaml_from_file refused the library's own export (errno %s; callback: %s)\n--- YAML text ---\n%s", strerror(errno), clip(ascii(log.text()), 500).c_str(), clip(aesc(text), 1500).c_str());
            expect_quiet(log, "C14.import_reported_error", "successful import_yaml_from_file", text);
            expect_tree(r.root, model, "C14.import_file_differs", "import_yaml_from_file of the exported text", text);
        }
        // 3. vnaproperty(3): "... places it at rootptr, replacing any existing content"
        if (c.chance(1, 3)) {
            c.label("import:into-non-empty-root");
            Tree r; ErrLog log;
            prefill(&r.root, model);
            bool from_file = c.boolean();
            int rc;
            if (from_file) { File in; in.fp = fmemopen((void *)text.data(), text.size(), "r"); PBT_CHECK(c, in.fp != nullptr, "harness.error", "fmemopen failed"); rc = vnaproperty_import_yaml_from_file(&r.root, in.fp, "import.yaml", errlog_fn, &log); }
            else rc = vnaproperty_import_yaml_from_string(&r.root, text.c_str(), errlog_fn, &log);
            PBT_CHECK(c, rc == 0, "C14.import_string_failed", "import into a non-empty root failed (callback: %s)", clip(ascii(log.text()), 500).c_str());
            expect_tree(r.root, model, "C14.import_not_replacing", from_file ? "import_yaml_from_file into a root with existing content (vnaproperty(3): replacing any previous content)" : "import_yaml_from_string into a root with existing content (vnaproperty(3): replacing any existing content)", text);
        }
        // 4. independent reader
        check_yamlcpp(text, model, "vnaproperty_export_yaml_to_file");
    }

    // cheap calibration: 1x1 T8, one frequency, error box e00 = 0.1, e10e01 = 0.9, e11 = 0.2
    int add_calibration(vnacal_t *vcp, ErrLog &log) {
        CalNew nw;
        nw.n = vnacal_new_alloc(vcp, VNACAL_T8, 1, 1, 1);
        PBT_CHECK(c, nw.n != nullptr, "C14.cal_setup", "vnacal_new_alloc failed: %s", ascii(log.text()).c_str());
        double f = 1e9;
        PBT_CHECK(c, vnacal_new_set_frequency_vector(nw.n, &f) == 0, "C14.cal_setup", "set_frequency_vector failed: %s", ascii(log.text()).c_str());
        static const int std_[3] = {VNACAL_SHORT, VNACAL_OPEN, VNACAL_MATCH};
        static const double gamma[3] = {-1.0, 1.0, 0.0};
        for (int i = 0; i < 3; i++) {
            dcx mv = mkc(0.1 + 0.9 * gamma[i] / (1.0 - 0.2 * gamma[i]), 0.0);
            dcx *cell = &mv;
            dcx *const *m = &cell;
            PBT_CHECK(c, vnacal_new_add_single_reflect_m(nw.n, m, 1, 1, std_[i], 1) == 0, "C14.cal_setup", "add_single_reflect_m failed: %s", ascii(log.text()).c_str());
        }
        PBT_CHECK(c, vnacal_new_solve(nw.n) == 0, "C14.cal_setup", "vnacal_new_solve failed: %s", ascii(log.text()).c_str());
        int rc = vnacal_add_calibration(vcp, "cal0", nw.n);
        PBT_CHECK(c, rc >= 0, "C14.cal_setup", "vnacal_add_calibration failed: %s", ascii(log.text()).c_str());
        int ci = vnacal_find_calibration(vcp, "cal0");
        PBT_CHECK(c, ci >= 0, "C14.cal_setup", "vnacal_find_calibration failed: %s", ascii(log.text()).c_str());
        return ci;
    }

    void vnacal_roundtrip(const NodeP &gmodel, const NodeP &cmodel, bool with_cal) {
        ErrLog log;
        Cal a;
        a.v = vnacal_create(errlog_fn, &log);
        PBT_CHECK(c, a.v != nullptr, "C14.cal_setup", "vnacal_create failed");
        int ci = -1;
        if (with_cal) ci = add_calibration(a.v, log);
        {
            Builder b(c); b.vcp = a.v; b.ci = -1; b.what = "global";
            b.build(nullptr, "", gmodel);
            expect_tree(vnacal_property_get_subtree(a.v, -1, "."), gmodel, "C14.build_mismatch", "global properties built through vnacal_property_*", "");
        }
        if (with_cal) {
            Builder b(c); b.vcp = a.v; b.ci = ci; b.what = "cal";
            b.build(nullptr, "", cmodel);
            expect_tree(vnacal_property_get_subtree(a.v, ci, "."), cmodel, "C14.build_mismatch", "calibration properties built through vnacal_property_*", "");
        }
        Fd mf;
        mf.fd = memfd_create("c14.vnacal", 0);
        PBT_CHECK(c, mf.fd >= 0, "harness.error", "memfd_create failed: %s", strerror(errno));
        char path[64]; snprintf(path, sizeof path, "/proc/self/fd/%d", mf.fd);
        // failure path: vnacal_save to a file that cannot be written -> -1, no crash, no leak, container still usable
        if (c.chance(1, 8)) {
            if (access("/dev/full", W_OK) != 0) c.label("skipped:no-/dev/full");
            else {
                c.label("route:vnacal_save-to-unwritable-file");
                c.note("vnacal_save to /dev/full");
                int rc0 = vnacal_save(a.v, "/dev/full");
                PBT_CHECK(c, rc0 == -1, "C14.export_write_error_ignored", "vnacal_save to /dev/full returned %d", rc0);
                expect_tree(vnacal_property_get_subtree(a.v, -1, "."), gmodel, "C14.export_modified_tree", "global properties after failed vnacal_save", "");
            }
        }
        log.clear();
        int rc = vnacal_save(a.v, path);
        PBT_CHECK(c, rc == 0, "C14.vnacal_save_failed", "vnacal_save failed (callback: %s) global %s", clip(ascii(log.text()), 500).c_str(), clip(ashow(gmodel), 1000).c_str());
        std::string text;
        {
            struct stat st; PBT_CHECK(c, fstat(mf.fd, &st) == 0, "harness.error", "fstat failed");
            text.resize((size_t)st.st_size);
            ssize_t n = pread(mf.fd, &text[0], text.size(), 0);
            PBT_CHECK(c, n == (ssize_t)text.size(), "harness.error", "pread failed");
        }
        expect_quiet(log, "C14.export_reported_error", "successful vnacal_save", text);
        c.note("saved calibration file: %s", clip(aesc(text), 1800).c_str());
        PBT_CHECK(c, decode_utf8(text, nullptr) && text.find('\0') == std::string::npos, "C14.export_invalid_utf8", "saved file contains NUL or is not valid UTF-8: %s", clip(aesc(text), 1500).c_str());
        dump_corpus("vnacal", text);
        ErrLog log2;
        Cal b;
        b.v = vnacal_load(path, errlog_fn, &log2);
        PBT_CHECK(c, b.v != nullptr, "C14.vnacal_load_failed", "vnacal_load refused the file written by vnacal_save (callback: %s)\n--- file ---\n%s", clip(ascii(log2.text()), 500).c_str(), clip(aesc(text), 1500).c_str());
        expect_quiet(log2, "C14.import_reported_error", "successful vnacal_load", text);
        expect_tree(vnacal_property_get_subtree(b.v, -1, "."), gmodel, "C14.vnacal_global_differs", "global properties after vnacal_save / vnacal_load", text);
        if (with_cal) {
            int cj = vnacal_find_calibration(b.v, "cal0");
            PBT_CHECK(c, cj >= 0, "C14.vnacal_load_failed", "calibration cal0 missing after load (callback: %s)", ascii(log2.text()).c_str());
            expect_tree(vnacal_property_get_subtree(b.v, cj, "."), cmodel, "C14.vnacal_cal_differs", "calibration properties after vnacal_save / vnacal_load", text);
        }
        check_yamlcpp(text, gmodel, "vnacal_save (global properties)", "properties");
        if (with_cal) check_yamlcpp(text, cmodel, "vnacal_save (calibration properties)", "calibrations", 0, "properties");
    }

    void run() {
        TGen tg(c);
        int max_nodes = 3 + c.size / 2;
        NodeP model = tg.gen_tree(max_nodes);
        Stats st; st.walk(model, 0);
        st.labels(c, model, "");
        if (st.nontrivial()) c.nontrivial();
        if (c.want_desc) c.note("tree: %s", clip(ashow(model), 1800).c_str());
        // plain only | + vnacal global | + vnacal global and per-calibration.  The calibration route is the
        // most expensive one and is kept rarer.
        int route = c.weighted({10, 6, 4});
        plain_roundtrip(model);
        if (route >= 1) {
            NodeP cmodel;
            if (route == 2) {
                c.mark();
                cmodel = tg.gen_tree(2 + c.size / 5);
                Stats s2; s2.walk(cmodel, 0); s2.labels(c, cmodel, "cal-");
                if (s2.nontrivial()) c.nontrivial();
                if (c.want_desc) c.note("calibration tree: %s", clip(ashow(cmodel), 1800).c_str());
                c.label("route:vnacal-global+calibration");
            } else c.label("route:vnacal-global");
            vnacal_roundtrip(model, cmodel, route == 2);
        } else c.label("route:vnaproperty-only");
    }
};

} // namespace

void pbt_property(Ctx &c) {
    H h(c);
    h.run();
}
