// C02 -- self-calibration recovers unknown standard parameters and the calibration.
// (a) 2-port TRL (analytic path), (b) Levenberg-Marquardt path on every type, (c) near-TRL sets.
#include "pbt.hpp"
#include "calscen.hpp"

const char *PBT_PROPERTY = "C02";
using namespace pbt;
using namespace cs;

static const long double EPS = 1.1102230246251565e-16L;

namespace {

SCell const_cell(SCell::Kind k, int F, C v) { SCell s; s.kind = k; s.v.assign(F, v); return s; }

// "Both tolerances must be met before the system is considered to be converged" (vnacal_new(3)): the unknown
// parameters are judged by p_tolerance alone (ptol), the corrected device -- a function of the error terms -- by
// the larger of the two (tol).
void check_solution(Ctx &c, Scenario &sc, Runner &run, long double tol, long double kappa, const char *path, long double ptol = -1) {
    if (ptol < 0) ptol = tol;
    long double bound = 1e3L * ptol + 1e4L * EPS * kappa * 10 + 1e-9L;
    for (size_t k = 0; k < sc.uparams.size(); k++) for (int f = 0; f < sc.F; f++) {
        run.log.clear();
        dcx v = vnacal_get_parameter_value(run.vcp, sc.uparams[k].handle, sc.freq[f]);
        PBT_CHECK(c, re_(v) != HUGE_VAL, "C02.value_unavailable", "%s: get_parameter_value of solved parameter %zu failed: %s", path, k, run.log.text().c_str());
        long double e = std::abs(C(re_(v), im_(v)) - sc.uparams[k].truth[f]);
        c.track_max(std::string(path) + ": param err/bound", (double)(e / bound));
        PBT_CHECK(c, e <= bound, "C02.parameter_wrong", "%s: solved parameter %zu at f%d = %.9g%+.9gi, truth %.9Lg%+.9Lgi (error %.3Lg, bound %.3Lg; tol %.1Lg, kappa %.3Lg)",
                  path, k, f, re_(v), im_(v), sc.uparams[k].truth[f].real(), sc.uparams[k].truth[f].imag(), e, bound, tol, kappa);
    }
    bound = 1e3L * tol + 1e4L * EPS * kappa * 10 + 1e-9L;
    int ci = vnacal_add_calibration(run.vcp, "c", run.vnp);
    PBT_CHECK(c, ci >= 0, "C02.add_calibration", "add_calibration failed: %s", run.log.text().c_str());
    ci = vnacal_find_calibration(run.vcp, "c");
    if (!run.apply_supported()) return;
    std::vector<Mat> out;
    int rc = run.apply(ci, sc.dut, out);
    PBT_CHECK(c, rc == 0, "C02.apply_failed", "apply failed: %s", run.log.text().c_str());
    long double worst = 0;
    for (int f = 0; f < sc.F; f++) for (int i = 0; i < sc.P; i++) for (int j = 0; j < sc.P; j++) worst = std::max(worst, std::abs(out[f](i, j) - sc.dut[f](i, j)));
    c.track_max(std::string(path) + ": dut err/bound", (double)(worst / (10 * bound)));
    PBT_CHECK(c, worst <= 10 * bound, "C02.dut_mismatch", "%s: corrected device off by %.3Lg (bound %.3Lg; tol %.1Lg, kappa %.3Lg)", path, worst, 10 * bound, tol, kappa);
}

// "Solve again on another grid": the same unknown handles are solved a second time on a different frequency grid
// of the same length -- on the same vnacal_new_t after vnacal_new_set_frequency_vector, or in a second
// vnacal_new_t of the same vnacal_t.  vnacal_get_parameter_value must then answer with the values of the new
// solve at the new frequencies (the measurements, and so the truths, stay attached to the frequency index).
// The new grid lies inside the old one, so vector guesses made on the old grid stay defined (and in the basin:
// the truths turn by 0.05 rad per index); known vector cells are re-made on the new grid (second object) or
// absent (same object); a 1-point vector guess has no other frequency to be evaluated at: skipped.
template <class Setup>
void resolve_on_other_grid(Ctx &c, Scenario &sc, Runner &run, long double tol, long double kappa, const char *path, bool must_solve, Setup setup, long double ptol = -1) {
    bool known_vec = false, guess_vec = false;
    for (auto &st : sc.stds) for (auto &cell : st.cells) if (cell.uparam < 0 && cell.kind == SCell::VECTOR) known_vec = true;
    for (auto &u : sc.uparams) if (!u.correlated && u.guess_vector) guess_vec = true;
    if (sc.F == 1 && guess_vec) { c.label("regrid:skipped(1-point vector guess)"); return; }
    bool same_object = !known_vec && c.boolean();
    std::vector<double> f2(sc.F);
    if (sc.F == 1) f2[0] = sc.freq[0] * (c.boolean() ? 1.25 : 0.75);
    else {
        for (int i = 0; i + 1 < sc.F; i++) f2[i] = sc.freq[i] + 0.3 * (sc.freq[i + 1] - sc.freq[i]);
        f2[sc.F - 1] = sc.freq[sc.F - 1] - 0.3 * (sc.freq[sc.F - 1] - sc.freq[sc.F - 2]);
    }
    c.note("  re-solve on another grid (%s): f[0] %.6g -> %.6g", same_object ? "same vnacal_new_t, set_frequency_vector" : "second vnacal_new_t sharing the unknown handles", sc.freq[0], f2[0]);
    sc.freq = f2;
    if (same_object) {
        PBT_CHECK(c, vnacal_new_set_frequency_vector(run.vnp, f2.data()) == 0, "C02.regrid_refused", "vnacal_new_set_frequency_vector after a solve failed: %s", run.log.text().c_str());
        c.label("regrid:same-object");
    } else {
        vnacal_new_free(run.vnp); run.vnp = nullptr;
        for (auto &st : sc.stds) for (auto &cell : st.cells) if (cell.uparam < 0) cell.handle = -1;     // known cells: fresh parameters on the new grid
        run.alloc(); setup(run);
        for (auto &st : sc.stds) PBT_CHECK(c, run.add(st) == 0, "C02.add_refused", "add refused in the second vnacal_new_t: %s", run.log.text().c_str());
        c.label("regrid:second-object");
    }
    run.log.clear(); errno = 0;
    int rc = vnacal_new_solve(run.vnp); int err = errno;
    if (rc != 0) {
        PBT_CHECK(c, err == EDOM && run.log.n_nonwarning() >= 1, "C02.failure_report", "re-solve failed with errno %d (%s) / callbacks: %s", err, strerror(err), run.log.text().c_str());
        PBT_CHECK(c, !must_solve, "C02.trl_failed", "analytic TRL failed when solved again on another grid (kappa %.3Lg): %s", kappa, run.log.text().c_str());
        c.label("regrid:solve-failed"); return;
    }
    PBT_CHECK(c, run.log.n_nonwarning() == 0, "C02.success_with_error_callback", "re-solve returned 0 but reported: %s", run.log.text().c_str());
    c.label("regrid:solved");
    check_solution(c, sc, run, tol, kappa, path, ptol);
}

void describe(Ctx &c, Scenario &sc) {
    c.note("%s, %zu unknown parameters", sc.describe().c_str(), sc.uparams.size());
    for (auto &st : sc.stds) c.note("  %s", st.describe().c_str());
    for (size_t k = 0; k < sc.uparams.size(); k++) { auto &u = sc.uparams[k]; c.note("  param %zu: %s truth %.4Lg%+.4Lgi guess %.4Lg%+.4Lgi%s", k, u.correlated ? (u.other >= 0 ? "correlated with an unknown (guess column: its index)" : "correlated") : "unknown", u.truth[0].real(), u.truth[0].imag(), u.correlated ? (u.other >= 0 ? (long double)u.other : u.other_value.real()) : u.guess[0].real(), u.correlated ? u.other_value.imag() : u.guess[0].imag(), u.guess_vector ? " (vector guess)" : ""); }
}

// ---- (a) TRL -------------------------------------------------------------------------------
void trl(Ctx &c, bool near) {
    Scenario sc;
    static const int types[4] = {vm::T8, vm::U8, vm::TE10, vm::UE10};
    sc.type = types[c.draw(4)]; sc.r = sc.c = sc.P = 2;
    sc.F = 1 + (int)c.draw(3); sc.ab = c.boolean();
    sc.freq = gen_freqs(c, sc.F);
    for (int f = 0; f < sc.F; f++) { Box b = gen_box(c, sc.type, 2, 2); b.El(0, 1) = b.El(1, 0) = 0; sc.box.push_back(b); }   // TRL has no isolation standard: no leakage to find
    Gen g(c, sc);
    // truths
    UParam R, L;
    C r0 = rnd_disk(c, 0.5L, 1.0L);
    long double rho = 0.7L + 0.3L * c.unit(), th0 = (20 + 100 * c.unit()) * M_PIl / 180;
    for (int f = 0; f < sc.F; f++) { R.truth.push_back(r0 * polar(1, 0.05L * f)); L.truth.push_back(polar(rho, -(th0 + 0.2L * f))); }
    for (auto *u : {&R, &L}) { u->guess_vector = sc.F > 1 || c.boolean(); C d = rnd_disk(c, 0, 0.25L); for (auto &t : u->truth) u->guess.push_back(t * (C(1, 0) + d)); }
    sc.uparams = {R, L};
    // T
    Standard T; T.k = 2; T.ports = c.boolean() ? std::vector<int>{0, 1} : std::vector<int>{1, 0};
    if (c.boolean()) T.entry = Standard::THROUGH; else { T.entry = Standard::LINE; T.cells = {const_cell(SCell::MATCH, sc.F, 0), const_cell(SCell::OPEN, sc.F, 1), const_cell(SCell::OPEN, sc.F, 1), const_cell(SCell::MATCH, sc.F, 0)}; }
    g.finish(T);
    // R: the same unknown reflect on both ports
    Standard Rs; Rs.k = 2; Rs.ports = c.boolean() ? std::vector<int>{0, 1} : std::vector<int>{1, 0};
    SCell rc; rc.kind = SCell::SCALAR; rc.v = R.truth; rc.uparam = 0;
    int near_kind = near ? (int)c.draw(4) : -1;
    if (near_kind == 0) { Rs.entry = Standard::SINGLE; Rs.k = 1; Rs.ports = {(int)c.draw(2)}; Rs.cells = {rc}; }      // reflect on one port only
    else if (near_kind == 1) {      // unknown reflect on one port, a KNOWN different reflect on the other
        Rs.entry = Standard::DOUBLE; SCell known = make_cell(c, sc.F, c.boolean() ? C(1, 0) : rnd_disk(c, 0.5L, 1.0L));
        Rs.cells = c.boolean() ? std::vector<SCell>{rc, known} : std::vector<SCell>{known, rc};
    } else if (near_kind == 2) {    // two DIFFERENT unknown reflects; the line is known instead
        UParam R2; C r2 = rnd_disk(c, 0.5L, 1.0L); for (int f = 0; f < sc.F; f++) R2.truth.push_back(r2 * polar(1, -0.05L * f));
        R2.guess_vector = sc.F > 1; { C d = rnd_disk(c, 0, 0.1L); for (auto &t : R2.truth) R2.guess.push_back(t * (C(1, 0) + d)); }
        sc.uparams[1] = R2;
        SCell rc2; rc2.kind = SCell::SCALAR; rc2.v = R2.truth; rc2.uparam = 1;
        Rs.entry = Standard::DOUBLE; Rs.cells = {rc, rc2};
    } else { Rs.entry = Standard::DOUBLE; Rs.cells = {rc, rc}; }
    g.finish(Rs);
    // L: unknown transmission
    Standard Ls; Ls.entry = Standard::LINE; Ls.k = 2; Ls.ports = c.boolean() ? std::vector<int>{0, 1} : std::vector<int>{1, 0};
    SCell lc; lc.kind = SCell::SCALAR; lc.v = L.truth; lc.uparam = 1;
    if (near_kind == 2) { lc.uparam = -1; if (sc.F > 1) lc.kind = SCell::VECTOR; }     // known line
    Ls.cells = {const_cell(SCell::MATCH, sc.F, 0), lc, lc, const_cell(SCell::MATCH, sc.F, 0)};
    if (near_kind == 3) {           // unknown transmission in one direction only, the other direction known
        SCell kn; kn.kind = sc.F > 1 ? SCell::VECTOR : SCell::SCALAR; kn.v = L.truth;
        if (c.boolean()) Ls.cells[1] = kn; else Ls.cells[2] = kn;
    }
    g.finish(Ls);
    sc.stds = {T, Rs, Ls};
    g.shuffle();
    sc.dut = gen_dut(c, 2, sc.F);
    describe(c, sc);
    c.label(near ? "path:near-TRL" : "path:TRL"); if (near) { char nl[32]; snprintf(nl, sizeof nl, "near-TRL:kind%d", near_kind); c.label(nl); } c.label(std::string("type:") + vm::tname(sc.type));
    // "lossy test set", one case in eight: both tracking terms of every port scaled by 10^-1.5 .. 10^-3, so that the
    // transmission products of the closed-form line solution fall around the library's absolute singularity threshold
    // (1e-8).  Below it the analytic solve legitimately fails (one error report, -1); above it it must be accurate to
    // the conditioning.  Either way a success never comes with an error report.
    bool lossy = c.chance(1, 8);
    if (lossy) {
        long double lam = std::pow(10.0L, -(1.5L + 1.5L * c.unit()));
        for (auto &b : sc.box) for (int i = 0; i < 2; i++) { b.Er(i, i) *= lam; b.Et(i, i) *= lam; }
        c.label("TRL:lossy-test-set"); c.note("  lossy test set: tracking terms scaled by %.3Lg", lam);
    }
    long double kappa = 0; bool det = true;
    for (int f = 0; f < sc.F; f++) { vm::Ident id = ident_with_unknowns(sc, f); if (!id.determining) det = false; kappa = std::max(kappa, id.kappa); }
    if (!near && !lossy && !det) { c.label("filtered:not-determining"); return; }
    // A perfectly matched test port makes the closed-form reflect solution 0/0; the library then solves that
    // frequency with its general iterative method (default tolerances 1e-6), so the closed-form bound and the
    // "must succeed" assertion apply only when both ports have a match error (generated ones are >= 0.004).
    bool ideal_port = false;
    for (int f = 0; f < sc.F; f++) for (int i = 0; i < 2; i++) if (sc.box[f].Em(i, i) == C(0, 0)) ideal_port = true;
    if (ideal_port) c.label("TRL:ideal-port");
    const bool iterative = near || ideal_port;
    const bool may_fail = iterative || lossy;

    Runner run(c, sc); run.create(); run.alloc();
    // sets that go through the iterative solver (near-TRL, or TRL with an ideal port): a quarter get an iteration limit of
    // 1..2, which the solver will usually exhaust -- the call must then FAIL with a convergence error, never report success
    if (iterative && c.chance(1, 4)) { int lim = (int)c.range(1, 2); PBT_CHECK(c, vnacal_new_set_iteration_limit(run.vnp, lim) == 0, "C02.knobs", "set_iteration_limit failed"); c.label("TRL:tiny-iteration-limit"); }
    int idx = 0;
    for (auto &st : sc.stds) { int rc2 = run.add(st); PBT_CHECK(c, rc2 == 0, "C02.add_refused", "standard %d (%s) refused: %s", idx, st.describe().c_str(), run.log.text().c_str()); idx++; }
    run.log.clear(); errno = 0;
    int rc2 = vnacal_new_solve(run.vnp); int err = errno;
    if (rc2 != 0) {
        PBT_CHECK(c, err == EDOM && run.log.n_nonwarning() >= 1, "C02.failure_report", "solve failed with errno %d (%s) / callbacks: %s", err, strerror(err), run.log.text().c_str());
        PBT_CHECK(c, may_fail, "C02.trl_failed", "analytic TRL failed on a well-conditioned instance (kappa %.3Lg): %s", kappa, run.log.text().c_str());
        c.label("solve:failed"); return;
    }
    c.label("solve:ok");
    PBT_CHECK(c, run.log.n_nonwarning() == 0, "C02.success_with_error_callback", "solve returned 0 but reported: %s", run.log.text().c_str());
    if (lossy) c.label("TRL:lossy-test-set:solved");
    if ((near || lossy) && !det) { c.label(near ? "near-TRL:not-determining" : "TRL:lossy-test-set:not-determining"); return; }
    c.nontrivial();
    check_solution(c, sc, run, iterative ? 1e-6L : 0, kappa, near ? "near-TRL" : ideal_port ? "TRL-ideal-port" : "TRL");      // near-TRL sets go through the iterative solver with the default tolerances (1e-6)
    if (c.chance(1, 3)) resolve_on_other_grid(c, sc, run, iterative ? 1e-6L : 0, kappa, near ? "near-TRL-regrid" : ideal_port ? "TRL-ideal-port-regrid" : "TRL-regrid", !may_fail, [](Runner &) {});
}

// ---- (b) Levenberg-Marquardt ------------------------------------------------------------------
void lm(Ctx &c, int force_type = -1, int *outcome = nullptr) {
    Scenario sc;
    sc.type = (int)c.draw(8); if (force_type >= 0) sc.type = force_type;
    if (outcome) *outcome = 0;
    gen_dims(c, sc.type, 3, sc.r, sc.c);
    sc.P = std::max(sc.r, sc.c);
    sc.F = 1 + (int)c.draw(2); sc.ab = c.boolean();
    sc.freq = gen_freqs(c, sc.F);
    for (int f = 0; f < sc.F; f++) sc.box.push_back(gen_box(c, sc.type, sc.r, sc.c));
    Gen g(c, sc);
    g.baseline(); g.extras(); g.cover_leakage(); g.shuffle();
    bool m_error = !vm::is_16(sc.type) && c.chance(1, 3);
    // choose 1..3 non-predefined cells to become unknown
    std::vector<SCell *> cand;
    for (auto &st : sc.stds) for (auto &cell : st.cells) if (cell.kind >= SCell::SCALAR && std::abs(cell.v[0]) > 0.05L) cand.push_back(&cell);
    if (cand.empty()) { c.label("filtered:no-candidate"); return; }
    int k = 1 + c.weighted({5, 3, 1});
    bool single_with_unknown = false, correlated = false;
    for (int i = 0; i < k && !cand.empty(); i++) {
        size_t j = c.draw(cand.size()); SCell *cell = cand[j]; cand.erase(cand.begin() + j);
        UParam u; u.truth = cell->v;
        if (c.chance(1, 4)) { u.correlated = true; correlated = true; for (auto &t : u.truth) t = cell->v[0]; cell->v = u.truth; u.other_value = u.truth[0]; u.sigma = std::pow(10.0, -1 - 2 * (double)c.unit()); }
        else { u.guess_vector = cell->kind == SCell::VECTOR; C d = rnd_disk(c, 0, 0.1L); for (auto &t : u.truth) u.guess.push_back(t + d); }
        cell->uparam = (int)sc.uparams.size();
        sc.uparams.push_back(u);
    }
    // connection-repeatability ("hub") model, a quarter of the cases: one of the unknowns becomes the true value of a
    // physical standard that is connected 2..6 times (the original cell plus 1..5 further single reflects on random
    // ports); every connection is a parameter of its own, correlated with the hub, and the hub itself appears in no
    // standard.  The truths of all connections equal the hub's (exact data: the correlation residuals vanish at the
    // truth), so the solution is the truth iff the COLLAPSED system -- all connections sharing one unknown -- is
    // identifiable; identifiability, kappa and the excess filter below are therefore evaluated on the collapsed form
    // and the scenario is expanded afterwards.  Such systems are usually over-determined only once the correlation
    // equations are counted (each connection adds a parameter for every measurement equation it brings).
    int hub = -1;
    if (c.chance(1, 4)) for (size_t i = 0; i < sc.uparams.size(); i++) if (!sc.uparams[i].correlated) { hub = (int)i; break; }
    if (hub >= 0) {
        UParam &h = sc.uparams[hub];
        C v = h.truth[0], d = h.guess[0] - h.truth[0];
        for (auto &t : h.truth) t = v;
        for (auto &gq : h.guess) gq = v + d;
        for (auto &st : sc.stds) for (auto &cell : st.cells) if (cell.uparam == hub) { cell.v = h.truth; cell.kf.clear(); cell.kv.clear(); }
        int extra = (int)c.range(1, 5);
        for (int i = 0; i < extra; i++) {
            Standard st = g.single((int)c.draw(sc.P), v);
            SCell &cell = st.cells[0]; cell.kind = SCell::SCALAR; cell.v = h.truth; cell.kf.clear(); cell.kv.clear(); cell.handle = -1; cell.uparam = hub;
            sc.stds.insert(sc.stds.begin() + c.draw(sc.stds.size() + 1), st);
        }
    }
    for (auto &st : sc.stds) { bool hasu = false; for (auto &cell : st.cells) if (cell.uparam >= 0) hasu = true; if (hasu && (int)st.ports.size() < sc.P) single_with_unknown = true; g.finish(st); }
    // "later-frequency stress": the guess is exact at the first frequency and far outside the basin at the last one,
    // with a tiny iteration limit -- the first frequency converges at once, a later one most likely does not, and
    // the call as a whole must then FAIL (a success must never come with an error report)
    bool late_stress = false;
    if (sc.F >= 2 && !sc.uparams.empty() && !sc.uparams[0].correlated && c.chance(1, 6)) {
        UParam &u = sc.uparams[0]; u.guess_vector = true;
        u.guess = u.truth; u.guess.back() = u.truth.back() * C(-2.5L, 1.5L) + C(0.7L, -0.9L);
        late_stress = true;
    }
    sc.dut = gen_dut(c, sc.P, sc.F);
    long double kappa = 0; int excess = 1 << 30;
    for (int f = 0; f < sc.F; f++) {
        vm::Ident id = ident_with_unknowns(sc, f);
        if (!id.determining || id.kappa > 1e4L) { c.label("filtered:not-determining"); return; }
        kappa = std::max(kappa, id.kappa); excess = std::min(excess, id.ncells - id.rank_expected);
    }
    if (excess < (int)sc.uparams.size() + (hub >= 0 ? 1 : 2)) { c.label("filtered:too-little-excess"); return; }
    // expand the hub model: one correlated parameter per connection, the hub left without a standard of its own
    bool closes_only_with_correlation = false; int hub_collapsed = 0;
    if (hub >= 0) {
        hub_collapsed = (int)sc.uparams.size();
        int meas_for_params = excess + (int)sc.uparams.size();      // measurement equations beyond the error terms (collapsed count == expanded count)
        double sigma = std::pow(10.0, -1 - 2 * (double)c.unit());
        for (auto &st : sc.stds) for (auto &cell : st.cells) if (cell.uparam == hub) {
            UParam u; u.correlated = true; u.other = hub; u.truth = sc.uparams[hub].truth; u.sigma = sigma;
            cell.uparam = (int)sc.uparams.size(); sc.uparams.push_back(u);
        }
        correlated = true;
        closes_only_with_correlation = meas_for_params < (int)sc.uparams.size();
    }
    long double ptol = std::pow(10.0L, -(long double)c.range(4, 12)), ettol = std::pow(10.0L, -(long double)c.range(4, 12));
    int itlimit = (late_stress || c.chance(1, 6)) ? (int)c.range(1, 3) : (int)c.range(30, 100);
    describe(c, sc);
    c.note("  p_tol %.0Le et_tol %.0Le iteration_limit %d m_error %d kappa %.3Lg excess %d", ptol, ettol, itlimit, (int)m_error, kappa, excess);
    c.label("path:LM"); c.label(std::string("type:") + vm::tname(sc.type));
    if (single_with_unknown) c.label("unknown-with-unspecified-S-cells");
    if (correlated) c.label("correlated");
    if (hub >= 0) { c.label("hub-model"); if (closes_only_with_correlation) c.label("hub-model:over-determined-only-with-correlation-equations"); }
    if (m_error) c.label("m_error");
    if (late_stress) c.label("LM:later-frequency-stress");

    Runner run(c, sc); run.create(); run.alloc();
    PBT_CHECK(c, vnacal_new_set_p_tolerance(run.vnp, (double)ptol) == 0 && vnacal_new_set_et_tolerance(run.vnp, (double)ettol) == 0 && vnacal_new_set_iteration_limit(run.vnp, itlimit) == 0,
              "C02.knobs", "tolerance / iteration setters failed: %s", run.log.text().c_str());
    if (m_error) { double nf = 1e-6, tr = 1e-6; int rc = vnacal_new_set_m_error(run.vnp, nullptr, 1, &nf, c.boolean() ? &tr : nullptr); PBT_CHECK(c, rc == 0, "C02.set_m_error", "set_m_error failed: %s", run.log.text().c_str()); }
    int idx = 0;
    for (auto &st : sc.stds) { int rc = run.add(st); PBT_CHECK(c, rc == 0, "C02.add_refused", "standard %d (%s) refused: %s", idx, st.describe().c_str(), run.log.text().c_str()); idx++; }
    run.log.clear(); errno = 0;
    int rc = vnacal_new_solve(run.vnp); int err = errno;
    if (rc != 0) {
        PBT_CHECK(c, err == EDOM && run.log.n_nonwarning() >= 1 && run.log.last()->category == VNAERR_MATH, "C02.failure_report", "solve failed with errno %d (%s) / callbacks: %s", err, strerror(err), run.log.text().c_str());
        // every system that gets here is identifiable and over-determined (counting, for hub models, the correlation
        // equations the library documents as part of the system): it may fail to converge, it may not be refused
        // as under-determined -- that would take the whole family out of the property's domain
        PBT_CHECK(c, run.log.text().find("not enough standards") == std::string::npos, "C02.refused_as_underdetermined",
                  "an identifiable, over-determined system (%d measurement equations beyond the error terms%s, %zu unknown parameters) was refused: %s",
                  excess + (int)sc.uparams.size() - (hub >= 0 ? (int)sc.uparams.size() - hub_collapsed : 0), hub >= 0 ? " plus one correlation equation per connection" : "", sc.uparams.size(), run.log.text().c_str());
        if (itlimit > 3 && !late_stress && outcome) *outcome = 2;
        if (itlimit > 3 && !late_stress) c.label(vm::is_colsys(sc.type) ? "LM:column-system-type:failed(limit>=30)" : "LM:single-system-type:failed(limit>=30)");   // reported, not asserted (DESIGN section 7)
        c.label(itlimit <= 3 ? "solve:failed(limit<=3)" : "solve:failed"); if (late_stress) { c.label("LM:later-frequency-stress:failed"); c.nontrivial(); } return;
    }
    c.label("solve:ok");
    PBT_CHECK(c, run.log.n_nonwarning() == 0, "C02.success_with_error_callback", "solve returned 0 but reported: %s", run.log.text().c_str());
    if (itlimit > 3 && !late_stress && outcome) *outcome = 1;
    if (itlimit > 3 && !late_stress) c.label(vm::is_colsys(sc.type) ? "LM:column-system-type:solved(limit>=30)" : "LM:single-system-type:solved(limit>=30)");
    if (late_stress) { c.label("LM:later-frequency-stress:solved"); return; }     // the guess was outside the basin on purpose: nothing is claimed about the values
    if (single_with_unknown || sc.uparams.size() >= 2 || correlated || itlimit <= 3) c.nontrivial();
    // with error weighting the exact data are still exact: same bound
    check_solution(c, sc, run, std::max(ptol, ettol), kappa, "LM", ptol);
    if (ptol * 100 <= ettol) c.label("LM:p_tol<<et_tol");
    auto knobs = [&](Runner &r) {
        PBT_CHECK(c, vnacal_new_set_p_tolerance(r.vnp, (double)ptol) == 0 && vnacal_new_set_et_tolerance(r.vnp, (double)ettol) == 0 && vnacal_new_set_iteration_limit(r.vnp, itlimit) == 0, "C02.knobs", "setters failed");
        if (m_error) { double nf = 1e-6; PBT_CHECK(c, vnacal_new_set_m_error(r.vnp, nullptr, 1, &nf, nullptr) == 0, "C02.set_m_error", "set_m_error failed"); }
    };
    // "tightening the tolerances tightens the result": the same instance with both tolerances / 100 must, if it
    // converges within the limit, meet the correspondingly tighter bound
    if (itlimit > 3 && c.chance(1, 3)) {
        Runner run2(c, sc); run2.create(); run2.alloc();
        long double p2 = ptol / 100, e2 = c.boolean() ? ettol / 100 : ettol;      // both, or p_tolerance alone
        PBT_CHECK(c, vnacal_new_set_p_tolerance(run2.vnp, (double)p2) == 0 && vnacal_new_set_et_tolerance(run2.vnp, (double)e2) == 0 && vnacal_new_set_iteration_limit(run2.vnp, itlimit) == 0, "C02.knobs", "setters failed");
        if (m_error) { double nf = 1e-6; PBT_CHECK(c, vnacal_new_set_m_error(run2.vnp, nullptr, 1, &nf, nullptr) == 0, "C02.set_m_error", "set_m_error failed"); }
        for (auto &st : sc.stds) PBT_CHECK(c, run2.add(st) == 0, "C02.add_refused", "add refused on the second run: %s", run2.log.text().c_str());
        run2.log.clear(); errno = 0;
        if (vnacal_new_solve(run2.vnp) == 0) { c.label("tightened:ok"); check_solution(c, sc, run2, std::max(p2, e2), kappa, "LM-tightened", p2); }
        else { PBT_CHECK(c, errno == EDOM, "C02.failure_report", "tightened run failed with errno %d", errno); c.label("tightened:failed"); }
        return;     // run2 re-made the parameter handles in its own vnacal_t
    }
    if (itlimit > 3 && c.chance(1, 2)) resolve_on_other_grid(c, sc, run, std::max(ptol, ettol), kappa, "LM-regrid", false, knobs, ptol);
}

// ---- (c) the column-system types stay in the property's domain ------------------------------------
// The property's conclusions are conditional on a successful solve, and whether one instance converges is not
// asserted (the basin is not computable).  But "all over-determined systems ... on every type" is void for a type on
// which the solver stops converging.  One tape case here is a BATCH of 120 LM instances on UE14 / E12 (the types whose
// error terms form one linear system per column) drawn from a stream seeded from the tape; among those that pass
// the identifiability / excess filters and have an iteration limit >= 30, at most 30 % may fail to converge.  The
// unchanged tree fails 3..4 % (binomial tail of 15 failures in 48 at p = 0.04: < 1e-10); every instance is still
// checked in full.
static pbt::Shared g_aux;
void colsys_convergence_batch(Ctx &c) {
    uint64_t seed = c.draw(1ull << 40);
    int solved = 0, failed = 0;
    for (int i = 0; i < 120; i++) {
        Ctx a; a.sh = &g_aux; a.rng = pbt::mix(seed, 0x0200 + i); a.size = c.size;
        int out = 0;
        lm(a, (i & 1) ? vm::UE14 : vm::E12, &out);
        if (out == 1) solved++; else if (out == 2) failed++;
    }
    c.label("batch:column-system-convergence");
    c.note("batch seed %llu: %d of %d eligible UE14/E12 self-calibrations converged", (unsigned long long)seed, solved, solved + failed);
    if (solved + failed < 25) { c.label("batch:too-few-eligible(inconclusive)"); return; }
    c.track_max("batch: fraction of eligible UE14/E12 self-calibrations that failed to converge", (double)failed / (solved + failed));
    PBT_CHECK(c, failed * 10 <= 3 * (solved + failed), "C02.column_system_types_stopped_converging",
              "%d of %d identifiable, over-determined UE14/E12 self-calibrations with guesses within 0.1 of the truth and an iteration limit >= 30 failed to converge (unchanged tree: 3..4 %%; limit 30 %%)", failed, solved + failed);
    c.nontrivial();
}

} // namespace

void pbt_property(Ctx &c) {
    switch (c.weighted({3, 5, 3, 1})) {
    case 0: trl(c, false); break;
    case 1: lm(c); break;
    case 3: if (c.chance(1, 30)) colsys_convergence_batch(c); else lm(c); break;
    default: trl(c, true); break;
    }
}
