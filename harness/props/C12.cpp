// C12 -- any single allocation failure yields a clean ENOMEM failure, nothing worse.
//
// Exhaustive fault enumeration over hand-written scripts (DESIGN.md section 3, C12).
// A case is (script, variant, fault point): the script is first run without faults,
// counting the allocations libvna requests in every step (K_s); the fault point
// selects (step s, k < K_s).  The script is then run again: steps < s normally,
// step s with its k-th allocation failing once, the SAME call repeated without
// fault if it failed, then the rest of the script.  libvna is built with
// -include alloc_hook.h (variant "fi"): only allocations requested by libvna code
// are counted and failed (malloc/calloc/realloc/strdup/vasprintf).
#include "pbt.hpp"
#include <sys/mman.h>
#include <functional>
#include <memory>
#include <map>
#include <string>
#include <vector>
#include <complex>
#include <algorithm>
#include "vna.hpp"
#define VERIF_FI_HARNESS 1
#include "alloc_hook.h"

const char *PBT_PROPERTY = "C12";

using namespace pbt;

namespace {

// ----------------------------------------------------------------- world --
// Live objects of one script run.  Everything is released by the destructor
// (with fault injection paused), whatever state the script stopped in.
struct World {
    ErrLog log;
    int err = 0;          // errno right after the last API call
    long rc = 0;          // integer return value of the last API call (if any)
    bool rc_bad = false;  // return value outside the documented set
    bool rc_value = false;// the call returned a value (handle, index, count): part of the observable result
    bool probing = false; // observations are being made after a FAILED call (usability probe, not compared)
    std::string probe_bad;// set by an observation that got an insane answer while probing
    vnadata_t *vd[4] = {nullptr, nullptr, nullptr, nullptr};
    vnaproperty_t *prop[3] = {nullptr, nullptr, nullptr};
    vnacal_t *vc[2] = {nullptr, nullptr};
    vnacal_new_t *vn[4] = {nullptr, nullptr, nullptr, nullptr};   // all owned by vc[0]
    int par[32];
    int ci[6];
    char *str[4] = {nullptr, nullptr, nullptr, nullptr};
    std::string text[4];
    std::string tmp[4];
    std::string digest;
    int obs_fd = -1;          // memory file the observations let vnacal_save write into
    std::string obs_path;

    World() {
        obs_fd = memfd_create("c12-obs", 0);
        if (obs_fd >= 0) obs_path = "/proc/self/fd/" + std::to_string(obs_fd);
        for (int &p : par) p = -1;
        for (int &x : ci) x = -1;
        const char *td = getenv("PBT_TMPDIR"); if (!td) td = "/tmp";
        static const char *ext[4] = {".npd", ".s2p", ".ts", ".vnacal"};
        for (int i = 0; i < 4; i++) tmp[i] = std::string(td) + "/c12-" + std::to_string((int)getpid()) + "-" + std::to_string(i) + ext[i];
    }
    ~World() {
        verif_fi_pause();
        for (auto &p : vn) if (p && vc[0]) { vnacal_new_free(p); p = nullptr; }
        for (auto &p : vc) if (p) { vnacal_free(p); p = nullptr; }
        for (auto &p : vd) if (p) { vnadata_free(p); p = nullptr; }
        for (auto &p : prop) if (p) { (void)vnaproperty_delete(&p, "."); p = nullptr; }
        for (auto &p : str) { free(p); p = nullptr; }
        for (auto &t : tmp) unlink(t.c_str());
        if (obs_fd >= 0) close(obs_fd);
        verif_fi_resume();
    }
    void obs(const char *fmt, ...) __attribute__((format(printf, 2, 3))) {
        char buf[1024];
        va_list ap; va_start(ap, fmt); vsnprintf(buf, sizeof buf, fmt, ap); va_end(ap);
        digest += buf; digest += '\n';
    }
};

// ---------------------------------------------------------------- digests --
// Observable state only: getters, text of saved files, numeric outputs (hex floats:
// the faulted and the fault-free run perform the same arithmetic).  No addresses, no
// handle values.
// The bytes the object saves are part of its observable state: the saver is what walks the internal
// format vector, data and impedance vectors.  The text is put between SAVE markers so that the runner can
// tell it from the getter lines.  The observation must not change the object: a file type of AUTO and a
// format string rewritten by the saver (default format, bare ri/ma/dB resolved) are put back afterwards.
static const char SAVE_BEGIN[] = "<<SAVE\n", SAVE_END[] = "SAVE>>\n";
static void dump_vd_save(World &w, vnadata_t *v) {
    if (vnadata_get_type(v) == VPT_UNDEF || vnadata_get_frequencies(v) < 1 || vnadata_get_rows(v) < 1 || vnadata_get_columns(v) < 1) return;
    vnadata_filetype_t ft = vnadata_get_filetype(v);
    const char *f0 = vnadata_get_format(v);
    bool had = f0 != nullptr; std::string fmt = had ? f0 : "";
    if (ft == VNADATA_FILETYPE_AUTO) (void)vnadata_set_filetype(v, VNADATA_FILETYPE_NPD);
    char *buf = nullptr; size_t len = 0;
    FILE *fp = open_memstream(&buf, &len);
    if (fp) {
        errno = 0;
        int rc = vnadata_fsave(v, fp, "observation");
        int e = errno;
        fclose(fp);
        w.digest += SAVE_BEGIN;
        if (rc == 0) w.digest.append(buf, len); else w.obs("fsave: rc=%d errno=%d", rc, e);
        w.digest += SAVE_END;
        free(buf);
    }
    const char *f1 = vnadata_get_format(v);
    if ((f1 != nullptr) != had || (f1 && fmt != f1)) (void)vnadata_set_format(v, had ? fmt.c_str() : nullptr);
    if (ft == VNADATA_FILETYPE_AUTO) (void)vnadata_set_filetype(v, VNADATA_FILETYPE_AUTO);
}

static void dump_vd(World &w, const char *tag, const vnadata_t *v) {
    if (!v) { w.obs("%s: (none)", tag); return; }
    int F = vnadata_get_frequencies(v), R = vnadata_get_rows(v), C = vnadata_get_columns(v);
    int P = std::max(R, C);
    w.obs("%s: type=%s %dx%d F=%d filetype=%d format=%s fprec=%d dprec=%d fz0=%d", tag, type_name(vnadata_get_type(v)), R, C, F,
          (int)vnadata_get_filetype(v), vnadata_get_format(v) ? vnadata_get_format(v) : "(null)", vnadata_get_fprecision(v), vnadata_get_dprecision(v), (int)vnadata_has_fz0(v));
    for (int f = 0; f < F; f++) {
        std::string line;
        char b[128];
        snprintf(b, sizeof b, " f[%d]=%a:", f, vnadata_get_frequency(v, f)); line += b;
        for (int r = 0; r < R; r++) for (int cc = 0; cc < C; cc++) { dcx z = vnadata_get_cell(v, f, r, cc); snprintf(b, sizeof b, " %a%+ai", re_(z), im_(z)); line += b; }
        line += " z0:";
        for (int p = 0; p < P; p++) { dcx z = vnadata_get_fz0(v, f, p); snprintf(b, sizeof b, " %a%+ai", re_(z), im_(z)); line += b; }
        w.digest += line; w.digest += '\n';
    }
    if (F == 0 && !vnadata_has_fz0(v)) {
        std::string line = " z0:"; char b[128];
        for (int p = 0; p < P; p++) { dcx z = vnadata_get_z0(v, p); snprintf(b, sizeof b, " %a%+ai", re_(z), im_(z)); line += b; }
        w.digest += line; w.digest += '\n';
    }
    dump_vd_save(w, (vnadata_t *)v);
}

static void dump_prop_rec(World &w, const vnaproperty_t *node, int depth) {
    std::string ind((size_t)depth * 2, ' ');
    errno = 0;
    int t = vnaproperty_type(node, ".");
    if (t == 's') { const char *s = vnaproperty_get(node, "."); w.obs("%s scalar \"%s\"", ind.c_str(), s ? s : "(NULL)"); }
    else if (t == 'm') {
        int n = vnaproperty_count(node, ".");
        const char **keys = vnaproperty_keys(node, "{}");
        w.obs("%s map %d", ind.c_str(), n);
        for (int i = 0; keys && keys[i]; i++) {
            char *q = vnaproperty_quote_key(keys[i]);
            w.obs("%s key \"%s\"", ind.c_str(), keys[i]);
            if (q) { errno = 0; vnaproperty_t *sub = vnaproperty_get_subtree(node, "%s", q); dump_prop_rec(w, sub, depth + 1); }
            free(q);
        }
        free((void *)keys);
    } else if (t == 'l') {
        int n = vnaproperty_count(node, ".");
        w.obs("%s list %d", ind.c_str(), n);
        for (int i = 0; i < n; i++) { errno = 0; vnaproperty_t *sub = vnaproperty_get_subtree(node, "[%d]", i); dump_prop_rec(w, sub, depth + 1); }
    } else w.obs("%s null", ind.c_str());
}
static void dump_prop(World &w, const char *tag, const vnaproperty_t *root) { w.obs("%s:", tag); dump_prop_rec(w, root, 1); }

static void dump_vc(World &w, const char *tag, vnacal_t *vcp) {
    if (!vcp) { w.obs("%s: (none)", tag); return; }
    int end = vnacal_get_calibration_end(vcp);
    w.obs("%s: end=%d", tag, end);
    errno = 0;
    dump_prop(w, " global-properties", vnacal_property_get_subtree(vcp, -1, "."));
    for (int ci = 0; ci < end; ci++) {
        const char *name = vnacal_get_name(vcp, ci);
        if (!name) { w.obs(" ci %d: (deleted)", ci); continue; }
        int F = vnacal_get_frequencies(vcp, ci);
        dcx z0 = vnacal_get_z0(vcp, ci);
        w.obs(" ci %d: name=%s type=%s %dx%d F=%d fmin=%a fmax=%a z0=%a%+ai", ci, name, vnacal_type_to_name(vnacal_get_type(vcp, ci)),
              vnacal_get_rows(vcp, ci), vnacal_get_columns(vcp, ci), F, vnacal_get_fmin(vcp, ci), vnacal_get_fmax(vcp, ci), re_(z0), im_(z0));
        const double *fv = vnacal_get_frequency_vector(vcp, ci);
        for (int f = 0; fv && f < F; f++) w.obs("  f[%d]=%a", f, fv[f]);
        errno = 0;
        dump_prop(w, "  properties", vnacal_property_get_subtree(vcp, ci, "."));
    }
    // what vnacal_save writes (error terms, properties), into a memory file.  vnacal_get_filename is the one
    // getter this changes; it is therefore observed only by the explicit save / load steps.
    if (w.obs_fd >= 0) {
        errno = 0;
        int rc = vnacal_save(vcp, w.obs_path.c_str());
        int e = errno;
        w.digest += SAVE_BEGIN;
        if (rc == 0) {
            char b[8192]; ssize_t n; off_t off = 0;
            while ((n = pread(w.obs_fd, b, sizeof b, off)) > 0) { w.digest.append(b, (size_t)n); off += n; }
        } else w.obs("vnacal_save: rc=%d errno=%d", rc, e);
        w.digest += SAVE_END;
    }
}
static void obs_filename(World &w, vnacal_t *vcp) { const char *fn = vcp ? vnacal_get_filename(vcp) : nullptr; w.obs("filename=%s", fn ? fn : "(null)"); }

static std::string slurp_file(const std::string &path) {
    std::string s; FILE *f = fopen(path.c_str(), "r");
    if (!f) return "(cannot open " + path + ")";
    char buf[8192]; size_t n;
    while ((n = fread(buf, 1, sizeof buf, f)) > 0) s.append(buf, n);
    fclose(f); return s;
}
static bool spit_file(const std::string &path, const std::string &text) {
    FILE *f = fopen(path.c_str(), "w");
    if (!f) return false;
    fwrite(text.data(), 1, text.size(), f);
    return fclose(f) == 0;
}

// ----------------------------------------------------------------- scripts --
struct Step {
    std::string fn;        // public function called
    bool reports;          // documented to report through the error callback
    bool documented;       // has a documented failure value (false: void / undocumented)
    std::function<bool(World &)> call;   // ONE public API call; true = it signalled failure; sets w.err
    std::function<void(World &)> obs;    // observation appended to the digest after success (may be empty)
};
struct Script {
    std::string name;
    std::vector<Step> steps;
    // fault-free reference (computed once per process: a pure function of the script)
    bool ref_valid = false;
    std::vector<long> K;
    std::string ref_digest;
    long total = 0;
    bool invalid = false;      // generated variant whose fault-free run does not succeed (filtered, counted)
    // generated script family: variant v is built on first use and cached
    int nvariants = 0;
    void (*generate)(Script &, int) = nullptr;
    std::map<int, std::unique_ptr<Script>> variants;
    void add(const char *fn, bool reports, std::function<bool(World &)> call, std::function<void(World &)> obs = nullptr, bool documented = true) {
        steps.push_back(Step{fn, reports, documented, std::move(call), std::move(obs)});
    }
};

// helpers for step bodies ---------------------------------------------------
// int-valued function documented "0 on success, -1 on error"
#define RET_INT0(w, e) do { errno = 0; long rc__ = (e); (w).err = errno; (w).rc = rc__; (w).rc_bad = !(rc__ == 0 || rc__ == -1); return rc__ == -1; } while (0)
// int-valued function returning a non-negative value (index, count, type char) or -1
#define RET_INTN(w, e, dst) do { errno = 0; long rc__ = (e); (w).err = errno; (w).rc = rc__; (w).rc_bad = rc__ < -1; if (rc__ == -1) return true; dst = (int)rc__; (w).rc_value = true; return false; } while (0)
// pointer-valued function documented "NULL on error"
#define RET_PTR(w, e, dst) do { errno = 0; auto p__ = (e); (w).err = errno; (w).rc_bad = false; if (p__ == nullptr) return true; dst = p__; return false; } while (0)

typedef std::vector<double> dvec;
typedef std::vector<dcx> cvec;

static dcx cx(cd z) { return mkc(z); }

// a matrix of per-frequency vectors, as the vnacal_new_add_* / vnacal_apply functions take it
struct Meas {
    int rows, cols, F;
    std::vector<cvec> v;
    std::vector<dcx *> p;
    Meas(int r, int c, int f) : rows(r), cols(c), F(f), v((size_t)r * c, cvec((size_t)f, mkc(0, 0))), p((size_t)r * c) { for (size_t i = 0; i < p.size(); i++) p[i] = v[i].data(); }
    Meas(const Meas &) = delete;
    dcx *const *ptr() const { return p.data(); }
    dcx &at(int r, int c, int f) { return v[(size_t)r * cols + c][(size_t)f]; }
};
typedef std::shared_ptr<Meas> MeasP;

// Simulated 2-port VNA: 8-term error model plus optional leakage,
//   M = D + L + P X Q,  X = S (I - Mm S)^-1,
// D directivity, P/Q tracking factors, Mm port match (all diagonal), L off-diagonal leakage.
// This is a special case of every error-term type of vnacal_new(3), so noise-free
// measurements of sufficient standard sets solve exactly.
struct Vna2 {
    cd d[2] = {cd(0.05, 0.02), cd(-0.03, 0.04)};
    cd p[2] = {cd(0.9, 0.1), cd(0.85, -0.05)};
    cd q[2] = {cd(1.0, 0.05), cd(0.95, 0.1)};
    cd m[2] = {cd(0.1, -0.05), cd(-0.08, 0.06)};
    cd leak[2][2] = {{0, 0}, {cd(0.01, 0.005), 0}};
    bool with_leak = false;
    void measure(const cd S[2][2], int fi, cd M[2][2]) const {
        cd ph = std::polar(1.0, 0.2 * fi);
        cd mm[2] = {m[0] * ph, m[1] / ph};
        // A = I - Mm S
        cd A[2][2] = {{1.0 - mm[0] * S[0][0], -mm[0] * S[0][1]}, {-mm[1] * S[1][0], 1.0 - mm[1] * S[1][1]}};
        cd det = A[0][0] * A[1][1] - A[0][1] * A[1][0];
        cd Ai[2][2] = {{A[1][1] / det, -A[0][1] / det}, {-A[1][0] / det, A[0][0] / det}};
        cd X[2][2];
        for (int i = 0; i < 2; i++) for (int j = 0; j < 2; j++) X[i][j] = S[i][0] * Ai[0][j] + S[i][1] * Ai[1][j];
        for (int i = 0; i < 2; i++) for (int j = 0; j < 2; j++) {
            M[i][j] = p[i] * ph * X[i][j] * q[j];
            if (i == j) M[i][j] += d[i] * ph;
            else if (with_leak) M[i][j] += leak[i][j];
        }
    }
};
typedef std::function<void(int fi, cd S[2][2])> Sfun;

// measured m matrix (rows x cols, upper-left part of the 2x2 model)
static MeasP measure_m(const Vna2 &vna, int F, const Sfun &sf, int rows, int cols) {
    MeasP mp = std::make_shared<Meas>(rows, cols, F);
    for (int f = 0; f < F; f++) {
        cd S[2][2], M[2][2];
        sf(f, S);
        vna.measure(S, f, M);
        for (int r = 0; r < rows; r++) for (int cc = 0; cc < cols; cc++) mp->at(r, cc, f) = cx(M[r][cc]);
    }
    return mp;
}
// a/b form of the same measurement: B = M A with a fixed, well-conditioned A.
// colsys: UE14/E12 style (a is 1 x cols, one reference per column)
static void make_ab(const Meas &m, bool colsys, MeasP &a, MeasP &b) {
    int R = m.rows, C = m.cols, F = m.F;
    b = std::make_shared<Meas>(R, C, F);
    if (colsys) {
        a = std::make_shared<Meas>(1, C, F);
        for (int f = 0; f < F; f++) for (int j = 0; j < C; j++) {
            cd aj = cd(0.8 + 0.1 * j, 0.05 * (f + 1));
            a->at(0, j, f) = cx(aj);
            for (int i = 0; i < R; i++) b->at(i, j, f) = cx(tocd(m.v[(size_t)i * C + j][(size_t)f]) * aj);
        }
    } else {
        a = std::make_shared<Meas>(C, C, F);
        for (int f = 0; f < F; f++) {
            cd A[2][2] = {{cd(2.0 / 3, 0.01 * f), cd(1.0 / 3, 0)}, {cd(1.0 / 3, 0), cd(2.0 / 3, -0.02)}};
            if (C == 1) A[0][0] = cd(0.9, 0.1);
            for (int i = 0; i < C; i++) for (int j = 0; j < C; j++) a->at(i, j, f) = cx(A[i][j]);
            for (int i = 0; i < R; i++) for (int j = 0; j < C; j++) {
                cd s = 0;
                for (int k = 0; k < C; k++) s += tocd(m.v[(size_t)i * C + k][(size_t)f]) * A[k][j];
                b->at(i, j, f) = cx(s);
            }
        }
    }
}

static Sfun S_const(cd s11, cd s12, cd s21, cd s22) {
    return [=](int, cd S[2][2]) { S[0][0] = s11; S[0][1] = s12; S[1][0] = s21; S[1][1] = s22; };
}

static std::vector<Script> g_scripts;

// observation helpers used as Step::obs
static std::function<void(World &)> OBS_VD(int i) { return [=](World &w) { dump_vd(w, ("vd" + std::to_string(i)).c_str(), w.vd[i]); }; }
static std::function<void(World &)> OBS_PROP(int i) { return [=](World &w) { dump_prop(w, ("prop" + std::to_string(i)).c_str(), w.prop[i]); }; }
static std::function<void(World &)> OBS_VC(int i) { return [=](World &w) { dump_vc(w, ("vc" + std::to_string(i)).c_str(), w.vc[i]); }; }


// ======================================================================= scripts
// Every step performs exactly ONE public API call on the world; the call must be
// repeatable (a failed call leaves the harness-side slots untouched).

static const dvec FREQ3 = {1e9, 2e9, 3e9};
static const dvec FREQ4 = {1e9, 2e9, 3e9, 4e9};

static cvec test_matrix(int n, int seed) {
    cvec v((size_t)n);
    for (int i = 0; i < n; i++) v[(size_t)i] = mkc(0.1 * ((i * 7 + seed * 3) % 11) - 0.4, 0.05 * ((i * 5 + seed) % 13) - 0.3);
    return v;
}

// --- S1: vnadata alloc / init / setters / resize / add_frequency / z0 modes / convert
static void script_vnadata_basic(Script &S) {
    S.name = "vnadata_basic";
    S.add("vnadata_alloc", true, [](World &w) { RET_PTR(w, vnadata_alloc(errlog_fn, &w.log), w.vd[0]); }, OBS_VD(0));
    S.add("vnadata_init", true, [](World &w) { RET_INT0(w, vnadata_init(w.vd[0], VPT_S, 2, 2, 3)); }, OBS_VD(0));
    S.add("vnadata_set_frequency_vector", true, [](World &w) { RET_INT0(w, vnadata_set_frequency_vector(w.vd[0], FREQ3.data())); });
    for (int f = 0; f < 3; f++)
        S.add("vnadata_set_matrix", true, [f](World &w) { cvec m = test_matrix(4, f); RET_INT0(w, vnadata_set_matrix(w.vd[0], f, m.data())); });
    S.add("vnadata_set_z0", true, [](World &w) { RET_INT0(w, vnadata_set_z0(w.vd[0], 1, mkc(75, 0))); }, OBS_VD(0));
    S.add("vnadata_resize", true, [](World &w) { RET_INT0(w, vnadata_resize(w.vd[0], VPT_S, 3, 3, 5)); }, OBS_VD(0));
    S.add("vnadata_set_frequency", true, [](World &w) { RET_INT0(w, vnadata_set_frequency(w.vd[0], 3, 4e9)); });
    S.add("vnadata_set_frequency", true, [](World &w) { RET_INT0(w, vnadata_set_frequency(w.vd[0], 4, 5e9)); });
    S.add("vnadata_add_frequency", true, [](World &w) { RET_INT0(w, vnadata_add_frequency(w.vd[0], 6e9)); }, OBS_VD(0));
    S.add("vnadata_set_cell", true, [](World &w) { RET_INT0(w, vnadata_set_cell(w.vd[0], 5, 2, 2, mkc(0.25, -0.5))); });
    // ordinary -> per-frequency z0 (convert_to_fz0), then more frequencies in that mode
    S.add("vnadata_set_fz0", true, [](World &w) { RET_INT0(w, vnadata_set_fz0(w.vd[0], 1, 2, mkc(60, 5))); }, OBS_VD(0));
    S.add("vnadata_add_frequency", true, [](World &w) { RET_INT0(w, vnadata_add_frequency(w.vd[0], 7e9)); }, OBS_VD(0));
    S.add("vnadata_resize", true, [](World &w) { RET_INT0(w, vnadata_resize(w.vd[0], VPT_S, 4, 4, 9)); }, OBS_VD(0));
    S.add("vnadata_set_fz0_vector", true, [](World &w) { cvec z = {mkc(50, 1), mkc(51, 2), mkc(52, 3), mkc(53, 4)}; RET_INT0(w, vnadata_set_fz0_vector(w.vd[0], 8, z.data())); }, OBS_VD(0));
    // per-frequency -> ordinary (convert_to_z0)
    S.add("vnadata_set_all_z0", true, [](World &w) { RET_INT0(w, vnadata_set_all_z0(w.vd[0], mkc(50, 0))); }, OBS_VD(0));
    S.add("vnadata_set_fz0", true, [](World &w) { RET_INT0(w, vnadata_set_fz0(w.vd[0], 0, 0, mkc(45, -5))); });
    S.add("vnadata_set_z0_vector", true, [](World &w) { cvec z = {mkc(50, 0), mkc(75, 0), mkc(50, 0), mkc(100, 0)}; RET_INT0(w, vnadata_set_z0_vector(w.vd[0], z.data())); }, OBS_VD(0));
    S.add("vnadata_set_fz0_vector", true, [](World &w) { cvec z = {mkc(50, 1), mkc(51, 2), mkc(52, 3), mkc(53, 4)}; RET_INT0(w, vnadata_set_fz0_vector(w.vd[0], 2, z.data())); });
    S.add("vnadata_set_z0", true, [](World &w) { RET_INT0(w, vnadata_set_z0(w.vd[0], 0, mkc(50, 0))); }, OBS_VD(0));
    S.add("vnadata_init", true, [](World &w) { RET_INT0(w, vnadata_init(w.vd[0], VPT_Z, 2, 2, 2)); }, OBS_VD(0));
    S.add("vnadata_free", false, [](World &w) { vnadata_free(w.vd[0]); w.vd[0] = nullptr; w.err = 0; w.rc_bad = false; return false; }, nullptr, false);
}

// --- S2: alloc_and_init, conversions (copy, out of place, in place, to Zin, with per-frequency z0)
static void script_vnadata_convert(Script &S) {
    S.name = "vnadata_convert";
    S.add("vnadata_alloc_and_init", true, [](World &w) { RET_PTR(w, vnadata_alloc_and_init(errlog_fn, &w.log, VPT_S, 2, 2, 3), w.vd[0]); }, OBS_VD(0));
    S.add("vnadata_set_frequency_vector", true, [](World &w) { RET_INT0(w, vnadata_set_frequency_vector(w.vd[0], FREQ3.data())); });
    for (int f = 0; f < 3; f++)
        S.add("vnadata_set_matrix", true, [f](World &w) { cvec m = test_matrix(4, f + 1); RET_INT0(w, vnadata_set_matrix(w.vd[0], f, m.data())); });
    S.add("vnadata_alloc", true, [](World &w) { RET_PTR(w, vnadata_alloc(errlog_fn, &w.log), w.vd[1]); });
    S.add("vnadata_convert", true, [](World &w) { RET_INT0(w, vnadata_convert(w.vd[0], w.vd[1], VPT_S)); }, OBS_VD(1));      // copy
    S.add("vnadata_convert", true, [](World &w) { RET_INT0(w, vnadata_convert(w.vd[0], w.vd[1], VPT_Z)); }, OBS_VD(1));      // out of place
    S.add("vnadata_convert", true, [](World &w) { RET_INT0(w, vnadata_convert(w.vd[0], w.vd[1], VPT_T)); }, OBS_VD(1));
    S.add("vnadata_convert", true, [](World &w) { RET_INT0(w, vnadata_convert(w.vd[1], w.vd[1], VPT_A)); }, OBS_VD(1));      // in place
    S.add("vnadata_convert", true, [](World &w) { RET_INT0(w, vnadata_convert(w.vd[1], w.vd[1], VPT_ZIN)); }, OBS_VD(1));    // in place, changes shape
    S.add("vnadata_set_fz0", true, [](World &w) { RET_INT0(w, vnadata_set_fz0(w.vd[0], 1, 1, mkc(60, 10))); });
    S.add("vnadata_alloc", true, [](World &w) { RET_PTR(w, vnadata_alloc(errlog_fn, &w.log), w.vd[2]); });
    S.add("vnadata_convert", true, [](World &w) { RET_INT0(w, vnadata_convert(w.vd[0], w.vd[2], VPT_Y)); }, OBS_VD(2));      // fz0 source into an empty target
    S.add("vnadata_convert", true, [](World &w) { RET_INT0(w, vnadata_convert(w.vd[0], w.vd[1], VPT_H)); }, OBS_VD(1));      // fz0 source into a used target of another shape
    S.add("vnadata_convert", true, [](World &w) { RET_INT0(w, vnadata_convert(w.vd[0], w.vd[0], VPT_ZIN)); }, OBS_VD(0));    // in place with fz0
    S.add("vnadata_set_type", true, [](World &w) { RET_INT0(w, vnadata_set_type(w.vd[2], VPT_Z)); });
    // growing the frequency allocation while in per-frequency z0 mode
    S.add("vnadata_alloc_and_init", true, [](World &w) { RET_PTR(w, vnadata_alloc_and_init(errlog_fn, &w.log, VPT_S, 1, 1, 1), w.vd[3]); });
    S.add("vnadata_set_fz0", true, [](World &w) { RET_INT0(w, vnadata_set_fz0(w.vd[3], 0, 0, mkc(60, 10))); }, OBS_VD(3));
    S.add("vnadata_resize", true, [](World &w) { RET_INT0(w, vnadata_resize(w.vd[3], VPT_S, 2, 2, 3)); }, OBS_VD(3));
    S.add("vnadata_add_frequency", true, [](World &w) { RET_INT0(w, vnadata_add_frequency(w.vd[3], 5e9)); }, OBS_VD(3));
    S.add("vnadata_free", false, [](World &w) { vnadata_free(w.vd[3]); w.vd[3] = nullptr; w.err = 0; w.rc_bad = false; return false; }, nullptr, false);
    S.add("vnadata_free", false, [](World &w) { vnadata_free(w.vd[2]); w.vd[2] = nullptr; w.err = 0; w.rc_bad = false; return false; }, nullptr, false);
    S.add("vnadata_free", false, [](World &w) { vnadata_free(w.vd[1]); w.vd[1] = nullptr; w.err = 0; w.rc_bad = false; return false; }, nullptr, false);
    S.add("vnadata_free", false, [](World &w) { vnadata_free(w.vd[0]); w.vd[0] = nullptr; w.err = 0; w.rc_bad = false; return false; }, nullptr, false);
}

#define FREE_VD(i) S.add("vnadata_free", false, [](World &w) { vnadata_free(w.vd[i]); w.vd[i] = nullptr; w.err = 0; w.rc_bad = false; return false; }, nullptr, false)

// fsave into a memory stream; the text goes to w.text[slot] on success
static bool do_fsave(World &w, int vdi, int slot, const char *name) {
    char *buf = nullptr; size_t len = 0;
    FILE *fp = open_memstream(&buf, &len);
    if (!fp) { w.err = errno; w.rc = -1; w.rc_bad = false; return true; }
    errno = 0;
    long rc = vnadata_fsave(w.vd[vdi], fp, name);
    int e = errno;
    fclose(fp);
    w.err = e; w.rc = rc; w.rc_bad = !(rc == 0 || rc == -1);
    if (rc == 0) w.text[slot].assign(buf, len);
    free(buf);
    return rc == -1;
}
static bool do_fload(World &w, int vdi, const std::string &text, const char *name) {
    FILE *fp = fmemopen((void *)text.data(), text.size(), "r");
    if (!fp) { w.err = errno; w.rc = -1; w.rc_bad = false; return true; }
    errno = 0;
    long rc = vnadata_fload(w.vd[vdi], fp, name);
    int e = errno;
    fclose(fp);
    w.err = e; w.rc = rc; w.rc_bad = !(rc == 0 || rc == -1);
    return rc == -1;
}
static void fill_vd_steps(Script &S, int vdi, int type, int n, int F, const dvec &freq) {
    S.add("vnadata_alloc_and_init", true, [=](World &w) { RET_PTR(w, vnadata_alloc_and_init(errlog_fn, &w.log, (vnadata_parameter_type_t)type, n, n, F), w.vd[vdi]); });
    S.add("vnadata_set_frequency_vector", true, [=](World &w) { RET_INT0(w, vnadata_set_frequency_vector(w.vd[vdi], freq.data())); });
    for (int f = 0; f < F; f++)
        S.add("vnadata_set_matrix", true, [=](World &w) { cvec m = test_matrix(n * n, f + 2); RET_INT0(w, vnadata_set_matrix(w.vd[vdi], f, m.data())); });
}

// --- S3: formats, precisions, NPD save (memory stream and file), NPD load
static void script_vnadata_npd(Script &S) {
    S.name = "vnadata_npd";
    fill_vd_steps(S, 0, VPT_Z, 2, 3, FREQ3);
    S.add("vnadata_set_z0", true, [](World &w) { RET_INT0(w, vnadata_set_z0(w.vd[0], 1, mkc(75, 0))); });
    S.add("vnadata_set_format", true, [](World &w) { RET_INT0(w, vnadata_set_format(w.vd[0], "Zri,SdB,Zinma,PRC,IL,RL,VSWR")); }, OBS_VD(0));
    S.add("vnadata_set_filetype", true, [](World &w) { RET_INT0(w, vnadata_set_filetype(w.vd[0], VNADATA_FILETYPE_NPD)); });
    S.add("vnadata_set_fprecision", true, [](World &w) { RET_INT0(w, vnadata_set_fprecision(w.vd[0], 9)); });
    S.add("vnadata_set_dprecision", true, [](World &w) { RET_INT0(w, vnadata_set_dprecision(w.vd[0], 8)); });
    S.add("vnadata_cksave", true, [](World &w) { RET_INT0(w, vnadata_cksave(w.vd[0], "x.npd")); });
    S.add("vnadata_fsave", true, [](World &w) { return do_fsave(w, 0, 0, "x.npd"); }, [](World &w) { w.obs("npd text:\n%s", w.text[0].c_str()); dump_vd(w, "vd0", w.vd[0]); });
    S.add("vnadata_save", true, [](World &w) { RET_INT0(w, vnadata_save(w.vd[0], w.tmp[0].c_str())); }, [](World &w) { w.digest += slurp_file(w.tmp[0]); });
    S.add("vnadata_set_format", true, [](World &w) { RET_INT0(w, vnadata_set_format(w.vd[0], "Yma,SRL,SRC,PRL,Tri,Udb,Hri,Gma,Ari,Bri")); }, OBS_VD(0));
    S.add("vnadata_fsave", true, [](World &w) { return do_fsave(w, 0, 1, "y.npd"); }, [](World &w) { w.obs("npd text:\n%s", w.text[1].c_str()); });
    S.add("vnadata_alloc", true, [](World &w) { RET_PTR(w, vnadata_alloc(errlog_fn, &w.log), w.vd[1]); });
    S.add("vnadata_load", true, [](World &w) { RET_INT0(w, vnadata_load(w.vd[1], w.tmp[0].c_str())); }, OBS_VD(1));
    S.add("vnadata_fload", true, [](World &w) { return do_fload(w, 1, w.text[1], "y.npd"); }, OBS_VD(1));
    S.add("vnadata_fload", true, [](World &w) { return do_fload(w, 1, w.text[0], "x.npd"); }, OBS_VD(1));
    S.add("vnadata_fsave", true, [](World &w) { return do_fsave(w, 1, 2, "z.npd"); }, [](World &w) { w.obs("npd text:\n%s", w.text[2].c_str()); });
    // per-frequency reference impedances through NPD
    S.add("vnadata_set_fz0", true, [](World &w) { RET_INT0(w, vnadata_set_fz0(w.vd[0], 1, 0, mkc(60, 5))); });
    S.add("vnadata_set_format", true, [](World &w) { RET_INT0(w, vnadata_set_format(w.vd[0], "ma")); }, OBS_VD(0));
    S.add("vnadata_fsave", true, [](World &w) { return do_fsave(w, 0, 3, "f.npd"); }, [](World &w) { w.obs("npd text:\n%s", w.text[3].c_str()); dump_vd(w, "vd0", w.vd[0]); });
    S.add("vnadata_fload", true, [](World &w) { return do_fload(w, 1, w.text[3], "f.npd"); }, OBS_VD(1));
    FREE_VD(1);
    FREE_VD(0);
}

// --- S4: Touchstone 1 save and load
static void script_vnadata_ts1(Script &S) {
    S.name = "vnadata_touchstone1";
    fill_vd_steps(S, 0, VPT_S, 2, 3, FREQ3);
    S.add("vnadata_set_filetype", true, [](World &w) { RET_INT0(w, vnadata_set_filetype(w.vd[0], VNADATA_FILETYPE_TOUCHSTONE1)); });
    S.add("vnadata_cksave", true, [](World &w) { RET_INT0(w, vnadata_cksave(w.vd[0], "x.s2p")); });
    S.add("vnadata_fsave", true, [](World &w) { return do_fsave(w, 0, 0, "x.s2p"); }, [](World &w) { w.obs("s2p text:\n%s", w.text[0].c_str()); dump_vd(w, "vd0", w.vd[0]); });   // default format
    S.add("vnadata_set_format", true, [](World &w) { RET_INT0(w, vnadata_set_format(w.vd[0], "Sma")); }, OBS_VD(0));
    S.add("vnadata_save", true, [](World &w) { RET_INT0(w, vnadata_save(w.vd[0], w.tmp[1].c_str())); }, [](World &w) { w.digest += slurp_file(w.tmp[1]); });
    S.add("vnadata_set_format", true, [](World &w) { RET_INT0(w, vnadata_set_format(w.vd[0], "ZRI")); });
    S.add("vnadata_fsave", true, [](World &w) { return do_fsave(w, 0, 1, "z.s2p"); }, [](World &w) { w.obs("s2p text:\n%s", w.text[1].c_str()); });
    S.add("vnadata_alloc", true, [](World &w) { RET_PTR(w, vnadata_alloc(errlog_fn, &w.log), w.vd[1]); });
    S.add("vnadata_load", true, [](World &w) { RET_INT0(w, vnadata_load(w.vd[1], w.tmp[1].c_str())); }, OBS_VD(1));
    S.add("vnadata_fload", true, [](World &w) { return do_fload(w, 1, w.text[1], "z.s2p"); }, OBS_VD(1));
    S.add("vnadata_fload", true, [](World &w) { return do_fload(w, 1, w.text[0], "x.s2p"); }, OBS_VD(1));
    S.add("vnadata_fsave", true, [](World &w) { return do_fsave(w, 1, 2, "w.s2p"); }, [](World &w) { w.obs("s2p text:\n%s", w.text[2].c_str()); });
    // hand-written one-port file with a token longer than the scanner's initial text buffer
    S.add("vnadata_fload", true, [](World &w) {
        static const std::string t = "! long token\n# HZ S RI R 50\n1000000000.0000000000000000000000000000000000000000000000000000000000000000000000000000 0.5 -0.25\n2e9 0.25 0.125\n";
        return do_fload(w, 1, t, "l.s1p"); }, OBS_VD(1));
    FREE_VD(1);
    FREE_VD(0);
}

// --- S5: Touchstone 2 save and load (3 ports, per-port reference impedances; 2 ports)
static void script_vnadata_ts2(Script &S) {
    S.name = "vnadata_touchstone2";
    fill_vd_steps(S, 0, VPT_S, 3, 2, dvec{1e9, 2e9});
    S.add("vnadata_set_z0_vector", true, [](World &w) { cvec z = {mkc(50, 0), mkc(75, 0), mkc(100, 0)}; RET_INT0(w, vnadata_set_z0_vector(w.vd[0], z.data())); });
    S.add("vnadata_set_filetype", true, [](World &w) { RET_INT0(w, vnadata_set_filetype(w.vd[0], VNADATA_FILETYPE_TOUCHSTONE2)); });
    S.add("vnadata_set_format", true, [](World &w) { RET_INT0(w, vnadata_set_format(w.vd[0], "SdB")); });
    S.add("vnadata_fsave", true, [](World &w) { return do_fsave(w, 0, 0, "x.ts"); }, [](World &w) { w.obs("ts text:\n%s", w.text[0].c_str()); dump_vd(w, "vd0", w.vd[0]); });
    S.add("vnadata_save", true, [](World &w) { RET_INT0(w, vnadata_save(w.vd[0], w.tmp[2].c_str())); }, [](World &w) { w.digest += slurp_file(w.tmp[2]); });
    S.add("vnadata_alloc", true, [](World &w) { RET_PTR(w, vnadata_alloc(errlog_fn, &w.log), w.vd[1]); });
    S.add("vnadata_load", true, [](World &w) { RET_INT0(w, vnadata_load(w.vd[1], w.tmp[2].c_str())); }, OBS_VD(1));
    S.add("vnadata_fload", true, [](World &w) { return do_fload(w, 1, w.text[0], "x.ts"); }, OBS_VD(1));
    fill_vd_steps(S, 2, VPT_Y, 2, 3, FREQ3);
    S.add("vnadata_set_filetype", true, [](World &w) { RET_INT0(w, vnadata_set_filetype(w.vd[2], VNADATA_FILETYPE_TOUCHSTONE2)); });
    S.add("vnadata_fsave", true, [](World &w) { return do_fsave(w, 2, 1, "y.ts"); }, [](World &w) { w.obs("ts text:\n%s", w.text[1].c_str()); });
    S.add("vnadata_fload", true, [](World &w) { return do_fload(w, 1, w.text[1], "y.ts"); }, OBS_VD(1));
    S.add("vnadata_fsave", true, [](World &w) { return do_fsave(w, 1, 2, "w.ts"); }, [](World &w) { w.obs("ts text:\n%s", w.text[2].c_str()); });
    FREE_VD(2);
    FREE_VD(1);
    FREE_VD(0);
}

// ---- property tree helpers: the vnaproperty_* functions are silent (no error callback)
#define PSET(i, ...)  S.add("vnaproperty_set", false, [](World &w) { RET_INT0(w, vnaproperty_set(&w.prop[i], __VA_ARGS__)); }, OBS_PROP(i))
#define PDEL(i, ...)  S.add("vnaproperty_delete", false, [](World &w) { RET_INT0(w, vnaproperty_delete(&w.prop[i], __VA_ARGS__)); }, OBS_PROP(i))

// --- S6: property tree: set (maps, lists, insert, append, null, replace), queries, set_subtree, delete, copy, quote_key
static void script_vnaproperty_basic(Script &S) {
    S.name = "vnaproperty_basic";
    PSET(0, "VNA_Model=ACME 1050");
    PSET(0, "VNA_ports=%d", 2);
    PSET(0, "foo.bar=xyz");
    PSET(0, "foo.baz.deep.deeper=%s", "value with spaces");
    PSET(0, "matrix[0][0]=1");
    PSET(0, "matrix[0][1]=2");
    PSET(0, "matrix[1][0]=3");
    PSET(0, "matrix[1][1]=4");
    PSET(0, "names[+]=alice");
    PSET(0, "names[+]=bob");
    PSET(0, "names[0+]=zero");
    PSET(0, "names[5]=sparse");
    PSET(0, "nothing#");
    PSET(0, "my\\.key with\\[odd\\] chars=1");
    PSET(0, "refl[0].name=short");
    PSET(0, "refl[0].gamma=-1.0");
    PSET(0, "refl[1].name=open");
    PSET(0, "foo=replaced map by scalar");
    PSET(0, "names.now_a_map=1");
    for (int i = 0; i < 7; i++)   // grow one map and one list past their initial allocations
        S.add("vnaproperty_set", false, [i](World &w) { RET_INT0(w, vnaproperty_set(&w.prop[0], "grow.k%d=v%d", i, i)); }, i == 6 ? OBS_PROP(0) : nullptr);
    for (int i = 0; i < 7; i++)
        S.add("vnaproperty_set", false, [i](World &w) { RET_INT0(w, vnaproperty_set(&w.prop[0], "glist[+]=%d", i)); }, i == 6 ? OBS_PROP(0) : nullptr);
    // queries (they allocate too: the descriptor is formatted with vasprintf)
    S.add("vnaproperty_type", false, [](World &w) { int t = 0; errno = 0; long rc = vnaproperty_type(w.prop[0], "matrix[1]"); w.err = errno; w.rc = rc; w.rc_bad = !(rc == -1 || rc == 'l'); (void)t; return rc == -1; }, [](World &w) { w.obs("type=%ld", w.rc); });
    S.add("vnaproperty_count", false, [](World &w) { int n = 0; RET_INTN(w, vnaproperty_count(w.prop[0], "grow"), n); (void)n; }, [](World &w) { w.obs("count=%ld", w.rc); });
    S.add("vnaproperty_get", false, [](World &w) { errno = 0; const char *v = vnaproperty_get(w.prop[0], "refl[%d].gamma", 0); w.err = errno; w.rc_bad = false; if (!v) return true; w.text[0] = v; return false; }, [](World &w) { w.obs("get=%s", w.text[0].c_str()); });
    S.add("vnaproperty_keys", false, [](World &w) {
        errno = 0; const char **k = vnaproperty_keys(w.prop[0], "grow{}"); w.err = errno; w.rc_bad = false;
        if (!k) return true;
        w.text[1].clear(); for (int i = 0; k[i]; i++) { w.text[1] += k[i]; w.text[1] += ","; }
        free((void *)k); return false; }, [](World &w) { w.obs("keys=%s", w.text[1].c_str()); });
    S.add("vnaproperty_get_subtree", false, [](World &w) {
        errno = 0; vnaproperty_t *sub = vnaproperty_get_subtree(w.prop[0], "refl[0]"); w.err = errno; w.rc_bad = false;
        if (!sub) return true;
        verif_fi_pause(); const char *v = vnaproperty_get(sub, "name"); w.text[2] = v ? v : "(null)"; verif_fi_resume();
        return false; }, [](World &w) { w.obs("subtree.name=%s", w.text[2].c_str()); });
    S.add("vnaproperty_set_subtree", false, [](World &w) {
        errno = 0; vnaproperty_t **sub = vnaproperty_set_subtree(&w.prop[0], "sub.tree[2]"); w.err = errno; w.rc_bad = false;
        return sub == nullptr; }, OBS_PROP(0));
    S.add("vnaproperty_set_subtree", false, [](World &w) {
        errno = 0; vnaproperty_t **sub = vnaproperty_set_subtree(&w.prop[0], "sub.tree[2]{}"); w.err = errno; w.rc_bad = false;
        return sub == nullptr; }, OBS_PROP(0));
    S.add("vnaproperty_copy", false, [](World &w) { RET_INT0(w, vnaproperty_copy(&w.prop[1], w.prop[0])); }, OBS_PROP(1));
    PSET(1, "only_in_copy=1");
    S.add("vnaproperty_copy", false, [](World &w) { RET_INT0(w, vnaproperty_copy(&w.prop[1], w.prop[0])); }, OBS_PROP(1));   // replaces existing content
    PDEL(0, "matrix[0]");
    PDEL(0, "refl[1].");
    PDEL(0, "grow.k3");
    PDEL(0, "names");
    S.add("vnaproperty_quote_key", false, [](World &w) { RET_PTR(w, vnaproperty_quote_key("my.key with[odd] {chars}\\"), w.str[0]); }, [](World &w) { w.obs("quoted=%s", w.str[0] ? w.str[0] : "(null)"); });
    S.add("vnaproperty_get", false, [](World &w) { errno = 0; const char *v = vnaproperty_get(w.prop[1], "%s", "my\\.key with\\[odd\\] chars"); w.err = errno; w.rc_bad = false; if (!v) return true; w.text[0] = v; return false; }, [](World &w) { w.obs("get=%s", w.text[0].c_str()); });
    S.add("vnaproperty_quote_key", false, [](World &w) { RET_PTR(w, vnaproperty_quote_key(""), w.str[1]); }, [](World &w) { w.obs("quoted-empty=[%s]", w.str[1] ? w.str[1] : "(null)"); });
    S.add("vnaproperty_quote_key", false, [](World &w) { RET_PTR(w, vnaproperty_quote_key("plain_key"), w.str[2]); }, [](World &w) { w.obs("quoted-plain=[%s]", w.str[2] ? w.str[2] : "(null)"); });
    PSET(0, ".=root becomes a scalar");
    PDEL(0, ".");
    PDEL(1, ".");
}

// --- S7: YAML export and import of property trees
static bool do_export(World &w, int pi, int slot) {
    char *buf = nullptr; size_t len = 0;
    FILE *fp = open_memstream(&buf, &len);
    if (!fp) { w.err = errno; w.rc = -1; w.rc_bad = false; return true; }
    errno = 0;
    long rc = vnaproperty_export_yaml_to_file(w.prop[pi], fp, "out.yaml", errlog_fn, &w.log);
    int e = errno;
    fclose(fp);
    w.err = e; w.rc = rc; w.rc_bad = !(rc == 0 || rc == -1);
    if (rc == 0) w.text[slot].assign(buf, len);
    free(buf);
    return rc == -1;
}
static const char YAML_DOC[] =
    "# comment\n"
    "model: ACME 1050\n"
    "ports: 2\n"
    "empty: ~\n"
    "nested:\n"
    "  list: [1, 2.5, three, [a, b], {k: v}]\n"
    "  map: {x: 1, y: {z: deep}}\n"
    "  text: |\n"
    "    multi\n"
    "    line\n"
    "anchors:\n"
    "  - &A shared\n"
    "  - *A\n"
    "\"quoted key.with dots\": 'single quoted'\n"
    "? [complex, key]\n"
    ": skipped with a warning\n"
    "last: end\n";
static void script_vnaproperty_yaml(Script &S) {
    S.name = "vnaproperty_yaml";
    // vnaproperty(3) promises the callback only for "errors found in the input document": a SYSTEM
    // callback on ENOMEM is not required of the import/export functions (reports = false)
    S.add("vnaproperty_import_yaml_from_string", false, [](World &w) { RET_INT0(w, vnaproperty_import_yaml_from_string(&w.prop[0], YAML_DOC, errlog_fn, &w.log)); }, OBS_PROP(0));
    S.add("vnaproperty_export_yaml_to_file", false, [](World &w) { return do_export(w, 0, 0); }, [](World &w) { w.obs("yaml:\n%s", w.text[0].c_str()); });
    S.add("vnaproperty_import_yaml_from_file", false, [](World &w) {
        FILE *fp = fmemopen((void *)w.text[0].data(), w.text[0].size(), "r");
        if (!fp) { w.err = errno; w.rc = -1; w.rc_bad = false; return true; }
        errno = 0; long rc = vnaproperty_import_yaml_from_file(&w.prop[1], fp, "in.yaml", errlog_fn, &w.log); int e = errno;
        fclose(fp); w.err = e; w.rc = rc; w.rc_bad = !(rc == 0 || rc == -1); return rc == -1; }, OBS_PROP(1));
    PSET(1, "added.after[+]=import");
    S.add("vnaproperty_import_yaml_from_string", false, [](World &w) { RET_INT0(w, vnaproperty_import_yaml_from_string(&w.prop[1], "[1, {a: b}, ~, \"s\"]\n", errlog_fn, &w.log)); }, OBS_PROP(1));   // replaces content
    S.add("vnaproperty_export_yaml_to_file", false, [](World &w) { return do_export(w, 1, 1); }, [](World &w) { w.obs("yaml:\n%s", w.text[1].c_str()); });
    S.add("vnaproperty_import_yaml_from_string", false, [](World &w) { RET_INT0(w, vnaproperty_import_yaml_from_string(&w.prop[2], "just a scalar\n", errlog_fn, &w.log)); }, OBS_PROP(2));
    S.add("vnaproperty_export_yaml_to_file", false, [](World &w) { return do_export(w, 2, 2); }, [](World &w) { w.obs("yaml:\n%s", w.text[2].c_str()); });
    PDEL(2, ".");
    PDEL(1, ".");
    PDEL(0, ".");
}

// ---- vnacal helpers: vnacal_create / parameters / vnacal_new_* report through the error callback
#define VC_CREATE(i) S.add("vnacal_create", true, [](World &w) { RET_PTR(w, vnacal_create(errlog_fn, &w.log), w.vc[i]); })
// vnacal_free also releases every vnacal_new_t made from the container (vnacal_new(3))
#define VC_FREE(i) S.add("vnacal_free", false, [](World &w) { vnacal_free(w.vc[i]); w.vc[i] = nullptr; if (i == 0) for (auto &p : w.vn) p = nullptr; w.err = 0; w.rc_bad = false; return false; }, nullptr, false)
#define VN_FREE(i) S.add("vnacal_new_free", false, [](World &w) { vnacal_new_free(w.vn[i]); w.vn[i] = nullptr; w.err = 0; w.rc_bad = false; return false; }, nullptr, false)
#define PAR_SCALAR(slot, re, im) S.add("vnacal_make_scalar_parameter", true, [](World &w) { RET_INTN(w, vnacal_make_scalar_parameter(w.vc[0], mkc(re, im)), w.par[slot]); })
#define PAR_UNKNOWN(slot, other) S.add("vnacal_make_unknown_parameter", true, [](World &w) { RET_INTN(w, vnacal_make_unknown_parameter(w.vc[0], other), w.par[slot]); })
#define PAR_DELETE(slot) S.add("vnacal_delete_parameter", true, [](World &w) { RET_INT0(w, vnacal_delete_parameter(w.vc[0], w.par[slot])); })

static cvec gamma_vec(int F, double mag, double phase0, double dphase) {
    cvec v((size_t)F);
    for (int i = 0; i < F; i++) v[(size_t)i] = cx(std::polar(mag, phase0 + dphase * i));
    return v;
}
static void obs_par(World &w, int slot, double f) {
    errno = 0;
    dcx z = vnacal_get_parameter_value(w.vc[0], w.par[slot], f);
    int e = errno;
    w.obs("par[%d](%g)=%a%+ai", slot, f, re_(z), im_(z));
    // vnacal_parameter(3): a complex number on success or HUGE_VAL on error -- also right after a failed call
    bool clean_failure = re_(z) == HUGE_VAL && e != 0;
    bool sane_value = std::isfinite(re_(z)) && std::isfinite(im_(z));
    if (!clean_failure && !sane_value && w.probe_bad.empty()) {
        char b[200]; snprintf(b, sizeof b, "vnacal_get_parameter_value(par[%d], %g) = %g%+gi, errno %d", slot, f, re_(z), im_(z), e);
        w.probe_bad = b;
    }
}

// --- S8: parameter table: every kind of parameter, >= 5 of each so that the table crosses its
//     3 -> 8 -> 16 -> 32 growth and the "exactly one free slot" state, holes from deletions
static void script_vnacal_parameters(Script &S) {
    S.name = "vnacal_parameters";
    VC_CREATE(0);
    static const dvec sf2 = {0.5e9, 4.5e9};
    static const dvec sig2 = {0.01, 0.02};
    static const dvec sig4 = {0.01, 0.02, 0.015, 0.01};
    static const dvec sig1 = {0.05};
    // 5 scalars: handles 3..7 (the 5th one fills the last slot of the 8-entry table)
    for (int i = 0; i < 5; i++)
        S.add("vnacal_make_scalar_parameter", true, [i](World &w) { RET_INTN(w, vnacal_make_scalar_parameter(w.vc[0], mkc(0.1 * i, -0.05 * i)), w.par[i]); }, [i](World &w) { obs_par(w, i, 1e9); });
    // 5 vectors (table grows to 16)
    for (int i = 0; i < 5; i++)
        S.add("vnacal_make_vector_parameter", true, [i](World &w) { cvec g = gamma_vec(4, 0.9 - 0.1 * i, 0.1 * i, 0.3); RET_INTN(w, vnacal_make_vector_parameter(w.vc[0], FREQ4.data(), 4, g.data()), w.par[5 + i]); }, [i](World &w) { obs_par(w, 5 + i, 2.5e9); });
    // 5 unknowns with scalar, predefined and vector guesses
    for (int i = 0; i < 5; i++)
        S.add("vnacal_make_unknown_parameter", true, [i](World &w) { int other = i == 0 ? VNACAL_SHORT : i < 3 ? w.par[i] : w.par[5 + i]; RET_INTN(w, vnacal_make_unknown_parameter(w.vc[0], other), w.par[10 + i]); });
    // 6 correlated parameters: one sigma; own sigma grid; NULL grid taken from a vector guess; correlated with an unknown
    S.add("vnacal_make_correlated_parameter", true, [](World &w) { RET_INTN(w, vnacal_make_correlated_parameter(w.vc[0], w.par[0], nullptr, 1, sig1.data()), w.par[15]); });
    S.add("vnacal_make_correlated_parameter", true, [](World &w) { RET_INTN(w, vnacal_make_correlated_parameter(w.vc[0], w.par[1], sf2.data(), 2, sig2.data()), w.par[16]); });
    S.add("vnacal_make_correlated_parameter", true, [](World &w) { RET_INTN(w, vnacal_make_correlated_parameter(w.vc[0], w.par[5], nullptr, 4, sig4.data()), w.par[17]); });
    S.add("vnacal_make_correlated_parameter", true, [](World &w) { RET_INTN(w, vnacal_make_correlated_parameter(w.vc[0], w.par[6], FREQ4.data(), 4, sig4.data()), w.par[18]); });
    S.add("vnacal_make_correlated_parameter", true, [](World &w) { RET_INTN(w, vnacal_make_correlated_parameter(w.vc[0], w.par[10], sf2.data(), 2, sig2.data()), w.par[19]); });
    S.add("vnacal_make_correlated_parameter", true, [](World &w) { RET_INTN(w, vnacal_make_correlated_parameter(w.vc[0], w.par[13], FREQ4.data(), 4, sig4.data()), w.par[20]); });
    // (a NULL sigma grid with an UNKNOWN "other" whose guess is a vector is not used: the tree double-frees the
    //  shared frequency vector at teardown without any fault -- a C03 finding, outside this property)
    // holes: delete some (referenced ones stay alive internally), then allocate into the holes
    PAR_DELETE(2);
    PAR_DELETE(7);
    PAR_DELETE(0);       // still referenced by par[15]
    PAR_DELETE(16);
    S.add("vnacal_make_scalar_parameter", true, [](World &w) { RET_INTN(w, vnacal_make_scalar_parameter(w.vc[0], mkc(0.7, 0.1)), w.par[21]); }, [](World &w) { obs_par(w, 21, 1e9); });
    S.add("vnacal_make_vector_parameter", true, [](World &w) { cvec g = gamma_vec(3, 0.5, 0.0, 0.2); RET_INTN(w, vnacal_make_vector_parameter(w.vc[0], FREQ3.data(), 3, g.data()), w.par[22]); }, [](World &w) { obs_par(w, 22, 1.5e9); });
    S.add("vnacal_make_unknown_parameter", true, [](World &w) { RET_INTN(w, vnacal_make_unknown_parameter(w.vc[0], w.par[22]), w.par[23]); });
    S.add("vnacal_make_correlated_parameter", true, [](World &w) { RET_INTN(w, vnacal_make_correlated_parameter(w.vc[0], w.par[23], nullptr, 1, sig1.data()), w.par[24]); });
    // fill the table up to its next boundary (32)
    for (int i = 0; i < 8; i++)
        S.add("vnacal_make_scalar_parameter", true, [i](World &w) { RET_INTN(w, vnacal_make_scalar_parameter(w.vc[0], mkc(0.01 * i, 0.3)), w.par[25 + (i % 7)]); });
    S.add("vnacal_get_parameter_value", true, [](World &w) { errno = 0; dcx z = vnacal_get_parameter_value(w.vc[0], w.par[8], 3.5e9); w.err = errno; w.rc_bad = false; if (re_(z) == HUGE_VAL) return true; w.text[0] = std::to_string(re_(z)) + "," + std::to_string(im_(z)); return false; }, [](World &w) { w.obs("value=%s", w.text[0].c_str()); });
    PAR_DELETE(24);
    PAR_DELETE(23);
    PAR_DELETE(22);
    VC_FREE(0);
}

// ---- vnacal_new helpers
#define VN_ALLOC(i, type, rows, cols, F) S.add("vnacal_new_alloc", true, [](World &w) { RET_PTR(w, vnacal_new_alloc(w.vc[0], type, rows, cols, F), w.vn[i]); })
#define VN_SETF(i, fv) S.add("vnacal_new_set_frequency_vector", true, [](World &w) { RET_INT0(w, vnacal_new_set_frequency_vector(w.vn[i], (fv).data())); })
#define VN_SOLVE(i) S.add("vnacal_new_solve", true, [](World &w) { RET_INT0(w, vnacal_new_solve(w.vn[i])); })
#define VC_ADDCAL(vni, cislot, name) S.add("vnacal_add_calibration", true, [](World &w) { RET_INTN(w, vnacal_add_calibration(w.vc[0], name, w.vn[vni]), w.ci[cislot]); }, OBS_VC(0))
#define VC_SAVE(i) S.add("vnacal_save", true, [](World &w) { RET_INT0(w, vnacal_save(w.vc[i], w.tmp[3].c_str())); }, [](World &w) { if (!w.probing) obs_filename(w, w.vc[i]); w.digest += slurp_file(w.tmp[3]); dump_vc(w, "vc", w.vc[i]); })
#define VC_LOAD(i) S.add("vnacal_load", true, [](World &w) { RET_PTR(w, vnacal_load(w.tmp[3].c_str(), errlog_fn, &w.log), w.vc[i]); }, [](World &w) { if (!w.probing) obs_filename(w, w.vc[i]); dump_vc(w, "vc", w.vc[i]); })

static const cd DUT_S[2][2] = {{cd(0.2, 0.1), cd(0.6, -0.2)}, {cd(0.65, -0.15), cd(-0.1, 0.3)}};
static Sfun S_dut() { return S_const(DUT_S[0][0], DUT_S[0][1], DUT_S[1][0], DUT_S[1][1]); }
// frequencies strictly inside the calibration range, off the calibration grid (rational function interpolation)
static const dvec FREQ_APPLY = {1.25e9, 2.0e9, 2.75e9};

// measurement of the DUT as a 2x2 m matrix for a calibration with `cols` driven ports: for a 2x1
// calibration the second column is measured with the DUT reversed (vnacal(3))
static MeasP dut_measure(const Vna2 &vna, int F, int cols) {
    MeasP mp = measure_m(vna, F, S_dut(), 2, 2);
    if (cols == 1) {
        MeasP rev = measure_m(vna, F, S_const(DUT_S[1][1], DUT_S[1][0], DUT_S[0][1], DUT_S[0][0]), 2, 1);
        for (int f = 0; f < F; f++) { mp->at(1, 1, f) = rev->at(0, 0, f); mp->at(0, 1, f) = rev->at(1, 0, f); }
    }
    return mp;
}

// --- S9: the SOLT example: E12 2x1 from m measurements, add_calibration, calibration properties,
//     save, load, apply_m
static void script_vnacal_solt_e12(Script &S) {
    S.name = "vnacal_solt_e12_2x1";
    static Vna2 vna; vna.with_leak = true;
    static MeasP m_short = measure_m(vna, 3, S_const(-1, 0, 0, 0), 2, 1);
    static MeasP m_open = measure_m(vna, 3, S_const(1, 0, 0, 0), 2, 1);
    static MeasP m_load = measure_m(vna, 3, S_const(0, 0, 0, 0), 2, 1);
    static MeasP m_thru = measure_m(vna, 3, S_const(0, 1, 1, 0), 2, 1);
    static MeasP m_dut = dut_measure(vna, 3, 1);
    VC_CREATE(0);
    VN_ALLOC(0, VNACAL_E12, 2, 1, 3);
    VN_SETF(0, FREQ3);
    S.add("vnacal_new_set_z0", true, [](World &w) { RET_INT0(w, vnacal_new_set_z0(w.vn[0], mkc(50, 0))); });
    S.add("vnacal_new_add_single_reflect_m", true, [](World &w) { RET_INT0(w, vnacal_new_add_single_reflect_m(w.vn[0], m_short->ptr(), 2, 1, VNACAL_SHORT, 1)); });
    S.add("vnacal_new_add_single_reflect_m", true, [](World &w) { RET_INT0(w, vnacal_new_add_single_reflect_m(w.vn[0], m_open->ptr(), 2, 1, VNACAL_OPEN, 1)); });
    S.add("vnacal_new_add_single_reflect_m", true, [](World &w) { RET_INT0(w, vnacal_new_add_single_reflect_m(w.vn[0], m_load->ptr(), 2, 1, VNACAL_MATCH, 1)); });
    S.add("vnacal_new_add_through_m", true, [](World &w) { RET_INT0(w, vnacal_new_add_through_m(w.vn[0], m_thru->ptr(), 2, 1, 1, 2)); });
    VN_SOLVE(0);
    VC_ADDCAL(0, 0, "cal_2x1");
    // calibration and global properties (silent functions)
    S.add("vnacal_property_set", false, [](World &w) { RET_INT0(w, vnacal_property_set(w.vc[0], w.ci[0], "description=XYZ VNA\nwith 2ft cables")); }, OBS_VC(0));
    S.add("vnacal_property_set", false, [](World &w) { RET_INT0(w, vnacal_property_set(w.vc[0], w.ci[0], "detectorMatrix[%d][%d]=%d", 1, 0, 2)); }, OBS_VC(0));
    S.add("vnacal_property_set", false, [](World &w) { RET_INT0(w, vnacal_property_set(w.vc[0], -1, "global.value=%d", 5)); }, OBS_VC(0));
    S.add("vnacal_property_set", false, [](World &w) { RET_INT0(w, vnacal_property_set(w.vc[0], -1, "gone=soon")); }, OBS_VC(0));
    S.add("vnacal_property_get", false, [](World &w) { errno = 0; const char *v = vnacal_property_get(w.vc[0], w.ci[0], "detectorMatrix[1][0]"); w.err = errno; w.rc_bad = false; if (!v) return true; w.text[0] = v; return false; }, [](World &w) { w.obs("get=%s", w.text[0].c_str()); });
    S.add("vnacal_property_type", false, [](World &w) { errno = 0; long rc = vnacal_property_type(w.vc[0], w.ci[0], "detectorMatrix"); w.err = errno; w.rc = rc; w.rc_bad = !(rc == -1 || rc == 'l'); return rc == -1; });
    S.add("vnacal_property_count", false, [](World &w) { int n; RET_INTN(w, vnacal_property_count(w.vc[0], -1, "."), n); (void)n; }, [](World &w) { w.obs("count=%ld", w.rc); });
    S.add("vnacal_property_keys", false, [](World &w) {
        errno = 0; const char **k = vnacal_property_keys(w.vc[0], -1, "."); w.err = errno; w.rc_bad = false;
        if (!k) return true;
        w.text[1].clear(); for (int i = 0; k[i]; i++) { w.text[1] += k[i]; w.text[1] += ","; }
        free((void *)k); return false; }, [](World &w) { w.obs("keys=%s", w.text[1].c_str()); });
    S.add("vnacal_property_get_subtree", false, [](World &w) { errno = 0; vnaproperty_t *t = vnacal_property_get_subtree(w.vc[0], -1, "global"); w.err = errno; w.rc_bad = false; return t == nullptr; });
    S.add("vnacal_property_set_subtree", false, [](World &w) { errno = 0; vnaproperty_t **t = vnacal_property_set_subtree(w.vc[0], w.ci[0], "switches[1]"); w.err = errno; w.rc_bad = false; return t == nullptr; }, OBS_VC(0));
    S.add("vnacal_property_delete", false, [](World &w) { RET_INT0(w, vnacal_property_delete(w.vc[0], -1, "gone")); }, OBS_VC(0));
    S.add("vnacal_set_fprecision", true, [](World &w) { RET_INT0(w, vnacal_set_fprecision(w.vc[0], 9)); });
    S.add("vnacal_set_dprecision", true, [](World &w) { RET_INT0(w, vnacal_set_dprecision(w.vc[0], 8)); });
    VC_SAVE(0);
    VN_FREE(0);
    VC_FREE(0);
    VC_LOAD(1);
    S.add("vnadata_alloc", true, [](World &w) { RET_PTR(w, vnadata_alloc(errlog_fn, &w.log), w.vd[0]); });
    S.add("vnacal_apply_m", true, [](World &w) { RET_INT0(w, vnacal_apply_m(w.vc[1], 0, FREQ_APPLY.data(), 3, m_dut->ptr(), 2, 2, w.vd[0])); }, OBS_VD(0));
    FREE_VD(0);
    VC_FREE(1);
}

// --- S10: T8 2x2 from a/b measurements through every a,b entry point; simple (linear) solve; apply with a,b
static void script_vnacal_t8_ab(Script &S) {
    S.name = "vnacal_t8_2x2_ab";
    static Vna2 vna;
    struct AB { MeasP a, b; };
    auto mk = [](const Sfun &sf) { AB ab; MeasP m = measure_m(vna, 3, sf, 2, 2); make_ab(*m, false, ab.a, ab.b); return ab; };
    static AB short1 = mk(S_const(-1, 0, 0, 0));
    static AB so = mk(S_const(-1, 0, 0, 1));
    static AB thru = mk(S_const(0, 1, 1, 0));
    static AB line = mk(S_const(0.1, cd(0.5, -0.5), cd(0.5, -0.5), 0.1));
    static AB mapped = mk(S_const(0.3, 0, 0, cd(0, 0.5)));     // seen from the VNA: port 1 <- 0.3, port 2 <- 0.5i
    static AB dut = mk(S_dut());
    static AB refl2 = mk(S_const(0, 0, 0, cd(0.6, 0.1)));
    static AB refl1 = mk(S_const(cd(-0.4, 0.2), 0, 0, 0));
    static AB refl3 = mk(S_const(0, 0, 0, cd(0.2, -0.7)));
    VC_CREATE(0);
    VN_ALLOC(0, VNACAL_T8, 2, 2, 3);
    VN_SETF(0, FREQ3);
    PAR_SCALAR(0, 0.1, 0.0);     // line s11 = s22
    PAR_SCALAR(1, 0.5, -0.5);    // line s12 = s21
    PAR_SCALAR(2, 0.0, 0.5);     // mapped standard port A
    PAR_SCALAR(3, 0.3, 0.0);     // mapped standard port B
    S.add("vnacal_new_add_single_reflect", true, [](World &w) { RET_INT0(w, vnacal_new_add_single_reflect(w.vn[0], short1.a->ptr(), 2, 2, short1.b->ptr(), 2, 2, VNACAL_SHORT, 1)); });
    S.add("vnacal_new_add_double_reflect", true, [](World &w) { RET_INT0(w, vnacal_new_add_double_reflect(w.vn[0], so.a->ptr(), 2, 2, so.b->ptr(), 2, 2, VNACAL_SHORT, VNACAL_OPEN, 1, 2)); });
    S.add("vnacal_new_add_through", true, [](World &w) { RET_INT0(w, vnacal_new_add_through(w.vn[0], thru.a->ptr(), 2, 2, thru.b->ptr(), 2, 2, 1, 2)); });
    S.add("vnacal_new_add_line", true, [](World &w) { int s[4] = {w.par[0], w.par[1], w.par[1], w.par[0]}; RET_INT0(w, vnacal_new_add_line(w.vn[0], line.a->ptr(), 2, 2, line.b->ptr(), 2, 2, s, 1, 2)); });
    S.add("vnacal_new_add_mapped_matrix", true, [](World &w) { int s[4] = {w.par[2], VNACAL_ZERO, VNACAL_ZERO, w.par[3]}; int map[2] = {2, 1}; RET_INT0(w, vnacal_new_add_mapped_matrix(w.vn[0], mapped.a->ptr(), 2, 2, mapped.b->ptr(), 2, 2, s, 2, 2, map)); });
    // more distinct parameters than the initial size of the vnacal_new_t parameter hash (8): the table is
    // expanded inside an add (its failure is absorbed by design)
    PAR_SCALAR(4, 0.6, 0.1);
    PAR_SCALAR(5, -0.4, 0.2);
    PAR_SCALAR(6, 0.2, -0.7);
    S.add("vnacal_new_add_single_reflect", true, [](World &w) { RET_INT0(w, vnacal_new_add_single_reflect(w.vn[0], refl2.a->ptr(), 2, 2, refl2.b->ptr(), 2, 2, w.par[4], 2)); });
    S.add("vnacal_new_add_single_reflect", true, [](World &w) { RET_INT0(w, vnacal_new_add_single_reflect(w.vn[0], refl1.a->ptr(), 2, 2, refl1.b->ptr(), 2, 2, w.par[5], 1)); });
    S.add("vnacal_new_add_single_reflect", true, [](World &w) { RET_INT0(w, vnacal_new_add_single_reflect(w.vn[0], refl3.a->ptr(), 2, 2, refl3.b->ptr(), 2, 2, w.par[6], 2)); });
    VN_SOLVE(0);
    VC_ADDCAL(0, 0, "t8");
    S.add("vnadata_alloc", true, [](World &w) { RET_PTR(w, vnadata_alloc(errlog_fn, &w.log), w.vd[0]); });
    S.add("vnacal_apply", true, [](World &w) { RET_INT0(w, vnacal_apply(w.vc[0], w.ci[0], FREQ_APPLY.data(), 3, dut.a->ptr(), 2, 2, dut.b->ptr(), 2, 2, w.vd[0])); }, OBS_VD(0));
    PAR_DELETE(1);
    FREE_VD(0);
    VN_FREE(0);
    VC_FREE(0);
}

// --- S11: TRL: TE10 2x2, through + unknown reflect + line with unknown transmission: analytic TRL solve
static void script_vnacal_trl(Script &S) {
    S.name = "vnacal_trl_te10";
    static Vna2 vna; vna.with_leak = true;
    static const cd R_ACTUAL(-0.93, 0.12);
    static MeasP m_thru = measure_m(vna, 3, S_const(0, 1, 1, 0), 2, 2);
    static MeasP m_refl = measure_m(vna, 3, S_const(R_ACTUAL, 0, 0, R_ACTUAL), 2, 2);
    static MeasP m_line = measure_m(vna, 3, [](int f, cd s[2][2]) { cd t = std::polar(0.97, -(0.9 + 0.55 * f)); s[0][0] = 0; s[0][1] = t; s[1][0] = t; s[1][1] = 0; }, 2, 2);
    static MeasP m_dut = measure_m(vna, 3, S_dut(), 2, 2);
    VC_CREATE(0);
    VN_ALLOC(0, VNACAL_TE10, 2, 2, 3);
    VN_SETF(0, FREQ3);
    S.add("vnacal_new_add_through_m", true, [](World &w) { RET_INT0(w, vnacal_new_add_through_m(w.vn[0], m_thru->ptr(), 2, 2, 1, 2)); });
    PAR_UNKNOWN(0, VNACAL_SHORT);
    S.add("vnacal_new_add_double_reflect_m", true, [](World &w) { RET_INT0(w, vnacal_new_add_double_reflect_m(w.vn[0], m_refl->ptr(), 2, 2, w.par[0], w.par[0], 1, 2)); });
    S.add("vnacal_make_vector_parameter", true, [](World &w) { cvec g(3); for (int f = 0; f < 3; f++) g[(size_t)f] = cx(std::polar(1.0, -(0.85 + 0.5 * f))); RET_INTN(w, vnacal_make_vector_parameter(w.vc[0], FREQ3.data(), 3, g.data()), w.par[1]); });
    S.add("vnacal_make_unknown_parameter", true, [](World &w) { RET_INTN(w, vnacal_make_unknown_parameter(w.vc[0], w.par[1]), w.par[2]); });
    S.add("vnacal_new_add_line_m", true, [](World &w) { int s[4] = {VNACAL_MATCH, w.par[2], w.par[2], VNACAL_MATCH}; RET_INT0(w, vnacal_new_add_line_m(w.vn[0], m_line->ptr(), 2, 2, s, 1, 2)); });
    S.add("vnacal_new_solve", true, [](World &w) { RET_INT0(w, vnacal_new_solve(w.vn[0])); }, [](World &w) { obs_par(w, 0, 2e9); obs_par(w, 2, 2e9); obs_par(w, 2, 2.5e9); });
    VC_ADDCAL(0, 0, "cal-TE10");
    VC_SAVE(0);
    S.add("vnacal_delete_parameter", true, [](World &w) { RET_INT0(w, vnacal_delete_parameter(w.vc[0], w.par[2])); });
    S.add("vnacal_delete_parameter", true, [](World &w) { RET_INT0(w, vnacal_delete_parameter(w.vc[0], w.par[1])); });
    S.add("vnacal_delete_parameter", true, [](World &w) { RET_INT0(w, vnacal_delete_parameter(w.vc[0], w.par[0])); });
    // a second solve of the same structure (allowed by vnacal_new(3)) and a replacing add_calibration
    VN_SOLVE(0);
    VC_ADDCAL(0, 1, "cal-TE10");
    S.add("vnadata_alloc", true, [](World &w) { RET_PTR(w, vnadata_alloc(errlog_fn, &w.log), w.vd[0]); });
    S.add("vnacal_apply_m", true, [](World &w) { RET_INT0(w, vnacal_apply_m(w.vc[0], w.ci[1], FREQ3.data(), 3, m_dut->ptr(), 2, 2, w.vd[0])); }, OBS_VD(0));
    FREE_VD(0);
    VN_FREE(0);
    VC_FREE(0);
}

// --- S12: UE14 2x2 with one unknown parameter that is not a TRL set: iterative (auto) solve
static void script_vnacal_auto_ue14(Script &S) {
    S.name = "vnacal_auto_ue14_unknown";
    static Vna2 vna; vna.with_leak = true;
    static const cd L_ACTUAL(0.52, -0.47);
    static MeasP m_so = measure_m(vna, 3, S_const(-1, 0, 0, 1), 2, 2);
    static MeasP m_os = measure_m(vna, 3, S_const(1, 0, 0, -1), 2, 2);
    static MeasP m_mm = measure_m(vna, 3, S_const(0, 0, 0, 0), 2, 2);
    static MeasP m_thru = measure_m(vna, 3, S_const(0, 1, 1, 0), 2, 2);
    static MeasP m_line = measure_m(vna, 3, S_const(0.1, L_ACTUAL, L_ACTUAL, 0.1), 2, 2);
    struct AB { MeasP a, b; };
    static AB ab_line; if (!ab_line.a) make_ab(*m_line, true, ab_line.a, ab_line.b);
    static AB ab_dut; if (!ab_dut.a) { MeasP m = measure_m(vna, 3, S_dut(), 2, 2); make_ab(*m, true, ab_dut.a, ab_dut.b); }
    VC_CREATE(0);
    VN_ALLOC(0, VNACAL_UE14, 2, 2, 3);
    VN_SETF(0, FREQ3);
    S.add("vnacal_new_add_double_reflect_m", true, [](World &w) { RET_INT0(w, vnacal_new_add_double_reflect_m(w.vn[0], m_so->ptr(), 2, 2, VNACAL_SHORT, VNACAL_OPEN, 1, 2)); });
    S.add("vnacal_new_add_double_reflect_m", true, [](World &w) { RET_INT0(w, vnacal_new_add_double_reflect_m(w.vn[0], m_os->ptr(), 2, 2, VNACAL_OPEN, VNACAL_SHORT, 1, 2)); });
    S.add("vnacal_new_add_double_reflect_m", true, [](World &w) { RET_INT0(w, vnacal_new_add_double_reflect_m(w.vn[0], m_mm->ptr(), 2, 2, VNACAL_MATCH, VNACAL_MATCH, 1, 2)); });
    S.add("vnacal_new_add_through_m", true, [](World &w) { RET_INT0(w, vnacal_new_add_through_m(w.vn[0], m_thru->ptr(), 2, 2, 1, 2)); });
    PAR_SCALAR(0, 0.1, 0.0);
    PAR_SCALAR(1, 0.5, -0.5);        // initial guess of the line's transmission
    S.add("vnacal_make_unknown_parameter", true, [](World &w) { RET_INTN(w, vnacal_make_unknown_parameter(w.vc[0], w.par[1]), w.par[2]); });
    // a,b form of a column-system type: a is 1 x columns
    S.add("vnacal_new_add_line", true, [](World &w) { int s[4] = {w.par[0], w.par[2], w.par[2], w.par[0]}; RET_INT0(w, vnacal_new_add_line(w.vn[0], ab_line.a->ptr(), 1, 2, ab_line.b->ptr(), 2, 2, s, 1, 2)); });
    S.add("vnacal_new_set_p_tolerance", true, [](World &w) { RET_INT0(w, vnacal_new_set_p_tolerance(w.vn[0], 1e-7)); });
    S.add("vnacal_new_set_et_tolerance", true, [](World &w) { RET_INT0(w, vnacal_new_set_et_tolerance(w.vn[0], 1e-7)); });
    S.add("vnacal_new_set_iteration_limit", true, [](World &w) { RET_INT0(w, vnacal_new_set_iteration_limit(w.vn[0], 50)); });
    S.add("vnacal_new_solve", true, [](World &w) { RET_INT0(w, vnacal_new_solve(w.vn[0])); }, [](World &w) { obs_par(w, 2, 2e9); });
    // solve again without add_calibration in between: replaces the previous calibration and the solved values of the unknown
    S.add("vnacal_new_solve", true, [](World &w) { RET_INT0(w, vnacal_new_solve(w.vn[0])); }, [](World &w) { obs_par(w, 2, 2e9); });
    VC_ADDCAL(0, 0, "ue14");
    VC_SAVE(0);
    S.add("vnadata_alloc", true, [](World &w) { RET_PTR(w, vnadata_alloc(errlog_fn, &w.log), w.vd[0]); });
    S.add("vnacal_apply", true, [](World &w) { RET_INT0(w, vnacal_apply(w.vc[0], w.ci[0], FREQ3.data(), 3, ab_dut.a->ptr(), 1, 2, ab_dut.b->ptr(), 2, 2, w.vd[0])); }, OBS_VD(0));
    FREE_VD(0);
    VN_FREE(0);
    VC_FREE(0);
}

// --- S13: weighted solve: T8 2x2, measurement-error model on its own frequency grid (splines),
//     over-determined standard set, p-value test
static void script_vnacal_weighted(Script &S) {
    S.name = "vnacal_weighted_t8_m_error";
    static Vna2 vna;
    static MeasP m_thru = measure_m(vna, 3, S_const(0, 1, 1, 0), 2, 2);
    static MeasP m_so = measure_m(vna, 3, S_const(-1, 0, 0, 1), 2, 2);
    static MeasP m_os = measure_m(vna, 3, S_const(1, 0, 0, -1), 2, 2);
    static MeasP m_mm = measure_m(vna, 3, S_const(0, 0, 0, 0), 2, 2);
    static MeasP m_ss = measure_m(vna, 3, S_const(-1, 0, 0, -1), 2, 2);
    static MeasP m_dut = measure_m(vna, 3, S_dut(), 2, 2);
    static const dvec egrid = {0.9e9, 1.7e9, 2.4e9, 3.1e9};
    static const dvec snf = {1e-4, 2e-4, 1.5e-4, 1e-4};
    static const dvec str_ = {1e-3, 1e-3, 2e-3, 1e-3};
    VC_CREATE(0);
    VN_ALLOC(0, VNACAL_T8, 2, 2, 3);
    VN_SETF(0, FREQ3);
    S.add("vnacal_new_set_m_error", true, [](World &w) { RET_INT0(w, vnacal_new_set_m_error(w.vn[0], egrid.data(), 4, snf.data(), str_.data())); });
    S.add("vnacal_new_set_pvalue_limit", true, [](World &w) { RET_INT0(w, vnacal_new_set_pvalue_limit(w.vn[0], 1e-6)); });
    S.add("vnacal_new_add_through_m", true, [](World &w) { RET_INT0(w, vnacal_new_add_through_m(w.vn[0], m_thru->ptr(), 2, 2, 1, 2)); });
    S.add("vnacal_new_add_double_reflect_m", true, [](World &w) { RET_INT0(w, vnacal_new_add_double_reflect_m(w.vn[0], m_so->ptr(), 2, 2, VNACAL_SHORT, VNACAL_OPEN, 1, 2)); });
    S.add("vnacal_new_add_double_reflect_m", true, [](World &w) { RET_INT0(w, vnacal_new_add_double_reflect_m(w.vn[0], m_os->ptr(), 2, 2, VNACAL_OPEN, VNACAL_SHORT, 1, 2)); });
    S.add("vnacal_new_add_double_reflect_m", true, [](World &w) { RET_INT0(w, vnacal_new_add_double_reflect_m(w.vn[0], m_mm->ptr(), 2, 2, VNACAL_MATCH, VNACAL_MATCH, 1, 2)); });
    S.add("vnacal_new_add_mapped_matrix_m", true, [](World &w) { int s[4] = {VNACAL_SHORT, VNACAL_ZERO, VNACAL_ZERO, VNACAL_SHORT}; RET_INT0(w, vnacal_new_add_mapped_matrix_m(w.vn[0], m_ss->ptr(), 2, 2, s, 2, 2, nullptr)); });
    VN_SOLVE(0);
    VC_ADDCAL(0, 0, "weighted");
    // same sigma for all frequencies (no grid), then on the calibration grid, then disabled
    S.add("vnacal_new_set_m_error", true, [](World &w) { RET_INT0(w, vnacal_new_set_m_error(w.vn[0], nullptr, 1, snf.data(), nullptr)); });
    VN_SOLVE(0);
    S.add("vnacal_new_set_m_error", true, [](World &w) { RET_INT0(w, vnacal_new_set_m_error(w.vn[0], nullptr, 3, snf.data(), str_.data())); });
    VN_SOLVE(0);
    VC_ADDCAL(0, 1, "weighted");
    S.add("vnacal_new_set_m_error", true, [](World &w) { RET_INT0(w, vnacal_new_set_m_error(w.vn[0], nullptr, 1, nullptr, nullptr)); });
    VC_SAVE(0);
    S.add("vnadata_alloc", true, [](World &w) { RET_PTR(w, vnadata_alloc(errlog_fn, &w.log), w.vd[0]); });
    S.add("vnacal_apply_m", true, [](World &w) { RET_INT0(w, vnacal_apply_m(w.vc[0], w.ci[1], FREQ_APPLY.data(), 3, m_dut->ptr(), 2, 2, w.vd[0])); }, OBS_VD(0));
    FREE_VD(0);
    VN_FREE(0);
    VC_FREE(0);
}

// --- S14: correlated parameters (connection non-repeatability) with a measurement-error model: auto solve
static void script_vnacal_correlated(Script &S) {
    S.name = "vnacal_correlated_te10";
    static Vna2 vna; vna.with_leak = true;
    static const cd R1(-0.91, 0.02), R2(-0.89, -0.01);
    static MeasP m_thru = measure_m(vna, 3, S_const(0, 1, 1, 0), 2, 2);
    static MeasP m_so = measure_m(vna, 3, S_const(-1, 0, 0, 1), 2, 2);
    static MeasP m_os = measure_m(vna, 3, S_const(1, 0, 0, -1), 2, 2);
    static MeasP m_mm = measure_m(vna, 3, S_const(0, 0, 0, 0), 2, 2);
    static MeasP m_rr = measure_m(vna, 3, S_const(R1, 0, 0, R2), 2, 2);
    static const dvec sgrid = {0.8e9, 2e9, 3.3e9};
    static const dvec sig3 = {0.05, 0.04, 0.05};
    static const dvec sig1 = {0.05};
    static const dvec snf = {1e-3};
    VC_CREATE(0);
    VN_ALLOC(0, VNACAL_TE10, 2, 2, 3);
    VN_SETF(0, FREQ3);
    S.add("vnacal_new_set_m_error", true, [](World &w) { RET_INT0(w, vnacal_new_set_m_error(w.vn[0], nullptr, 1, snf.data(), nullptr)); });
    S.add("vnacal_new_add_through_m", true, [](World &w) { RET_INT0(w, vnacal_new_add_through_m(w.vn[0], m_thru->ptr(), 2, 2, 1, 2)); });
    S.add("vnacal_new_add_double_reflect_m", true, [](World &w) { RET_INT0(w, vnacal_new_add_double_reflect_m(w.vn[0], m_so->ptr(), 2, 2, VNACAL_SHORT, VNACAL_OPEN, 1, 2)); });
    S.add("vnacal_new_add_double_reflect_m", true, [](World &w) { RET_INT0(w, vnacal_new_add_double_reflect_m(w.vn[0], m_os->ptr(), 2, 2, VNACAL_OPEN, VNACAL_SHORT, 1, 2)); });
    S.add("vnacal_new_add_double_reflect_m", true, [](World &w) { RET_INT0(w, vnacal_new_add_double_reflect_m(w.vn[0], m_mm->ptr(), 2, 2, VNACAL_MATCH, VNACAL_MATCH, 1, 2)); });
    PAR_SCALAR(0, -0.9, 0.0);
    S.add("vnacal_make_correlated_parameter", true, [](World &w) { RET_INTN(w, vnacal_make_correlated_parameter(w.vc[0], w.par[0], sgrid.data(), 3, sig3.data()), w.par[1]); });
    S.add("vnacal_make_correlated_parameter", true, [](World &w) { RET_INTN(w, vnacal_make_correlated_parameter(w.vc[0], w.par[1], nullptr, 1, sig1.data()), w.par[2]); });
    S.add("vnacal_new_add_double_reflect_m", true, [](World &w) { RET_INT0(w, vnacal_new_add_double_reflect_m(w.vn[0], m_rr->ptr(), 2, 2, w.par[1], w.par[2], 1, 2)); });
    S.add("vnacal_new_set_pvalue_limit", true, [](World &w) { RET_INT0(w, vnacal_new_set_pvalue_limit(w.vn[0], 1e-9)); });
    S.add("vnacal_new_solve", true, [](World &w) { RET_INT0(w, vnacal_new_solve(w.vn[0])); }, [](World &w) { obs_par(w, 1, 2e9); obs_par(w, 2, 2e9); });
    VC_ADDCAL(0, 0, "correlated");
    VC_SAVE(0);
    VN_FREE(0);
    VC_FREE(0);
}

// --- S15: several calibrations in one container: three add_calibration calls (growth of the
//     calibration table 0 -> 1 -> 8), replacement by name, delete, find, save, load, apply with interpolation
static void script_vnacal_multi(Script &S) {
    S.name = "vnacal_multi_calibration";
    static Vna2 vna;
    auto refl = [](cd g) { MeasP mp = std::make_shared<Meas>(1, 1, 4); for (int f = 0; f < 4; f++) { cd s[2][2] = {{g, 0}, {0, 0}}, m[2][2]; vna.measure(s, f, m); mp->at(0, 0, f) = cx(m[0][0]); } return mp; };
    static MeasP m_s = refl(-1), m_o = refl(1), m_m = refl(0), m_d = refl(cd(0.3, -0.4));
    static const dvec fa = {1.1e9, 1.9e9, 2.6e9, 3.7e9};
    VC_CREATE(0);
    for (int i = 0; i < 3; i++) {
        int type = i == 0 ? VNACAL_T8 : i == 1 ? VNACAL_UE10 : VNACAL_E12;
        S.add("vnacal_new_alloc", true, [i, type](World &w) { RET_PTR(w, vnacal_new_alloc(w.vc[0], (vnacal_type_t)type, 1, 1, 4), w.vn[i]); });
        S.add("vnacal_new_set_frequency_vector", true, [i](World &w) { RET_INT0(w, vnacal_new_set_frequency_vector(w.vn[i], FREQ4.data())); });
        S.add("vnacal_new_add_single_reflect_m", true, [i](World &w) { RET_INT0(w, vnacal_new_add_single_reflect_m(w.vn[i], m_s->ptr(), 1, 1, VNACAL_SHORT, 1)); });
        S.add("vnacal_new_add_single_reflect_m", true, [i](World &w) { RET_INT0(w, vnacal_new_add_single_reflect_m(w.vn[i], m_o->ptr(), 1, 1, VNACAL_OPEN, 1)); });
        S.add("vnacal_new_add_single_reflect_m", true, [i](World &w) { RET_INT0(w, vnacal_new_add_single_reflect_m(w.vn[i], m_m->ptr(), 1, 1, VNACAL_MATCH, 1)); });
        S.add("vnacal_new_solve", true, [i](World &w) { RET_INT0(w, vnacal_new_solve(w.vn[i])); });
        S.add("vnacal_add_calibration", true, [i](World &w) { static const char *names[3] = {"first", "second", "third"}; RET_INTN(w, vnacal_add_calibration(w.vc[0], names[i], w.vn[i]), w.ci[i]); }, OBS_VC(0));
    }
    S.add("vnacal_property_set", false, [](World &w) { RET_INT0(w, vnacal_property_set(w.vc[0], w.ci[1], "note=second calibration")); });
    S.add("vnacal_property_set", false, [](World &w) { RET_INT0(w, vnacal_property_set(w.vc[0], w.ci[2], "list[+]=%d", 3)); });
    S.add("vnacal_find_calibration", false, [](World &w) { int ci; RET_INTN(w, vnacal_find_calibration(w.vc[0], "second"), ci); (void)ci; }, [](World &w) { w.obs("found=%ld", w.rc); });
    S.add("vnacal_delete_calibration", false, [](World &w) { RET_INT0(w, vnacal_delete_calibration(w.vc[0], w.ci[0])); }, OBS_VC(0));
    // solve again and replace "second" by name; then refill the deleted slot
    VN_SOLVE(0);
    S.add("vnacal_add_calibration", true, [](World &w) { RET_INTN(w, vnacal_add_calibration(w.vc[0], "second", w.vn[0]), w.ci[3]); }, OBS_VC(0));
    VN_SOLVE(1);
    S.add("vnacal_add_calibration", true, [](World &w) { RET_INTN(w, vnacal_add_calibration(w.vc[0], "fourth", w.vn[1]), w.ci[4]); }, OBS_VC(0));
    S.add("vnacal_set_dprecision", true, [](World &w) { RET_INT0(w, vnacal_set_dprecision(w.vc[0], VNACAL_MAX_PRECISION)); });
    VC_SAVE(0);
    VN_FREE(2);
    VC_FREE(0);
    VC_LOAD(1);
    S.add("vnadata_alloc", true, [](World &w) { RET_PTR(w, vnadata_alloc(errlog_fn, &w.log), w.vd[0]); });
    for (int ci = 0; ci < 3; ci++)
        S.add("vnacal_apply_m", true, [ci](World &w) { RET_INT0(w, vnacal_apply_m(w.vc[1], ci, fa.data(), 4, m_d->ptr(), 1, 1, w.vd[0])); }, OBS_VD(0));
    S.add("vnacal_save", true, [](World &w) { RET_INT0(w, vnacal_save(w.vc[1], w.tmp[3].c_str())); }, [](World &w) { w.digest += slurp_file(w.tmp[3]); });
    FREE_VD(0);
    VC_FREE(1);
}

// --- S16: 16-term types: T16 and U16 2x2 from fully specified standards (mapped matrices), with error model
static void script_vnacal_t16(Script &S) {
    S.name = "vnacal_t16_u16";
    static Vna2 vna; vna.with_leak = true;
    struct Std { int s[4]; MeasP m; };
    auto g = [](int h) { return h == VNACAL_SHORT ? cd(-1) : h == VNACAL_OPEN ? cd(1) : cd(0); };
    static std::vector<Std> stds;
    if (stds.empty()) {
        const int defs[6][4] = {
            {VNACAL_ZERO, VNACAL_ONE, VNACAL_ONE, VNACAL_ZERO},          // through
            {VNACAL_SHORT, VNACAL_ZERO, VNACAL_ZERO, VNACAL_OPEN},
            {VNACAL_OPEN, VNACAL_ZERO, VNACAL_ZERO, VNACAL_SHORT},
            {VNACAL_MATCH, VNACAL_ZERO, VNACAL_ZERO, VNACAL_MATCH},
            {VNACAL_SHORT, VNACAL_ZERO, VNACAL_ZERO, VNACAL_MATCH},
            {VNACAL_MATCH, VNACAL_ZERO, VNACAL_ZERO, VNACAL_OPEN}};
        for (auto &d : defs) {
            Std st; for (int i = 0; i < 4; i++) st.s[i] = d[i];
            // off-diagonal VNACAL_ONE (= VNACAL_OPEN = 1) means transmission 1
            st.m = measure_m(vna, 2, S_const(g(d[0]), d[1] == VNACAL_ONE ? cd(1) : cd(0), d[2] == VNACAL_ONE ? cd(1) : cd(0), g(d[3])), 2, 2);
            stds.push_back(st);
        }
    }
    static const dvec f2 = {1e9, 2e9};
    static const dvec snf = {1e-3};
    static MeasP m_dut = measure_m(vna, 2, S_dut(), 2, 2);
    VC_CREATE(0);
    for (int t = 0; t < 2; t++) {
        int type = t == 0 ? VNACAL_T16 : VNACAL_U16;
        S.add("vnacal_new_alloc", true, [t, type](World &w) { RET_PTR(w, vnacal_new_alloc(w.vc[0], (vnacal_type_t)type, 2, 2, 2), w.vn[t]); });
        S.add("vnacal_new_set_frequency_vector", true, [t](World &w) { RET_INT0(w, vnacal_new_set_frequency_vector(w.vn[t], f2.data())); });
        if (t == 1)
            S.add("vnacal_new_set_m_error", true, [t](World &w) { RET_INT0(w, vnacal_new_set_m_error(w.vn[t], nullptr, 1, snf.data(), nullptr)); });
        for (size_t k = 0; k < 6; k++)
            S.add("vnacal_new_add_mapped_matrix_m", true, [t, k](World &w) { RET_INT0(w, vnacal_new_add_mapped_matrix_m(w.vn[t], stds[k].m->ptr(), 2, 2, stds[k].s, 2, 2, nullptr)); });
        S.add("vnacal_new_solve", true, [t](World &w) { RET_INT0(w, vnacal_new_solve(w.vn[t])); });
        S.add("vnacal_add_calibration", true, [t](World &w) { RET_INTN(w, vnacal_add_calibration(w.vc[0], t == 0 ? "t16" : "u16", w.vn[t]), w.ci[t]); }, OBS_VC(0));
    }
    VC_SAVE(0);
    S.add("vnadata_alloc", true, [](World &w) { RET_PTR(w, vnadata_alloc(errlog_fn, &w.log), w.vd[0]); });
    S.add("vnacal_apply_m", true, [](World &w) { RET_INT0(w, vnacal_apply_m(w.vc[0], w.ci[1], f2.data(), 2, m_dut->ptr(), 2, 2, w.vd[0])); }, OBS_VD(0));
    FREE_VD(0);
    VC_FREE(0);    // also frees both vnacal_new_t structures
}

// --- G: generated calibration histories (thorough tier): every error-term type x dimensions
//     {1x1, 2x2, 2x1 / 1x2} x frequencies {1,2,3} x measurement form {m, a/b}:
//     create, new_alloc, frequencies, a standard set that determines every type, solve,
//     add_calibration, save, load, apply, free
static const int GEN_TYPES[8] = {VNACAL_T8, VNACAL_U8, VNACAL_TE10, VNACAL_UE10, VNACAL_T16, VNACAL_U16, VNACAL_UE14, VNACAL_E12};
static const int GEN_NVARIANTS = 8 * 3 * 3 * 2;
static void script_gen_cal(Script &S, int v) {
    const int type = GEN_TYPES[v % 8]; v /= 8;
    const int dim = v % 3; v /= 3;         // 0: 1x1, 1: 2x2, 2: rectangular (2x1 for U/E types, 1x2 for T types)
    const int F = 1 + v % 3; v /= 3;
    const bool ab = v % 2;
    const bool is_t = type == VNACAL_T8 || type == VNACAL_TE10 || type == VNACAL_T16;
    const bool colsys = type == VNACAL_UE14 || type == VNACAL_E12;
    const int rows = dim == 0 ? 1 : dim == 1 ? 2 : is_t ? 1 : 2;
    const int cols = dim == 0 ? 1 : dim == 1 ? 2 : is_t ? 2 : 1;
    char nm[96]; snprintf(nm, sizeof nm, "gen_cal_%s_%dx%d_F%d_%s", vnacal_type_to_name((vnacal_type_t)type), rows, cols, F, ab ? "ab" : "m");
    S.name = nm;
    Vna2 vna; vna.with_leak = type != VNACAL_T8 && type != VNACAL_U8;
    dvec freq; for (int f = 0; f < F; f++) freq.push_back(1e9 * (f + 1));
    struct Std { std::vector<int> s; MeasP m, a, b; };
    auto gam = [](int h) { return h == VNACAL_SHORT ? cd(-1) : h == VNACAL_OPEN ? cd(1) : cd(0); };
    std::vector<Std> stds;
    if (dim == 0) {
        for (int h : {VNACAL_SHORT, VNACAL_OPEN, VNACAL_MATCH}) { Std st; st.s = {h}; st.m = measure_m(vna, F, S_const(gam(h), 0, 0, 0), 1, 1); stds.push_back(st); }
    } else {
        const int defs[6][4] = {
            {VNACAL_ZERO, VNACAL_ONE, VNACAL_ONE, VNACAL_ZERO}, {VNACAL_SHORT, VNACAL_ZERO, VNACAL_ZERO, VNACAL_OPEN}, {VNACAL_OPEN, VNACAL_ZERO, VNACAL_ZERO, VNACAL_SHORT},
            {VNACAL_MATCH, VNACAL_ZERO, VNACAL_ZERO, VNACAL_MATCH}, {VNACAL_SHORT, VNACAL_ZERO, VNACAL_ZERO, VNACAL_MATCH}, {VNACAL_MATCH, VNACAL_ZERO, VNACAL_ZERO, VNACAL_OPEN}};
        for (auto &d : defs) {
            Std st; st.s.assign(d, d + 4);
            st.m = measure_m(vna, F, S_const(gam(d[0]), d[1] == VNACAL_ONE ? cd(1) : cd(0), d[2] == VNACAL_ONE ? cd(1) : cd(0), gam(d[3])), rows, cols);
            stds.push_back(st);
        }
    }
    for (auto &st : stds) if (ab) make_ab(*st.m, colsys, st.a, st.b);
    // DUT measurement for apply: square, max(rows, cols) ports; the missing row/column of a
    // rectangular calibration is measured with the DUT reversed
    const int P = std::max(rows, cols);
    MeasP dut = std::make_shared<Meas>(P, P, F);
    {
        MeasP fwd = measure_m(vna, F, S_dut(), 2, 2), rev = measure_m(vna, F, S_const(DUT_S[1][1], DUT_S[1][0], DUT_S[0][1], DUT_S[0][0]), 2, 2);
        for (int f = 0; f < F; f++) {
            if (P == 1) { cd s[2][2] = {{cd(0.3, -0.4), 0}, {0, 0}}, m[2][2]; vna.measure(s, f, m); dut->at(0, 0, f) = cx(m[0][0]); continue; }
            for (int r = 0; r < 2; r++) for (int cc = 0; cc < 2; cc++) dut->at(r, cc, f) = fwd->at(r, cc, f);
            if (rows == 2 && cols == 1) { dut->at(1, 1, f) = rev->at(0, 0, f); dut->at(0, 1, f) = rev->at(1, 0, f); }
            if (rows == 1 && cols == 2) { dut->at(1, 1, f) = rev->at(0, 0, f); dut->at(1, 0, f) = rev->at(0, 1, f); }
        }
    }
    MeasP dut_a, dut_b;
    if (ab) make_ab(*dut, colsys, dut_a, dut_b);
    VC_CREATE(0);
    S.add("vnacal_new_alloc", true, [=](World &w) { RET_PTR(w, vnacal_new_alloc(w.vc[0], (vnacal_type_t)type, rows, cols, F), w.vn[0]); });
    S.add("vnacal_new_set_frequency_vector", true, [=](World &w) { RET_INT0(w, vnacal_new_set_frequency_vector(w.vn[0], freq.data())); });
    for (auto &st : stds) {
        Std sd = st;
        const int sdim = dim == 0 ? 1 : 2;
        const int arows = colsys ? 1 : cols;
        if (ab) S.add("vnacal_new_add_mapped_matrix", true, [=](World &w) { RET_INT0(w, vnacal_new_add_mapped_matrix(w.vn[0], sd.a->ptr(), arows, cols, sd.b->ptr(), rows, cols, sd.s.data(), sdim, sdim, nullptr)); });
        else S.add("vnacal_new_add_mapped_matrix_m", true, [=](World &w) { RET_INT0(w, vnacal_new_add_mapped_matrix_m(w.vn[0], sd.m->ptr(), rows, cols, sd.s.data(), sdim, sdim, nullptr)); });
    }
    VN_SOLVE(0);
    VC_ADDCAL(0, 0, "generated");
    VC_SAVE(0);
    VN_FREE(0);
    VC_FREE(0);
    VC_LOAD(1);
    S.add("vnadata_alloc", true, [](World &w) { RET_PTR(w, vnadata_alloc(errlog_fn, &w.log), w.vd[0]); });
    const int arows_dut = colsys ? 1 : P;
    if (ab) S.add("vnacal_apply", true, [=](World &w) { RET_INT0(w, vnacal_apply(w.vc[1], 0, freq.data(), F, dut_a->ptr(), arows_dut, P, dut_b->ptr(), P, P, w.vd[0])); }, OBS_VD(0));
    else S.add("vnacal_apply_m", true, [=](World &w) { RET_INT0(w, vnacal_apply_m(w.vc[1], 0, freq.data(), F, dut->ptr(), P, P, w.vd[0])); }, OBS_VD(0));
    FREE_VD(0);
    VC_FREE(1);
}
static void script_gen_cal_family(Script &S) {
    S.name = "gen_cal";
    S.nvariants = GEN_NVARIANTS;
    S.generate = script_gen_cal;
}

// ======================================================= "replace X by Y" scripts
// Type-changing overwrites free the old node and allocate its replacement: exactly where a failed
// allocation can leave a dangling or half-replaced slot.  Every direction (null/scalar/map/list ->
// scalar/map/list/null), at the root, as a map value and as a list cell, through every modifying
// entry point.
#define PSUB(i, ...)  S.add("vnaproperty_set_subtree", false, [](World &w) { errno = 0; vnaproperty_t **t = vnaproperty_set_subtree(&w.prop[i], __VA_ARGS__); w.err = errno; w.rc_bad = false; return t == nullptr; }, OBS_PROP(i))
#define PCOPY(dst, src) S.add("vnaproperty_copy", false, [](World &w) { RET_INT0(w, vnaproperty_copy(&w.prop[dst], w.prop[src])); }, OBS_PROP(dst))
#define PIMPORT(i, text) S.add("vnaproperty_import_yaml_from_string", false, [](World &w) { RET_INT0(w, vnaproperty_import_yaml_from_string(&w.prop[i], text, errlog_fn, &w.log)); }, OBS_PROP(i))

// --- S17: vnaproperty_set / set_subtree / delete: retyping at the root, of a map value, of a list cell
static void script_vnaproperty_retype(Script &S) {
    S.name = "vnaproperty_retype";
    // root
    PSET(0, ".=root scalar");          // null   -> scalar
    PSET(0, "[0]=a");                  // scalar -> list  (element)
    PSET(0, "k=v");                    // list   -> map
    PSET(0, "[+]=x");                  // map    -> list  (append)
    PSET(0, ".=s");                    // list   -> scalar
    PSET(0, "m.k=1");                  // scalar -> map
    PSET(0, "[0+]=ins");               // map    -> list  (insert)
    PSUB(0, "{}");                     // list   -> map   (abstract map)
    PSET(0, "k2=v2");
    PSUB(0, "[]");                     // map    -> list  (abstract list)
    PSET(0, ".#");                     // list   -> null
    PSUB(0, "[]");                     // null   -> list
    PSET(0, ".=s2");                   // list   -> scalar
    PSUB(0, "[]");                     // scalar -> list  (abstract list)
    PDEL(0, ".");                      // list   -> null
    PSUB(0, "{}");                     // null   -> map
    PSET(0, ".=s3");                   // map    -> scalar
    PSUB(0, "[2]");                    // scalar -> list  (set_subtree element)
    PSUB(0, "sub");                    // list   -> map   (set_subtree key)
    // map value "v"
    PSET(0, "v=scalar");               // null   -> scalar
    PSET(0, "v[0]=1");                 // scalar -> list
    PSET(0, "v.k=1");                  // list   -> map
    PSET(0, "v[+]=2");                 // map    -> list  (append)
    PSET(0, "v=s");                    // list   -> scalar
    PSET(0, "v.a.b=1");                // scalar -> map (two levels)
    PSET(0, "v[0+]=z");                // map    -> list  (insert)
    PSET(0, "v#");                     // list   -> null
    PSET(0, "v[2]=sparse");            // null   -> list with leading nulls
    PSET(0, "v#");
    PSET(0, "v.k=1");                  // null   -> map
    PSUB(0, "v[]");                    // map    -> list  (abstract)
    PSUB(0, "v{}");                    // list   -> map   (abstract)
    PSUB(0, "v[1]");                   // map    -> list  (set_subtree element)
    PSUB(0, "v.key");                  // list   -> map   (set_subtree key)
    PSET(0, "v=s");                    // map    -> scalar
    PSUB(0, "v[]");                    // scalar -> list  (abstract)
    PSET(0, "v=s");
    PSUB(0, "v{}");                    // scalar -> map   (abstract)
    PDEL(0, "v.");                     // map    -> null, key kept
    PSET(0, "v[+]=again");             // null   -> list  (append)
    PDEL(0, "v");                      // entry removed
    // list cell "l[1]"
    PSET(0, "l[1]=cell");              // creates l = [~, cell]
    PSET(0, "l[1][1]=x");              // scalar cell -> list
    PSET(0, "l[1].k=1");               // list cell   -> map
    PSET(0, "l[1][+]=y");              // map cell    -> list
    PSET(0, "l[1]=s");                 // list cell   -> scalar
    PSET(0, "l[1].a=1");               // scalar cell -> map
    PSUB(0, "l[1][]");                 // map cell    -> list (abstract)
    PSUB(0, "l[1]{}");                 // list cell   -> map  (abstract)
    PSET(0, "l[1]#");                  // map cell    -> null
    PSET(0, "l[1][0]=n");              // null cell   -> list
    PDEL(0, "l[1].");                  // list cell   -> null, position kept
    PSET(0, "l[1].k.j=n");             // null cell   -> map
    PSET(0, "l[0+][0]=front");         // insert a new list cell in front that is itself a list
    PDEL(0, "l[0]");                   // removes it, shifting the map cell down
    PSET(0, "l=flat");                 // whole list  -> scalar
    PSET(0, "l[0].deep[1].er=1");      // scalar -> list -> map -> list -> map in one call
    // descriptors with two and three insertions ([+] / [n+]) into lists that already have >= 2 elements, with
    // further allocations after the last insertion: a failed call must take out ALL the cells it inserted
    PSET(0, "runs[0].name=first");
    PSET(0, "runs[1].name=second");
    PSET(0, "runs[+].stages[+].gain.db=1");            // two insertions, then two map levels
    PSET(0, "runs[0+].stages[+].taps[+]=3");           // three insertions
    PSET(0, "runs[1+].stages[0+].x[1+].y[+]=v");       // four, with padding by [1+] on a new list
    PSET(0, "runs[3].stages[0+].gain[+].more=2");      // existing cell, two insertions below it (one retypes a map)
    PSET(0, "l2[0]=a");
    PSET(0, "l2[1][0]=b");
    PSET(0, "l2[1][1]=c");
    PSET(0, "l2[1+][0+]=v");                            // insert a cell, make it a list, insert into that
    PSET(0, "l2[2][1+][+].k=w");                        // existing inner list: two insertions
    PSUB(0, "runs[+].stages[+].sub");                   // the same through set_subtree
    PDEL(0, ".");
    // root list
    PSET(1, "[0].x[0]=p");
    PSET(1, "[0].x[1]=q");
    PSET(1, "[1]=r");
    PSET(1, "[0+].x[1+].y[+]=v");                       // three insertions starting at the root
    PSET(1, "[1].x[1+].y[+].z=w");                      // existing cell and list: two insertions
    PSET(1, "[+][+][+]=deep");                          // three appends in a row
    PDEL(1, ".");
}

// --- S18: vnaproperty_copy and vnaproperty_import_yaml_from_string onto non-empty roots of another type
static void script_vnaproperty_replace_root(Script &S) {
    S.name = "vnaproperty_replace_root";
    PSET(0, "a.b[1]=map-rooted");      // prop0: map
    PSET(1, "[1][0]=list-rooted");     // prop1: list
    PSET(2, ".=scalar-rooted");        // prop2: scalar
    PCOPY(1, 0);                       // list   <- map
    PCOPY(2, 1);                       // scalar <- map
    PSET(1, "[2].x=list again");       // prop1: map -> list
    PCOPY(0, 1);                       // map    <- list
    PSET(2, ".=scalar again");
    PCOPY(1, 2);                       // list   <- scalar
    PCOPY(0, 2);                       // list   <- scalar
    PSET(0, "[0]=l");                  // prop0: scalar -> list
    PCOPY(2, 0);                       // scalar <- list
    S.add("vnaproperty_copy", false, [](World &w) { RET_INT0(w, vnaproperty_copy(&w.prop[2], nullptr)); }, OBS_PROP(2));   // list <- null
    PCOPY(2, 0);                       // null   <- list
    // import replaces the existing content
    PIMPORT(0, "{k: [1, {m: n}], s: t}\n");       // list   <- map
    PIMPORT(0, "[a, [b, c], {d: e}]\n");          // map    <- list
    PIMPORT(0, "just a scalar\n");                // list   <- scalar
    PIMPORT(0, "{x: y}\n");                       // scalar <- map
    PIMPORT(0, "~\n");                            // map    <- null
    PIMPORT(0, "[1]\n");                          // null   <- list
    PIMPORT(1, "- {deep: [1, 2]}\n- plain\n");    // scalar <- list
    PIMPORT(2, "text\n");                         // list   <- scalar
    PDEL(2, ".");
    PDEL(1, ".");
    PDEL(0, ".");
}

// --- S19: the same retyping through vnacal_property_set / set_subtree / delete, on the global root
//     and on the root of a calibration; the result is saved and loaded
static void script_vnacal_property_retype(Script &S) {
    S.name = "vnacal_property_retype";
    static Vna2 vna;
    auto refl = [](cd g) { MeasP mp = std::make_shared<Meas>(1, 1, 2); for (int f = 0; f < 2; f++) { cd s[2][2] = {{g, 0}, {0, 0}}, m[2][2]; vna.measure(s, f, m); mp->at(0, 0, f) = cx(m[0][0]); } return mp; };
    static MeasP m_s = refl(-1), m_o = refl(1), m_m = refl(0);
    static const dvec f2 = {1e9, 2e9};
    VC_CREATE(0);
    VN_ALLOC(0, VNACAL_T8, 1, 1, 2);
    VN_SETF(0, f2);
    S.add("vnacal_new_add_single_reflect_m", true, [](World &w) { RET_INT0(w, vnacal_new_add_single_reflect_m(w.vn[0], m_s->ptr(), 1, 1, VNACAL_SHORT, 1)); });
    S.add("vnacal_new_add_single_reflect_m", true, [](World &w) { RET_INT0(w, vnacal_new_add_single_reflect_m(w.vn[0], m_o->ptr(), 1, 1, VNACAL_OPEN, 1)); });
    S.add("vnacal_new_add_single_reflect_m", true, [](World &w) { RET_INT0(w, vnacal_new_add_single_reflect_m(w.vn[0], m_m->ptr(), 1, 1, VNACAL_MATCH, 1)); });
    VN_SOLVE(0);
    VC_ADDCAL(0, 0, "cal");
    for (int which = 0; which < 2; which++) {      // 0: global root (ci = -1), 1: the calibration's root
#define CI(w) (which == 0 ? -1 : (w).ci[0])
#define VPSET(...) S.add("vnacal_property_set", false, [which](World &w) { RET_INT0(w, vnacal_property_set(w.vc[0], CI(w), __VA_ARGS__)); }, OBS_VC(0))
#define VPSUB(...) S.add("vnacal_property_set_subtree", false, [which](World &w) { errno = 0; vnaproperty_t **t = vnacal_property_set_subtree(w.vc[0], CI(w), __VA_ARGS__); w.err = errno; w.rc_bad = false; return t == nullptr; }, OBS_VC(0))
#define VPDEL(...) S.add("vnacal_property_delete", false, [which](World &w) { RET_INT0(w, vnacal_property_delete(w.vc[0], CI(w), __VA_ARGS__)); }, OBS_VC(0))
        VPSET(".=root scalar");        // null   -> scalar
        VPSET("[1]=a");                // scalar -> list
        VPSET("k=v");                  // list   -> map
        VPSUB("[]");                   // map    -> list
        VPSUB("{}");                   // list   -> map
        VPSET("x=1");
        VPSET("x[0]=a");               // scalar value -> list
        VPSET("x.k=v");                // list value   -> map
        VPSET("x[+]=1");               // map value    -> list
        VPSUB("x{}");                  // list value   -> map
        VPSUB("x[]");                  // map value    -> list
        VPSET("x[0]=cell");
        VPSET("x[0][+]=c");            // scalar cell  -> list
        VPSET("x[0].k=c");             // list cell    -> map
        VPSUB("x[0][]");               // map cell     -> list
        VPDEL("x[0].");                // list cell    -> null
        VPSET("x=scalar");             // list value   -> scalar
        VPDEL("x.");                   // scalar value -> null
        VPSET("x[+]=again");           // null value   -> list
        VPDEL("x");
        VPSET("keep.list[1]=kept");
        // two and three insertions in one descriptor
        if (which == 0) {
            VPSET("runs[+].stages[+].g=1");             // into lists the call creates itself
        } else {
            VPSET("runs[0].n=a");
            VPSET("runs[1].n=b");
            VPSET("runs[+].stages[+].gain.db=1");       // into an existing 2-element list
            VPSET("runs[0+].stages[0+].taps[+]=2");
        }
#undef VPSET
#undef VPSUB
#undef VPDEL
#undef CI
    }
    VC_SAVE(0);
    S.add("vnacal_property_delete", false, [](World &w) { RET_INT0(w, vnacal_property_delete(w.vc[0], -1, ".")); }, OBS_VC(0));
    S.add("vnacal_property_set", false, [](World &w) { RET_INT0(w, vnacal_property_set(w.vc[0], w.ci[0], "[0]=calibration root becomes a list")); }, OBS_VC(0));   // map root -> list
    VN_FREE(0);
    VC_FREE(0);
    VC_LOAD(1);
    S.add("vnacal_property_set", false, [](World &w) { RET_INT0(w, vnacal_property_set(w.vc[1], 0, "keep[0]=loaded map value becomes a list")); }, OBS_VC(1));
    S.add("vnacal_property_set_subtree", false, [](World &w) { errno = 0; vnaproperty_t **t = vnacal_property_set_subtree(w.vc[1], -1, "[]"); w.err = errno; w.rc_bad = false; return t == nullptr; }, OBS_VC(1));
    VC_FREE(1);
}

// --- S20: unknown and correlated parameters shared by several vnacal_new_t structures with different
//     numbers of frequency points (3, then 2 = fewer, then 4 = more): each solve replaces the values
//     and the frequency grid stored in the shared parameters.  After every solve -- and, through the
//     usability probe, after every FAILED solve -- the parameters are evaluated at frequencies of all grids.
static void script_vnacal_shared_unknown(Script &S) {
    S.name = "vnacal_shared_unknown_regrid";
    static Vna2 vna; vna.with_leak = true;
    static const cd R1(-0.91, 0.02), R2(-0.89, -0.01);
    static const int NF[3] = {3, 2, 4};
    static const dvec grid[3] = {{1e9, 2e9, 3e9}, {1e9, 3e9}, {1e9, 1.5e9, 2.5e9, 3e9}};
    struct Set { MeasP thru, so, os, mm, rr; };
    static Set sets[3];
    if (!sets[0].thru) for (int j = 0; j < 3; j++) {
        sets[j].thru = measure_m(vna, NF[j], S_const(0, 1, 1, 0), 2, 2);
        sets[j].so = measure_m(vna, NF[j], S_const(-1, 0, 0, 1), 2, 2);
        sets[j].os = measure_m(vna, NF[j], S_const(1, 0, 0, -1), 2, 2);
        sets[j].mm = measure_m(vna, NF[j], S_const(0, 0, 0, 0), 2, 2);
        sets[j].rr = measure_m(vna, NF[j], S_const(R1, 0, 0, R2), 2, 2);
    }
    static const dvec sig1 = {0.05};
    static const dvec snf = {1e-3};
    auto obs_all = [](World &w) { for (double f : {1e9, 1.5e9, 2e9, 2.5e9, 3e9}) { obs_par(w, 1, f); obs_par(w, 2, f); } };
    VC_CREATE(0);
    PAR_SCALAR(0, -0.9, 0.0);
    S.add("vnacal_make_unknown_parameter", true, [](World &w) { RET_INTN(w, vnacal_make_unknown_parameter(w.vc[0], w.par[0]), w.par[1]); });
    S.add("vnacal_make_correlated_parameter", true, [](World &w) { RET_INTN(w, vnacal_make_correlated_parameter(w.vc[0], w.par[1], nullptr, 1, sig1.data()), w.par[2]); });
    for (int j = 0; j < 3; j++) {
        S.add("vnacal_new_alloc", true, [j](World &w) { RET_PTR(w, vnacal_new_alloc(w.vc[0], VNACAL_TE10, 2, 2, NF[j]), w.vn[j]); });
        S.add("vnacal_new_set_frequency_vector", true, [j](World &w) { RET_INT0(w, vnacal_new_set_frequency_vector(w.vn[j], grid[j].data())); });
        S.add("vnacal_new_set_m_error", true, [j](World &w) { RET_INT0(w, vnacal_new_set_m_error(w.vn[j], nullptr, 1, snf.data(), nullptr)); });
        S.add("vnacal_new_add_through_m", true, [j](World &w) { RET_INT0(w, vnacal_new_add_through_m(w.vn[j], sets[j].thru->ptr(), 2, 2, 1, 2)); });
        S.add("vnacal_new_add_double_reflect_m", true, [j](World &w) { RET_INT0(w, vnacal_new_add_double_reflect_m(w.vn[j], sets[j].so->ptr(), 2, 2, VNACAL_SHORT, VNACAL_OPEN, 1, 2)); });
        S.add("vnacal_new_add_double_reflect_m", true, [j](World &w) { RET_INT0(w, vnacal_new_add_double_reflect_m(w.vn[j], sets[j].os->ptr(), 2, 2, VNACAL_OPEN, VNACAL_SHORT, 1, 2)); });
        S.add("vnacal_new_add_double_reflect_m", true, [j](World &w) { RET_INT0(w, vnacal_new_add_double_reflect_m(w.vn[j], sets[j].mm->ptr(), 2, 2, VNACAL_MATCH, VNACAL_MATCH, 1, 2)); });
        S.add("vnacal_new_add_double_reflect_m", true, [j](World &w) { RET_INT0(w, vnacal_new_add_double_reflect_m(w.vn[j], sets[j].rr->ptr(), 2, 2, w.par[1], w.par[2], 1, 2)); });
        S.add("vnacal_new_set_pvalue_limit", true, [j](World &w) { RET_INT0(w, vnacal_new_set_pvalue_limit(w.vn[j], 1e-9)); });
        S.add("vnacal_new_solve", true, [j](World &w) { RET_INT0(w, vnacal_new_solve(w.vn[j])); }, obs_all);
        S.add("vnacal_add_calibration", true, [j](World &w) { static const char *names[3] = {"f3", "f2", "f4"}; RET_INTN(w, vnacal_add_calibration(w.vc[0], names[j], w.vn[j]), w.ci[j]); });
    }
    // back to the first structure: its grid (3 points) replaces the 4-point one
    S.add("vnacal_new_solve", true, [](World &w) { RET_INT0(w, vnacal_new_solve(w.vn[0])); }, obs_all);
    VC_SAVE(0);
    VN_FREE(1);
    VC_FREE(0);
}

// --- S21: replacing the format of an object that already has one with k fields by one with j fields
//     (j < k, j > k, none), directly and through the #:parameters line of an NPD text loaded into it.
//     Every observation includes the bytes the object saves (dump_vd), also after each failed call.
static void script_vnadata_format_replace(Script &S) {
    S.name = "vnadata_format_replace";
    fill_vd_steps(S, 0, VPT_S, 2, 3, FREQ3);
    S.add("vnadata_set_filetype", true, [](World &w) { RET_INT0(w, vnadata_set_filetype(w.vd[0], VNADATA_FILETYPE_NPD)); }, OBS_VD(0));
#define SETFMT(f) S.add("vnadata_set_format", true, [](World &w) { RET_INT0(w, vnadata_set_format(w.vd[0], f)); }, OBS_VD(0))
    SETFMT("Sri,Zri,Yma");                 // none -> 3 fields
    SETFMT("Sma");                         // 3 -> 1
    SETFMT("Sri,Zri,Yma,Zinri");           // 1 -> 4
    S.add("vnadata_fsave", true, [](World &w) { return do_fsave(w, 0, 0, "four.npd"); }, [](World &w) { w.obs("npd text:\n%s", w.text[0].c_str()); });
    SETFMT("SdB,IL");                      // 4 -> 2
    SETFMT("Tri");                         // 2 -> 1
    S.add("vnadata_fsave", true, [](World &w) { return do_fsave(w, 0, 1, "one.npd"); }, [](World &w) { w.obs("npd text:\n%s", w.text[1].c_str()); });
    S.add("vnadata_fload", true, [](World &w) { return do_fload(w, 0, w.text[0], "four.npd"); }, OBS_VD(0));   // object has 1 field, file has 4
    S.add("vnadata_fload", true, [](World &w) { return do_fload(w, 0, w.text[1], "one.npd"); }, OBS_VD(0));    // object has 4 fields, file has 1
    SETFMT("ma,Zri,PRC,VSWR,RL");          // 1 -> 5, first one without parameter type
    S.add("vnadata_cksave", true, [](World &w) { RET_INT0(w, vnadata_cksave(w.vd[0], "x.npd")); }, OBS_VD(0));
    S.add("vnadata_set_format", true, [](World &w) { RET_INT0(w, vnadata_set_format(w.vd[0], nullptr)); }, OBS_VD(0));   // 5 -> none
    SETFMT("Yri,Sma");                     // none -> 2
    // a second object loads the 4-field text over its own 2-field format
    S.add("vnadata_alloc", true, [](World &w) { RET_PTR(w, vnadata_alloc(errlog_fn, &w.log), w.vd[1]); });
    S.add("vnadata_convert", true, [](World &w) { RET_INT0(w, vnadata_convert(w.vd[0], w.vd[1], VPT_Z)); }, OBS_VD(1));    // copies the 2-field format
    S.add("vnadata_fload", true, [](World &w) { return do_fload(w, 1, w.text[0], "four.npd"); }, OBS_VD(1));
    S.add("vnadata_convert", true, [](World &w) { RET_INT0(w, vnadata_convert(w.vd[0], w.vd[1], VPT_S)); }, OBS_VD(1));    // 2-field format over the loaded 4-field one
#undef SETFMT
    FREE_VD(1);
    FREE_VD(0);
}

//@@MORE_SCRIPTS@@

static void build_scripts() {
    typedef void (*builder)(Script &);
    static const builder all[] = {
        script_vnadata_basic, script_vnadata_convert,
        script_vnadata_npd, script_vnadata_ts1, script_vnadata_ts2,
        script_vnaproperty_basic, script_vnaproperty_yaml,
        script_vnacal_parameters,
        script_vnacal_solt_e12, script_vnacal_t8_ab, script_vnacal_trl,
        script_vnacal_auto_ue14, script_vnacal_weighted, script_vnacal_correlated, script_vnacal_multi, script_vnacal_t16,
        script_gen_cal_family,
        script_vnaproperty_retype, script_vnaproperty_replace_root, script_vnacal_property_retype,
        script_vnacal_shared_unknown,
        script_vnadata_format_replace,
        //@@MORE_BUILDERS@@
    };
    for (builder b : all) { g_scripts.emplace_back(); b(g_scripts.back()); }
}

// ------------------------------------------------------------------ runner --
struct FaultInfo {
    bool failed = false;
    std::string site, func;
    std::vector<std::string> sysmsgs;
};

// remove the SAVE blocks (bytes written by the savers) from an observation, leaving the getter lines
static std::string strip_save(const std::string &t) {
    std::string out; size_t pos = 0;
    for (;;) {
        size_t b = t.find(SAVE_BEGIN, pos);
        if (b == std::string::npos) { out.append(t, pos, std::string::npos); break; }
        out.append(t, pos, b - pos);
        size_t e = t.find(SAVE_END, b);
        if (e == std::string::npos) break;
        pos = e + sizeof SAVE_END - 1;
    }
    return out;
}
static void first_difference(const std::string &a, const std::string &b, std::string &out);

static std::string base_name(const char *path) { const char *s = strrchr(path, '/'); return s ? s + 1 : path; }

// Run a script.  fault_step < 0: fault-free run, K receives the allocation count of every step.
static void run_script(Ctx &c, Script &S, int fault_step, long k, std::vector<long> *K, std::string &digest, FaultInfo *fi) {
    World w;
    verif_fi_reset();
    for (size_t s = 0; s < S.steps.size(); s++) {
        Step &st = S.steps[s];
        w.log.clear();
        verif_fi_reset();
        if ((int)s != fault_step) {
            bool failed = st.call(w);
            long n = verif_fi_count();
            if (K) K->push_back(n);
            if (failed || w.rc_bad) {
                if (fault_step < 0)
                    c.fail("C12.harness_script_invalid", "script %s step %zu (%s) fails without any fault: rc=%ld errno=%d (%s) callbacks: %s", S.name.c_str(), s, st.fn.c_str(), w.rc, w.err, strerror(w.err), w.log.text().c_str());
                c.fail("C12.later_step_failed", "script %s: after the fault in step %d, the fault-free step %zu (%s) failed: rc=%ld errno=%d (%s) callbacks: %s", S.name.c_str(), fault_step, s, st.fn.c_str(), w.rc, w.err, strerror(w.err), w.log.text().c_str());
            }
            if (fault_step >= 0 && (int)s < fault_step && n != S.K[s])
                c.fail("C12.harness_nondeterministic", "script %s step %zu (%s): %ld allocations, %ld in the reference run", S.name.c_str(), s, st.fn.c_str(), n, S.K[s]);
        } else {
            // observation of the objects BEFORE the faulted call (not part of the digest; the observation
            // functions leave the objects unchanged): reference for the usability probe below
            std::string before;
            if (st.obs) {
                verif_fi_pause();
                std::string keep; keep.swap(w.digest);
                w.probing = true; w.probe_bad.clear();
                st.obs(w);
                w.probing = false; w.probe_bad.clear();
                before.swap(w.digest); w.digest.swap(keep);
                w.log.clear();
                verif_fi_resume();
                verif_fi_reset();
            }
            verif_fi_arm(k);
            bool failed = st.call(w);
            int err = w.err;
            bool fired = verif_fi_fired();
            verif_fi_disarm();
            fi->site = base_name(verif_fi_fired_file()) + ":" + std::to_string(verif_fi_fired_line());
            fi->func = verif_fi_fired_func();
            fi->failed = failed;
            for (auto &r : w.log.recs) if (r.category == VNAERR_SYSTEM) {
                std::string m = r.msg;      // temp file names contain the pid: keep the labels stable
                for (int t = 0; t < 4; t++) for (size_t at; (at = m.find(w.tmp[t])) != std::string::npos;) m.replace(at, w.tmp[t].size(), "<tmpfile>");
                fi->sysmsgs.push_back(m);
            }
            c.note("  fault delivered at %s (%s); call %s; errno=%d; callbacks: %s", fi->site.c_str(), fi->func.c_str(), failed ? "FAILED" : "succeeded", err, w.log.text().c_str());
            PBT_CHECK(c, fired, "C12.harness_fault_not_delivered", "script %s step %zu (%s): allocation %ld of %ld was never requested", S.name.c_str(), s, st.fn.c_str(), k, S.K[s]);
            PBT_CHECK(c, !w.rc_bad, "C12.undocumented_return_value", "script %s step %zu: %s returned %ld when allocation %ld (%s) failed: neither success nor the documented failure value", S.name.c_str(), s, st.fn.c_str(), w.rc, k, fi->site.c_str());
            if (!failed) {
                // vnaerr(3): every category but WARNING describes an error reported "before returning failure"
                PBT_CHECK(c, w.log.n_nonwarning() == 0, "C12.error_callback_but_success", "script %s step %zu: %s returned success when allocation %ld (%s) failed, yet reported an error through the callback: %s", S.name.c_str(), s, st.fn.c_str(), k, fi->site.c_str(), w.log.text().c_str());
            }
            if (failed) {
                if (st.documented) {
                    PBT_CHECK(c, err == ENOMEM, "C12.errno_not_enomem", "script %s step %zu: %s failed when allocation %ld (%s) failed, but errno=%d (%s), expected ENOMEM; callbacks: %s", S.name.c_str(), s, st.fn.c_str(), k, fi->site.c_str(), err, strerror(err), w.log.text().c_str());
                    if (st.reports) {
                        bool sys = false;
                        for (auto &r : w.log.recs) if (r.category == VNAERR_SYSTEM) sys = true;
                        PBT_CHECK(c, sys, "C12.no_system_callback", "script %s step %zu: %s failed with ENOMEM when allocation %ld (%s) failed but made no VNAERR_SYSTEM callback; callbacks: %s", S.name.c_str(), s, st.fn.c_str(), k, fi->site.c_str(), w.log.text().c_str());
                    }
                }
                // "all objects remain usable": before the call is repeated, make the step's observations on
                // the objects as the failed call left them (getters, parameter values, property walks).
                // What they return is not compared (the state after a failure is not specified beyond
                // "usable"), but they must not crash and must give documented answers.
                if (st.obs) {
                    verif_fi_pause();
                    std::string keep; keep.swap(w.digest);
                    w.probing = true; w.probe_bad.clear();
                    st.obs(w);
                    w.probing = false;
                    std::string after; after.swap(w.digest);
                    w.digest.swap(keep);
                    verif_fi_resume();
                    // What an object saves is a function of what its getters show (type, dimensions, frequencies,
                    // cells, impedances, file type, format string, precisions; calibrations and property trees).
                    // If the failed call left every getter as it was, the saved bytes must be as they were too:
                    // a difference means the call changed state the getters do not show (half-restored vectors).
                    if (strip_save(before) == strip_save(after) && before != after) {
                        std::string diff; first_difference(before, after, diff);
                        c.fail("C12.failed_call_changed_hidden_state", "script %s step %zu: %s failed cleanly when allocation %ld (%s) failed and every getter reads as before the call, but the object now saves different bytes (first: before the call, second: after the failed call): %s", S.name.c_str(), s, st.fn.c_str(), k, fi->site.c_str(), diff.c_str());
                    }
                    PBT_CHECK(c, w.probe_bad.empty(), "C12.unusable_after_failure", "script %s step %zu: %s failed cleanly when allocation %ld (%s) failed, but the object it left behind answers nonsense: %s", S.name.c_str(), s, st.fn.c_str(), k, fi->site.c_str(), w.probe_bad.c_str());
                }
                // the SAME call again, without fault
                w.log.clear();
                verif_fi_reset();
                bool failed2 = st.call(w);
                PBT_CHECK(c, !failed2 && !w.rc_bad, "C12.retry_failed", "script %s step %zu: %s failed cleanly when allocation %ld (%s) failed, but the same call repeated without fault fails too: rc=%ld errno=%d (%s) callbacks: %s", S.name.c_str(), s, st.fn.c_str(), k, fi->site.c_str(), w.rc, w.err, strerror(w.err), w.log.text().c_str());
            }
        }
        // values returned by the call (parameter handles, calibration indices, counts): the same history
        // must return the same values whether or not an allocation failed and the call was repeated
        if (w.rc_value) { w.obs("-- step %zu %s returned %ld", s, st.fn.c_str(), w.rc); w.rc_value = false; }
        if (st.obs) {
            verif_fi_pause();
            w.obs("-- after step %zu %s", s, st.fn.c_str());
            w.probe_bad.clear();
            st.obs(w);
            verif_fi_resume();
            PBT_CHECK(c, w.probe_bad.empty(), "C12.insane_observation", "script %s step %zu (%s): %s", S.name.c_str(), s, st.fn.c_str(), w.probe_bad.c_str());
        }
    }
    digest.swap(w.digest);
}

static void first_difference(const std::string &a, const std::string &b, std::string &out) {
    size_t la = 0, lb = 0; int line = 1;
    while (la < a.size() || lb < b.size()) {
        size_t ea = a.find('\n', la); if (ea == std::string::npos) ea = a.size();
        size_t eb = b.find('\n', lb); if (eb == std::string::npos) eb = b.size();
        std::string x = a.substr(la, ea - la), y = b.substr(lb, eb - lb);
        if (x != y) { out = "line " + std::to_string(line) + ": fault-free \"" + x.substr(0, 400) + "\" vs after-fault \"" + y.substr(0, 400) + "\""; return; }
        la = ea + 1; lb = eb + 1; line++;
    }
    out = "(identical)";
}

} // namespace

void pbt_global_setup() {
    if (g_scripts.empty()) build_scripts();
}

// LeakSanitizer scans the stack conservatively: a stale pointer to a block leaked by this case
// would postpone the report to a later case (and make it unreproducible).  Overwrite the dead
// stack region used by the case before returning to the engine's leak check.
__attribute__((noinline)) static void scrub_stack() {
    volatile char buf[256 * 1024];
    memset((void *)buf, 0, sizeof buf);
    __asm__ volatile("" ::: "memory");
}

static long g_cases, g_leak_checks;
extern "C" int __lsan_do_recoverable_leak_check(void) __attribute__((weak));
extern "C" size_t __sanitizer_get_current_allocated_bytes(void) __attribute__((weak));

static void c12_case(Ctx &c);
void pbt_property(Ctx &c) {
    // Leaks are a central part of this oracle, so the harness does its own exact accounting instead of
    // relying on the engine's coarser trigger (which ignores growth up to the size of the case
    // description): every byte the heap grew across the case, other than the description itself,
    // triggers a LeakSanitizer check here.
    size_t before = __sanitizer_get_current_allocated_bytes ? __sanitizer_get_current_allocated_bytes() : 0;
    auto heap_of = [](const std::string &str) -> size_t { return str.capacity() > 15 ? str.capacity() + 1 : 0; };
    size_t desc_before = heap_of(c.desc);
    {
        struct Scrub { ~Scrub() { scrub_stack(); } } scrub;   // also when the case throws
        c12_case(c);
    }
    size_t after = __sanitizer_get_current_allocated_bytes ? __sanitizer_get_current_allocated_bytes() : 0;
    g_cases++;
    size_t desc_growth = heap_of(c.desc) > desc_before ? heap_of(c.desc) - desc_before : 0;
    if (__lsan_do_recoverable_leak_check && after > before + desc_growth) {
        g_leak_checks++;
        if (__lsan_do_recoverable_leak_check() != 0)
            throw Fail{"lsan.leak", "LeakSanitizer reported a leak after the case (see stderr)"};
    }
}

__attribute__((noinline)) static void c12_case(Ctx &c) {
    if (g_scripts.empty()) build_scripts();
    // optional restriction to one script (developer use): C12_SCRIPT=name
    static const char *only = getenv("C12_SCRIPT");
    size_t si = (size_t)c.draw(g_scripts.size());
    if (only) for (size_t i = 0; i < g_scripts.size(); i++) if (g_scripts[i].name == only) si = i;
    Script *Sp = &g_scripts[si];
    // second draw: variant of a generated script family (arity 1 for the hand-written scripts and in
    // the quick tier, where c.size <= 1); it also keeps the first three choices coarse so that the
    // engine's enum sharding gets blocks of BLOCK fault points
    int variant = (int)c.draw((uint64_t)(Sp->generate && c.size >= 2 ? Sp->nvariants : 1));
    if (Sp->generate) {
        c.label("script:" + Sp->name);
        auto &slot = Sp->variants[variant];
        if (!slot) { slot.reset(new Script); Sp->generate(*slot, variant); }
        Sp = slot.get();
    } else c.label("script:" + Sp->name);
    Script &S = *Sp;
    if (S.invalid) { c.label("filtered:generated-history-does-not-solve"); return; }
    if (!S.ref_valid) {
        std::vector<long> K; std::string d;
        if (g_scripts[si].generate) {
            // generated histories are not hand-checked: one whose fault-free run fails (e.g. a standard
            // set that does not determine this type and shape) is skipped and counted
            try { run_script(c, S, -1, 0, &K, d, nullptr); }
            catch (const Fail &f) {
                if (f.code != "C12.harness_script_invalid") throw;
                S.invalid = true; c.note("generated history %s is not valid: %s", S.name.c_str(), f.msg.c_str());
                c.label("filtered:generated-history-does-not-solve"); return;
            }
            K.clear(); d.clear();
        }
        run_script(c, S, -1, 0, &K, d, nullptr);
        // the reference must itself be reproducible
        std::vector<long> K2; std::string d2;
        run_script(c, S, -1, 0, &K2, d2, nullptr);
        if (K != K2 || d != d2) { std::string diff; first_difference(d, d2, diff); c.fail("C12.harness_nondeterministic", "script %s: two fault-free runs differ: %s", S.name.c_str(), diff.c_str()); }
        S.K = K; S.ref_digest = d; S.total = 0;
        for (long n : K) S.total += n;
        S.ref_valid = true;
        // LeakSanitizer checks are expensive in a long-running process and are triggered by any heap
        // growth: intern the label names this script can produce now, in the case that is checked anyway
        for (int i = 0, n = verif_fi_nsites(); i < n; i++) {
            const char *file; int line;
            verif_fi_site(i, &file, &line, nullptr, nullptr, nullptr);
            Ctx::intern("site:" + base_name(file) + ":" + std::to_string(line));
        }
        for (auto &st : S.steps) Ctx::intern("failed:" + st.fn);
        for (const char *l : {"outcome:failed-clean", "outcome:absorbed", "sysmsg:malloc: Cannot allocate memory", "sysmsg:calloc: Cannot allocate memory", "sysmsg:realloc: Cannot allocate memory", "sysmsg:strdup: Cannot allocate memory"}) Ctx::intern(l);
    }
    const long BLOCK = 16;
    long nblocks = (S.total + BLOCK - 1) / BLOCK;
    long blk = (long)c.draw((uint64_t)std::max(1L, nblocks));
    long within = (long)c.draw((uint64_t)std::max(1L, std::min(BLOCK, S.total - blk * BLOCK)));
    long fp = blk * BLOCK + within;
    if (S.total == 0) { c.label("outcome:script-without-allocations"); return; }
    int step = 0; long k = fp;
    while (k >= S.K[(size_t)step]) { k -= S.K[(size_t)step]; step++; }
    Step &st = S.steps[(size_t)step];
    c.note("script %s (%zu steps, %ld fault points): fault point %ld = step %d (%s), allocation %ld of %ld", S.name.c_str(), S.steps.size(), S.total, fp, step, st.fn.c_str(), k, S.K[(size_t)step]);
    FaultInfo fi; std::string d;
    run_script(c, S, step, k, nullptr, d, &fi);
    if (d != S.ref_digest) {
        std::string diff; first_difference(S.ref_digest, d, diff);
        c.fail("C12.digest_mismatch", "script %s step %d: %s with allocation %ld (%s) failing %s; after repeating the call and finishing the script the observable state differs from the fault-free run: %s",
               S.name.c_str(), step, st.fn.c_str(), k, fi.site.c_str(), fi.failed ? "failed cleanly" : "still succeeded", diff.c_str());
    }
    c.label("site:" + fi.site);
    for (auto &m : fi.sysmsgs) c.label("sysmsg:" + m);
    if (fi.failed) { c.label("outcome:failed-clean"); c.label("failed:" + st.fn); c.nontrivial(); }
    else { c.label("outcome:absorbed"); c.label("absorbed:" + st.fn + "@" + fi.site); }
}

void pbt_extra_json(FILE *f) {
    // allocation sites of libvna reached by this process (all of them were failed at least once
    // when the enumeration was exhausted)
    fprintf(f, " \"alloc_sites\": [");
    int n = verif_fi_nsites();
    for (int i = 0; i < n; i++) {
        const char *file; int line; const char *func; long calls, failed;
        verif_fi_site(i, &file, &line, &func, &calls, &failed);
        fprintf(f, "%s{\"site\": \"%s:%d\", \"func\": \"%s\", \"calls\": %ld, \"failed\": %ld}", i ? ", " : "", base_name(file).c_str(), line, func, calls, failed);
    }
    fprintf(f, "],\n");
    fprintf(f, " \"harness_leak_checks\": %ld, \"harness_cases\": %ld,\n", g_leak_checks, g_cases);
}
