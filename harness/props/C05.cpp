// C05 -- vnadata_convert applies the right conversion with the right impedances.
//
// Oracle (DESIGN.md section 3, C05):
//   accepted pairs: each output matrix bit-identical to the corresponding vnaconv_* function
//     (looked up by its NAME, independently of the library's dispatch table) applied by the
//     harness to that frequency's input matrix and that frequency's z0 vector; type/rows/cols as
//     documented; frequency vector and every z0 / fz0 value carried over; in-place == out-of-place;
//     the input of an out-of-place conversion is untouched;
//   A -> B -> C denotes the same network as A (hence as A -> C), decided by convref;
//   rejected pairs (table of vnadata(3) / wrong dimensions / invalid type): -1, EINVAL, an error
//     callback of category USAGE, destination (full getter dump) unchanged;
//   after any accepted conversion the result behaves like a freshly built object of the new
//     type/dimensions (ArrayModel) under a random tail of resize / convert / add_frequency /
//     boundary-getter operations -- in particular after matrix -> Zin.
#include "pbt.hpp"
#include <cfloat>
#include <string>
#include <vector>
#include "vna.hpp"
#include "arraymodel.hpp"
#include "refla.hpp"
#include "convref.hpp"

const char *PBT_PROPERTY = "C05";

using namespace pbt;
using refla::C;
using refla::Mat;
using refla::real;

static_assert(VPT_S == convref::P_S && VPT_T == convref::P_T && VPT_U == convref::P_U && VPT_Z == convref::P_Z &&
              VPT_Y == convref::P_Y && VPT_H == convref::P_H && VPT_G == convref::P_G && VPT_A == convref::P_A &&
              VPT_B == convref::P_B && VPT_ZIN == convref::P_ZIN && VPT_UNDEF == 0, "type numbering");

namespace {

const double EPS = DBL_EPSILON;
const double KAPPA_CAP = 1e5;     // chain check only for conversions at least this far from singular
const double C_CHAIN = 1000;      // same-network distance <= C_CHAIN * eps * gamma * kappa  (as C04)

// ---- the 90 vnaconv functions keyed by name (as in C04.cpp) -----------------------------------
typedef void (*F2)(const dcx (*)[2], dcx (*)[2]);
typedef void (*F2Z)(const dcx (*)[2], dcx (*)[2], const dcx *);
typedef void (*F2I)(const dcx (*)[2], dcx *, const dcx *);
typedef void (*FN)(const dcx *, dcx *, int);
typedef void (*FNZ)(const dcx *, dcx *, const dcx *, int);
enum Kind { K2, K2Z, K2I, KN, KNZ, KNI };
struct Func {
    const char *name; int src, dst; Kind kind;
    F2 f2 = nullptr; F2Z f2z = nullptr; F2I f2i = nullptr; FN fn = nullptr; FNZ fnz = nullptr;
    bool nport() const { return kind == KN || kind == KNZ || kind == KNI; }
};
Func mk(const char *n, int s, int d, F2 f) { Func x{n, s, d, K2}; x.f2 = f; return x; }
Func mk(const char *n, int s, int d, F2Z f) { Func x{n, s, d, K2Z}; x.f2z = f; return x; }
Func mk(const char *n, int s, int d, F2I f) { Func x{n, s, d, K2I}; x.f2i = f; return x; }
Func mk(const char *n, int s, int d, FN f) { Func x{n, s, d, KN}; x.fn = f; return x; }
Func mk(const char *n, int s, int d, FNZ f) { Func x{n, s, d, d == VPT_ZIN ? KNI : KNZ}; x.fnz = f; return x; }
enum { T_s = VPT_S, T_t = VPT_T, T_u = VPT_U, T_z = VPT_Z, T_y = VPT_Y, T_h = VPT_H, T_g = VPT_G, T_a = VPT_A, T_b = VPT_B };
#define CV(a, b) mk("vnaconv_" #a "to" #b, T_##a, T_##b, vnaconv_##a##to##b)
#define CVI(a) mk("vnaconv_" #a "tozi", T_##a, VPT_ZIN, vnaconv_##a##tozi)
#define CVN(a, b) mk("vnaconv_" #a "to" #b "n", T_##a, T_##b, vnaconv_##a##to##b##n)
#define CVIN(a) mk("vnaconv_" #a "tozin", T_##a, VPT_ZIN, vnaconv_##a##tozin)
#define ROW(a, b1, b2, b3, b4, b5, b6, b7, b8) CV(a, b1), CV(a, b2), CV(a, b3), CV(a, b4), CV(a, b5), CV(a, b6), CV(a, b7), CV(a, b8)
const std::vector<Func> &funcs() {
    static const std::vector<Func> v = {
        ROW(s, t, u, z, y, h, g, a, b), ROW(t, s, u, z, y, h, g, a, b), ROW(u, s, t, z, y, h, g, a, b),
        ROW(z, s, t, u, y, h, g, a, b), ROW(y, s, t, u, z, h, g, a, b), ROW(h, s, t, u, z, y, g, a, b),
        ROW(g, s, t, u, z, y, h, a, b), ROW(a, s, t, u, z, y, h, g, b), ROW(b, s, t, u, z, y, h, g, a),
        CVI(s), CVI(t), CVI(u), CVI(z), CVI(y), CVI(h), CVI(g), CVI(a), CVI(b),
        CVN(s, z), CVN(s, y), CVN(z, s), CVN(z, y), CVN(y, s), CVN(y, z),
        CVIN(s), CVIN(z), CVIN(y),
    };
    return v;
}
// look-up by name: "vnaconv_" + letter(from) + "to" + letter(to) [+ "n"]
const Func *find_by_name(int from, int to, bool nport) {
    std::string nm = std::string("vnaconv_") + convref::letter(from) + "to" + convref::letter(to) + (nport ? "n" : "");
    for (auto &f : funcs()) if (nm == f.name) return &f;
    return nullptr;
}
void call(const Func &f, const dcx *in, dcx *out, const dcx *z0, int n) {
    switch (f.kind) {
    case K2: f.f2((const dcx(*)[2])in, (dcx(*)[2])out); break;
    case K2Z: f.f2z((const dcx(*)[2])in, (dcx(*)[2])out, z0); break;
    case K2I: f.f2i((const dcx(*)[2])in, out, z0); break;
    case KN: f.fn(in, out, n); break;
    case KNZ: case KNI: f.fnz(in, out, z0, n); break;
    }
}

// ---- choice source: the tape, or (bounded-exhaustive mode) a fixed stream derived from the
//      enumerated choices, so that the odometer only sees from x to x z0-mode x placement ----------
struct Src {
    Ctx &c; bool det = false; uint64_t s = 0;
    explicit Src(Ctx &c_) : c(c_) {}
    uint64_t draw(uint64_t n) { if (n == 0) n = 1; return det ? splitmix64(s) % n : c.draw(n); }
    int64_t range(int64_t lo, int64_t hi) { return lo + (int64_t)draw((uint64_t)(hi - lo) + 1); }
    bool boolean() { return draw(2) != 0; }
    bool chance(unsigned num, unsigned den) { return draw(den) >= den - num; }
    int weighted(std::initializer_list<unsigned> w) {
        unsigned tot = 0; for (unsigned x : w) tot += x;
        uint64_t r = draw(tot); int i = 0;
        for (unsigned x : w) { if (r < x) return i; r -= x; i++; }
        return i - 1;
    }
    double real(double lo, double hi) { return lo + (hi - lo) * ((double)draw(1ull << 53) / (double)(1ull << 53)); }
    void mark() { if (!det) c.mark(); }
};

// ---- full observable state of an object ------------------------------------------------------------
struct Dump {
    int type = 0, rows = 0, cols = 0, F = 0; bool perf = false;
    std::vector<double> f; std::vector<dcx> data, z;
    int filetype = 0, fprec = 0, dprec = 0; std::string format;
};
Dump dump(vnadata_t *v) {
    Dump d;
    d.type = vnadata_get_type(v); d.rows = vnadata_get_rows(v); d.cols = vnadata_get_columns(v); d.F = vnadata_get_frequencies(v);
    d.perf = vnadata_has_fz0(v);
    int ports = std::max(d.rows, d.cols);
    for (int i = 0; i < d.F; i++) {
        d.f.push_back(vnadata_get_frequency(v, i));
        for (int r = 0; r < d.rows; r++) for (int cc = 0; cc < d.cols; cc++) d.data.push_back(vnadata_get_cell(v, i, r, cc));
        if (d.perf) for (int p = 0; p < ports; p++) d.z.push_back(vnadata_get_fz0(v, i, p));
    }
    if (!d.perf) for (int p = 0; p < ports; p++) d.z.push_back(vnadata_get_z0(v, p));
    d.filetype = vnadata_get_filetype(v); d.fprec = vnadata_get_fprecision(v); d.dprec = vnadata_get_dprecision(v);
    const char *fmt = vnadata_get_format(v); d.format = fmt ? fmt : "(null)";
    return d;
}
template <class T> bool bits_eq(const std::vector<T> &a, const std::vector<T> &b) { return a.size() == b.size() && (a.empty() || memcmp(a.data(), b.data(), a.size() * sizeof(T)) == 0); }
// documented content: type, dimensions, frequencies, data, impedances (and their mode)
std::string diff_core(const Dump &a, const Dump &b) {
    char buf[256];
    if (a.type != b.type) { snprintf(buf, sizeof buf, "type %s vs %s", type_name(a.type), type_name(b.type)); return buf; }
    if (a.rows != b.rows || a.cols != b.cols || a.F != b.F) { snprintf(buf, sizeof buf, "dimensions %dx%dx%d vs %dx%dx%d", a.rows, a.cols, a.F, b.rows, b.cols, b.F); return buf; }
    if (!bits_eq(a.f, b.f)) return "frequency vector";
    if (a.perf != b.perf) { snprintf(buf, sizeof buf, "has_fz0 %d vs %d", (int)a.perf, (int)b.perf); return buf; }
    if (!bits_eq(a.z, b.z)) return "reference impedances";
    if (!bits_eq(a.data, b.data)) {
        for (size_t i = 0; i < a.data.size(); i++) if (!same_bits(a.data[i], b.data[i])) {
            int cells = a.rows * a.cols;
            snprintf(buf, sizeof buf, "data at frequency %zu cell %zu: %.17g%+.17gi vs %.17g%+.17gi", i / cells, i % cells, re_(a.data[i]), im_(a.data[i]), re_(b.data[i]), im_(b.data[i]));
            return buf;
        }
    }
    return "";
}
std::string diff_all(const Dump &a, const Dump &b) {
    std::string s = diff_core(a, b);
    if (!s.empty()) return s;
    if (a.filetype != b.filetype) return "filetype";
    if (a.fprec != b.fprec || a.dprec != b.dprec) return "precision";
    if (a.format != b.format) return "format string";
    return "";
}

// ---- specification of an object (pure data; build() is a function of it) ---------------------------
struct Spec {
    int type = 0, rows = 0, cols = 0, F = 0;
    bool history = false; int hr = 0, hc = 0, hF = 0, hperf = 0;      // earlier, larger life of the object
    int zmode = 0;                                                   // 0 default 50 ohm, 1 ordinary vector, 2 per-frequency
    int extraF = 0;                                                  // frequencies beyond F the object had while z0 was set, trimmed by a final resize
    std::vector<double> f;
    std::vector<dcx> z0;                                             // zmode 1: [ports]
    std::vector<std::vector<dcx>> fz0;                               // zmode 2: [F][ports]
    std::vector<std::vector<dcx>> data;                              // [F][rows*cols]
    int ports() const { return std::max(rows, cols); }
    // impedances in force at frequency i
    std::vector<dcx> z_at(int i) const {
        if (perf()) return fz0[i];
        if (zmode == 1) return z0;
        return std::vector<dcx>(ports(), mkc(VNADATA_DEFAULT_Z0, 0));
    }
    bool perf() const { return zmode == 2 && F + extraF > 0; }
};

struct Obj {
    vnadata_t *v = nullptr; ErrLog log;
    Obj() {}
    Obj(const Obj &) = delete;
    ~Obj() { if (v) vnadata_free(v); }
};

struct H {
    Ctx &c; Src g;
    explicit H(Ctx &c_) : c(c_), g(c_) {}

    // ---------------------------------------------------------------- generators
    dcx gen_z0() {
        if (g.boolean()) return mkc((double)g.range(1, 200), 0.0);
        return mkc(g.real(1, 500), g.real(-200, 200));
    }
    dcx gen_value() {
        switch (g.weighted({3, 3, 1})) {
        case 0: return mkc((double)g.range(-8, 8) / 4, (double)g.range(-8, 8) / 4);
        case 1: return mkc(g.real(-2, 2), g.real(-2, 2));
        default: return mkc(g.real(-100, 100), g.real(-100, 100));
        }
    }
    // matrix of `type` for a random network, well-conditioned in that representation
    bool gen_network(int type, const std::vector<dcx> &z0, std::vector<dcx> &out) {
        int n = (int)z0.size();
        std::vector<C> zc; for (auto z : z0) zc.push_back(C(re_(z), im_(z)));
        std::vector<real> s = convref::sigma(zc);
        for (int attempt = 0; attempt < 4; attempt++) {
            Mat U(2 * n, n);
            bool dy = g.chance(1, 4);
            for (auto &z : U.a) z = dy ? C((real)g.range(-4, 4) / 2, (real)g.range(-4, 4) / 2) : C(g.real(-1, 1), g.real(-1, 1));
            for (int i = 0; i < 2 * n; i++) for (int j = 0; j < n; j++) U(i, j) = U(i, j) * C(s[i]);
            bool ok; real k;
            Mat N = convref::from_states(type, U, zc, &ok, &k);
            if (!ok || !(k < 1e3L) || !N.all_finite()) continue;
            out.resize(n * n);
            for (int i = 0; i < n * n; i++) out[i] = mkc((double)N.a[i].re, (double)N.a[i].im);
            return true;
        }
        return false;
    }
    void gen_shape(int type, int &rows, int &cols) {
        switch (type) {
        case VPT_UNDEF: rows = (int)g.range(0, 3); cols = (int)g.range(0, 3); break;
        case VPT_S: case VPT_Z: case VPT_Y: { static const int ns[] = {2, 3, 1, 4, 5, 0}; rows = cols = ns[g.weighted({6, 4, 2, 2, 2, 1})]; break; }
        case VPT_ZIN: rows = 1; cols = (int)g.range(0, 5); break;
        default: rows = cols = 2; break;
        }
    }
    Spec gen_spec(int type, int zmode, bool want_network) {
        Spec s; s.type = type; s.zmode = zmode;
        gen_shape(type, s.rows, s.cols);
        s.F = (int)g.range(0, 4);
        if (g.det && s.F == 0) s.F = 2;
        if (!g.det && g.chance(1, 5)) {
            s.history = true; s.hr = (int)g.range(0, 5); s.hc = (int)g.range(0, 5); s.hF = (int)g.range(0, 5); s.hperf = (int)g.draw(2);
        }
        if (!g.det && zmode == 2 && g.chance(1, 6)) s.extraF = (int)g.range(1, 2);
        double f = 0;
        for (int i = 0; i < s.F + s.extraF; i++) { f += (double)g.range(1, 1000) * 1e6; s.f.push_back(f); }
        int np = s.ports();
        if (zmode == 1) for (int p = 0; p < np; p++) s.z0.push_back(gen_z0());
        if (zmode == 2) for (int i = 0; i < s.F + s.extraF; i++) { s.fz0.emplace_back(); for (int p = 0; p < np; p++) s.fz0.back().push_back(gen_z0()); }
        for (int i = 0; i < s.F; i++) {
            g.mark();
            std::vector<dcx> m;
            bool net = want_network && type >= VPT_S && type <= VPT_B && s.rows == s.cols && s.rows >= 1;
            if (!(net && gen_network(type, s.z_at(i), m))) { m.resize(s.rows * s.cols); for (auto &x : m) x = gen_value(); }
            s.data.push_back(m);
        }
        return s;
    }

    // ---------------------------------------------------------------- building
    void must(bool ok, const char *what, Obj &o) {
        if (!ok) c.fail("C05.setup_failed", "set-up call %s failed: %s", what, o.log.text().c_str());
    }
    void build(const Spec &s, Obj &o) {
        o.v = vnadata_alloc(errlog_fn, &o.log);
        must(o.v != nullptr, "vnadata_alloc", o);
        if (s.history) {
            // an earlier life with other dimensions and junk in every cell and impedance
            must(vnadata_init(o.v, VPT_UNDEF, s.hr, s.hc, s.hF) == 0, "vnadata_init(history)", o);
            std::vector<dcx> junk((size_t)s.hr * s.hc + 1, mkc(777, -777));
            for (int i = 0; i < s.hF; i++) must(vnadata_set_matrix(o.v, i, junk.data()) == 0, "vnadata_set_matrix(history)", o);
            std::vector<dcx> zj(std::max(s.hr, s.hc) + 1, mkc(33, 44));
            if (s.hperf) { for (int i = 0; i < s.hF; i++) must(vnadata_set_fz0_vector(o.v, i, zj.data()) == 0, "vnadata_set_fz0_vector(history)", o); }
            else must(vnadata_set_z0_vector(o.v, zj.data()) == 0, "vnadata_set_z0_vector(history)", o);
            must(vnadata_resize(o.v, (vnadata_parameter_type_t)s.type, s.rows, s.cols, s.F + s.extraF) == 0, "vnadata_resize", o);
            // back to a defined impedance state: all 50 ohm, ordinary mode
            must(vnadata_set_all_z0(o.v, mkc(VNADATA_DEFAULT_Z0, 0)) == 0, "vnadata_set_all_z0", o);
        } else {
            must(vnadata_init(o.v, (vnadata_parameter_type_t)s.type, s.rows, s.cols, s.F + s.extraF) == 0, "vnadata_init", o);
        }
        std::vector<double> fv = s.f; fv.push_back(0);
        must(vnadata_set_frequency_vector(o.v, fv.data()) == 0, "vnadata_set_frequency_vector", o);
        if (s.zmode == 1) { std::vector<dcx> z = s.z0; z.push_back(mkc(0, 0)); must(vnadata_set_z0_vector(o.v, z.data()) == 0, "vnadata_set_z0_vector", o); }
        if (s.zmode == 2) for (int i = 0; i < s.F + s.extraF; i++) { std::vector<dcx> z = s.fz0[i]; z.push_back(mkc(0, 0)); must(vnadata_set_fz0_vector(o.v, i, z.data()) == 0, "vnadata_set_fz0_vector", o); }
        // per-frequency impedances were established while the object had more frequencies
        if (s.extraF) must(vnadata_resize(o.v, (vnadata_parameter_type_t)s.type, s.rows, s.cols, s.F) == 0, "vnadata_resize(trim)", o);
        for (int i = 0; i < s.F; i++) { std::vector<dcx> m = s.data[i]; m.push_back(mkc(0, 0)); must(vnadata_set_matrix(o.v, i, m.data()) == 0, "vnadata_set_matrix", o); }
        o.log.clear();
    }
    // the abstract object a spec denotes
    ArrayModel model_of(const Spec &s) {
        ArrayModel m; m.init(s.type, s.rows, s.cols, s.F);
        m.freq.assign(s.f.begin(), s.f.begin() + s.F);
        if (s.perf()) { m.perf = true; m.z0.clear(); m.fz0.assign(s.fz0.begin(), s.fz0.begin() + s.F); }
        else if (s.zmode == 1) m.z0 = s.z0;
        m.data = s.data;
        return m;
    }
    void note_spec(const char *who, const Spec &s) {
        c.note("%s: %s %dx%d F=%d z0mode=%s%s", who, type_name(s.type), s.rows, s.cols, s.F, s.zmode == 0 ? "default" : s.zmode == 1 ? "ordinary" : "per-frequency",
               s.history ? " (after an earlier life with other dimensions)" : "");
        if (s.extraF) c.note("  (per-frequency z0 set while the object had %d more frequencies, then resized to F=%d)", s.extraF, s.F);
        for (int i = 0; i < s.F; i++) {
            std::string t; char b[96];
            for (auto x : s.data[i]) { snprintf(b, sizeof b, " %.17g%+.17gi", re_(x), im_(x)); t += b; }
            t += "  z0:";
            for (auto x : s.z_at(i)) { snprintf(b, sizeof b, " %g%+gi", re_(x), im_(x)); t += b; }
            c.note("  f[%d]=%g:%s", i, s.f[i], t.c_str());
        }
    }

    // ---------------------------------------------------------------- expectation
    // the abstract result of converting `in` to type `to` with function `fn` (nullptr: copy)
    ArrayModel expected(const ArrayModel &in, int to, const Func *fn) {
        ArrayModel m = in;
        int n = std::min(in.rows, in.cols);
        bool tozin = to == VPT_ZIN && in.type != VPT_ZIN;
        m.type = to;
        if (tozin) {
            // 1 x ports; the z0 vector has max(rows, columns) entries (vnadata(3)), so a 0x0 matrix
            // becomes a 1x0 vector with one port at the default impedance
            m.rows = 1; m.cols = n;
            int np = m.ports();
            if (m.perf) for (auto &z : m.fz0) z.resize(np, ArrayModel::dflt()); else m.z0.resize(np, ArrayModel::dflt());
        }
        for (int i = 0; i < in.F; i++) {
            if (!fn) continue;
            std::vector<dcx> z = in.perf ? in.fz0[i] : in.z0; z.push_back(mkc(0, 0));
            std::vector<dcx> src = in.data[i], out(tozin ? n : n * n, mkc(0, 0));
            src.push_back(mkc(0, 0)); out.push_back(mkc(0, 0));
            call(*fn, src.data(), out.data(), z.data(), n);
            out.pop_back();
            m.data[i] = out;
        }
        return m;
    }

    // ---------------------------------------------------------------- tail
    // returns true when the tail contained a resize
    bool tail(std::vector<Obj *> objs, std::vector<const char *> names, ArrayModel m) {
        size_t nops = 0; bool resized = false;
        bool shrunk_then_grown = false; int min_cells = m.rows * m.cols;
        for (; (g.mark(), g.draw(g.det ? 2 : 3) != 0) && nops < 6; nops++) {
            int op = g.weighted({5, 3, 2, 1});
            auto cmp = [&](const char *after) {
                for (size_t k = 0; k < objs.size(); k++) {
                    std::string why;
                    objs[k]->log.clear();
                    if (!m.equals_object(objs[k]->v, objs[k]->log, why))
                        c.fail("C05.tail_mismatch", "%s: after tail step %zu (%s) the object differs from a freshly built one: %s", names[k], nops + 1, after, why.c_str());
                }
            };
            switch (op) {
            case 0: {
                int type = (int)g.range(0, 10), r, cc, F = (int)g.range(0, 5);
                gen_shape(type, r, cc);
                if (type == VPT_S || type == VPT_Z || type == VPT_Y || type == VPT_UNDEF) { if (g.boolean()) { r = (int)g.range(0, 5); cc = type == VPT_UNDEF ? (int)g.range(0, 5) : r; } }
                c.note("tail: resize(%s,%d,%d,%d)", type_name(type), r, cc, F);
                for (size_t k = 0; k < objs.size(); k++)
                    PBT_CHECK(c, vnadata_resize(objs[k]->v, (vnadata_parameter_type_t)type, r, cc, F) == 0, "C05.tail_refused", "%s: valid resize(%s,%d,%d,%d) failed: %s", names[k], type_name(type), r, cc, F, objs[k]->log.text().c_str());
                m.resize(type, r, cc, F); resized = true;
                if (r * cc > min_cells) shrunk_then_grown = true;
                min_cells = std::min(min_cells, r * cc);
                cmp("resize");
                break;
            }
            case 1: {
                int nt = (int)g.range(0, 10);
                bool ok = ArrayModel::convert_ok(m.type, nt, m.rows, m.cols);
                c.note("tail: convert in place %s -> %s%s", type_name(m.type), type_name(nt), ok ? "" : "  [invalid]");
                for (size_t k = 0; k < objs.size(); k++) {
                    errno = 0;
                    int rc = vnadata_convert(objs[k]->v, objs[k]->v, (vnadata_parameter_type_t)nt); int e = errno;
                    if (ok) PBT_CHECK(c, rc == 0, "C05.tail_refused", "%s: valid in-place convert %s->%s on %dx%d failed: %s", names[k], type_name(m.type), type_name(nt), m.rows, m.cols, objs[k]->log.text().c_str());
                    else PBT_CHECK(c, rc == -1 && e == EINVAL, "C05.invalid_accepted", "%s: invalid convert %s->%s on %dx%d returned %d errno %d", names[k], type_name(m.type), type_name(nt), m.rows, m.cols, rc, e);
                }
                if (ok) m.after_inplace_convert(nt, objs[0]->v);
                cmp("convert");
                break;
            }
            case 2: {
                double f = (double)g.range(0, 1000) * 1e6;
                c.note("tail: add_frequency(%g)", f);
                for (size_t k = 0; k < objs.size(); k++) PBT_CHECK(c, vnadata_add_frequency(objs[k]->v, f) == 0, "C05.tail_refused", "%s: add_frequency failed", names[k]);
                m.add_frequency(f);
                cmp("add_frequency");
                break;
            }
            default: {
                auto idx = [&](int n) { static const int d[] = {0, -1, 0, 1}; int k = (int)g.draw(4); return k == 0 ? (n > 0 ? (int)g.range(0, n - 1) : 0) : n + d[k]; };
                int fi = idx(m.F), r = idx(m.rows), cc = idx(m.cols), p = idx(m.ports());
                c.note("tail: getters(f=%d,r=%d,c=%d,p=%d)", fi, r, cc, p);
                for (size_t k = 0; k < objs.size(); k++) {
                    std::string why;
                    if (!m.check_getters(objs[k]->v, objs[k]->log, fi, r, cc, p, why)) c.fail("C05.tail_mismatch", "%s: tail getters: %s", names[k], why.c_str());
                }
                break;
            }
            }
        }
        if (nops > 0) c.label("tail");
        if (shrunk_then_grown) c.label("tail:regrow");
        return resized;
    }

    // ---------------------------------------------------------------- same-network (chain)
    // distance of matrix N (type t) from the exact conversion of A (type ta), per frequency
    bool network_dist(int ta, const std::vector<dcx> &A, int t, const std::vector<dcx> &N, const std::vector<dcx> &z0, real &dist, real &kappa, real &sens, double &gamma) {
        int n = (int)z0.size();
        std::vector<C> zc; gamma = 1;
        for (auto z : z0) { zc.push_back(C(re_(z), im_(z))); gamma = std::max(gamma, (double)(refla::abs(zc.back()) / fabsl(zc.back().re))); }
        Mat a(n, n), b(n, n);
        for (int i = 0; i < n * n; i++) { a.a[i] = C(re_(A[i]), im_(A[i])); b.a[i] = C(re_(N[i]), im_(N[i])); }
        convref::Analysis an = convref::analyse(ta, a, t, zc);
        if (!an.ok) return false;
        dist = convref::relation_error(an, b); kappa = an.kappa; sens = an.sens;
        return true;
    }

    // ---------------------------------------------------------------- the case
    void run() {
        // every case makes the call both ways: out of place into a second object and in place on
        // an identical copy of the input
        int from, to, zmode;
        if (c.exhaustive) {
            from = (int)c.draw(11); to = (int)c.draw(11); zmode = (int)c.draw(3);
            g.det = true; g.s = 0xC05ull * 1000003 + (uint64_t)((from * 11 + to) * 3 + zmode);
        } else {
            from = (int)c.draw(11); to = (int)c.draw(11);
            if (c.chance(1, 40)) to = c.boolean() ? 11 : -1;
            zmode = (int)c.draw(3);
        }
        Spec sin = gen_spec(from, zmode, true);
        bool valid_to = to >= 0 && to <= 10;
        bool ok = valid_to && ArrayModel::convert_ok(from, to, sin.rows, sin.cols);
        char lab[64]; snprintf(lab, sizeof lab, "%s->%s", type_name(from), valid_to ? type_name(to) : "invalid-type"); c.label(lab);
        c.label(zmode == 0 ? "z0:default" : zmode == 1 ? "z0:ordinary" : "z0:per-frequency");
        c.label(ok ? "accepted" : "rejected");
        note_spec("input", sin);

        Obj a; build(sin, a);
        ArrayModel min = model_of(sin);
        {
            std::string why;
            if (!min.equals_object(a.v, a.log, why)) c.fail("C05.setup_mismatch", "input object differs from its specification: %s", why.c_str());
        }
        // destination of the out-of-place call: fresh, or with an unrelated earlier content
        Obj b; Spec sdst; bool dst_prefilled = false;
        if (!g.det && g.boolean()) { dst_prefilled = true; sdst = gen_spec((int)g.range(0, 10), (int)g.draw(3), false); build(sdst, b); note_spec("destination before the call", sdst); }
        else { b.v = vnadata_alloc(errlog_fn, &b.log); must(b.v != nullptr, "vnadata_alloc", b); }
        if (dst_prefilled) c.label("destination-prefilled");

        Dump da0 = dump(a.v), db0 = dump(b.v);
        a.log.clear(); b.log.clear();

        // ---- out-of-place call (always made; the in-place call is made on a second copy)
        c.note("vnadata_convert(input, destination, %s)%s", valid_to ? type_name(to) : "invalid-type", ok ? "" : "  [invalid]");
        errno = 0;
        int rc = vnadata_convert(a.v, b.v, (vnadata_parameter_type_t)to); int err = errno;
        ErrLog la = a.log, lb = b.log;
        a.log.clear(); b.log.clear();
        Dump da1 = dump(a.v), db1 = dump(b.v);
        {
            std::string d = diff_all(da0, da1);
            PBT_CHECK(c, d.empty(), "C05.input_modified", "out-of-place conversion %s->%s changed its input: %s", type_name(from), valid_to ? type_name(to) : "?", d.c_str());
        }
        Obj a2; build(sin, a2);          // identical second copy for the in-place call
        errno = 0;
        c.note("vnadata_convert(copy, copy, %s)", valid_to ? type_name(to) : "invalid-type");
        Dump dc0 = dump(a2.v); a2.log.clear();
        int rc2 = vnadata_convert(a2.v, a2.v, (vnadata_parameter_type_t)to); int err2 = errno;
        ErrLog la2 = a2.log; a2.log.clear();
        Dump dc1 = dump(a2.v);

        if (!ok) {
            PBT_CHECK(c, rc == -1, "C05.invalid_accepted", "convert %s %dx%d -> %s accepted (returned %d) although the pair is invalid", type_name(from), sin.rows, sin.cols, valid_to ? type_name(to) : "invalid-type", rc);
            PBT_CHECK(c, rc2 == -1, "C05.invalid_accepted", "in-place convert %s %dx%d -> %s accepted (returned %d) although the pair is invalid", type_name(from), sin.rows, sin.cols, valid_to ? type_name(to) : "invalid-type", rc2);
            PBT_CHECK(c, err == EINVAL && err2 == EINVAL, "C05.refusal_errno", "refused conversion set errno %d / %d, expected EINVAL", err, err2);
            int nu = 0; for (auto &r : la.recs) if (r.category == VNAERR_USAGE) nu++; for (auto &r : lb.recs) if (r.category == VNAERR_USAGE) nu++;
            int nu2 = 0; for (auto &r : la2.recs) if (r.category == VNAERR_USAGE) nu2++;
            PBT_CHECK(c, nu >= 1 && nu2 >= 1, "C05.refusal_no_callback", "refused conversion did not report a USAGE error through the error function (%d / %d callbacks)", nu, nu2);
            std::string d = diff_all(db0, db1);
            PBT_CHECK(c, d.empty(), "C05.refused_modified_destination", "refused conversion %s %dx%d -> %s changed the destination: %s", type_name(from), sin.rows, sin.cols, valid_to ? type_name(to) : "invalid-type", d.c_str());
            d = diff_all(dc0, dc1);
            PBT_CHECK(c, d.empty(), "C05.refused_modified_destination", "refused in-place conversion %s %dx%d -> %s changed the object: %s", type_name(from), sin.rows, sin.cols, valid_to ? type_name(to) : "invalid-type", d.c_str());
            c.nontrivial();
            // the objects stay usable and still are what they were
            tail({&b}, {"destination of the refused call"}, dst_prefilled ? model_of(sdst) : ArrayModel());
            tail({&a2}, {"object of the refused in-place call"}, min);
            return;
        }

        PBT_CHECK(c, rc == 0, "C05.valid_refused", "valid conversion %s %dx%d -> %s failed (errno %d): %s %s", type_name(from), sin.rows, sin.cols, type_name(to), err, la.text().c_str(), lb.text().c_str());
        PBT_CHECK(c, rc2 == 0, "C05.valid_refused", "valid in-place conversion %s %dx%d -> %s failed (errno %d): %s", type_name(from), sin.rows, sin.cols, type_name(to), err2, la2.text().c_str());
        PBT_CHECK(c, la.n_nonwarning() + lb.n_nonwarning() + la2.n_nonwarning() == 0, "C05.error_callback_on_success", "successful conversion called the error function: %s %s %s", la.text().c_str(), lb.text().c_str(), la2.text().c_str());

        // ---- expected result: the vnaconv function with the corresponding name
        std::vector<const Func *> cand;
        int n = std::min(sin.rows, sin.cols);
        if (to != from) {
            bool nn = convref::is_nport_type(from) && (convref::is_nport_type(to) || to == VPT_ZIN);
            if (nn) { cand.push_back(find_by_name(from, to, true)); if (n == 2) cand.push_back(find_by_name(from, to, false)); }
            else cand.push_back(find_by_name(from, to, false));
            for (auto p : cand) if (!p) c.fail("C05.harness_table", "no vnaconv function named for %s->%s", type_name(from), type_name(to));
        } else cand.push_back(nullptr);     // same type: plain copy
        std::string firstwhy; bool matched = false; ArrayModel mexp;
        for (size_t k = 0; k < cand.size() && !matched; k++) {
            ArrayModel m = expected(min, to, cand[k]);
            std::string why; b.log.clear();
            if (m.equals_object(b.v, b.log, why)) { matched = true; mexp = m; if (cand[k]) c.label(cand[k]->nport() ? "matches:n-port-function" : "matches:two-port-function"); }
            else if (k == 0) firstwhy = why;
        }
        if (!matched)
            c.fail("C05.result_differs", "convert %s %dx%d -> %s (out of place, z0 %s): result differs from %s applied per frequency with that frequency's z0: %s",
                   type_name(from), sin.rows, sin.cols, type_name(to), zmode == 0 ? "default" : zmode == 1 ? "ordinary" : "per-frequency",
                   cand[0] ? cand[0]->name : "a plain copy", firstwhy.c_str());
        {
            std::string d = diff_core(db1, dc1);
            PBT_CHECK(c, d.empty(), "C05.inplace_differs", "convert %s %dx%d -> %s: in-place result differs from out-of-place result: %s", type_name(from), sin.rows, sin.cols, type_name(to), d.c_str());
            std::string why; a2.log.clear();
            if (!mexp.equals_object(a2.v, a2.log, why)) c.fail("C05.inplace_differs", "convert %s %dx%d -> %s in place: %s", type_name(from), sin.rows, sin.cols, type_name(to), why.c_str());
        }
        // DESIGN non-trivial rule: per-frequency z0, or in-place, or chained, or a resize after a
        // matrix -> vector conversion; the in-place call is part of every case
        c.nontrivial();
        if (sin.perf()) c.label("per-frequency-z0-in-force");

        // ---- chain A -> B -> C: same network as A
        bool a2_consumed = false;
        if (from >= VPT_S && from <= VPT_B && to >= VPT_S && to <= VPT_B && to != from && n >= 1 && sin.F > 0 && !g.det) {
            int tc = (int)g.range(VPT_S, VPT_B);
            if (tc != to && tc != from && ArrayModel::convert_ok(to, tc, sin.rows, sin.cols) && ArrayModel::convert_ok(from, tc, sin.rows, sin.cols)) {
                // second leg in place on the in-place copy, or out of place from b into a new object
                Obj c1, c2; vnadata_t *vc1;
                bool leg2_inplace = g.boolean();
                c.note("chain: %s -> %s -> %s (%s second leg) versus %s -> %s", type_name(from), type_name(to), type_name(tc), leg2_inplace ? "in-place" : "out-of-place", type_name(from), type_name(tc));
                if (leg2_inplace) {
                    PBT_CHECK(c, vnadata_convert(a2.v, a2.v, (vnadata_parameter_type_t)tc) == 0, "C05.valid_refused", "chain: in-place %s->%s failed", type_name(to), type_name(tc));
                    vc1 = a2.v; a2_consumed = true;
                } else {
                    c1.v = vnadata_alloc(errlog_fn, &c1.log); must(c1.v != nullptr, "vnadata_alloc", c1);
                    PBT_CHECK(c, vnadata_convert(b.v, c1.v, (vnadata_parameter_type_t)tc) == 0, "C05.valid_refused", "chain: %s->%s failed", type_name(to), type_name(tc));
                    vc1 = c1.v;
                }
                c2.v = vnadata_alloc(errlog_fn, &c2.log); must(c2.v != nullptr, "vnadata_alloc", c2);
                PBT_CHECK(c, vnadata_convert(a.v, c2.v, (vnadata_parameter_type_t)tc) == 0, "C05.valid_refused", "chain: %s->%s failed", type_name(from), type_name(tc));
                PBT_CHECK(c, vnadata_get_type(vc1) == tc && vnadata_get_type(c2.v) == tc, "C05.chain_type", "chain results have types %s / %s, expected %s", type_name(vnadata_get_type(vc1)), type_name(vnadata_get_type(c2.v)), type_name(tc));
                int checked = 0;
                for (int i = 0; i < sin.F; i++) {
                    std::vector<dcx> z = sin.z_at(i), A = sin.data[i], B(db1.data.begin() + (size_t)i * n * n, db1.data.begin() + (size_t)(i + 1) * n * n), C1(n * n), C2(n * n);
                    for (int k = 0; k < n * n; k++) { C1[k] = vnadata_get_cell(vc1, i, k / n, k % n); C2[k] = vnadata_get_cell(c2.v, i, k / n, k % n); }
                    real dAB, kAB, sAB, dBC, kBC, sBC, d1, d2, kAC, sAC; double gam, g2;
                    if (!network_dist(from, A, to, B, z, dAB, kAB, sAB, gam) || !network_dist(to, B, tc, C1, z, dBC, kBC, sBC, g2) || !network_dist(from, A, tc, C1, z, d1, kAC, sAC, g2)) continue;
                    if (!(kAB < KAPPA_CAP && kBC < KAPPA_CAP && kAC < KAPPA_CAP)) continue;
                    network_dist(from, A, tc, C2, z, d2, kAC, sAC, g2);
                    double b1 = EPS * gam * (double)(kBC + sBC * kAB), b2 = EPS * gam * (double)kAC;
                    c.track_max("chain_err/(eps*kappa)", (double)d1 / b1);
                    c.track_max("direct_err/(eps*kappa)", (double)d2 / b2);
                    if (!((double)d1 <= C_CHAIN * b1))
                        c.fail("C05.chain_other_network", "%s -> %s -> %s at frequency %d is not the network of the input: normalised distance %.3Lg > %.3g", type_name(from), type_name(to), type_name(tc), i, d1, C_CHAIN * b1);
                    if (!((double)d2 <= C_CHAIN * b2))
                        c.fail("C05.chain_other_network", "%s -> %s at frequency %d is not the network of the input: normalised distance %.3Lg > %.3g", type_name(from), type_name(tc), i, d2, C_CHAIN * b2);
                    checked++;
                }
                c.label(checked ? "chained" : "chain-skipped:near-singular");
                // the source of an out-of-place second leg must not have changed
                std::string d = diff_all(db1, dump(b.v));
                PBT_CHECK(c, d.empty(), "C05.input_modified", "chain: %s changed although it was only read: %s", "the intermediate object", d.c_str());
            }
        }

        // ---- tail: the results behave like a freshly built object of the new type and dimensions
        bool tozin = to == VPT_ZIN && from != VPT_ZIN;
        if (tozin) c.label("matrix->Zin");
        bool resized;
        if (a2_consumed) resized = tail({&b}, {"out-of-place result"}, mexp);
        else resized = tail({&a2, &b}, {"in-place result", "out-of-place result"}, mexp);
        if (tozin && resized) c.label("resize-after-matrix->Zin");
    }

};

} // namespace

void pbt_global_setup() {
    const char *e1 = refla::selftest(), *e2 = convref::selftest();
    if (*e1 || *e2) { fprintf(stderr, "C05: reference self-test failed: refla '%s' convref '%s'\n", e1, e2); abort(); }
    if (funcs().size() != 90) { fprintf(stderr, "C05: function table has %zu entries, expected 90\n", funcs().size()); abort(); }
}

void pbt_property(Ctx &c) {
    H h(c);
    h.run();
}
