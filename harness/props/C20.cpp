// C20 -- too few standards are reported; every determining set of standards solves.
// Every subset of a pool of standards, accumulated one at a time with a solve after every addition,
// classified by the independent model (equation count / Jacobian identifiability / leakage coverage).
#include "pbt.hpp"
#include "calscen.hpp"

const char *PBT_PROPERTY = "C20";
using namespace pbt;
using namespace cs;

static const long double EPS = 1.1102230246251565e-16L;
static pbt::Shared g_aux;       // tape of the auxiliary (non-recorded) generator

namespace {

} // namespace

void pbt_property(Ctx &c) {
    Scenario sc;
    sc.type = (int)c.draw(8);
    int maxd = c.exhaustive ? (c.size >= 3 ? 3 : 2) : 3;
    // dims: enumerate the legal (r,c) pairs
    std::vector<std::pair<int,int>> shapes;
    for (int r = 1; r <= maxd; r++) for (int cc = 1; cc <= maxd; cc++) if (r == cc || (vm::is_T(sc.type) ? r < cc : r > cc)) shapes.push_back({r, cc});
    auto sh = shapes[c.draw(shapes.size())];
    sc.r = sh.first; sc.c = sh.second; sc.P = std::max(sc.r, sc.c);
    sc.ab = c.boolean();
    sc.F = 1;
    uint64_t aux_seed = c.exhaustive ? 12345 : c.draw(1ull << 30);
    // auxiliary generator: numbers of the error box / standards come from a fixed stream (not on the tape)
    Ctx a; a.sh = &g_aux; a.rng = pbt::mix(aux_seed, (uint64_t)(sc.type * 100 + sc.r * 10 + sc.c)); a.size = 30;
    sc.freq = {1e9};
    sc.box.push_back(gen_box(a, sc.type, sc.r, sc.c));
    // pool (<= 8): up to three reflects per port, a through per pair, one or two random full-matrix standards, two
    // reflects entered as a matrix with explicit VNACAL_ZERO off the diagonal, and a sparse multi-port standard
    // whose transmission cells are reciprocal or ONE-directional with explicit zeros elsewhere (an isolator / a
    // forward chain: its ports are connected although half of the off-diagonal cells are zero)
    Scenario pool = sc;
    {
        Gen g(a, pool);
        int d = std::min(sc.r, sc.c), P = sc.P;
        std::vector<R> theta(P); for (auto &t : theta) t = 2 * M_PIl * a.unit();
        std::vector<std::vector<Standard>> refl(d);
        std::vector<Standard> others;
        for (int p = 0; p < d; p++) for (int w = 0; w < 3; w++) { refl[p].push_back(g.single(p, g.gen_refl(w, theta[p]))); refl[p].back().entry = Standard::SINGLE; }
        for (int p1 = 0; p1 < P; p1++) for (int p2 = p1 + 1; p2 < P; p2++) others.push_back(g.through(p1, p2));
        std::vector<int> inorder; for (int p = 0; p < P; p++) inorder.push_back(p);
        others.push_back(g.full_random(inorder));
        if (vm::is_16(sc.type) || P == 1) others.push_back(g.full_random(inorder));
        // (a leakage sample that depends on the zero handle being recognised whatever was looked up before)
        if (P >= 2) others.push_back(g.dbl(0, 1, rnd_disk(a, 0.3L, 1.0L), rnd_disk(a, 0.3L, 1.0L), true, 1));
        if (P >= 2) others.push_back(g.sparse_multiport(g.perm_ports(2 + (int)a.draw(P - 1))));
        // rectangular calibrations: a reflect on a port OUTSIDE the square part of the measurement matrix.  It yields no
        // equation at all, but for the leakage types it is an isolation measurement (possibly the only leakage sample)
        if (P > d) { others.push_back(g.single(d + (int)a.draw(P - d), g.gen_refl((int)a.draw(3), theta[d]))); others.back().entry = Standard::SINGLE; }
        // cap at 8: thin out the reflects first (never below one per port), then the rest
        auto total = [&]() { size_t n = others.size(); for (auto &v : refl) n += v.size(); return n; };
        while (total() > 8) {
            int best = -1; for (int p = 0; p < d; p++) if (refl[p].size() > 1 && (best < 0 || refl[p].size() > refl[best].size() || (refl[p].size() == refl[best].size() && a.boolean()))) best = p;
            if (best >= 0) refl[best].erase(refl[best].begin() + a.draw(refl[best].size()));
            else others.erase(others.begin() + a.draw(others.size()));
        }
        for (auto &v : refl) for (auto &st : v) pool.stds.push_back(st);
        for (auto &st : others) pool.stds.push_back(st);
        // "(plus unknown standard parameters)": one or two single reflects whose reflection is an UNKNOWN parameter
        // (guess within 10 %).  Every unknown parameter in a prefix raises the number of equations needed by one;
        // prefixes that contain one are only judged by the too-few clause (the converse clause speaks of known standards).
        for (int p = 0; p < std::min(d, 2); p++) {
            C truth = rnd_disk(a, 0.4L, 0.95L);
            Standard st = g.single(p, truth); st.entry = Standard::SINGLE;
            UParam u; u.truth.assign(1, truth); u.guess.assign(1, truth * (C(1, 0) + rnd_disk(a, 0, 0.1L)));
            SCell &cell = st.cells[0]; cell.kind = SCell::SCALAR; cell.v = u.truth; cell.uparam = (int)sc.uparams.size(); cell.handle = -1;
            sc.uparams.push_back(u);
            g.finish(st);
            pool.stds.push_back(st);
        }
        pool.uparams = sc.uparams;
        for (auto &st : pool.stds) if (c.exhaustive) { st.abbrev_rows = st.abbrev_cols = false; }
    }
    size_t npool = pool.stds.size();
    // subset and order
    std::vector<int> pick;
    for (size_t i = 0; i < npool; i++) if (c.boolean()) pick.push_back((int)i);
    if (c.exhaustive) { int how = (int)c.draw(3); if (how == 1) std::reverse(pick.begin(), pick.end()); else if (how == 2 && pick.size() > 1) std::rotate(pick.begin(), pick.begin() + 1, pick.end()); }
    else for (size_t i = pick.size(); i > 1; i--) { size_t j = c.draw(i); std::swap(pick[i - 1], pick[j]); }
    for (int k : pick) sc.stds.push_back(pool.stds[k]);
    sc.dut = gen_dut(a, sc.P, 1);
    c.note("%s  pool=%zu subset=%zu aux_seed=%llu", sc.describe().c_str(), npool, pick.size(), (unsigned long long)aux_seed);
    for (auto &st : sc.stds) c.note("  %s", st.describe().c_str());
    c.label(std::string("type:") + vm::tname(sc.type));

    Runner run(c, sc);
    run.rnd = &a;       // keep the 'a' matrices off the tape (enumerable)
    run.create();
    if (a.chance(1, 2)) { run.make_fillers((int)a.range(6, 40), a); c.label("sparse-handles"); }      // from the auxiliary stream: sparse / recycled handles
    run.alloc();
    int U = unknowns_per_system(sc);
    bool had_fail = false, had_success_after_fail = false;
    Scenario prefix = sc; prefix.stds.clear();
    for (size_t n = 0; n <= sc.stds.size(); n++) {
        if (n > 0) {
            int rc = run.add(sc.stds[n - 1]);
            PBT_CHECK(c, rc == 0, "C20.add_refused", "standard %zu (%s) refused: %s", n - 1, sc.stds[n - 1].describe().c_str(), run.log.text().c_str());
            prefix.stds.push_back(sc.stds[n - 1]);
        }
        // classify the prefix
        auto eq = count_equations(sc, n);
        bool too_few = false; for (int e : eq) if (e < U) too_few = true;
        // unknown standard parameters used so far: the total number of equations must reach error terms + parameters
        std::vector<int> used; for (auto &st : prefix.stds) for (auto &cell : st.cells) if (cell.uparam >= 0 && std::find(used.begin(), used.end(), cell.uparam) == used.end()) used.push_back(cell.uparam);
        int np = (int)used.size(), total = 0; for (int e : eq) total += e;
        bool with_unknown = np > 0;
        if (with_unknown) { too_few = total < (int)eq.size() * U + np; c.label(too_few ? "prefix:too-few(with unknown parameters)" : "prefix:gray(with unknown parameters)"); }
        bool determining = false; long double kappa = 0;
        if (!too_few && !with_unknown) { vm::Ident id = ident_at(prefix, 0); determining = id.determining && leakage_uncovered(prefix).empty(); kappa = id.kappa; }
        run.log.clear(); errno = 0;
        int rc = vnacal_new_solve(run.vnp); int err = errno;
        c.note("   after %zu standards: equations min %d / unknowns %d -> %s; solve rc=%d", n, *std::min_element(eq.begin(), eq.end()), U, too_few ? "too-few" : determining ? "determining" : "gray", rc);
        if (too_few) {
            c.label("prefix:too-few");
            PBT_CHECK(c, rc == -1, "C20.too_few_accepted", "solve succeeded with %d equations (minimum per system; %d in total) for %d unknown error terms per system and %d unknown standard parameters after %zu standards", *std::min_element(eq.begin(), eq.end()), total, U, np, n);
            PBT_CHECK(c, err == EDOM, "C20.too_few_errno", "solve with too few standards failed with errno %d (%s), expected EDOM; callbacks: %s", err, strerror(err), run.log.text().c_str());
            PBT_CHECK(c, run.log.n_nonwarning() >= 1 && run.log.last()->category == VNAERR_MATH, "C20.too_few_callback", "no MATH error callback: %s", run.log.text().c_str());
            had_fail = true;
        } else if (determining) {
            c.label("prefix:determining");
            PBT_CHECK(c, rc == 0, "C20.determining_refused", "solve failed on a determining set (kappa %.3Lg) after %zu standards: %s", kappa, n, run.log.text().c_str());
            if (had_fail) had_success_after_fail = true;
            int ci = vnacal_add_calibration(run.vcp, "c", run.vnp);
            PBT_CHECK(c, ci >= 0, "C20.add_calibration", "add_calibration failed: %s", run.log.text().c_str());
            ci = vnacal_find_calibration(run.vcp, "c");
            if (run.apply_supported()) {
                std::vector<Mat> out;
                int arc = run.apply(ci, sc.dut, out);
                PBT_CHECK(c, arc == 0, "C20.apply_failed", "apply failed: %s", run.log.text().c_str());
                long double worst = 0;
                for (int i = 0; i < sc.P; i++) for (int j = 0; j < sc.P; j++) worst = std::max(worst, std::abs(out[0](i, j) - sc.dut[0](i, j)));
                c.track_max("err/(eps*kappa*10)", (double)(worst / (EPS * kappa * 10)));
                PBT_CHECK(c, worst <= 1e4L * EPS * kappa * 10, "C20.dut_mismatch", "after %zu standards (determining, kappa %.3Lg) the corrected device is off by %.3Lg", n, kappa, worst);
            }
        } else {
            c.label("prefix:gray");
            if (rc != 0) had_fail = true;
        }
    }
    if (had_success_after_fail) c.nontrivial();
}
