// C11 -- failures are reported as documented and leave objects unchanged and usable; indices
// returned on success are honoured.
//
// The stateful executor of C03 (harness/common/apiexec*.hpp) with the error-callback recorder on and the
// contract table C11_contract.inc (written from the man pages).  Per call (Observer::after):
//   failing call   documented failure value; errno in the documented class for the cause generated
//                  (usage EINVAL, math EDOM, syntax EBADMSG, missing ENOENT, version ENOPROTOOPT, system:
//                  any errno) and equal to the errno the category of the last non-warning callback maps
//                  to; the library had set errno before calling error_fn; functions documented to report
//                  called error_fn >= 1 time, every message a single line; documented silent queries
//                  called it 0 times;
//   succeeding     no callback other than WARNING; "0 on success" functions returned 0;
//   unchanged      a call refused for its arguments leaves the object's digest identical (vnadata: full
//                  getter dump; vnacal_t: getters + parameter table + property dumps + text of vnacal_save;
//                  property tree: document dump; vnacal_new_t (opaque): at its free, the history of its
//                  SUCCESSFUL calls is replayed on a fresh clone and solve -> add_calibration -> apply_m of
//                  a fixed probe must give bit-identical outcomes on the original and on the clone);
//   usable         after a late failure (init, load, convert, apply, import) the destination can be
//                  queried, re-initialised, saved; a solve that failed is retried after the missing
//                  standards, must succeed and correct a device (executor, XP_MUST);
//   indices        handles / indices returned on success are honoured by the query functions (executor,
//                  Observer::claim).
#include "pbt.hpp"
#include <map>
#include "apiexec.hpp"

const char *PBT_PROPERTY = "C11";
using namespace pbt;
using namespace apix;

namespace {

enum Rep { REPORTS, SILENT, NOFN, UNDOC };
struct Row { RetKind rk; unsigned causes; Rep rep; bool zero; };
enum { USAGE = C_USAGE, MATH = C_MATH, SYNTAX = C_SYNTAX, MISSING = C_MISSING, VERSION = C_VERSION, SYSTEM = C_SYSTEM };
static const std::map<std::string, Row> &contract() {
    static const std::map<std::string, Row> *t = [] {
        auto *m = new std::map<std::string, Row>;
        const RetKind INT = R_INT, PTR = R_PTR, DBL = R_DBL, CPX = R_CPX;
        const bool Z = true; const bool _ = false; (void)Z; (void)_;
#define ZFLAG_Z true
#define ZFLAG_ false
#define CONTRACT(fn, kind, causes, rep, flag) (*m)[#fn] = Row{kind, (unsigned)(causes), rep, sizeof(#flag) == 2 && (#flag)[0] == 'Z'};
#include "C11_contract.inc"
#undef CONTRACT
        return m;
    }();
    return *t;
}

static int errno_of_category(int cat) {
    switch (cat) {
    case VNAERR_USAGE: return EINVAL;
    case VNAERR_VERSION: return ENOPROTOOPT;
    case VNAERR_SYNTAX: return EBADMSG;
    case VNAERR_MATH: return EDOM;
    case VNAERR_INTERNAL: return ENOSYS;
    case VNAERR_WARNING: return 0;
    default: return -1;          // SYSTEM: the system errno
    }
}
static bool errno_in_causes(int e, unsigned causes) {
    if (e == 0) return false;
    if ((causes & C_SYSTEM)) return true;
    if ((causes & C_USAGE) && e == EINVAL) return true;
    if ((causes & C_MATH) && e == EDOM) return true;
    if ((causes & C_SYNTAX) && e == EBADMSG) return true;
    if ((causes & C_MISSING) && e == ENOENT) return true;
    if ((causes & C_VERSION) && e == ENOPROTOOPT) return true;
    return false;
}
static const char *cause_name(int e, const ErrRec *last) {
    if (last) switch (last->category) { case VNAERR_USAGE: return "usage"; case VNAERR_MATH: return "math"; case VNAERR_SYNTAX: return "syntax"; case VNAERR_VERSION: return "version"; case VNAERR_SYSTEM: return e == ENOENT ? "system(missing)" : "system"; default: return "other"; }
    switch (e) { case EINVAL: return "usage"; case EDOM: return "math"; case EBADMSG: return "syntax"; case ENOENT: return "missing"; case ENOPROTOOPT: return "version"; default: return "system"; }
}
static std::string hexd(double x) { char b[40]; snprintf(b, sizeof b, "%a", x); return b; }
static std::string hexc(dcx z) { return hexd(re_(z)) + "," + hexd(im_(z)); }

// ---- digests -----------------------------------------------------------------------------------
static std::string digest_data(vnadata_t *v, bool with_file_options) {
    std::string s;
    int F = vnadata_get_frequencies(v), R = vnadata_get_rows(v), Cc = vnadata_get_columns(v), P = std::max(R, Cc);
    s += "type " + std::to_string((int)vnadata_get_type(v)) + " " + std::to_string(R) + "x" + std::to_string(Cc) + "x" + std::to_string(F) + "\n";
    const double *fv = vnadata_get_frequency_vector(v);
    for (int f = 0; f < F; f++) {
        s += "f" + std::to_string(f) + " " + hexd(fv[f]) + ":";
        for (int i = 0; i < R; i++) for (int j = 0; j < Cc; j++) s += " " + hexc(vnadata_get_cell(v, f, i, j));
        s += " z0:";
        for (int p = 0; p < P; p++) s += " " + hexc(vnadata_get_fz0(v, f, p));
        s += "\n";
    }
    bool perf = vnadata_has_fz0(v);
    s += perf ? "fz0\n" : "z0:";
    if (!perf) { for (int p = 0; p < P; p++) s += " " + hexc(vnadata_get_z0(v, p)); s += "\n"; }
    if (with_file_options) {
        const char *fmt = vnadata_get_format(v);
        s += "filetype " + std::to_string((int)vnadata_get_filetype(v)) + " format " + (fmt ? std::string("\"") + fmt + "\"" : std::string("NULL")) +
             " fprecision " + std::to_string(vnadata_get_fprecision(v)) + " dprecision " + std::to_string(vnadata_get_dprecision(v)) + "\n";
    }
    return s;
}
static std::string digest_prop(const vnaproperty_t *root) {
    std::string why;
    doc::NodeP n = read_tree(root, why);
    if (!why.empty()) return "WALK FAILED: " + why;
    return doc::show(n);
}
static std::string digest_cal(CalObj &K) {
    std::string s;
    int end = vnacal_get_calibration_end(K.p);
    s += "end " + std::to_string(end) + "\n";
    for (int ci = -1; ci <= end + 1; ci++) {
        if (ci >= 0) {
            const char *nm = vnacal_get_name(K.p, ci);
            s += "ci " + std::to_string(ci) + " name " + (nm ? nm : "(none)");
            if (nm) {
                int F = vnacal_get_frequencies(K.p, ci);
                s += " type " + std::to_string((int)vnacal_get_type(K.p, ci)) + " " + std::to_string(vnacal_get_rows(K.p, ci)) + "x" + std::to_string(vnacal_get_columns(K.p, ci)) + " F " + std::to_string(F) + " z0 " + hexc(vnacal_get_z0(K.p, ci));
                const double *fv = vnacal_get_frequency_vector(K.p, ci);
                for (int f = 0; f < F; f++) s += " " + hexd(fv[f]);
                if (F > 0) s += " fmin " + hexd(vnacal_get_fmin(K.p, ci)) + " fmax " + hexd(vnacal_get_fmax(K.p, ci));
            }
            s += "\n";
        }
        errno = 0;
        vnaproperty_t *root = vnacal_property_get_subtree(K.p, ci, ".");
        if (root || errno == 0) s += " props " + digest_prop(root) + "\n";
    }
    // parameter table: every handle that was ever returned, and two beyond
    for (int h = 0; h <= K.max_h + 2; h++) {
        double f = 1e6;
        for (auto &q : K.params) if (q.h == h && q.kind == ParamRec::VECTOR && !q.fv.empty()) f = q.fv[0];
        errno = 0;
        dcx v = vnacal_get_parameter_value(K.p, h, f);
        s += "param " + std::to_string(h) + " " + (re_(v) == HUGE_VAL ? "fails " + std::to_string(errno) : hexc(v)) + "\n";
    }
    K.log->clear();
    {   // the saved text (the file name the save records is not part of the digest)
        MemFd mf;
        int rc = vnacal_save(K.p, mf.path.c_str());
        s += "save rc " + std::to_string(rc) + "\n" + mf.get();
    }
    K.log->clear();
    return s;
}
static std::string first_difference(const std::string &a, const std::string &b) {
    size_t i = 0; while (i < a.size() && i < b.size() && a[i] == b[i]) i++;
    size_t ls = a.rfind('\n', i ? i - 1 : 0); ls = ls == std::string::npos ? 0 : ls + 1;
    auto line = [&](const std::string &s) { size_t e = s.find('\n', ls); return ascii(s.substr(ls, (e == std::string::npos ? s.size() : e) - ls)).substr(0, 300); };
    return "before: " + line(a) + "   after: " + line(b);
}

struct Obs : Observer {
    Ctx &c;
    bool have_digest = false; std::string digest; ObjKind dkind = O_NONE;
    bool have_cal_digest = false; std::string cal_digest;
    long n_compared = 0, n_clone = 0, n_probe = 0, n_fail = 0;
    bool in_hook = false;
    explicit Obs(Ctx &c_) : c(c_) {}

    std::string take(Exec &x, const Call &k, ObjKind kind) {
        switch (kind) {
        case O_DATA: return digest_data(x.datas[k.oi]->p, true);
        case O_PROP: return digest_prop(x.props[k.oi]->root);
        case O_CAL: case O_NEW: return digest_cal(*x.cals[k.oi]);
        default: return "";
        }
    }
    void claim(bool cond, const char *code, const std::string &msg) override { if (!cond) c.fail(code, "%s", msg.c_str()); }

    void before(Exec &x, Call &k) override {
        have_digest = false;
        if (!strcmp(k.fn, "vnacal_new_free")) { if (k.okind == O_NEW) compare_clone(x, k.oi, k.oj); return; }
        if (!strcmp(k.fn, "vnacal_free")) { if (k.okind == O_CAL) for (int ni = 0; ni < (int)x.cals[k.oi]->news.size(); ni++) compare_clone(x, k.oi, ni); return; }
        if (k.expect == XP_FAIL && !k.late && k.okind != O_NONE) {
            ObjKind kind = k.okind == O_NEW ? O_CAL : k.okind;      // the vnacal_new_t itself is opaque (clone history); its vnacal_t is not
            digest = take(x, k, kind); dkind = kind; have_digest = true;
        }
    }

    void after(Exec &x, Call &k) override {
        if (k.rk == R_VOID) return;
        auto it = contract().find(k.fn);
        if (it == contract().end()) c.fail("C11.harness", "no contract row for %s", k.fn);
        const Row &row = it->second;
        ErrLog empty;
        ErrLog &log = k.log ? *k.log : empty;
        const ErrRec *last = nullptr;
        for (auto &r : log.recs) if (r.category != VNAERR_WARNING) last = &r;
        // every message is a single line
        for (auto &r : log.recs) {
            if (r.msg.find('\n') != std::string::npos) c.fail("C11.message_not_one_line", "step %d: %s: error message contains a newline: %s", x.step, k.fn, ascii(r.msg).c_str());
            if (r.category == VNAERR_INTERNAL) c.fail("C11.internal_error_reported", "step %d: %s reported an INTERNAL error: %s", x.step, k.fn, ascii(r.msg).c_str());
            // "The library sets errno before calling error_fn"
            int want = errno_of_category(r.category);
            if (want >= 0 ? r.err != want : r.err == 0)
                c.fail("C11.errno_at_callback", "step %d: %s: errno was %d (%s) when error_fn was called with category %d (%s); vnaerr(3) maps that category to %s", x.step, k.fn, r.err, strerror(r.err), r.category, ascii(r.msg).c_str(), want >= 0 ? strerror(want) : "the system errno");
        }
        // the same message twice in a row within one call: tracked, not asserted (no man page says "exactly once")
        for (size_t i = 1; i < log.recs.size(); i++) if (log.recs[i].category == log.recs[i - 1].category && log.recs[i].msg == log.recs[i - 1].msg) c.label(std::string("duplicate-callback:") + k.fn);
        if (!k.has_fn && !log.recs.empty()) c.fail("C11.harness", "callback recorded for an object created without error_fn");
        if (k.expect == XP_FAIL && !k.failed) c.fail("C11.invalid_accepted", "step %d: %s with an invalid argument (%s) did not return its failure value (returned %ld)", x.step, k.fn, k.why, k.iret);
        if (k.expect == XP_OK && k.failed) c.label(std::string("valid_failed:") + k.fn);
        if (k.expect == XP_MUST && k.failed) c.fail("C11.must_succeed_failed", "step %d: %s (%s) failed with errno %d (%s): %s", x.step, k.fn, k.why, k.err, strerror(k.err), ascii(log.text()).c_str());
        if (!k.failed) {
            // a succeeding call produced no callback other than WARNING
            if (last) c.fail("C11.callback_on_success", "step %d: %s succeeded but called the error function: %s", x.step, k.fn, ascii(log.text()).c_str());
            if (row.zero && k.iret != 0) c.fail("C11.bad_return_value", "step %d: %s returned %ld (documented: 0 on success, -1 on error)", x.step, k.fn, k.iret);
            if (k.expect == XP_OK || k.expect == XP_MUST) c.label(std::string("ok:") + k.fn);
            return;
        }
        // ---- failing call
        n_fail++;
        if (k.rk != row.rk) c.fail("C11.harness", "%s: return kind of the call differs from the contract table", k.fn);
        unsigned causes = row.causes ? (k.causes ? (k.causes & row.causes) : row.causes) : 0;
        if (row.causes && k.causes && !causes) c.fail("C11.harness", "%s: generated cause %u is not in the contract row %u", k.fn, k.causes, row.causes);
        if (row.causes && k.causes && k.check_errno) {
            if (!errno_in_causes(k.err, causes))
                c.fail("C11.errno_class", "step %d: %s (%s) failed with errno %d (%s), which is not in the documented class for this cause (mask %u)%s%s", x.step, k.fn, k.why, k.err, strerror(k.err), causes, last ? "; callback: " : "", last ? ascii(last->msg).c_str() : "");
        }
        // errno agrees with the category of the last callback
        if (last) {
            int want = errno_of_category(last->category);
            if (want < 0) want = last->err;
            if (k.err != want) c.fail("C11.errno_vs_category", "step %d: %s returned failure with errno %d (%s) but its last callback was category %d / errno %d: %s", x.step, k.fn, k.err, strerror(k.err), last->category, last->err, ascii(last->msg).c_str());
        }
        // callback discipline
        if (k.has_fn && k.log) {
            if (row.rep == REPORTS && !last) c.fail("C11.no_callback", "step %d: %s (%s) returned failure (errno %d) without calling the error function; the manual says it reports through error_fn", x.step, k.fn, k.why, k.err);
            if (row.rep == SILENT && !log.recs.empty()) c.fail("C11.callback_from_silent_query", "step %d: %s is documented not to invoke the error function but did: %s", x.step, k.fn, ascii(log.text()).c_str());
        }
        c.label(std::string("cov:") + k.fn + ":" + cause_name(k.err, last));
        // ---- unchanged
        if (have_digest) {
            have_digest = false;
            std::string now = take(x, k, dkind);
            n_compared++;
            if (now != digest) c.fail("C11.refused_call_changed_object", "step %d: %s refused for its arguments (%s) changed the %s: %s", x.step, k.fn, k.why, dkind == O_DATA ? "vnadata_t" : dkind == O_PROP ? "property tree" : "vnacal_t", first_difference(digest, now).c_str());
        }
        // ---- usable after a late failure
        if (k.late && !in_hook) {
            in_hook = true;
            if (k.okind == O_DATA) probe_data(x, k);
            if (k.okind == O_PROP) probe_prop(x, k);
            in_hook = false;
        }
    }

    // "a failed init, load or convert leaves a destination that can still be queried, re-initialised, saved and freed"
    void probe_data(Exec &x, Call &k) {
        DataObj &D = *x.datas[k.oi];
        vnadata_t *v = D.p;
        n_probe++;
        D.log->clear();
        (void)digest_data(v, true);                           // queried: every getter over the reported dimensions (sanitizers watch)
        { MemOut out; (void)vnadata_fsave(v, out.fp, "probe.npd"); }   // saved: either outcome, no crash
        D.log->clear();
        int rc = vnadata_init(v, VPT_S, 2, 2, 1);
        if (rc != 0 || D.log->n_nonwarning()) c.fail("C11.unusable_after_failure", "step %d: after the failed %s, vnadata_init(S,2,2,1) of the destination failed: %s", x.step, k.fn, ascii(D.log->text()).c_str());
        rc = vnadata_set_cell(v, 0, 1, 0, mkc(0.5, -0.25));
        rc |= vnadata_set_frequency(v, 0, 1e9);
        std::string d = digest_data(v, false);
        if (rc != 0 || d.find("0x1p-1,-0x1p-2") == std::string::npos) c.fail("C11.unusable_after_failure", "step %d: after the failed %s and a re-initialisation the destination does not hold what was stored: %s", x.step, k.fn, d.c_str());
        (void)vnadata_set_format(v, nullptr); (void)vnadata_set_filetype(v, VNADATA_FILETYPE_NPD);
        D.log->clear();
        MemOut out;
        rc = vnadata_fsave(v, out.fp, "probe.npd");
        if (rc != 0) c.fail("C11.unusable_after_failure", "step %d: after the failed %s and a re-initialisation the destination cannot be saved: %s", x.step, k.fn, ascii(D.log->text()).c_str());
        D.log->clear();
        c.label("usable-probe:vnadata");
    }
    void probe_prop(Exec &x, Call &k) {
        PropObj &P = *x.props[k.oi];
        n_probe++;
        std::string d = digest_prop(P.root);
        if (d.compare(0, 11, "WALK FAILED") == 0) c.fail("C11.unusable_after_failure", "step %d: after the failed %s the tree cannot be read: %s", x.step, k.fn, d.c_str());
        int rc = vnaproperty_set(&P.root, "probe_after_failure=1");
        const char *got = rc == 0 ? vnaproperty_get(P.root, "probe_after_failure") : nullptr;
        if (!got || strcmp(got, "1")) c.fail("C11.unusable_after_failure", "step %d: after the failed %s a set/get on the tree fails", x.step, k.fn);
        MemOut out; ErrLog lg;
        rc = vnaproperty_export_yaml_to_file(P.root, out.fp, "probe.yaml", errlog_fn, &lg);
        if (rc != 0) c.fail("C11.unusable_after_failure", "step %d: after the failed %s the tree cannot be exported: %s", x.step, k.fn, ascii(lg.text()).c_str());
        vnaproperty_delete(&P.root, "probe_after_failure");
        c.label("usable-probe:property-tree");
    }

    // The vnacal_new_t is opaque: replay the history of its successful calls on a fresh clone and compare the
    // behaviour of the two (solve -> add_calibration -> apply_m of a fixed probe).  The refused / failed calls
    // the original has seen in between must not have changed anything.
    void compare_clone(Exec &x, int ki, int ni) {
        CalObj &K = *x.cals[ki]; NewObj &N = *K.news[ni];
        if (N.refused == 0 && !N.failed_solve) return;
        if (N.F == 0) return;
        n_clone++; x.did_compare = true;
        c.label("clone-history-compared");
        ErrLog clog;
        struct Guard { vnacal_t *v = nullptr; vnadata_t *d1 = nullptr, *d2 = nullptr; ~Guard() { if (v) vnacal_free(v); if (d1) vnadata_free(d1); if (d2) vnadata_free(d2); } } g;
        g.v = vnacal_create(errlog_fn, &clog);
        if (!g.v) c.fail("C11.harness", "vnacal_create for the clone failed");
        std::map<int, int> made;
        std::function<int(int)> mapf = [&](int pidx) -> int {
            auto it = made.find(pidx); if (it != made.end()) return it->second;
            const ParamRec &q = K.params[pidx];
            int h = -1;
            if (q.predefined) h = q.h;
            else switch (q.kind) {
                case ParamRec::SCALAR: h = vnacal_make_scalar_parameter(g.v, q.value); break;
                case ParamRec::VECTOR: h = vnacal_make_vector_parameter(g.v, q.fv.data(), (int)q.fv.size(), q.gv.data()); break;
                case ParamRec::UNKNOWN: h = vnacal_make_unknown_parameter(g.v, mapf(q.other)); break;
                default: h = vnacal_make_correlated_parameter(g.v, mapf(q.other), q.sfv_null ? nullptr : q.sfv.data(), (int)q.sv.size(), q.sv.data()); break;
            }
            if (h < 0) c.fail("C11.clone_diverged", "re-creating parameter %d (kind %d) for the clone failed: %s", q.h, (int)q.kind, ascii(clog.text()).c_str());
            made[pidx] = h;
            return h;
        };
        vnacal_new_t *cn = vnacal_new_alloc(g.v, cs::LIBTYPE[N.ty], N.r, N.c, N.F);
        if (!cn) c.fail("C11.clone_diverged", "vnacal_new_alloc for the clone failed: %s", ascii(clog.text()).c_str());
        for (size_t i = 0; i < N.hist.size(); i++) {
            clog.clear();
            int rc = N.hist[i](cn, mapf);
            if (rc != 0) c.fail("C11.clone_diverged", "call %zu of the history (%s) succeeded on the original but fails on a clone that never saw the refused calls: %s", i, N.hist_desc[i].c_str(), ascii(clog.text()).c_str());
        }
        clog.clear(); K.log->clear();
        errno = 0; int r1 = vnacal_new_solve(N.p); int e1 = errno;
        errno = 0; int r2 = vnacal_new_solve(cn); int e2 = errno;
        std::string l1 = K.log->text(), l2 = clog.text();
        K.log->clear(); clog.clear();
        if (r1 != r2 || (r1 != 0 && e1 != e2))
            c.fail("C11.history_dependent_solve", "k%d.n%d saw %d refused call(s)%s; its solve returns %d (errno %d: %s) while a clone with the same successful history returns %d (errno %d: %s)", ki, ni, N.refused, N.failed_solve ? " and a failed solve" : "", r1, e1, ascii(l1).c_str(), r2, e2, ascii(l2).c_str());
        if (r1 != 0) { c.label("clone:both-solves-fail"); return; }
        c.label("clone:both-solves-succeed");
        x.mark_solved(K, N);          // this solve wrote the unknown parameters of the original back too
        // solved unknown parameters agree
        for (int pidx : N.registered) {
            const ParamRec &q = K.params[pidx];
            if (q.kind < ParamRec::UNKNOWN || q.deleted || !made.count(pidx)) continue;
            double f = N.cur_freq.empty() ? N.sc.freq[0] : N.cur_freq[0];
            dcx v1 = vnacal_get_parameter_value(K.p, q.h, f), v2 = vnacal_get_parameter_value(g.v, made[pidx], f);
            if (!same_bits(v1, v2)) c.fail("C11.history_dependent_solve", "k%d.n%d: solved value of unknown parameter %d is %g%+gi on the original and %g%+gi on the clone", ki, ni, q.h, re_(v1), im_(v1), re_(v2), im_(v2));
        }
        K.log->clear(); clog.clear();
        int c1 = vnacal_add_calibration(K.p, "__probe", N.p), c2 = vnacal_add_calibration(g.v, "__probe", cn);
        if ((c1 < 0) != (c2 < 0)) c.fail("C11.history_dependent_solve", "k%d.n%d: add_calibration after the solve returns %d on the original, %d on the clone: %s %s", ki, ni, c1, c2, ascii(K.log->text()).c_str(), ascii(clog.text()).c_str());
        N.has_cal = false;
        if (c1 < 0) return;
        c1 = vnacal_find_calibration(K.p, "__probe"); c2 = vnacal_find_calibration(g.v, "__probe");
        int P = std::max(N.r, N.c);
        if (c1 >= 0 && c2 >= 0) {      // the two calibrations carry the same frequencies (refused set_frequency_vector calls changed nothing)
            int F1 = vnacal_get_frequencies(K.p, c1), F2 = vnacal_get_frequencies(g.v, c2);
            const double *v1 = vnacal_get_frequency_vector(K.p, c1), *v2 = vnacal_get_frequency_vector(g.v, c2);
            bool same = F1 == F2 && v1 && v2;
            for (int f = 0; same && f < F1; f++) if (!same_bits(v1[f], v2[f])) same = false;
            if (same && F1 > 0) same = same_bits(vnacal_get_fmin(K.p, c1), vnacal_get_fmin(g.v, c2)) && same_bits(vnacal_get_fmax(K.p, c1), vnacal_get_fmax(g.v, c2));
            if (!same) c.fail("C11.history_dependent_solve", "k%d.n%d saw %d refused call(s); the calibration it solves has %d frequencies %g..%g, the calibration of a clone with the same successful history %d frequencies %g..%g", ki, ni, N.refused, F1, F1 > 0 && v1 ? v1[0] : 0.0, F1 > 0 && v1 ? v1[F1 - 1] : 0.0, F2, F2 > 0 && v2 ? v2[0] : 0.0, F2 > 0 && v2 ? v2[F2 - 1] : 0.0);
            c.label("clone:frequencies-compared");
        }
        const std::vector<double> &af = N.cur_freq.empty() ? N.sc.freq : N.cur_freq;
        if (c1 >= 0 && c2 >= 0 && (N.r == N.c || P == 2)) {
            PMat M(P, P, N.F);
            for (int i = 0; i < P; i++) for (int j = 0; j < P; j++) for (int f = 0; f < N.F; f++)
                M.cells[(size_t)i * P + j][f] = mkc(i == j ? 0.4 - 0.07 * i + 0.01 * f : 0.15 + 0.03 * i - 0.02 * j, 0.1 * (i - j) + 0.02 * f + 0.05);
            g.d1 = vnadata_alloc(errlog_fn, &clog); g.d2 = vnadata_alloc(errlog_fn, &clog);
            errno = 0; int a1 = vnacal_apply_m(K.p, c1, af.data(), N.F, M.p(), P, P, g.d1); int ae1 = errno;
            errno = 0; int a2 = vnacal_apply_m(g.v, c2, af.data(), N.F, M.p(), P, P, g.d2); int ae2 = errno;
            if (a1 != a2 || (a1 != 0 && ae1 != ae2)) c.fail("C11.history_dependent_solve", "k%d.n%d: apply_m of the probe returns %d (errno %d) with the original's calibration, %d (errno %d) with the clone's", ki, ni, a1, ae1, a2, ae2);
            if (a1 == 0) {
                std::string d1 = digest_data(g.d1, false), d2 = digest_data(g.d2, false);
                if (d1 != d2) c.fail("C11.history_dependent_solve", "k%d.n%d saw %d refused call(s)%s; the calibration it solves corrects the probe differently from the calibration of a clone with the same successful history: %s", ki, ni, N.refused, N.failed_solve ? " and a failed solve" : "", first_difference(d1, d2).c_str());
                c.label("clone:apply-compared");
            }
        }
        if (c1 >= 0) vnacal_delete_calibration(K.p, c1);
        K.log->clear();
    }
};

} // namespace

void pbt_property(Ctx &c) {
    Obs o(c);
    {
        Exec x(c, &o);
        size_t maxops = 200, mean = (size_t)(3 + c.size / 3);
        x.run(maxops, mean);
        x.finish();
        // non-trivial: a refused call whose digest was compared, a clone history compared, or a failed-then-retried solve
        if (o.n_compared > 0 || o.n_clone > 0 || x.did_retry) c.nontrivial();
        if (o.n_compared > 0) c.label("refused-call-digest-compared");
        if (x.did_retry) c.label("failed-solve-retried");
        if (x.excl_zero_freq) c.label("excluded_known:zero-frequency-calibration");
        c.track_max("digests compared per case", (double)o.n_compared);
        c.track_max("failing calls per case", (double)o.n_fail);
        c.track_max("calls per case", (double)x.ncalls);
    }
}
