// C19 -- linear systems are solved to backward-stable accuracy; singular ones stand out.
#include "pbt.hpp"
#include "calscen.hpp"
#include "calverify.hpp"

const char *PBT_PROPERTY = "C19";
using namespace pbt;
using namespace cs;

static const long double EPS = 1.1102230246251565e-16L;

namespace {

long double rowsum_norm(const Mat &A) { long double m = 0; for (int i = 0; i < A.r; i++) { long double s = 0; for (int j = 0; j < A.c; j++) s += std::abs(A(i, j)); m = std::max(m, s); } return m; }
// infinity-norm condition number of the row-equilibrated matrix (invariant under row scaling)
long double cond_equil(const Mat &A) {
    Mat E = A;
    for (int i = 0; i < A.r; i++) { long double s = 0; for (int j = 0; j < A.c; j++) s = std::max(s, std::abs(A(i, j))); if (s > 0) for (int j = 0; j < A.c; j++) E(i, j) /= s; }
    Mat Ei; if (!vm::inverse(E, Ei)) return INFINITY;
    return rowsum_norm(E) * rowsum_norm(Ei);
}
long double exp2i(int k) { return ldexpl(1.0L, k); }

// ---- (a) n-port conversions as matrix inverses ----------------------------------------------------
void conversions(Ctx &c) {
    int n = 1 + (int)c.draw(8);
    bool singular = c.chance(1, 6) && n >= 2;
    Mat Q(n, n);
    for (auto &x : Q.a) x = C(c.real(-1, 1), c.real(-1, 1));
    for (int i = 0; i < n; i++) Q(i, i) += C(n * (c.boolean() ? 1.0L : -1.0L), 0);      // well conditioned
    if (c.chance(1, 3)) for (int i = 0; i < n; i++) for (int j = 0; j < n; j++) Q(i, j) *= exp2i((int)c.range(-15, 15) * (j % 2));   // graded within rows (column pattern)
    std::vector<int> rs(n, 0), perm(n);
    bool scaled = c.chance(2, 3);
    for (int i = 0; i < n; i++) { rs[i] = scaled ? (int)c.range(-26, 26) : 0; perm[i] = i; }
    bool permuted = c.boolean();
    if (permuted) for (int i = n; i > 1; i--) std::swap(perm[i - 1], perm[c.draw(i)]);
    if (singular) {
        int how = (int)c.draw(4), i = (int)c.draw(n), j = (i + 1 + (int)c.draw(n - 1)) % n;
        switch (how) {       // exact in floating point
        case 0: for (int k = 0; k < n; k++) Q(i, k) = Q(j, k); break;                    // duplicate row
        case 1: for (int k = 0; k < n; k++) Q(i, k) = Q(j, k) * 2.0L; break;             // row = 2 x another
        case 2: for (int k = 0; k < n; k++) Q(i, k) = 0; break;                          // zero row
        default: for (int k = 0; k < n; k++) Q(k, i) = 0; break;                         // zero column
        }
    }
    // A = P D Q rounded to double
    Mat A(n, n);
    for (int i = 0; i < n; i++) for (int j = 0; j < n; j++) { C v = Q(perm[i], j) * exp2i(rs[perm[i]]); A(i, j) = C((double)v.real(), (double)v.imag()); }
    std::vector<dcx> in(n * n), out(n * n, mkc(0, 0)), outq(n * n, mkc(0, 0));
    for (int i = 0; i < n * n; i++) in[i] = mkc((double)A.a[i].real(), (double)A.a[i].imag());
    bool zy = c.boolean();
    c.note("%s n=%d %s%s%s", zy ? "ztoyn" : "ytozn", n, singular ? "exactly-singular " : "", scaled ? "row-scaled " : "", permuted ? "row-permuted" : "");
    c.label("a:conversion"); if (singular) c.label("exactly-singular");
    if (zy) vnaconv_ztoyn(in.data(), out.data(), n); else vnaconv_ytozn(in.data(), out.data(), n);
    long double inscale = 0; for (auto &x : A.a) inscale = std::max(inscale, std::abs(x));
    if (singular) {
        // "comes back as non-finite or astronomically large output, never as plausible numbers"
        bool all_wild = true; long double smallest = INFINITY;
        for (int i = 0; i < n * n; i++) { long double m = std::hypot((long double)re_(out[i]), (long double)im_(out[i])); if (std::isfinite((double)m) && m * inscale < 1e12L) { all_wild = false; smallest = std::min(smallest, m); } }
        // a singular matrix has no inverse: at least the result must not be entirely plausible; demand that
        // some entry is non-finite or astronomically large
        bool any_wild = false; for (int i = 0; i < n * n; i++) { long double m = std::hypot((long double)re_(out[i]), (long double)im_(out[i])); if (!std::isfinite((double)m) || m * inscale >= 1e12L) any_wild = true; }
        (void)all_wild; (void)smallest;
        PBT_CHECK(c, any_wild, "C19.singular_plausible", "exactly singular %dx%d matrix inverted to plausible finite numbers (largest |out|*|in| below 1e12)", n, n);
        c.nontrivial(); return;
    }
    long double kap = cond_equil(A);
    if (!(kap < 1e8L)) { c.label("filtered:ill-conditioned"); return; }
    Mat X(n, n); for (int i = 0; i < n * n; i++) X.a[i] = C(re_(out[i]), im_(out[i]));
    Mat Xref; PBT_CHECK(c, vm::inverse(A, Xref), "C19.reference", "reference inverse failed");
    // forward error, column-wise relative (column j of the inverse scales with 1/row-scale j)
    long double worst = 0;
    for (int j = 0; j < n; j++) { long double cn = 0, en = 0; for (int i = 0; i < n; i++) { cn = std::max(cn, std::abs(Xref(i, j))); en = std::max(en, std::abs(X(i, j) - Xref(i, j))); } worst = std::max(worst, en / cn); }
    c.track_max("inverse: fwd err / (n eps kappa_equil)", (double)(worst / (n * EPS * kap)));
    PBT_CHECK(c, worst <= 300 * n * EPS * kap, "C19.inverse_inaccurate", "%s of a %dx%d matrix: column-relative forward error %.3Lg exceeds 300*n*eps*kappa(row-equilibrated)=%.3Lg (kappa %.3Lg, row scales 2^[%d..%d])",
              zy ? "ztoyn" : "ytozn", n, n, worst, 300 * n * EPS * kap, kap, *std::min_element(rs.begin(), rs.end()), *std::max_element(rs.begin(), rs.end()));
    // row-wise backward error of A X = I
    Mat Rm = vm::add(Mat::eye(n), vm::mul(A, X), -1);
    long double xn = rowsum_norm(X), wb = 0;
    for (int i = 0; i < n; i++) { long double rn = 0, an = 0; for (int j = 0; j < n; j++) { rn += std::abs(Rm(i, j)); an += std::abs(A(i, j)); } wb = std::max(wb, rn / (an * xn + 1)); }
    c.track_max("inverse: row-wise backward err / (n eps)", (double)(wb / (n * EPS)));
    PBT_CHECK(c, wb <= 1e3L * n * EPS * std::max(1.0L, kap / 10), "C19.inverse_backward", "row-wise backward error %.3Lg of A*inv(A)=I too large (n %d, kappa %.3Lg)", wb, n, kap);
    long double raw = rowsum_norm(A); { Mat Ai; if (vm::inverse(A, Ai)) raw *= rowsum_norm(Ai); }
    if (raw / kap >= 1e6L) { c.nontrivial(); c.label("row-scaling-matters"); }
    (void)outq;
}

// ---- (a2) conversions that DIVIDE by a matrix: residual of the defining system ---------------------------------
// vnaconv_ztosn with one real reference r on every port computes S = (Z - rI)(Z + rI)^-1, i.e. solves S W = B with
// W = Z + rI, B = Z - rI.  W is built with a prescribed condition number (1 .. 1e10): W = Q1 diag(sigma) Q2 with well
// conditioned Q1, Q2.  Whatever the conditioning, a backward-stable solve returns an S whose residual S W - B is of
// the order eps (|S||W| + |B|); forming the inverse explicitly and multiplying would leave eps * cond(W).
void division_residual(Ctx &c) {
    int n = 2 + (int)c.draw(7);
    auto wellq = [&]() { Mat Q(n, n); for (auto &x : Q.a) x = C(c.real(-1, 1), c.real(-1, 1)); for (int i = 0; i < n; i++) Q(i, i) += C(n * (c.boolean() ? 1.0L : -1.0L), 0); return Q; };
    Mat Q1 = wellq(), Q2 = wellq();
    int decades = (int)c.range(0, 10);
    // graded UPWARDS: the smallest singular value stays of the order of z0, so S = I - 2 z0 W^-1 stays bounded (a passive-looking
    // network with some huge impedances) while cond(W) grows -- the case in which an explicit inverse shows in the residual
    Mat D(n, n); for (int i = 0; i < n; i++) D(i, i) = C(std::pow(10.0L, (long double)decades * i / (n - 1)), 0);
    Mat Wl = vm::mul(vm::mul(Q1, D), Q2);
    // "cancelling leading block", a quarter of the cases with n >= 3: a well-conditioned matrix whose leading 2x2 block is
    // singular (exactly, or to 1e-12 .. 1e-6) while the diagonal element of its second row is the largest of that row --
    // after the first elimination step the natural pivot of the second column is (nearly) zero and only a pivot search
    // over the REDUCED column finds a usable one
    bool block = n >= 3 && c.chance(1, 4);
    if (block) {
        for (int i = 0; i < n; i++) for (int j = 0; j < n; j++) Wl(i, j) = C(c.real(-0.3, 0.3), c.real(-0.3, 0.3)) + (i == j && i >= 2 ? C(c.boolean() ? 2.0L : -2.0L, 0) : C(0, 0));
        C a = polar(0.5L + 0.5L * c.unit(), 2 * M_PIl * c.unit()), b = polar(1.0L + c.unit(), 2 * M_PIl * c.unit());
        static const long double dl[5] = {0, 0, 1e-12L, 1e-9L, 1e-6L};
        long double delta = dl[c.draw(5)];
        C t; switch (c.draw(5)) { case 0: t = C(1, 0); break; case 1: t = C(-1, 0); break; case 2: t = C(2, 0); break; case 3: t = C(0, 1); break; default: t = polar(1.0L + c.unit(), 2 * M_PIl * c.unit()); }
        Wl(0, 0) = a; Wl(0, 1) = b; Wl(1, 0) = t * a; Wl(1, 1) = t * b * (1 + delta);
        decades = 0;
    }
    long double r = 50;
    std::vector<dcx> z(n * n), sv(n * n, mkc(0, 0)), z0(n, mkc(50, 0));
    for (int i = 0; i < n; i++) for (int j = 0; j < n; j++) { C v = Wl(i, j) * 30.0L - (i == j ? C(r, 0) : C(0, 0)); z[i * n + j] = mkc((double)v.real(), (double)v.imag()); }
    // W and B exactly as the doubles define them
    Mat W(n, n), B(n, n);
    for (int i = 0; i < n; i++) for (int j = 0; j < n; j++) { C v(re_(z[i * n + j]), im_(z[i * n + j])); W(i, j) = v + (i == j ? C(r, 0) : C(0, 0)); B(i, j) = v - (i == j ? C(r, 0) : C(0, 0)); }
    long double kap = vm::cond2(W);
    if (block) { if (!(kap <= 1e4L)) { c.label("a2:cancelling-leading-block:filtered(ill-conditioned)"); return; } c.label("a2:cancelling-leading-block"); }
    c.label("a2:division-residual"); { char l[40]; snprintf(l, sizeof l, "a2:cond=1e%d", (int)std::floor(std::log10((double)kap) + 0.5)); c.label(l); }
    c.note("vnaconv_ztosn n=%d, uniform z0 = 50, cond(Z + z0 I) = %.3Lg", n, kap);
    vnaconv_ztosn(z.data(), sv.data(), z0.data(), n);
    Mat S(n, n); bool finite = true; for (int i = 0; i < n * n; i++) { S.a[i] = C(re_(sv[i]), im_(sv[i])); if (!std::isfinite(re_(sv[i])) || !std::isfinite(im_(sv[i]))) finite = false; }
    PBT_CHECK(c, finite, "C19.division_not_finite", "vnaconv_ztosn returned a non-finite S for a non-singular Z + z0 I (cond %.3Lg)", kap);
    Mat R = vm::add(vm::mul(S, W), B, -1);
    long double rn = rowsum_norm(R), scale = rowsum_norm(S) * rowsum_norm(W) + rowsum_norm(B);
    c.track_max("division: residual / (n eps scale)", (double)(rn / (n * EPS * scale)));
    PBT_CHECK(c, rn <= 1e3L * n * EPS * scale, "C19.division_residual", "vnaconv_ztosn, n=%d, cond(Z + z0 I) = %.3Lg: |S (Z + z0 I) - (Z - z0 I)| = %.3Lg, i.e. %.3Lg n eps (|S||Z + z0 I| + |Z - z0 I|); a backward-stable solve leaves O(1)", n, kap, rn, rn / (n * EPS * scale));
    if (kap > 1e6L || block) c.nontrivial();
}

// ---- (b) apply with badly scaled / singular 'a' matrices -------------------------------------------
void apply_ab(Ctx &c) {
    Scenario sc;
    static const int types[4] = {vm::T8, vm::TE10, vm::U8, vm::UE10};
    sc.type = types[c.draw(4)]; sc.r = sc.c = sc.P = 2 + (int)c.draw(2); sc.F = 1; sc.ab = true;
    sc.freq = {1e9}; sc.box.push_back(gen_box(c, sc.type, sc.r, sc.c));
    Gen g(c, sc); g.baseline(); g.cover_leakage();
    for (auto &st : sc.stds) st.abbrev_rows = st.abbrev_cols = false;
    vm::Ident id = ident_at(sc, 0);
    if (!id.determining) { c.label("filtered:not-determining"); return; }
    sc.dut = gen_dut(c, sc.P, 1);
    Runner run(c, sc); run.create(); run.alloc();
    for (auto &st : sc.stds) PBT_CHECK(c, run.add(st) == 0, "C19.add_refused", "add refused: %s", run.log.text().c_str());
    PBT_CHECK(c, vnacal_new_solve(run.vnp) == 0, "C19.solve_failed", "solve failed: %s", run.log.text().c_str());
    int ci = vnacal_add_calibration(run.vcp, "c", run.vnp); ci = vnacal_find_calibration(run.vcp, "c");
    int P = sc.P; Mat M; sc.box[0].measure(sc.dut[0], M);
    bool singular = c.chance(1, 4);
    Mat A(P, P); for (int i = 0; i < P; i++) for (int j = 0; j < P; j++) A(i, j) = i == j ? polar(0.5L + c.unit(), 2 * M_PIl * c.unit()) : rnd_disk(c, 0, 0.3L);
    std::vector<int> cs(P); for (auto &k : cs) k = (int)c.range(-26, 26);
    for (int i = 0; i < P; i++) for (int j = 0; j < P; j++) A(i, j) *= exp2i(cs[j]);      // scale column j of a (and thus of b)
    // exact zero pivot for certain: a zero column (a driving port that emitted nothing) or a zero row
    if (singular) { int i = (int)c.draw(P); if (c.boolean()) for (int k = 0; k < P; k++) A(k, i) = 0; else for (int k = 0; k < P; k++) A(i, k) = 0; }
    Mat B = vm::mul(M, A);
    MatVec a, b; a.init(P, P, 1); b.init(P, P, 1);
    for (int i = 0; i < P; i++) for (int j = 0; j < P; j++) { a.set(i, j, 0, A(i, j)); b.set(i, j, 0, B(i, j)); }
    if (singular) {   // make the singularity exact in double: copy the stored columns
        for (int i = 0; i < P; i++) for (int j = 0; j < P; j++) { /* already exact: duplicated / zero column copied bitwise by set() */ }
    }
    vnadata_t *vd = vnadata_alloc(errlog_fn, &run.log);
    run.log.clear(); errno = 0;
    int rc = vnacal_apply(run.vcp, ci, sc.freq.data(), 1, a.p(), P, P, b.p(), P, P, vd); int err = errno;
    c.label("b:apply-a/b"); c.note("apply %s %dx%d with column scales 2^k, %s", vm::tname(sc.type), P, P, singular ? "exactly singular a" : "regular a");
    if (singular) {
        c.label("exactly-singular");
        PBT_CHECK(c, rc == -1 && err == EDOM && run.log.n_nonwarning() >= 1 && run.log.last()->category == VNAERR_MATH, "C19.singular_a_accepted", "apply with an exactly singular 'a' matrix: rc %d errno %d (%s)", rc, err, run.log.text().c_str());
    } else {
        PBT_CHECK(c, rc == 0, "C19.apply_failed", "apply failed: %s", run.log.text().c_str());
        long double worst = 0; for (int i = 0; i < P; i++) for (int j = 0; j < P; j++) { dcx z = vnadata_get_cell(vd, 0, i, j); worst = std::max(worst, std::abs(C(re_(z), im_(z)) - sc.dut[0](i, j))); }
        long double kap = id.kappa * 10 * 10;
        c.track_max("apply a/b scaled: err/(eps*kappa)", (double)(worst / (EPS * kap)));
        PBT_CHECK(c, worst <= 1e4L * EPS * kap, "C19.apply_scaled_a", "apply with column-scaled a/b (2^%d..2^%d): corrected device off by %.3Lg (bound %.3Lg)", *std::min_element(cs.begin(), cs.end()), *std::max_element(cs.begin(), cs.end()), worst, 1e4L * EPS * kap);
    }
    vnadata_free(vd);
    c.nontrivial();
}

// ---- (c) exactly determined solves with an exact zero pivot ------------------------------------------
void zero_pivot(Ctx &c) {
    Scenario sc;
    int which = (int)c.draw(3);
    sc.type = c.boolean() ? vm::T8 : vm::U8; sc.F = 1; sc.ab = false; sc.freq = {1e9};
    if (which == 0) { sc.r = sc.c = sc.P = 1; } else { sc.r = sc.c = sc.P = 2; }
    sc.box.push_back(gen_box(c, sc.type, sc.r, sc.c));
    Gen g(c, sc);
    Standard r1 = g.single(0, C(-0.9L, 0.1L), true), r2 = g.single(0, C(0.8L, 0.3L), true), r3 = g.single(0, C(0.05L, -0.1L), true);
    r1.entry = r2.entry = r3.entry = Standard::SINGLE;
    bool good = c.chance(1, 3);
    if (which == 0) sc.stds = good ? std::vector<Standard>{r1, r2, r3} : std::vector<Standard>{r1, r2, r1};                   // duplicate standard: 3 equations, rank 2
    else if (which == 1) { Standard t = g.through(0, 1, true); sc.stds = good ? std::vector<Standard>{r1, r2, r3, t} : std::vector<Standard>{r1, r2, r2, t}; }
    else { good = false; Standard x1 = g.single(0, C(0.3L, 0.6L), true), x2 = g.single(0, C(-0.2L, -0.7L), true), x3 = g.single(0, C(0.6L, -0.5L), true), x4 = g.single(0, C(-0.5L, 0.5L), true); x1.entry = x2.entry = x3.entry = x4.entry = Standard::SINGLE; sc.stds = {r1, r2, r3, x1, x2, x3, x4}; }   // port 2 never measured: 7 equations, zero columns
    g.shuffle();
    sc.dut = gen_dut(c, sc.P, 1);
    Runner run(c, sc); run.create(); run.alloc();
    for (auto &st : sc.stds) PBT_CHECK(c, run.add(st) == 0, "C19.add_refused", "add refused: %s", run.log.text().c_str());
    run.log.clear(); errno = 0;
    int rc = vnacal_new_solve(run.vnp); int err = errno;
    c.label("c:zero-pivot"); c.note("%s %dx%d scenario %d %s: solve rc %d", vm::tname(sc.type), sc.r, sc.c, which, good ? "regular" : "exactly singular", rc);
    if (good) PBT_CHECK(c, rc == 0, "C19.exact_system_refused", "exactly determined regular system refused: %s", run.log.text().c_str());
    else if (which != 2) {
        // duplicated equations: in complex arithmetic the elimination multiplier x/x is 1 only up to rounding,
        // so the pivot need not be EXACTLY zero; the property is conditional on an exactly zero pivot.
        // Tracked, not asserted (see DESIGN section 8).
        c.label(rc == 0 ? "duplicate-standard:accepted(not asserted)" : "duplicate-standard:rejected");
        if (rc != 0) PBT_CHECK(c, err == EDOM, "C19.failure_errno", "failure with errno %d", err);
    } else { c.label("exactly-singular"); PBT_CHECK(c, rc == -1 && err == EDOM && run.log.n_nonwarning() >= 1 && run.log.last()->category == VNAERR_MATH, "C19.zero_pivot_accepted", "system with %s: rc %d errno %d (%s)", which == 2 ? "a port never measured" : "a duplicated standard in place of a needed one", rc, err, run.log.text().c_str()); }
    c.nontrivial();
}

// ---- (d) least squares: over-determined noisy T16, library result vs reference minimiser -----------
void least_squares(Ctx &c) {
    Scenario sc; sc.type = vm::T16; sc.r = sc.c = sc.P = 1 + (int)c.draw(2); sc.F = 1; sc.ab = false; sc.freq = {1e9};
    int P = sc.P;
    sc.box.push_back(gen_box(c, sc.type, P, P));
    Gen g(c, sc);
    std::vector<int> inorder; for (int p = 0; p < P; p++) inorder.push_back(p);
    int nstd = (P == 1 ? 3 : 5) + 2 + (int)c.draw(3);
    for (int i = 0; i < nstd; i++) sc.stds.push_back(g.full_random(inorder, true));
    vm::Ident id = ident_at(sc, 0); if (!id.determining || id.kappa > 1e3L) { c.label("filtered:conditioning"); return; }
    for (auto &st : sc.stds) { Mat N(P, P); for (auto &x : N.a) x = C(1e-3L * (2 * c.unit() - 1), 1e-3L * (2 * c.unit() - 1)); st.add_noise = {N}; }
    sc.dut = gen_dut(c, P, 1);
    Runner run(c, sc); run.create(); run.alloc();
    for (auto &st : sc.stds) PBT_CHECK(c, run.add(st) == 0, "C19.add_refused", "add refused: %s", run.log.text().c_str());
    PBT_CHECK(c, vnacal_new_solve(run.vnp) == 0, "C19.solve_failed", "over-determined solve failed: %s", run.log.text().c_str());
    int ci = vnacal_add_calibration(run.vcp, "c", run.vnp); ci = vnacal_find_calibration(run.vcp, "c");
    std::vector<Mat> out; PBT_CHECK(c, run.apply(ci, sc.dut, out) == 0, "C19.apply_failed", "apply failed");
    // reference: minimise sum || Ts S + Ti - M Tx S - M Tm ||_F^2 over the T terms with Tm(0,0) = 1
    // unknown ordering: Ts (P*P), Ti (P*P), Tx (P*P), Tm (P*P) minus Tm00
    int nu = 4 * P * P - 1, ne = nstd * P * P;
    Mat Am(ne, nu), bv(ne, 1);
    auto col = [&](int blk, int i, int j) { int k = blk * P * P + i * P + j; if (blk == 3) { if (i == 0 && j == 0) return -1; k--; } return k; };
    int row = 0;
    for (auto &st : sc.stds) {
        Mat M; sc.box[0].measure(st.Sfull[0], M); for (int i = 0; i < P; i++) for (int j = 0; j < P; j++) M(i, j) += st.add_noise[0](i, j);
        const Mat &S = st.Sfull[0];
        for (int i = 0; i < P; i++) for (int j = 0; j < P; j++, row++) {
            // (Ts S)ij = sum_k Ts_ik S_kj ; Ti_ij ; -(M Tx S)ij = -sum_{k,l} M_ik Tx_kl S_lj ; -(M Tm)ij = -sum_k M_ik Tm_kj
            for (int k = 0; k < P; k++) Am(row, col(0, i, k)) += S(k, j);
            Am(row, col(1, i, j)) += 1;
            for (int k = 0; k < P; k++) for (int l = 0; l < P; l++) Am(row, col(2, k, l)) -= M(i, k) * S(l, j);
            for (int k = 0; k < P; k++) { int cc = col(3, k, j); if (cc >= 0) Am(row, cc) -= M(i, k); else bv(row, 0) += M(i, k); }
        }
    }
    // normal equations in long double (kappa^2 * 1e-19 is ample here)
    Mat AH(nu, ne); for (int i = 0; i < ne; i++) for (int j = 0; j < nu; j++) AH(j, i) = std::conj(Am(i, j));
    Mat x; PBT_CHECK(c, vm::solve(vm::mul(AH, Am), vm::mul(AH, bv), x), "C19.reference", "reference least squares failed");
    Mat Ts(P, P), Ti(P, P), Tx(P, P), Tm(P, P);
    for (int i = 0; i < P; i++) for (int j = 0; j < P; j++) { Ts(i, j) = x(col(0, i, j), 0); Ti(i, j) = x(col(1, i, j), 0); Tx(i, j) = x(col(2, i, j), 0); Tm(i, j) = col(3, i, j) < 0 ? C(1, 0) : x(col(3, i, j), 0); }
    Mat Md; sc.box[0].measure(sc.dut[0], Md);
    Mat lhs = vm::add(Ts, vm::mul(Md, Tx), -1), rhs = vm::add(vm::mul(Md, Tm), Ti, -1), Sref;
    PBT_CHECK(c, vm::solve(lhs, rhs, Sref), "C19.reference", "reference apply failed");
    long double worst = 0; for (int i = 0; i < P; i++) for (int j = 0; j < P; j++) worst = std::max(worst, std::abs(Sref(i, j) - out[0](i, j)));
    c.label("d:least-squares"); c.note("T16 %dx%d, %d noisy full standards: |library - reference minimiser| = %.3Lg", P, P, nstd, worst);
    c.track_max("least squares: |lib - ref| / 1e-9", (double)(worst / 1e-9L));
    PBT_CHECK(c, worst <= 1e-7L, "C19.not_minimiser", "over-determined T16 %dx%d with %d noisy standards: the library's calibration corrects a device %.3Lg away from the least-squares minimiser of the documented equations", P, P, nstd, worst);
    c.nontrivial();
}

// ---- (e) badly row-scaled over-determined solve ("independent of row order and row scaling") ------------------
// A determining, well-conditioned set of known standards plus ONE redundant, consistent standard whose S-parameters
// are larger by s = 1e2 .. 1e8, at any position: its equations are rows of the least-squares system heavier by s.
// "The returned result satisfies the underlying linear system with a residual proportional to machine precision
// times the problem's scale": the saved error terms (read back with the independent reader) are put into the
// documented T / U equations of every standard; the largest residual over the largest coefficient scale (terms x
// max(1, |S|, |M|, |M||S|) over all standards) must be <= CBWD * eps.  This normwise backward error is what an
// orthogonal factorisation guarantees whatever the row order and scaling (largest value observed on the unchanged
// tree: 5 eps; CBWD = 1e3).  The forward error of the corrected device is tracked only.
static const long double CBWD = 1e3;
void scaled_solve(Ctx &c) {
    static const int types[4] = {vm::T8, vm::U8, vm::T16, vm::U16};
    Scenario sc; sc.type = types[c.draw(4)]; sc.r = sc.c = sc.P = 1 + (int)c.draw(2); sc.F = 1; sc.ab = false; sc.freq = {1e9};
    int P = sc.P;
    sc.box.push_back(gen_box(c, sc.type, P, P));
    Gen g(c, sc);
    std::vector<int> inorder; for (int p = 0; p < P; p++) inorder.push_back(p);
    int nstd = (P == 1 ? 3 : 5) + (int)c.draw(3);
    for (int i = 0; i < nstd; i++) sc.stds.push_back(g.full_random(inorder, true));
    vm::Ident id = ident_at(sc, 0); if (!id.determining || id.kappa > 1e3L) { c.label("filtered:conditioning"); return; }
    long double kappa0 = id.kappa;
    int e = (int)c.range(2, 8); long double sf = std::pow(10.0L, (long double)e);
    Standard H = g.full_random(inorder, true);
    for (auto &cell : H.cells) { if (cell.kind <= SCell::SHORT) { cell.kind = SCell::SCALAR; } for (auto &v : cell.v) v = (v == C(0, 0) ? C(0.3L, 0.2L) : v) * sf; cell.handle = -1; }
    g.finish(H);
    size_t pos = c.draw(sc.stds.size() + 1);
    sc.stds.insert(sc.stds.begin() + pos, H);
    sc.dut = gen_dut(c, P, 1);
    c.label("e:row-scaled-solve"); { char l[32]; snprintf(l, sizeof l, "e:scale=1e%d", e); c.label(l); } c.label(pos == 0 ? "e:heavy-first" : pos + 1 == sc.stds.size() ? "e:heavy-last" : "e:heavy-middle");
    c.note("%s %dx%d, %d standards + one with S larger by 1e%d at position %zu, kappa (without it) %.3Lg", vm::tname(sc.type), P, P, nstd, e, pos, kappa0);
    Runner run(c, sc); run.create(); run.alloc();
    for (auto &st : sc.stds) PBT_CHECK(c, run.add(st) == 0, "C19.add_refused", "add refused: %s", run.log.text().c_str());
    PBT_CHECK(c, vnacal_new_solve(run.vnp) == 0, "C19.solve_failed", "over-determined solve with a heavy consistent standard failed: %s", run.log.text().c_str());
    int ci = vnacal_add_calibration(run.vcp, "c", run.vnp); ci = vnacal_find_calibration(run.vcp, "c");
    PBT_CHECK(c, ci >= 0, "C19.add_calibration", "add_calibration failed: %s", run.log.text().c_str());
    calfile::File file; std::string err;
    PBT_CHECK(c, save_and_read(c, run.vcp, file, err), "C19.save_read", "saving / reading the calibration failed: %s", err.c_str());
    const calfile::Cal *cal = nullptr; for (auto &k : file.cals) if (k.name == "c") cal = &k;
    PBT_CHECK(c, cal != nullptr && !cal->data.empty(), "C19.save_read", "calibration 'c' not found in the saved file");
    std::string why; long double bwd = saved_terms_residual(sc, *cal, 0, why, true);
    PBT_CHECK(c, why.empty(), "C19.save_read", "saved terms unusable: %s", why.c_str());
    c.track_max(std::string("row-scaled solve: normwise backward error / eps, ") + (P == 1 ? "1x1" : "2x2") + (pos == 0 ? " heavy first" : " heavy later"), (double)(bwd / EPS));
    PBT_CHECK(c, bwd <= CBWD * EPS, "C19.row_scaling", "%s %dx%d: with one consistent standard heavier by 1e%d (position %zu of %zu) the solved error terms leave a residual of %.3Lg relative to the scale of the system in the documented equations (bound %.3Lg = %Lg eps)", vm::tname(sc.type), P, P, e, pos, sc.stds.size(), bwd, CBWD * EPS, CBWD);
    std::vector<Mat> out; PBT_CHECK(c, run.apply(ci, sc.dut, out) == 0, "C19.apply_failed", "apply failed");
    long double worst = 0; for (int i = 0; i < P; i++) for (int j = 0; j < P; j++) worst = std::max(worst, std::abs(sc.dut[0](i, j) - out[0](i, j)));
    c.track_max(std::string("row-scaled solve: device error / (eps * s * kappa), ") + (P == 1 ? "1x1" : "2x2") + (pos == 0 ? " heavy first" : " heavy later"), (double)(worst / (EPS * sf * kappa0)));
    c.track_max(std::string("row-scaled solve: device error / (eps * kappa), ") + (P == 1 ? "1x1" : "2x2") + (pos == 0 ? " heavy first" : " heavy later"), (double)(worst / (EPS * kappa0)));
    c.nontrivial();
}

} // namespace

void pbt_property(Ctx &c) {
    switch (c.weighted({40, 3, 3, 2, 3, 12})) {
    case 5: division_residual(c); break;
    case 0: conversions(c); break;
    case 1: apply_ab(c); break;
    case 2: zero_pivot(c); break;
    case 3: least_squares(c); break;
    default: scaled_solve(c); break;
    }
}
