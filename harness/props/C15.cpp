// C15 -- vnadata_t behaves like a typed F x rows x cols array with z0 modes.
// Oracle: abstract array model (ArrayModel) compared with every getter after every step.
#include "pbt.hpp"
#include "vna.hpp"
#include "arraymodel.hpp"

const char *PBT_PROPERTY = "C15";

using namespace pbt;

namespace {

struct H {
    Ctx &c;
    ErrLog log;
    vnadata_t *v = nullptr;
    ArrayModel m;
    int step = 0;
    bool did_shrink[3] = {false, false, false};   // rows/cols(cells), ports, freq shrunk earlier
    bool regrow = false, modeswitch = false, boundary = false;

    H(Ctx &c_) : c(c_) {}
    ~H() { if (v) vnadata_free(v); }

    int gen_type() { return c.exhaustive ? (int)c.pick(std::vector<int>{VPT_UNDEF, VPT_S, VPT_ZIN, VPT_T}) : (int)c.range(0, 10); }
    int maxdim() { return c.exhaustive ? 2 : 5; }
    // an index from {0 .. n-1 (uniform), n-1, n, n+1, -1}; simplest 0
    int gen_index(int n) {
        if (c.exhaustive) {   // {0, n-1, n}: arity 3
            int r = (int[]){0, n - 1, n}[c.draw(3)];
            if (r < 0 || r >= n) boundary = true;
            if (r == n) c.label("index==n");
            return r;
        }
        int k = c.weighted({6, 1, 2, 1, 1});
        int r;
        switch (k) {
        case 0: r = n > 0 ? (int)c.range(0, n - 1) : 0; break;
        case 1: r = n - 1; break;
        case 2: r = n; break;
        case 3: r = n + 1; break;
        default: r = -1; break;
        }
        if (r < 0 || r >= n) boundary = true;
        if (r == n) c.label("index==n");
        return r;
    }
    dcx gen_value() {
        if (c.exhaustive) return c.boolean() ? mkc(3, 0) : mkc(1, 2);
        switch (c.weighted({3, 1, 1})) {
        case 0: return mkc((double)c.range(-9, 9), (double)c.range(-9, 9));
        case 1: return mkc(c.real(-1e3, 1e3), c.real(-1e3, 1e3));
        default: return mkc(c.real(-1, 1) * 1e-9, 0.0);
        }
    }
    dcx gen_z0() {
        if (c.exhaustive) return c.boolean() ? mkc(10, 5) : mkc(75, 0);
        if (c.boolean()) return mkc((double)c.range(1, 200), 0.0);
        return mkc(c.real(1, 500), c.real(-200, 200));
    }
    void gen_shape(int &type, int &rows, int &cols, bool allow_invalid) {
        type = gen_type();
        int md = maxdim();
        bool invalid = !c.exhaustive && allow_invalid && c.chance(1, 8);
        if (invalid) { rows = (int)c.range(-1, md); cols = (int)c.range(-1, md); if (c.chance(1, 6)) type = c.boolean() ? 11 : -1; return; }
        switch (type) {
        case VPT_UNDEF: rows = (int)c.range(0, md); cols = (int)c.range(0, md); break;
        case VPT_S: case VPT_Z: case VPT_Y: rows = cols = (int)c.range(0, md); break;
        case VPT_ZIN: rows = 1; cols = (int)c.range(0, md); break;
        default: rows = cols = 2; break;
        }
    }

    void compare(const char *after) {
        std::string why;
        if (!m.equals_object(v, log, why)) c.fail("C15.model_mismatch", "step %d after %s: %s", step, after, why.c_str());
    }
    // expect a refusal: failure value, EINVAL, nothing changed
    void expect_refused(bool failed, int err, const char *what) {
        PBT_CHECK(c, failed, "C15.invalid_accepted", "step %d: %s accepted but the model refuses it", step, what);
        PBT_CHECK(c, err == EINVAL, "C15.refusal_errno", "step %d: %s refused with errno %d (%s), expected EINVAL", step, what, err, strerror(err));
    }

    void run() {
        v = vnadata_alloc(errlog_fn, &log);
        PBT_CHECK(c, v != nullptr, "C15.alloc", "vnadata_alloc failed");
        m.reset_empty();
        compare("alloc");
        size_t maxops = c.exhaustive ? (size_t)c.size : 300;
        size_t mean = c.exhaustive ? 1 : (size_t)(3 + c.size);
        for (size_t nops = 0; (c.mark(), c.more(nops, mean, maxops)); nops++) {
            step++;
            log.clear();
            errno = 0;
            one_op();
        }
        if ((regrow || modeswitch || boundary) && step >= 2) c.nontrivial();
        if (regrow) c.label("shrink-then-regrow");
        if (modeswitch) c.label("z0-mode-switch");
        if (boundary) c.label("boundary-index");
    }

    void note_shrink_regrow(int orows, int ocols, int ofreq) {
        int ocells = orows * ocols, ncells = m.rows * m.cols;
        int op = std::max(orows, ocols), np = m.ports();
        if (ncells < ocells) did_shrink[0] = true; else if (ncells > ocells && did_shrink[0]) regrow = true;
        if (np < op) did_shrink[1] = true; else if (np > op && did_shrink[1]) regrow = true;
        if (m.F < ofreq) did_shrink[2] = true; else if (m.F > ofreq && did_shrink[2]) regrow = true;
    }

    void one_op() {
        int op = c.exhaustive ? (int)c.draw(9) : c.weighted({4, 10, 2, 3, 2, 1, 6, 2, 2, 4, 2, 2, 5, 3, 3, 6});
        if (c.exhaustive) { static const int map[9] = {1, 0, 6, 9, 12, 10, 3, 14, 15}; op = map[op]; }
        switch (op) {
        case 0: case 1: {   // init / resize
            int type, rows, cols, F;
            gen_shape(type, rows, cols, true);
            F = c.exhaustive ? (int)c.range(0, 2) : c.chance(1, 12) ? -1 : (int)c.range(0, 6);
            int orows = m.rows, ocols = m.cols, ofreq = m.F;
            bool ok = ArrayModel::shape_ok(type, rows, cols) && F >= 0;
            c.note("%s(%s,%d,%d,%d)%s", op == 0 ? "init" : "resize", type_name(type), rows, cols, F, ok ? "" : "  [invalid]");
            int rc = op == 0 ? vnadata_init(v, (vnadata_parameter_type_t)type, rows, cols, F)
                             : vnadata_resize(v, (vnadata_parameter_type_t)type, rows, cols, F);
            int err = errno;
            if (!ok) {
                expect_refused(rc == -1, err, op == 0 ? "init" : "resize");
                if (op == 0) {
                    // vnadata(3) does not say what a failed init leaves; C11 only asks for a
                    // queryable object.  Accept either "unchanged" or "empty".
                    std::string why; ErrLog tmp;
                    if (!m.equals_object(v, tmp, why)) { m.reset_empty(); }
                }
            } else {
                PBT_CHECK(c, rc == 0, "C15.valid_refused", "step %d: valid %s(%s,%d,%d,%d) failed: %s", step, op == 0 ? "init" : "resize", type_name(type), rows, cols, F, log.text().c_str());
                if (op == 0) m.init(type, rows, cols, F); else m.resize(type, rows, cols, F);
                note_shrink_regrow(orows, ocols, ofreq);
            }
            break;
        }
        case 2: {   // set_type
            int type = c.chance(1, 10) ? (c.boolean() ? 11 : -1) : gen_type();
            bool ok = ArrayModel::shape_ok(type, m.rows, m.cols);
            c.note("set_type(%s)%s", type_name(type), ok ? "" : "  [invalid]");
            int rc = vnadata_set_type(v, (vnadata_parameter_type_t)type); int err = errno;
            if (!ok) expect_refused(rc == -1, err, "set_type");
            else { PBT_CHECK(c, rc == 0, "C15.valid_refused", "step %d: set_type(%s) on %dx%d failed", step, type_name(type), m.rows, m.cols); m.type = type; }
            break;
        }
        case 3: {   // add_frequency
            double f = c.exhaustive ? 1e6 * (double)c.range(1, 2) : c.chance(1, 8) ? -1.0 : (double)c.range(0, 1000) * 1e6;
            c.note("add_frequency(%g)", f);
            int of = m.F;
            int rc = vnadata_add_frequency(v, f); int err = errno;
            if (f < 0) expect_refused(rc == -1, err, "add_frequency(<0)");
            else { PBT_CHECK(c, rc == 0, "C15.valid_refused", "step %d: add_frequency failed", step); m.add_frequency(f); if (did_shrink[2] && m.F > of) regrow = true; }
            break;
        }
        case 4: {   // set_frequency
            int fi = gen_index(m.F); double f = (double)c.range(0, 1000) * 1e6;
            c.note("set_frequency(%d,%g)", fi, f);
            int rc = vnadata_set_frequency(v, fi, f); int err = errno;
            if (fi < 0 || fi >= m.F) expect_refused(rc == -1, err, "set_frequency");
            else { PBT_CHECK(c, rc == 0, "C15.valid_refused", "step %d: set_frequency failed", step); m.freq[fi] = f; }
            break;
        }
        case 5: {   // set_frequency_vector
            std::vector<double> fv(m.F + 1);
            for (int i = 0; i < m.F; i++) fv[i] = (double)c.range(0, 1000) * 1e6;
            c.note("set_frequency_vector(F=%d)", m.F);
            int rc = vnadata_set_frequency_vector(v, fv.data());
            PBT_CHECK(c, rc == 0, "C15.valid_refused", "step %d: set_frequency_vector failed", step);
            for (int i = 0; i < m.F; i++) m.freq[i] = fv[i];
            break;
        }
        case 6: {   // set_cell
            int fi = gen_index(m.F), r = gen_index(m.rows), cc = gen_index(m.cols); dcx val = gen_value();
            c.note("set_cell(%d,%d,%d, %g%+gi)", fi, r, cc, re_(val), im_(val));
            int rc = vnadata_set_cell(v, fi, r, cc, val); int err = errno;
            bool ok = fi >= 0 && fi < m.F && r >= 0 && r < m.rows && cc >= 0 && cc < m.cols;
            if (!ok) expect_refused(rc == -1, err, "set_cell");
            else { PBT_CHECK(c, rc == 0, "C15.valid_refused", "step %d: set_cell failed", step); m.data[fi][r * m.cols + cc] = val; }
            break;
        }
        case 7: {   // set_matrix
            int fi = gen_index(m.F);
            std::vector<dcx> mat(m.rows * m.cols + 1);
            for (int i = 0; i < m.rows * m.cols; i++) mat[i] = gen_value();
            c.note("set_matrix(%d)", fi);
            int rc = vnadata_set_matrix(v, fi, mat.data()); int err = errno;
            if (fi < 0 || fi >= m.F) expect_refused(rc == -1, err, "set_matrix");
            else { PBT_CHECK(c, rc == 0, "C15.valid_refused", "step %d: set_matrix failed", step); for (int i = 0; i < m.rows * m.cols; i++) m.data[fi][i] = mat[i]; }
            break;
        }
        case 8: {   // set_from_vector
            int r = gen_index(m.rows), cc = gen_index(m.cols);
            std::vector<dcx> vec(m.F + 1);
            for (int i = 0; i < m.F; i++) vec[i] = gen_value();
            c.note("set_from_vector(%d,%d)", r, cc);
            int rc = vnadata_set_from_vector(v, r, cc, vec.data()); int err = errno;
            bool ok = r >= 0 && r < m.rows && cc >= 0 && cc < m.cols;
            if (!ok) expect_refused(rc == -1, err, "set_from_vector");
            else { PBT_CHECK(c, rc == 0, "C15.valid_refused", "step %d: set_from_vector failed", step); for (int i = 0; i < m.F; i++) m.data[i][r * m.cols + cc] = vec[i]; }
            break;
        }
        case 9: {   // set_z0
            int p = gen_index(m.ports()); dcx z = gen_z0();
            c.note("set_z0(%d, %g%+gi)", p, re_(z), im_(z));
            int rc = vnadata_set_z0(v, p, z); int err = errno;
            if (p < 0 || p >= m.ports()) expect_refused(rc == -1, err, "set_z0");
            else { PBT_CHECK(c, rc == 0, "C15.valid_refused", "step %d: set_z0 failed", step); if (m.perf) modeswitch = true; m.to_ordinary(); m.z0[p] = z; }
            break;
        }
        case 10: {  // set_all_z0
            dcx z = gen_z0();
            c.note("set_all_z0(%g%+gi)", re_(z), im_(z));
            int rc = vnadata_set_all_z0(v, z);
            PBT_CHECK(c, rc == 0, "C15.valid_refused", "step %d: set_all_z0 failed", step);
            if (m.perf) modeswitch = true;
            m.to_ordinary(); for (auto &x : m.z0) x = z;
            break;
        }
        case 11: {  // set_z0_vector
            std::vector<dcx> zv(m.ports() + 1);
            for (int i = 0; i < m.ports(); i++) zv[i] = gen_z0();
            c.note("set_z0_vector(n=%d)", m.ports());
            int rc = vnadata_set_z0_vector(v, zv.data());
            PBT_CHECK(c, rc == 0, "C15.valid_refused", "step %d: set_z0_vector failed", step);
            if (m.perf) modeswitch = true;
            m.to_ordinary(); for (int i = 0; i < m.ports(); i++) m.z0[i] = zv[i];
            break;
        }
        case 12: {  // set_fz0
            int fi = gen_index(m.F), p = gen_index(m.ports()); dcx z = gen_z0();
            c.note("set_fz0(%d,%d, %g%+gi)", fi, p, re_(z), im_(z));
            int rc = vnadata_set_fz0(v, fi, p, z); int err = errno;
            bool ok = fi >= 0 && fi < m.F && p >= 0 && p < m.ports();
            if (!ok) expect_refused(rc == -1, err, "set_fz0");
            else { PBT_CHECK(c, rc == 0, "C15.valid_refused", "step %d: set_fz0 failed", step); if (!m.perf) modeswitch = true; m.to_perf(); m.fz0[fi][p] = z; }
            break;
        }
        case 13: {  // set_fz0_vector
            int fi = gen_index(m.F);
            std::vector<dcx> zv(m.ports() + 1);
            for (int i = 0; i < m.ports(); i++) zv[i] = gen_z0();
            c.note("set_fz0_vector(%d)", fi);
            int rc = vnadata_set_fz0_vector(v, fi, zv.data()); int err = errno;
            if (fi < 0 || fi >= m.F) expect_refused(rc == -1, err, "set_fz0_vector");
            else { PBT_CHECK(c, rc == 0, "C15.valid_refused", "step %d: set_fz0_vector failed", step); if (!m.perf) modeswitch = true; m.to_perf(); for (int i = 0; i < m.ports(); i++) m.fz0[fi][i] = zv[i]; }
            break;
        }
        case 14: {  // in-place convert
            int nt = gen_type();
            bool ok = ArrayModel::convert_ok(m.type, nt, m.rows, m.cols);
            c.note("convert_inplace(%s -> %s)%s", type_name(m.type), type_name(nt), ok ? "" : "  [invalid]");
            int rc = vnadata_convert(v, v, (vnadata_parameter_type_t)nt); int err = errno;
            if (!ok) expect_refused(rc == -1, err, "convert");
            else {
                PBT_CHECK(c, rc == 0, "C15.valid_refused", "step %d: convert %s->%s on %dx%d failed", step, type_name(m.type), type_name(nt), m.rows, m.cols);
                c.label("convert");
                m.after_inplace_convert(nt, v);   // values re-synchronised, hidden cells stay zero
            }
            break;
        }
        default: {  // boundary getters
            int fi = gen_index(m.F), r = gen_index(m.rows), cc = gen_index(m.cols), p = gen_index(m.ports());
            c.note("getters(f=%d,r=%d,c=%d,p=%d)", fi, r, cc, p);
            std::string why;
            if (!m.check_getters(v, log, fi, r, cc, p, why)) c.fail("C15.getter_mismatch", "step %d: %s", step, why.c_str());
            break;
        }
        }
        log.clear();
        compare("op");
    }
};

} // namespace

void pbt_property(Ctx &c) {
    H h(c);
    h.run();
}
