// C07 -- calibration files round-trip: vnacal_save then vnacal_load gives an equivalent vnacal_t.
//
// Histories on one vnacal_t.  Calibrations of ANY type x dimensions (incl. rectangular) x
// frequencies x complex z0 x property trees get into it without a solver: the harness' own writer
// (calfile.hpp) emits a .vnacal file with random error terms -- current version, legacy
// "#VNACAL 3.x" and legacy "#VNACAL 2.x" (E12 `e` matrix), plus the committed compat-V2.vnacal --
// and vnacal_load reads it.  Solved 1-port calibrations of every type are added on top, names are
// replaced, calibrations deleted, global / per-calibration properties and the two precisions set.
// A round trip then is:
//   T1 = vnacal_save(A)                       text read with yaml-cpp (independent of libyaml):
//                                             version line, names, order, type, dims, f, z0, property trees,
//                                             every block, the number of digits / hex notation of every number
//   R  = vnacal_save(A) at VNACAL_MAX_PRECISION   exact memory image: equals what the harness wrote (bit for
//                                             bit) and bounds T1 to 0.6 * 10^(1-p) per component
//   B  = vnacal_load(T1)                      getters and property trees equal the model, f / z0 equal the TEXT
//   RB = vnacal_save(load(T1)) at MAX         terms of the loaded object equal the text of T1 bit for bit
//   vnacal_apply_m(A) vs vnacal_apply_m(B)    bit-exact when data were saved at MAX, to the precision-implied
//                                             bound otherwise (well-conditioned terms only)
#include "pbt.hpp"
#include <map>
#include <set>
#include <algorithm>
#include <sys/mman.h>
#include <fcntl.h>
#include "calfile.hpp"
#include "vna.hpp"
#include "propgen.hpp"

const char *PBT_PROPERTY = "C07";
using namespace pbt;
using namespace doc;
namespace cf = calfile;

namespace {

// messages must stay valid UTF-8 even when truncated: print every byte >= 0x80 as an escape
static std::string ascii_only(const std::string &s) { std::string o; for (unsigned char ch : s) { if (ch >= 0x80) { char b[8]; snprintf(b, sizeof b, "\\x%02x", ch); o += b; } else o += (char)ch; } return o; }
static std::string qe(const std::string &s) { return ascii_only(doc::esc(s)); }
static std::string qs(const doc::NodeP &n) { return ascii_only(doc::show(n)); }

static const double APPLY_C = 100.0;         // |S_A - S_B| <= APPLY_C * 10^(1-p): calibrated, see notes/agent-cal.md
static const int APPLY_MIN_P = 4;            // below that the perturbation of the terms is not small

static int type_id(const std::string &t) {
    static const char *n[] = {"T8", "U8", "TE10", "UE10", "T16", "U16", "UE14", "", "E12"};
    for (int i = 0; i < 9; i++) if (t == n[i]) return i;
    return -1;
}

// the legacy file of the library's own test suite (src/tests/compat-V2.vnacal), verbatim
static const char COMPAT_V2[] = R"V2(#VNACAL 2.0
%YAML 1.1
---
sets:
- name: default
  rows: 2
  columns: 1
  frequencies: 11
  z0: +5.000000e+01 +0.000000e+00j
  data:
  - f: 1.00000e+05
    e:
    - - - -2.499938e-05 -4.999875e-03j
        - +9.999250e-01 -9.999500e-03j
        - -2.499938e-05 -4.999875e-03j
    - - - +9.251859e-18 +0.000000e+00j
        - +9.999250e-01 -9.999500e-03j
        - +2.499938e-05 +4.999875e-03j
  - f: 1.58489e+05
    e:
    - - - -6.279322e-05 -7.923968e-03j
        - +9.998116e-01 -1.584694e-02j
        - -6.279322e-05 -7.923968e-03j
    - - - +9.251859e-18 +0.000000e+00j
        - +9.998116e-01 -1.584694e-02j
        - +6.279322e-05 +7.923968e-03j
  - f: 2.51189e+05
    e:
    - - - -1.577145e-04 -1.255745e-02j
        - +9.995269e-01 -2.511094e-02j
        - -1.577145e-04 -1.255745e-02j
    - - - +9.251859e-18 +0.000000e+00j
        - +9.995269e-01 -2.511094e-02j
        - +1.577145e-04 +1.255745e-02j
  - f: 3.98107e+05
    e:
    - - - -3.960664e-04 -1.989747e-02j
        - +9.988121e-01 -3.977919e-02j
        - -3.960664e-04 -1.989747e-02j
    - - - +9.251859e-18 +0.000000e+00j
        - +9.988121e-01 -3.977919e-02j
        - +3.960664e-04 +1.989747e-02j
  - f: 6.30957e+05
    e:
    - - - -9.942784e-04 -3.151650e-02j
        - +9.970191e-01 -6.297033e-02j
        - -9.942784e-04 -3.151650e-02j
    - - - +9.251859e-18 +0.000000e+00j
        - +9.970191e-01 -6.297033e-02j
        - +9.942784e-04 +3.151650e-02j
  - f: 1.00000e+06
    e:
    - - - -2.493766e-03 -4.987531e-02j
        - +9.925311e-01 -9.950187e-02j
        - -2.493766e-03 -4.987531e-02j
    - - - +9.251859e-18 +0.000000e+00j
        - +9.925311e-01 -9.950187e-02j
        - +2.493766e-03 +4.987531e-02j
  - f: 1.58489e+06
    e:
    - - - -6.240527e-03 -7.875013e-02j
        - +9.813563e-01 -1.565174e-01j
        - -6.240527e-03 -7.875013e-02j
    - - - +9.251859e-18 +0.000000e+00j
        - +9.813563e-01 -1.565174e-01j
        - +6.240527e-03 +7.875013e-02j
  - f: 2.51189e+06
    e:
    - - - -1.552898e-02 -1.236440e-01j
        - +9.538954e-01 -2.434478e-01j
        - -1.552898e-02 -1.236440e-01j
    - - - +9.251859e-18 +0.000000e+00j
        - +9.538954e-01 -2.434478e-01j
        - +1.552898e-02 +1.236440e-01j
  - f: 3.98107e+06
    e:
    - - - -3.811223e-02 -1.914672e-01j
        - +8.885684e-01 -3.683399e-01j
        - -3.811223e-02 -1.914672e-01j
    - - - +9.251859e-18 +0.000000e+00j
        - +8.885684e-01 -3.683399e-01j
        - +3.811223e-02 +1.914672e-01j
  - f: 6.30957e+06
    e:
    - - - -9.051784e-02 -2.869222e-01j
        - +7.448334e-01 -5.219013e-01j
        - -9.051784e-02 -2.869222e-01j
    - - - +9.251859e-18 +0.000000e+00j
        - +7.448334e-01 -5.219013e-01j
        - +9.051784e-02 +2.869222e-01j
  - f: 1.00000e+07
    e:
    - - - -2.000000e-01 -4.000000e-01j
        - +4.800000e-01 -6.400000e-01j
        - -2.000000e-01 -4.000000e-01j
    - - - +9.251859e-18 +0.000000e+00j
        - +4.800000e-01 -6.400000e-01j
        - +2.000000e-01 +4.000000e-01j
...
)V2";

struct TmpFile {          // memfd addressed through /proc/self/fd (nothing touches the disk)
    int fd; std::string path;
    TmpFile() { fd = memfd_create("c07", 0); if (fd < 0) throw Fail{"C07.harness", "memfd_create failed"}; path = "/proc/self/fd/" + std::to_string(fd); }
    ~TmpFile() { if (fd >= 0) close(fd); }
    void put(const std::string &s) { if (ftruncate(fd, 0) != 0 || pwrite(fd, s.data(), s.size(), 0) != (ssize_t)s.size()) throw Fail{"C07.harness", "write to memfd failed"}; }
    std::string slurp() { std::string o; char buf[65536]; off_t off = 0; ssize_t n; while ((n = pread(fd, buf, sizeof buf, off)) > 0) { o.append(buf, n); off += n; } return o; }
};
struct DataH { vnadata_t *v; explicit DataH(vnadata_t *p) : v(p) {} ~DataH() { if (v) vnadata_free(v); } };
struct CalH { vnacal_t *v = nullptr; ~CalH() { if (v) vnacal_free(v); } vnacal_t *release() { vnacal_t *p = v; v = nullptr; return p; } };

struct CalM {
    cf::Cal t;                 // name, type, dims, F, z0, props, data[k].f; data[k].blocks valid iff exact
    bool exact = false;        // the blocks are the exact in-memory error terms
    bool conditioned = false;  // terms near the identity calibration: apply is well-conditioned
    std::vector<cd> e00, er, e11;   // solved 1x1 calibrations: the error box M = e00 + er G / (1 - e11 G) it was solved from
};

struct H {
    Ctx &c;
    ErrLog log, blog;
    CalH A;
    PropGen g;
    std::map<int, CalM> cals;
    NodeP gprops;
    int pf = -1, pd = -1;      // -1: setter never called on this object (documented defaults 7 and 6)
    int step = 0, name_seq = 0, saves = 0;
    bool f_multi = false, f_delrep = false, f_prec = false, f_props = false;

    H(Ctx &c_) : c(c_), g(c_) {}

    // ---------------------------------------------------------------- generators
    double gen_real(bool conditioned, bool near_one) {
        if (conditioned) return near_one ? c.real(0.75, 1.25) : c.real(-0.08, 0.08);
        switch (c.weighted({6, 3, 1})) {
        case 0: return c.real(-2, 2);
        case 1: { double m = c.real(1, 10), e = (double)c.range(-300, 300); return (c.boolean() ? -1 : 1) * m * std::pow(10.0, e); }
        default: { static const double sp[] = {0.0, -0.0, 1.0, -1.0, 2.2250738585072014e-308, 1e300, 0.1, 1.0 / 3}; return sp[c.draw(8)]; }
        }
    }
    cf::C gen_term(bool conditioned, bool near_one) {
        if (conditioned && near_one) return std::polar(c.real(0.8, 1.2), c.real(-0.6, 0.6));
        return cf::C(gen_real(conditioned, false), gen_real(conditioned, false));
    }
    // strictly ascending non-negative frequencies; `digits` significant digits each (17: arbitrary doubles)
    std::vector<double> gen_freqs(int F) {
        std::vector<double> f;
        int gdig = (int[]){1, 2, 3, 17}[c.weighted({3, 3, 2, 3})];
        if (gdig == 17) {
            double x = c.real(1, 10) * std::pow(10.0, (double)c.range(2, 10));
            for (int k = 0; k < F; k++) { f.push_back(x); x *= 1.0 + c.real(0.001, 1.0); }
            return f;
        }
        int lo = gdig == 1 ? 1 : gdig == 2 ? 10 : 100, hi = lo * 10 - 1;
        std::set<int> s; while ((int)s.size() < F) s.insert((int)c.range(lo, hi));
        double scale = std::pow(10.0, (double)c.range(3, 9));
        for (int m : s) f.push_back(m * scale);
        if (c.chance(1, 16)) f[0] = 0.0;
        return f;
    }
    // smallest precision at which the rounded frequencies are still strictly ascending
    static bool ascending_at(const std::vector<double> &f, int p) {
        if (p == VNACAL_MAX_PRECISION) return true;
        double prev = -1;
        for (double x : f) { char b[1100]; snprintf(b, sizeof b, "%.*e", p - 1, x); double r = strtod(b, nullptr); if (!(r > prev)) return false; prev = r; }
        return true;
    }
    std::string gen_name() {
        static const char *pool[] = {"cal", "a b", "x:y", "E12", "0", "1e3", "\xC3\xBC" "ber", "#1", "- dash", " lead", "trail ", "true", "[a]", "{b: c}", "q\"uote", "it's", "two\nlines", "tab\tbed", "a, b", "&anchor", "*star", "!bang", "%pct", "@at", "k: v", "back\\slash", "very long calibration name that goes on and on beyond the eighty columns the emitter uses for folding its output lines"};
        std::string base = plainify(c.chance(1, 12) ? g.gen_string(6, false) : std::string(pool[c.draw(sizeof pool / sizeof *pool)]));
        if (base.empty() || base == "~" || base == "null" || base == "Null" || base == "NULL") base = "n";   // yaml-cpp cannot tell a null-like plain scalar from null
        for (auto &kv : cals) if (kv.second.t.name == base) return base + "-" + std::to_string(++name_seq);
        return base;
    }
    NodeP gen_tree() {          // a small property tree built with the document model
        NodeP root;
        size_t n = (size_t)c.range(0, 4);
        for (size_t i = 0; i < n; i++) {
            Desc d = gen_plain_desc(root, true);
            bool isnull = c.chance(1, 6);
            NodeP before = clone(root);
            Res r = op_set(&root, d, isnull, isnull ? "" : gen_plain_value());
            if (!r.ok) root = before;
        }
        return root;
    }
    CalM gen_cal(const std::string &name, bool legacy2) {
        CalM m;
        m.exact = true; m.conditioned = c.chance(3, 4);
        m.t.name = name;
        m.t.type = legacy2 ? "E12" : cf::type_names()[c.draw(8)];
        int big = c.chance(1, 8) ? 4 : 3;
        if (c.boolean()) m.t.rows = m.t.cols = (int)c.range(1, big);
        else { int a = (int)c.range(1, big), b = (int)c.range(1, big); if (a > b) std::swap(a, b); if (cf::type_is_t(m.t.type)) { m.t.rows = a; m.t.cols = b; } else { m.t.rows = b; m.t.cols = a; } }
        m.t.F = (int)c.range(1, 4);
        std::vector<double> f = gen_freqs(m.t.F);
        m.t.z0 = c.boolean() ? cf::C(50, 0) : cf::C(c.real(1, 300), c.real(-100, 100));
        if (c.chance(1, 3)) { m.t.has_props = true; m.t.props = gen_tree(); }
        std::vector<cf::Shape> shs = cf::shapes(m.t.type, m.t.rows, m.t.cols, false);
        bool column_systems = m.t.type == "UE14" || m.t.type == "E12";
        for (int k = 0; k < m.t.F; k++) {
            cf::Freq fr; fr.f = f[k];
            for (auto &sh : shs) {
                cf::Block b; b.name = sh.name; b.rows = sh.rows; b.cols = sh.cols; b.kind = sh.kind;
                std::string nm = sh.name;
                bool unit_block = nm == "ts" || nm == "tm" || nm == "um" || nm == "us" || nm == "er";
                for (int r = 0; r < (sh.kind == cf::VEC ? 1 : sh.rows); r++) for (int q = 0; q < sh.cols; q++) {
                    if (sh.kind == cf::MAT_NODIAG && r == q) continue;
                    bool near_one = unit_block && (sh.kind == cf::VEC || column_systems || r == q);
                    b.v.push_back(gen_term(m.conditioned, near_one));
                }
                fr.blocks.push_back(b);
            }
            m.t.data.push_back(fr);
        }
        return m;
    }

    // -------------------------------------------------------------------- start
    void start_created() {
        c.note("vnacal_create");
        log.clear();
        A.v = vnacal_create(errlog_fn, &log);
        PBT_CHECK(c, A.v != nullptr, "C07.create_failed", "vnacal_create failed");
    }
    // load `text`; on success the model is `f` as read back by the harness' own reader
    void start_from_text(const std::string &text, const char *what) {
        cf::File rd; std::string err;
        bool ok = cf::read(text, rd, err);
        PBT_CHECK(c, ok, "C07.harness_selfcheck", "the harness' reader rejects the harness' own file (%s): %s\n%s", what, ascii_only(err).c_str(), ascii_only(text.substr(0, 2200)).c_str());
        TmpFile tf; tf.put(text);
        log.clear();
        A.v = vnacal_load(tf.path.c_str(), errlog_fn, &log);
        PBT_CHECK(c, A.v != nullptr, "C07.valid_file_refused", "vnacal_load refuses a valid %s file: %s\n%s", what, ascii_only(log.text()).c_str(), ascii_only(text.substr(0, 1500)).c_str());
        PBT_CHECK(c, log.n_nonwarning() == 0, "C07.callback_on_success", "vnacal_load succeeded but reported: %s", ascii_only(log.text()).c_str());
        gprops = rd.props;
        int ci = 0;
        for (auto &rc : rd.cals) { CalM m; m.t = cf::to_e12(rc); m.exact = true; cals[ci++] = m; }
    }
    // returns false when the history ends here (a deliberately invalid file was refused)
    bool start_from_file() {
        cf::File f;
        int ver = c.weighted({5, 2, 2});
        bool legacy2 = ver == 2;
        int minor = (int)c.draw(2);
        f.version_line = ver == 0 ? "#VNACal 1.0" : ver == 1 ? "#VNACAL 3." + std::to_string(minor) : "#VNACAL 2." + std::to_string(minor);
        if (legacy2) f.list_key = c.boolean() ? "sets" : "calibrations";
        if (c.chance(1, 3)) { f.has_props = true; f.props = gen_tree(); }
        int k = (int)c.range(legacy2 ? 1 : 0, 3);
        std::vector<CalM> ms;
        for (int i = 0; i < k; i++) {
            CalM m = gen_cal(gen_name(), legacy2);
            for (auto &o : ms) if (o.t.name == m.t.name) m.t.name += "'" + std::to_string(i);
            ms.push_back(m);
            f.cals.push_back(legacy2 ? cf::to_legacy2(m.t) : m.t);
        }
        cf::WriteOpts w;
        int nf = c.weighted({3, 3, 2});
        if (nf == 0) { w.dfmt.hex = true; w.ffmt.hex = true; } else if (nf == 1) { w.dfmt.precision = 17; w.ffmt.precision = 17; }
        else {
            w.dfmt.precision = (int)c.range(1, 16);
            // "ascending after rounding" is not monotone in the precision (1.49e3, 1.51e3: fine at 1 digit, equal at 2):
            // pick a precision, then raise it until EVERY calibration's rounded grid is strictly ascending
            int pfm = (int)c.range(1, 17);
            auto all_asc = [&](int p) { for (auto &m : ms) { std::vector<double> fv; for (auto &fr : m.t.data) fv.push_back(fr.f); if (!ascending_at(fv, p)) return false; } return true; };
            while (pfm < 17 && !all_asc(pfm)) pfm++;
            w.ffmt.precision = pfm;
        }
        w.yaml_header = !c.chance(1, 4); w.all_flow = c.chance(1, 3); w.end_marker = c.chance(1, 3);
        // One history in twelve: the same file made invalid in one place -- a block missing from one
        // frequency entry (the first or a later one), or frequencies not ascending.  vnacal(3): EBADMSG,
        // "syntax error or otherwise invalid"; nothing of it may load (a later entry must not silently
        // inherit the block of the entry before it).
        if (k >= 1 && c.chance(1, 12)) {
            int ci = (int)c.draw(k);
            cf::Cal &bc = f.cals[ci];
            int how = bc.F >= 2 ? (int)c.draw(3) : 0;
            if (how == 0) {
                int e = (int)c.draw(bc.F); size_t b = c.draw(bc.data[e].blocks.size());
                c.note("vnacal_load(harness-written file '%s', calibration %d (%s %dx%d F=%d) WITHOUT block '%s' in frequency entry %d)  [must be refused]", f.version_line.c_str(), ci, bc.type.c_str(), bc.rows, bc.cols, bc.F, bc.data[e].blocks[b].name.c_str(), e);
                if (bc.data[e].blocks[b].v.empty()) return start_created(), true;     // an 'el' of a 1x1 has no terms: nothing to miss
                bc.data[e].blocks.erase(bc.data[e].blocks.begin() + b);
                c.label(e == 0 ? "invalid-file:block-missing-in-first-entry" : "invalid-file:block-missing-in-later-entry");
            } else {
                int e = (int)c.range(1, bc.F - 1);
                if (how == 1) std::swap(bc.data[e - 1].f, bc.data[e].f); else bc.data[e].f = bc.data[e - 1].f;
                c.note("vnacal_load(harness-written file '%s', calibration %d with f[%d] %s f[%d])  [must be refused]", f.version_line.c_str(), ci, e, how == 1 ? "<" : "==", e - 1);
                c.label(e == 1 ? "invalid-file:f[1]<=f[0]" : "invalid-file:not-ascending-later");
                w.ffmt.precision = 17; w.ffmt.hex = false;
            }
            std::string text = cf::write(f, w);
            TmpFile tf; tf.put(text);
            log.clear();
            CalH bad; bad.v = vnacal_load(tf.path.c_str(), errlog_fn, &log);
            PBT_CHECK(c, bad.v == nullptr, "C07.invalid_file_accepted", "vnacal_load accepts an invalid file (%s):\n%s", how == 0 ? "a required block is missing from a frequency entry" : "frequencies are not strictly ascending", ascii_only(text.substr(0, 2200)).c_str());
            PBT_CHECK(c, log.n_total() > 0, "C07.invalid_file_silent", "vnacal_load refused the file without calling the error function");
            return false;
        }
        std::string text = cf::write(f, w);
        c.note("vnacal_load(harness-written file: '%s', %d calibrations%s, numbers %s, %s)", f.version_line.c_str(), k, f.has_props ? ", global properties" : "",
               nf == 0 ? "hex" : nf == 1 ? "17 digits" : ("f " + std::to_string(w.ffmt.precision) + " / data " + std::to_string(w.dfmt.precision) + " digits").c_str(), w.all_flow ? "flow" : "block rows");
        for (auto &m : ms) c.note("    %s %s %dx%d F=%d %s", qe(m.t.name).c_str(), m.t.type.c_str(), m.t.rows, m.t.cols, m.t.F, m.conditioned ? "conditioned" : "wild");
        c.label(ver == 0 ? "start:file-current" : ver == 1 ? "start:file-legacy-3.x" : "start:file-legacy-2.x");
        start_from_text(text, f.version_line.c_str());
        // the terms the file text denotes are the truth; conditioning is the generator's knowledge
        int ci = 0; for (auto &m : ms) { cals[ci].conditioned = m.conditioned && nf != 2; ci++; }
        if (nf != 2) {        // self check of writer + reader: exact formats give back the generated numbers bit for bit
            ci = 0;
            for (auto &m : ms) {
                std::string why;
                PBT_CHECK(c, exact_equal(cals[ci].t, m.t, why), "C07.harness_selfcheck", "harness writer/reader do not round-trip calibration %d: %s", ci, ascii_only(why).c_str());
                ci++;
            }
        }
        for (auto &kv : cals) { if (kv.second.t.rows != kv.second.t.cols) c.label("rectangular"); c.label("type:" + kv.second.t.type); }
        return true;
    }

    // ------------------------------------------------------------ comparisons
    // property tree as a YAML reader sees the text against the model.  vnacal_save writes the empty
    // string as an EMPTY plain scalar, which YAML resolves to null: the text cannot tell "" from ~
    // there (the library's own loader reads "" back; equality through the API is checked in
    // object_vs_text).  Everything else must match exactly.
    // Strings for which the TEXT comparison is meaningful.  Control characters and the Unicode line
    // breaks / BOM / NBSP are written by libyaml's emitter with escapes and folding that yaml-cpp does
    // not decode the same way (e.g. "\L" + fold, "\N", "\_"): that is between the two YAML libraries, not
    // a matter of libvna.  Such strings are still compared through the API after vnacal_load.
    static bool plain_text(const std::string &s) {
        for (size_t i = 0; i < s.size(); i++) {
            unsigned char ch = (unsigned char)s[i];
            if (ch == '\n') { if (i == 0 || i + 1 == s.size() || s[i - 1] == '\n' || s[i - 1] == ' ' || s[i + 1] == ' ' || s[i + 1] == '\n' || s[i - 1] == '\t' || s[i + 1] == '\t') return false; continue; }
            if (ch < 0x20 || ch == 0x7f) return false;
            if (ch == 0xC2 && i + 1 < s.size() && ((unsigned char)s[i + 1] == 0x85 || (unsigned char)s[i + 1] == 0xA0)) return false;
            if (ch == 0xE2 && i + 2 < s.size() && (unsigned char)s[i + 1] == 0x80 && ((unsigned char)s[i + 2] == 0xA8 || (unsigned char)s[i + 2] == 0xA9)) return false;
            if (ch == 0xEF && i + 2 < s.size() && (unsigned char)s[i + 1] == 0xBB && (unsigned char)s[i + 2] == 0xBF) return false;
        }
        return true;
    }
    // the generator keeps such characters out by construction (C14 owns the exotic strings)
    static std::string plainify(const std::string &s) {
        std::string o;
        for (size_t i = 0; i < s.size(); i++) {
            unsigned char ch = (unsigned char)s[i];
            if ((ch < 0x20 && ch != '\n') || ch == 0x7f) { o += '_'; continue; }
            if (ch == 0xC2 && i + 1 < s.size() && ((unsigned char)s[i + 1] == 0x85 || (unsigned char)s[i + 1] == 0xA0)) { o += '_'; i += 1; continue; }
            if (ch == 0xE2 && i + 2 < s.size() && (unsigned char)s[i + 1] == 0x80 && ((unsigned char)s[i + 2] == 0xA8 || (unsigned char)s[i + 2] == 0xA9)) { o += '_'; i += 2; continue; }
            if (ch == 0xEF && i + 2 < s.size() && (unsigned char)s[i + 1] == 0xBB && (unsigned char)s[i + 2] == 0xBF) { o += '_'; i += 2; continue; }
            o += (char)ch;
        }
        if (!plain_text(o)) for (auto &ch : o) if (ch == '\n') ch = '_';
        return o;
    }
    Desc gen_plain_desc(const NodeP &root, bool for_set) { Desc d = g.gen_desc(root, for_set); for (auto &e : d.path) if (e.t == Elem::KEY) { e.key = plainify(e.key); if (e.key.empty()) e.key = "k"; } return d; }
    std::string gen_plain_value() { return plainify(g.gen_value()); }
    static bool plain_tree(const NodeP &n) {
        if (!n) return true;
        if (n->kind == Node::SCALAR) return plain_text(n->sval);
        for (auto &p : n->map) if (!plain_text(p.first) || !plain_tree(p.second)) return false;
        for (auto &e : n->list) if (!plain_tree(e)) return false;
        return true;
    }
    static bool text_tree_equal(const NodeP &text, const NodeP &model) {
        if (!text) return !model || (model->kind == Node::SCALAR && model->sval.empty());
        if (!model || text->kind != model->kind) return false;
        switch (text->kind) {
        case Node::SCALAR: return text->sval == model->sval;
        case Node::MAP:
            if (text->map.size() != model->map.size()) return false;
            for (size_t i = 0; i < text->map.size(); i++) if (text->map[i].first != model->map[i].first || !text_tree_equal(text->map[i].second, model->map[i].second)) return false;
            return true;
        default:
            if (text->list.size() != model->list.size()) return false;
            for (size_t i = 0; i < text->list.size(); i++) if (!text_tree_equal(text->list[i], model->list[i])) return false;
            return true;
        }
    }
    static bool exact_equal(const cf::Cal &a, const cf::Cal &b, std::string &why) {
        if (a.name != b.name || a.type != b.type || a.rows != b.rows || a.cols != b.cols || a.F != b.F) { why = "name/type/dimensions differ"; return false; }
        if (!cf::same_bits(a.z0, b.z0)) { why = "z0 differs"; return false; }
        if (a.data.size() != b.data.size()) { why = "number of frequency entries differs"; return false; }
        for (size_t k = 0; k < a.data.size(); k++) {
            if (!cf::same_bits(a.data[k].f, b.data[k].f)) { char s[200]; snprintf(s, sizeof s, "f[%zu]: %a vs %a", k, a.data[k].f, b.data[k].f); why = s; return false; }
            if (a.data[k].blocks.size() != b.data[k].blocks.size()) { why = "number of blocks differs"; return false; }
            for (size_t j = 0; j < a.data[k].blocks.size(); j++) {
                const cf::Block &x = a.data[k].blocks[j], &y = b.data[k].blocks[j];
                if (x.name != y.name || x.v.size() != y.v.size()) { why = "block " + x.name + " vs " + y.name + ": name/size differs"; return false; }
                for (size_t i = 0; i < x.v.size(); i++) if (!cf::same_bits(x.v[i], y.v[i])) {
                    char s[300]; snprintf(s, sizeof s, "f#%zu block %s entry %zu: %a%+aj vs %a%+aj", k, x.name.c_str(), i, x.v[i].real(), x.v[i].imag(), y.v[i].real(), y.v[i].imag()); why = s; return false;
                }
            }
        }
        return true;
    }
    // 0.5 * 10^(1-p) is the rounding of the p-digit mantissa; reading the decimal back costs up to half an ulp
    // (1.1e-16), which the 0.1 * 10^(1-p) of slack covers for p <= 15 only -- hence the additive term
    static double bound(int p) { return p == VNACAL_MAX_PRECISION ? 0.0 : 0.6 * std::pow(10.0, 1 - p) + 1.2e-16; }
    void near(double got, double ref, int p, const char *code, const char *what, const std::string &where) {
        if (p == VNACAL_MAX_PRECISION) { PBT_CHECK(c, cf::same_bits(got, ref), code, "save #%d %s: %s = %a, in memory %a (not bit-exact at VNACAL_MAX_PRECISION)", saves, where.c_str(), what, got, ref); return; }
        double d = cf::rel_dev(got, ref), b = bound(p);
        if (d > 0) c.track_max("text_dev/bound", d / b);
        PBT_CHECK(c, d <= b, code, "save #%d %s: %s = %.17g, in memory %.17g: relative deviation %.3g exceeds 0.6*10^(1-%d)", saves, where.c_str(), what, got, ref, d, p);
    }
    void digits_ok(const cf::NumText &nt, int p, const char *code, const char *what, const std::string &where) {
        if (p == VNACAL_MAX_PRECISION) PBT_CHECK(c, nt.hex, code, "save #%d %s: %s is not in hexadecimal floating point notation although the precision is VNACAL_MAX_PRECISION", saves, where.c_str(), what);
        else PBT_CHECK(c, !nt.hex && nt.digits == p, code, "save #%d %s: %s is written with %d significant digits%s, precision in force is %d%s", saves, where.c_str(), what, nt.digits, nt.hex ? " (hex)" : "", p, (p == 7 && pf == -1) || (p == 6 && pd == -1) ? " (documented default)" : "");
    }
    // text of a save against the model: structure, digits, values to the precision in force
    void text_vs_model(const cf::File &F, int pfe, int pde, const char *what) {
        PBT_CHECK(c, F.version_line == "#VNACal 1.0", "C07.version_line", "save #%d (%s): first line is '%s'", saves, what, F.version_line.c_str());
        PBT_CHECK(c, F.cals.size() == cals.size(), "C07.calibration_count", "save #%d (%s): file has %zu calibrations, object has %zu live ones", saves, what, F.cals.size(), cals.size());
        if (!plain_tree(gprops)) c.label("text-of-properties-not-compared(control / line-break characters)"); else PBT_CHECK(c, text_tree_equal(F.props, gprops), "C07.global_properties_text", "save #%d (%s): global properties in the file %s, model %s", saves, what, qs(F.props).c_str(), qs(gprops).c_str());
        size_t i = 0;
        for (auto &kv : cals) {
            const cf::Cal &gC = F.cals[i++]; const CalM &m = kv.second;
            std::string where = std::string("(") + what + ") calibration " + qe(m.t.name);
            if (!plain_text(m.t.name)) c.label("text-of-name-not-compared(control / line-break characters)"); else PBT_CHECK(c, gC.name == m.t.name, "C07.names_order_text", "save #%d (%s): calibration #%zu in the file is %s, the object's live calibrations in index order give %s", saves, what, i - 1, qe(gC.name).c_str(), qe(m.t.name).c_str());
            PBT_CHECK(c, gC.type == m.t.type && gC.rows == m.t.rows && gC.cols == m.t.cols && gC.F == m.t.F, "C07.type_dims_text", "save #%d %s: file says %s %dx%d F=%d, model %s %dx%d F=%d", saves, where.c_str(), gC.type.c_str(), gC.rows, gC.cols, gC.F, m.t.type.c_str(), m.t.rows, m.t.cols, m.t.F);
            if (!plain_tree(m.t.props)) c.label("text-of-properties-not-compared(control / line-break characters)"); else PBT_CHECK(c, text_tree_equal(gC.props, m.t.props), "C07.properties_text", "save #%d %s: properties in the file %s, model %s", saves, where.c_str(), qs(gC.props).c_str(), qs(m.t.props).c_str());
            digits_ok(gC.z0re, pde, "C07.data_digits", "z0 (real)", where); digits_ok(gC.z0im, pde, "C07.data_digits", "z0 (imag)", where);
            near(gC.z0.real(), m.t.z0.real(), pde, "C07.z0_text", "z0 (real)", where); near(gC.z0.imag(), m.t.z0.imag(), pde, "C07.z0_text", "z0 (imag)", where);
            for (int k = 0; k < m.t.F; k++) {
                digits_ok(gC.data[k].ftxt, pfe, "C07.frequency_digits", "f", where);
                near(gC.data[k].f, m.t.data[k].f, pfe, "C07.frequency_text", ("f[" + std::to_string(k) + "]").c_str(), where);
                for (size_t j = 0; j < gC.data[k].blocks.size(); j++) {
                    const cf::Block &b = gC.data[k].blocks[j];
                    for (size_t q = 0; q < b.v.size(); q++) { digits_ok(b.re_txt[q], pde, "C07.data_digits", b.name.c_str(), where); digits_ok(b.im_txt[q], pde, "C07.data_digits", b.name.c_str(), where); }
                    if (!m.exact) continue;
                    const cf::Block &t = m.t.data[k].blocks.at(j);
                    PBT_CHECK(c, t.name == b.name && t.v.size() == b.v.size(), "C07.harness", "block mismatch %s/%s", t.name.c_str(), b.name.c_str());
                    for (size_t q = 0; q < b.v.size(); q++) {
                        std::string nm = b.name + "[" + std::to_string(q) + "] at f#" + std::to_string(k);
                        near(b.v[q].real(), t.v[q].real(), pde, "C07.term_text", (nm + " (real)").c_str(), where);
                        near(b.v[q].imag(), t.v[q].imag(), pde, "C07.term_text", (nm + " (imag)").c_str(), where);
                    }
                }
            }
        }
    }
    // getters and property trees of a (loaded) object against names/order/dims of the model and the numbers of a text
    void object_vs_text(vnacal_t *v, ErrLog &lg, const cf::File &F, const char *what) {
        lg.clear();
        int end = vnacal_get_calibration_end(v);
        PBT_CHECK(c, end == (int)cals.size(), "C07.loaded_count", "%s: vnacal_get_calibration_end = %d, %zu calibrations were saved", what, end, cals.size());
        std::string why;
        NodeP gp = read_tree(vnacal_property_get_subtree(v, -1, "."), why);
        PBT_CHECK(c, why.empty() && equal(gp, gprops), "C07.global_properties", "%s: global properties %s, saved %s %s", what, qs(gp).c_str(), qs(gprops).c_str(), ascii_only(why).c_str());
        int i = 0;
        for (auto &kv : cals) {
            const CalM &m = kv.second; const cf::Cal &t = F.cals[i];
            const char *nm = vnacal_get_name(v, i);
            PBT_CHECK(c, nm && m.t.name == nm, "C07.names_order", "%s: calibration %d is %s, saved order gives %s", what, i, nm ? qe(nm).c_str() : "NULL", qe(m.t.name).c_str());
            PBT_CHECK(c, vnacal_find_calibration(v, m.t.name.c_str()) == i, "C07.names_order", "%s: find(%s) != %d", what, qe(m.t.name).c_str(), i);
            int ty = (int)vnacal_get_type(v, i), r = vnacal_get_rows(v, i), co = vnacal_get_columns(v, i), F_ = vnacal_get_frequencies(v, i);
            PBT_CHECK(c, ty == type_id(m.t.type) && r == m.t.rows && co == m.t.cols && F_ == m.t.F, "C07.type_dims", "%s: calibration %s: type/rows/columns/frequencies %d/%d/%d/%d, saved %s(%d)/%d/%d/%d", what, qe(m.t.name).c_str(), ty, r, co, F_, m.t.type.c_str(), type_id(m.t.type), m.t.rows, m.t.cols, m.t.F);
            const double *fv = vnacal_get_frequency_vector(v, i);
            PBT_CHECK(c, fv != nullptr, "C07.frequencies", "%s: frequency vector NULL", what);
            for (int k = 0; k < m.t.F; k++) PBT_CHECK(c, cf::same_bits(fv[k], t.data[k].f), "C07.frequencies", "%s: calibration %s f[%d] = %a, the file text denotes %a", what, qe(m.t.name).c_str(), k, fv[k], t.data[k].f);
            dcx z = vnacal_get_z0(v, i);
            PBT_CHECK(c, cf::same_bits(tocd(z), t.z0), "C07.z0", "%s: calibration %s z0 = %a%+aj, the file text denotes %a%+aj", what, qe(m.t.name).c_str(), re_(z), im_(z), t.z0.real(), t.z0.imag());
            NodeP p = read_tree(vnacal_property_get_subtree(v, i, "."), why);
            PBT_CHECK(c, why.empty() && equal(p, m.t.props), "C07.properties", "%s: properties of calibration %s: %s, saved %s %s", what, qe(m.t.name).c_str(), qs(p).c_str(), qs(m.t.props).c_str(), ascii_only(why).c_str());
            i++;
        }
    }

    // A 1x1 calibration solved from short/open/match through the error box (e00, er, e11): the blocks in the
    // text must MEAN what vnacal_layout.h says they mean ("From E terms", Et = 1), up to the free scale of T / U:
    //   Ts : Ti : Tx : Tm = er - e00 e11 : e00 : -e11 : 1      Um : Ui : Ux : Us = 1 : -e00 : e11 : er - e11 e00
    //   E12: el = e00, er = er, em = e11.   Independent of vnacal_apply and of the loader.
    void term_meaning(const cf::Cal &t, const CalM &m) {
        if (m.e00.empty()) return;
        for (int k = 0; k < m.t.F; k++) {
            auto blk = [&](const char *nm) -> cd { for (auto &b : t.data[k].blocks) if (b.name == nm && b.v.size() == 1) return b.v[0]; c.fail("C07.term_meaning", "save #%d calibration %s: block %s missing or not 1 term", saves, qe(m.t.name).c_str(), nm); };
            cd want[3], got[3]; const char *names[3];
            cd d = m.er[k] - m.e00[k] * m.e11[k];
            if (cf::type_is_t(m.t.type)) { cd tm = blk("tm"); got[0] = blk("ts") / tm; got[1] = blk("ti") / tm; got[2] = blk("tx") / tm; want[0] = d; want[1] = m.e00[k]; want[2] = -m.e11[k]; names[0] = "ts/tm"; names[1] = "ti/tm"; names[2] = "tx/tm"; }
            else if (m.t.type == "E12") { got[0] = blk("el"); got[1] = blk("er"); got[2] = blk("em"); want[0] = m.e00[k]; want[1] = m.er[k]; want[2] = m.e11[k]; names[0] = "el"; names[1] = "er"; names[2] = "em"; }
            else { cd um = blk("um"); got[0] = blk("ui") / um; got[1] = blk("ux") / um; got[2] = blk("us") / um; want[0] = -m.e00[k]; want[1] = m.e11[k]; want[2] = d; names[0] = "ui/um"; names[1] = "ux/um"; names[2] = "us/um"; }
            for (int q = 0; q < 3; q++) {
                double e = std::abs(got[q] - want[q]);
                c.track_max("term_meaning_err/1e-9", e / 1e-9);
                PBT_CHECK(c, e <= 1e-9, "C07.term_meaning", "save #%d calibration %s (%s, solved from a known error box) f#%d: %s = %.12g%+.12gj in the file, vnacal_layout.h gives %.12g%+.12gj", saves, qe(m.t.name).c_str(), m.t.type.c_str(), k, names[q], got[q].real(), got[q].imag(), want[q].real(), want[q].imag());
            }
        }
        c.label("solved-terms-meaning-checked");
    }

    std::string do_save(vnacal_t *v, ErrLog &lg, const char *what) {
        TmpFile tf;
        lg.clear();
        int rc = vnacal_save(v, tf.path.c_str());
        PBT_CHECK(c, rc == 0, "C07.save_failed", "save #%d (%s): vnacal_save failed: %s", saves, what, ascii_only(lg.text()).c_str());
        PBT_CHECK(c, lg.n_nonwarning() == 0, "C07.callback_on_success", "save #%d (%s): vnacal_save succeeded but reported: %s", saves, what, ascii_only(lg.text()).c_str());
        return tf.slurp();
    }
    cf::File parse(const std::string &text, const char *what) {
        cf::File F; std::string err;
        bool ok = cf::read(text, F, err);
        PBT_CHECK(c, ok, "C07.saved_text_unreadable", "save #%d (%s): the independent reader cannot read what vnacal_save wrote: %s\n%s", saves, what, ascii_only(err).c_str(), ascii_only(text.substr(0, 2200)).c_str());
        return F;
    }
    bool apply(vnacal_t *v, ErrLog &lg, int ci, const CalM &m, const std::vector<std::vector<dcx>> &cells, std::vector<dcx> &out) {
        int P = std::max(m.t.rows, m.t.cols);
        const double *fv = vnacal_get_frequency_vector(v, ci);
        std::vector<dcx *> ptr; for (auto &x : cells) ptr.push_back(const_cast<dcx *>(x.data()));
        DataH d(vnadata_alloc(errlog_fn, &lg));
        PBT_CHECK(c, d.v && fv, "C07.harness", "vnadata_alloc / frequency vector");
        lg.clear();
        int rc = vnacal_apply_m(v, ci, fv, m.t.F, ptr.data(), P, P, d.v);
        if (rc != 0) return false;
        for (int k = 0; k < m.t.F; k++) for (int r = 0; r < P; r++) for (int q = 0; q < P; q++) out.push_back(vnadata_get_cell(d.v, k, r, q));
        return true;
    }

    // ---------------------------------------------------------------- round trip
    void roundtrip(bool may_adopt) {
        saves++;
        // frequencies that would collapse at the precision in force cannot survive any text format: keep them apart by construction
        int pfe = pf == -1 ? 7 : pf, pde = pd == -1 ? 6 : pd;
        // (not monotone in the precision: test the precision in force itself, then raise)
        auto all_asc = [&](int p) { for (auto &kv : cals) { std::vector<double> fv; for (auto &fr : kv.second.t.data) fv.push_back(fr.f); if (!ascending_at(fv, p)) return false; } return true; };
        int need = pfe == VNACAL_MAX_PRECISION ? 1 : pfe;
        while (need < 17 && !all_asc(need)) need++;
        if (pfe != VNACAL_MAX_PRECISION && pfe < need) {
            c.note("set_fprecision(%d)   [frequencies would no longer be ascending at %d digits]", need, pfe);
            c.label("fprecision-raised-to-keep-ascending");
            PBT_CHECK(c, vnacal_set_fprecision(A.v, need) == 0, "C07.setter_refused", "vnacal_set_fprecision(%d) failed", need);
            pf = pfe = need;
        }
        c.note("save #%d (fprecision %s, dprecision %s, %zu calibrations) -> load -> compare", saves, pf == -1 ? "default" : pf == VNACAL_MAX_PRECISION ? "MAX" : std::to_string(pf).c_str(), pd == -1 ? "default" : pd == VNACAL_MAX_PRECISION ? "MAX" : std::to_string(pd).c_str(), cals.size());
        if (cals.size() >= 2) f_multi = true;
        if (pf != -1 || pd != -1) f_prec = true;
        if (gprops) f_props = true; for (auto &kv : cals) if (kv.second.t.props) f_props = true;
        if (pf == -1 && pd == -1) c.label("save-at-default-precisions");
        if (pf == VNACAL_MAX_PRECISION) c.label("fprecision-MAX"); else if (pf > 17) c.label("fprecision>17");
        if (pd == VNACAL_MAX_PRECISION) c.label("dprecision-MAX"); else if (pd > 17) c.label("dprecision>17");
        if (cals.empty()) c.label("save-without-calibrations");

        // (1) the save of the history, read independently
        std::string T1 = do_save(A.v, log, "history precisions");
        cf::File F1 = parse(T1, "history precisions");
        text_vs_model(F1, pfe, pde, "history precisions");
        const char *fn = vnacal_get_filename(A.v);
        PBT_CHECK(c, fn != nullptr, "C07.filename", "vnacal_get_filename is NULL after a save");

        // (2) the exact memory image: save at MAX
        bool had_pf = pf != -1, had_pd = pd != -1;
        PBT_CHECK(c, vnacal_set_fprecision(A.v, VNACAL_MAX_PRECISION) == 0 && vnacal_set_dprecision(A.v, VNACAL_MAX_PRECISION) == 0, "C07.setter_refused", "a precision setter refuses VNACAL_MAX_PRECISION");
        { int opf = pf, opd = pd; pf = pd = VNACAL_MAX_PRECISION;
          std::string R = do_save(A.v, log, "MAX precision");
          cf::File FR = parse(R, "MAX precision");
          text_vs_model(FR, VNACAL_MAX_PRECISION, VNACAL_MAX_PRECISION, "MAX precision");
          // terms of calibrations the model does not know exactly (solved ones) are now known; T1 must be within the bound of them
          size_t i = 0;
          for (auto &kv : cals) { if (!kv.second.exact) term_meaning(FR.cals[i], kv.second); i++; }
          i = 0;
          for (auto &kv : cals) { if (!kv.second.exact) { NodeP keep = kv.second.t.props; bool hp = kv.second.t.has_props; std::string nm = kv.second.t.name; kv.second.t = FR.cals[i]; kv.second.t.props = keep; kv.second.t.has_props = hp; kv.second.t.name = nm; kv.second.exact = true; } i++; }
          pf = opf; pd = opd;
          text_vs_model(F1, pfe, pde, "history precisions, against the MAX image");
        }
        // put the history's precisions back (a history that never called a setter continues with the documented defaults, set explicitly)
        pf = had_pf ? pf : 7; pd = had_pd ? pd : 6;
        PBT_CHECK(c, vnacal_set_fprecision(A.v, pf) == 0 && vnacal_set_dprecision(A.v, pd) == 0, "C07.setter_refused", "restoring precisions %d/%d failed", pf, pd);

        // (3) load what the history saved
        CalH B, C2;
        TmpFile tf; tf.put(T1);
        blog.clear();
        B.v = vnacal_load(tf.path.c_str(), errlog_fn, &blog);
        PBT_CHECK(c, B.v != nullptr, "C07.load_of_saved_failed", "save #%d: vnacal_load refuses what vnacal_save wrote: %s\n%s", saves, ascii_only(blog.text()).c_str(), ascii_only(T1.substr(0, 2200)).c_str());
        PBT_CHECK(c, blog.n_nonwarning() == 0, "C07.callback_on_success", "save #%d: vnacal_load succeeded but reported: %s", saves, ascii_only(blog.text()).c_str());
        object_vs_text(B.v, blog, F1, "loaded object");

        // (4) the terms of the loaded object: a second load, saved at MAX, must give the numbers the text denotes
        {
            ErrLog l3;
            C2.v = vnacal_load(tf.path.c_str(), errlog_fn, &l3);
            PBT_CHECK(c, C2.v != nullptr, "C07.load_of_saved_failed", "save #%d: second vnacal_load of the same file failed: %s", saves, ascii_only(l3.text()).c_str());
            PBT_CHECK(c, vnacal_set_fprecision(C2.v, VNACAL_MAX_PRECISION) == 0 && vnacal_set_dprecision(C2.v, VNACAL_MAX_PRECISION) == 0, "C07.setter_refused", "setter refuses MAX on a loaded object");
            std::string RB = do_save(C2.v, l3, "loaded object at MAX");
            cf::File FB = parse(RB, "loaded object at MAX");
            PBT_CHECK(c, FB.cals.size() == F1.cals.size(), "C07.loaded_count", "save #%d: re-saved loaded object has %zu calibrations, file had %zu", saves, FB.cals.size(), F1.cals.size());
            for (size_t i = 0; i < F1.cals.size(); i++) {
                std::string why;
                PBT_CHECK(c, exact_equal(FB.cals[i], F1.cals[i], why), "C07.loaded_terms", "save #%d: calibration %s: the loaded object does not hold the numbers the file text denotes: %s", saves, qe(F1.cals[i].name).c_str(), ascii_only(why).c_str());
            }
        }

        // (5) applying original and loaded calibration to the same measurement
        int i = 0;
        for (auto &kv : cals) {
            const CalM &m = kv.second;
            int P = std::max(m.t.rows, m.t.cols);
            bool usable = m.t.rows == m.t.cols || P == 2;
            std::vector<std::vector<dcx>> cells(P * P, std::vector<dcx>(m.t.F));
            for (auto &v : cells) for (auto &z : v) z = mkc(c.real(-0.5, 0.5), c.real(-0.5, 0.5));
            std::vector<dcx> sa, sb;
            bool oka = apply(A.v, log, kv.first, m, cells, sa);
            bool okb = apply(B.v, blog, i, m, cells, sb);
            std::string nm = qe(m.t.name);
            if (!usable) {
                PBT_CHECK(c, !oka && !okb, "C07.apply_shape", "save #%d: vnacal_apply_m accepts the %dx%d calibration %s (vnacal(3): square, 1x2 or 2x1 only)", saves, m.t.rows, m.t.cols, nm.c_str());
                c.label("terms-only(shape not applicable)");
            } else if (pde == VNACAL_MAX_PRECISION || pde >= 17) {      // 17 significant digits identify a double: the loaded terms are the same numbers
                PBT_CHECK(c, oka == okb, "C07.apply_differs", "save #%d: vnacal_apply_m on %s %s for the original but %s for the loaded calibration (data saved at MAX precision or >= 17 digits)", saves, nm.c_str(), oka ? "succeeds" : "fails", okb ? "succeeds" : "fails");
                if (oka) for (size_t q = 0; q < sa.size(); q++) PBT_CHECK(c, same_bits(sa[q], sb[q]), "C07.apply_differs", "save #%d: %s: S[%zu] = %a%+aj from the original, %a%+aj from the loaded calibration (data saved at MAX precision or >= 17 digits: must be bit-exact)", saves, nm.c_str(), q, re_(sa[q]), im_(sa[q]), re_(sb[q]), im_(sb[q]));
                c.label("apply-bit-exact");
            } else if (m.conditioned && pde >= APPLY_MIN_P && oka) {
                PBT_CHECK(c, okb, "C07.apply_differs", "save #%d: vnacal_apply_m on %s succeeds for the original but fails for the loaded calibration: %s", saves, nm.c_str(), ascii_only(blog.text()).c_str());
                double worst = 0; for (size_t q = 0; q < sa.size(); q++) { double e = std::abs(tocd(sa[q]) - tocd(sb[q])); if (!(e <= worst)) worst = e; }
                double b = APPLY_C * std::pow(10.0, 1 - pde);
                c.track_max("apply_diff/(10^(1-p))", worst / std::pow(10.0, 1 - pde));
                PBT_CHECK(c, worst <= b, "C07.apply_differs", "save #%d: %s (%s %dx%d): corrected S differs by %.3g between original and loaded calibration, bound %.3g at %d digits", saves, nm.c_str(), m.t.type.c_str(), m.t.rows, m.t.cols, worst, b, pde);
                c.label("apply-to-bound");
            }
            i++;
        }

        // (6) sometimes the history continues on the loaded object
        if (may_adopt && c.chance(1, 3)) {
            c.note("  continue with the loaded object");
            c.label("continue-with-loaded");
            A.v = (vnacal_free(A.v), B.release());
            std::map<int, CalM> nc; int j = 0;
            for (auto &kv : cals) { CalM m = kv.second; NodeP keep = m.t.props; bool hp = m.t.has_props; std::string nm = m.t.name; m.t = F1.cals[j]; m.t.props = keep; m.t.has_props = hp; m.t.name = nm; m.exact = true; m.conditioned = m.conditioned && pde >= 6; nc[j++] = m; }
            cals.swap(nc);
            pf = pd = -1;
        }
    }

    // ----------------------------------------------------------------- history ops
    void op_add_solved() {
        static const int types[] = {VNACAL_T8, VNACAL_U8, VNACAL_TE10, VNACAL_UE10, VNACAL_T16, VNACAL_U16, VNACAL_UE14, VNACAL_E12};
        static const char *tn[] = {"T8", "U8", "TE10", "UE10", "T16", "U16", "UE14", "E12"};
        int ti = (int)c.draw(8);
        int F = (int)c.range(1, 3);
        std::vector<double> f = gen_freqs(F);
        cf::C z0 = c.boolean() ? cf::C(50, 0) : cf::C(c.real(1, 300), c.real(-100, 100));
        bool replace = !cals.empty() && c.chance(1, 3);
        std::string name;
        if (replace) { auto it = cals.begin(); std::advance(it, c.draw(cals.size())); name = it->second.t.name; } else name = gen_name();
        c.note("add solved 1x1 %s calibration %s%s (F=%d)", tn[ti], qe(name).c_str(), replace ? " [replaces]" : "", F);
        log.clear();
        vnacal_new_t *vn = vnacal_new_alloc(A.v, (vnacal_type_t)types[ti], 1, 1, F);
        PBT_CHECK(c, vn != nullptr, "C07.scenario", "vnacal_new_alloc failed: %s", ascii_only(log.text()).c_str());
        int rc = vnacal_new_set_frequency_vector(vn, f.data());
        rc |= vnacal_new_set_z0(vn, mkc(z0));
        std::vector<cd> e00, er, e11;
        for (int k = 0; k < F; k++) { e00.push_back(std::polar(c.real(0, 0.25), c.real(0, 6.28))); e11.push_back(std::polar(c.real(0, 0.25), c.real(0, 6.28))); er.push_back(std::polar(c.real(0.7, 1.2), c.real(0, 6.28))); }
        static const int hs[3] = {VNACAL_SHORT, VNACAL_OPEN, VNACAL_MATCH}; static const double gs[3] = {-1, 1, 0};
        for (int s = 0; s < 3; s++) {
            std::vector<dcx> m(F); for (int k = 0; k < F; k++) m[k] = mkc(e00[k] + er[k] * gs[s] / (1.0 - e11[k] * gs[s]));
            dcx *ptr[1] = {m.data()};
            rc |= vnacal_new_add_single_reflect_m(vn, ptr, 1, 1, hs[s], 1);
        }
        rc |= vnacal_new_solve(vn);
        PBT_CHECK(c, rc == 0, "C07.scenario", "short-open-match scenario failed: %s", ascii_only(log.text()).c_str());
        int ci = vnacal_add_calibration(A.v, name.c_str(), vn);
        vnacal_new_free(vn);
        PBT_CHECK(c, ci >= 0, "C07.scenario", "vnacal_add_calibration failed: %s", ascii_only(log.text()).c_str());
        if (replace) { for (auto it = cals.begin(); it != cals.end(); ++it) if (it->second.t.name == name) { cals.erase(it); break; } f_delrep = true; c.label("replace"); }
        PBT_CHECK(c, !cals.count(ci) && vnacal_find_calibration(A.v, name.c_str()) == ci, "C07.scenario", "add_calibration returned index %d (live or not the one find reports)", ci);
        CalM m; m.exact = false; m.conditioned = true;
        m.t.name = name; m.t.type = tn[ti]; m.t.rows = m.t.cols = 1; m.t.F = F; m.t.z0 = z0;
        for (int k = 0; k < F; k++) { cf::Freq fr; fr.f = f[k]; m.t.data.push_back(fr); }
        m.e00 = e00; m.er = er; m.e11 = e11;
        cals[ci] = m;
        c.label("solved-calibration");
    }
    void op_delete_cal() {
        if (cals.empty()) return;
        auto it = cals.begin(); std::advance(it, c.draw(cals.size()));
        c.note("delete_calibration(%d %s)", it->first, qe(it->second.t.name).c_str());
        PBT_CHECK(c, vnacal_delete_calibration(A.v, it->first) == 0, "C07.scenario", "vnacal_delete_calibration(%d) failed", it->first);
        cals.erase(it); f_delrep = true; c.label("delete");
    }
    void op_property() {
        int ci = -1; NodeP *root = &gprops;
        if (!cals.empty() && c.chance(2, 3)) { auto it = cals.begin(); std::advance(it, c.draw(cals.size())); ci = it->first; root = &it->second.t.props; }
        bool del = c.chance(1, 5);
        Desc d = gen_plain_desc(*root, !del);
        NodeP before = clone(*root);
        int rc; Res r; std::string ds;
        if (del) { ds = g.print(d); r = doc::op_delete(root, d); rc = vnacal_property_delete(A.v, ci, "%s", ds.c_str()); }
        else { bool isnull = c.chance(1, 6); std::string val = isnull ? "" : gen_plain_value(); ds = g.print(d) + (isnull ? "#" : "=" + val); r = op_set(root, d, isnull, val); rc = vnacal_property_set(A.v, ci, "%s", ds.c_str()); }
        c.note("property_%s(ci %d, %s)", del ? "delete" : "set", ci, qe(ds).c_str());
        if (!r.ok) *root = before;
        PBT_CHECK(c, (rc == 0) == r.ok, "C07.scenario", "vnacal_property_%s(%d, %s) returned %d, model %s", del ? "delete" : "set", ci, qe(ds).c_str(), rc, r.ok ? "accepts" : "refuses");
    }
    int gen_precision() {
        switch (c.weighted({8, 4, 1})) {
        case 0: return (int)c.range(1, 40);
        case 1: return VNACAL_MAX_PRECISION;
        default: return (int[]){41, 64, 100, 350, 999}[c.draw(5)];
        }
    }
    void op_precision() {
        bool fset = c.boolean();
        if (c.chance(1, 10)) {
            int bad = (int[]){0, -1, -1000}[c.draw(3)];
            c.note("set_%cprecision(%d)  [refused]", fset ? 'f' : 'd', bad);
            int rc = fset ? vnacal_set_fprecision(A.v, bad) : vnacal_set_dprecision(A.v, bad);
            PBT_CHECK(c, rc == -1, "C07.bad_precision_accepted", "vnacal_set_%cprecision(%d) returned %d", fset ? 'f' : 'd', bad, rc);
            return;
        }
        int p = gen_precision();
        c.note("set_%cprecision(%s)", fset ? 'f' : 'd', p == VNACAL_MAX_PRECISION ? "MAX" : std::to_string(p).c_str());
        log.clear();
        int rc = fset ? vnacal_set_fprecision(A.v, p) : vnacal_set_dprecision(A.v, p);
        PBT_CHECK(c, rc == 0, "C07.setter_refused", "vnacal_set_%cprecision(%d) failed: %s", fset ? 'f' : 'd', p, ascii_only(log.text()).c_str());
        (fset ? pf : pd) = p;
    }

    void run() {
        int st = c.weighted({2, 8, 1});
        if (st == 0) { start_created(); c.label("start:create"); }
        else if (st == 1) { if (!start_from_file()) return; }
        else { c.note("vnacal_load(compat-V2.vnacal of the library's test suite)"); c.label("start:compat-V2.vnacal"); start_from_text(COMPAT_V2, "compat-V2.vnacal"); for (auto &kv : cals) kv.second.conditioned = true; }
        size_t mean = (size_t)(2 + c.size / 12);
        for (size_t n = 0; (c.mark(), c.more(n, mean, 40)); n++) {
            step++;
            switch (c.weighted({4, 2, 4, 5, 3})) {
            case 0: op_add_solved(); break;
            case 1: op_delete_cal(); break;
            case 2: op_property(); break;
            case 3: op_precision(); break;
            default: roundtrip(true); break;
            }
        }
        roundtrip(false);
        if (f_multi || f_delrep || f_prec || f_props) c.nontrivial();
        if (f_multi) c.label(">=2-calibrations-saved");
        if (f_props) c.label("non-empty-property-tree");
        if (f_prec) c.label("non-default-precision");
    }
};

} // namespace

void pbt_property(Ctx &c) {
    H h(c);
    h.run();
}
