// C08 -- equivalent spellings of a Touchstone / NPD file load to the same network data.
//
// A ground truth (type S/Z/Y/H/G, ports, frequencies, z0, values) is written twice by the
// independent writer tsio in randomly chosen equivalent spellings (unit, RI/MA/DB, option-line
// order and defaults, letter case, comments, blank lines, spacing, CRLF, v1/v2 framing,
// Full/Upper/Lower, 12_21/21_12, noise blocks, [Reference] layout, keyword order, NPD header
// order and column groups).  Oracle: both load (rc 0, no non-warning callback) to the truth and
// to each other within c*eps*kappa.
//
// Side mode: with C08_DUMP_CORPUS=<dir> in the environment the executable writes a deterministic
// seed corpus of small valid files into <dir> and exits (used for corpus/vnadata).
#include "pbt.hpp"
#include <string>
#include <vector>
#include <algorithm>
#include <set>
#include <sys/stat.h>
#include "vna.hpp"
#include "tsio.hpp"

const char *PBT_PROPERTY = "C08";
using namespace pbt;
using namespace tsconv;

namespace {

const double EPS = 2.220446049250313e-16;
const double C_POLAR = 512;     // MA / DB round trip and v1 (un)normalisation: C_POLAR * eps * kappa * |v|

struct CtxChooser : tsio::Chooser { Ctx &c; explicit CtxChooser(Ctx &c_) : c(c_) {} uint64_t draw(uint64_t n) override { return c.draw(n); } };
struct VD { vnadata_t *v = nullptr; ~VD() { if (v) vnadata_free(v); } };

struct Spelling {
    int family = tsio::K_TS1;           // K_TS1 | K_TS2 | K_NPD
    tsio::TsStyle ts;
    tsio::NpdStyle npd;
    std::string filename; int set_ft = -1;
    std::string text;
    std::string desc;
    // per-cell kappa: 0 = exact
    int main_fmt = F_RI;
};

// ---- truth and spelling generation over an abstract chooser (shared with the corpus dumper) ----
struct Gen {
    tsio::Chooser &c;
    explicit Gen(tsio::Chooser &c_) : c(c_) {}
    uint64_t range(uint64_t lo, uint64_t hi) { return lo + c.draw(hi - lo + 1); }
    bool chance(unsigned a, unsigned b) { return c.chance(a, b); }
    int weighted(std::initializer_list<unsigned> w) { unsigned tot = 0; for (unsigned x : w) tot += x; uint64_t r = c.draw(tot); int i = 0; for (unsigned x : w) { if (r < x) return i; r -= x; i++; } return i - 1; }
    double unit() { return (double)c.draw(1ull << 53) / (double)(1ull << 53); }
    double real(double lo, double hi) { return lo + (hi - lo) * unit(); }

    void truth(tsio::Truth &t, bool &npd_only, bool &symmetric) {
        npd_only = chance(1, 6);
        t.param = (int[]){P_S, P_Z, P_Y, P_H, P_G}[weighted({6, 3, 3, 2, 2})];
        if (t.param == P_H || t.param == P_G) t.ports = 2;
        else t.ports = 1 + weighted({4, 8, 4, 4, 1, 1, 1, 1});
        int n = t.ports;
        int F = 1 + weighted({2, 4, 3, 2, 1});
        // frequencies: ascending multiples of a decimal step (so that the scaled spellings are natural)
        t.f.assign(F, 0);
        double step = pow(10.0, (double)range(0, 9));
        uint64_t k = chance(1, 10) ? 0 : range(1, 999);
        for (int i = 0; i < F; i++) { if (i) k += range(1, 500); t.f[i] = (double)k * step * (chance(1, 4) ? 1.0 + unit() * 1e-3 : 1.0); if (i && !(t.f[i] > t.f[i - 1])) t.f[i] = t.f[i - 1] * 1.5; }
        // reference impedances
        int zm = npd_only ? weighted({1, 1, 3, 3}) : weighted({6, 3});     // equal real, unequal real, complex, per-frequency
        if (n == 1 && zm == 1) zm = 0;
        auto rz = [&]() -> double { switch (weighted({4, 1, 1, 2})) { case 0: return 50; case 1: return 75; case 2: return 1; default: return std::floor(real(1, 2000)) / 4; } };
        t.per_freq_z0 = false; t.z0.assign(n, tsio::cd(50, 0)); t.fz0.clear();
        if (zm == 0) { double r = rz(); for (auto &z : t.z0) z = r; }
        else if (zm == 1) { for (auto &z : t.z0) z = rz(); if (t.z0[0] == t.z0[n - 1]) t.z0[n - 1] = t.z0[0].real() + 25; }
        else if (zm == 2) { for (auto &z : t.z0) z = tsio::cd(rz(), chance(1, 3) ? 0 : std::floor(real(-400, 400)) / 8); }
        else { t.per_freq_z0 = true; t.fz0.assign(F, std::vector<tsio::cd>(n)); for (auto &r : t.fz0) for (auto &z : r) z = tsio::cd(rz(), chance(1, 3) ? 0 : std::floor(real(-400, 400)) / 8); }
        // values
        symmetric = n >= 2 && chance(1, 2);
        t.data.assign(F, std::vector<tsio::cd>((size_t)n * n));
        double e0 = real(-3, 3);
        for (auto &m : t.data) {
            for (int r = 0; r < n; r++) for (int q = 0; q < n; q++) {
                double mag = pow(10.0, e0 + real(-1, 1)), ph = real(-3.141592653589793, 3.141592653589793);
                tsio::cd v = chance(1, 5) ? tsio::cd(std::floor(real(-999, 999)) / 64, std::floor(real(-999, 999)) / 64) : std::polar(mag, ph);
                if (v == tsio::cd(0, 0)) v = tsio::cd(0.5, -0.25);
                m[(size_t)r * n + q] = v;
            }
            if (symmetric) for (int r = 0; r < n; r++) for (int q = 0; q < r; q++) m[(size_t)r * n + q] = m[(size_t)q * n + r];
        }
    }

    // compute the number columns of an NPD group from the truth (tsconv), false if undefined
    static bool npd_columns(const tsio::Truth &t, const tsio::NpdGroup &g, std::vector<std::vector<double>> &out) {
        int n = t.ports, F = (int)t.f.size();
        out.assign(F, std::vector<double>());
        for (int fi = 0; fi < F; fi++) {
            std::vector<cl> N((size_t)n * n), zz(n), M;
            for (size_t i = 0; i < N.size(); i++) N[i] = cl(t.data[fi][i].real(), t.data[fi][i].imag());
            for (int k = 0; k < n; k++) { tsio::cd z = t.per_freq_z0 ? t.fz0[fi][k] : t.z0[k]; zz[k] = cl(z.real(), z.imag()); }
            if (g.param == P_ZIN) { if (!to_zin(t.param, n, N, zz.data(), M)) return false; }
            else if (!convert(t.param, n, N, zz.data(), g.param, M)) return false;
            auto push = [&](ld x) { out[fi].push_back((double)x); };
            if (g.fmt == F_IL) { for (int r = 0; r < n; r++) for (int q = 0; q < n; q++) if (r != q) push(insertion_loss(M[(size_t)r * n + q])); }
            else if (g.fmt == F_RL) { for (int k = 0; k < n; k++) push(return_loss(M[(size_t)k * n + k])); }
            else if (g.fmt == F_VSWR) { for (int k = 0; k < n; k++) push(vswr(M[(size_t)k * n + k])); }
            else for (auto &v : M) { ld o[2]; encode(g.fmt, v, (ld)t.f[fi], o); push(o[0]); push(o[1]); }
            for (double x : out[fi]) if (!std::isfinite(x)) return false;
        }
        return true;
    }

    void spelling(const tsio::Truth &t, bool npd_only, bool symmetric, Spelling &s, std::vector<std::vector<std::vector<double>>> &cols) {
        int n = t.ports;
        std::vector<int> fam;
        if (!npd_only && tsio::ts_writable(t, 1)) fam.push_back(tsio::K_TS1);
        if (!npd_only && tsio::ts_writable(t, 2)) fam.push_back(tsio::K_TS2);
        fam.push_back(tsio::K_NPD);
        if (fam.size() > 1 && !chance(1, 5)) fam.pop_back();           // prefer Touchstone when it can hold the truth
        s.family = fam[c.draw(fam.size())];
        int decor = weighted({2, 3, 3});
        bool crlf = decor > 0 && chance(1, 10);
        char b[200];
        if (s.family != tsio::K_NPD) {
            tsio::TsStyle &st = s.ts;
            st = tsio::TsStyle();
            st.version = s.family == tsio::K_TS1 ? 1 : 2;
            st.unit = weighted({3, 2, 3, 3});
            st.fmt = (int[]){F_RI, F_MA, F_DB}[weighted({4, 3, 3})];
            st.decor = decor; st.crlf = crlf;
            if (st.version == 2) {
                if (symmetric && chance(2, 3)) st.matrix_format = chance(1, 2) ? 'U' : 'L';
                if (n == 2) st.order_21_12 = chance(1, 2);
                st.explicit_reference = chance(1, 5);
            }
            if (n == 2 && chance(1, 5)) st.noise_rows = (int)range(1, 3);
            s.main_fmt = st.fmt;
            // file name: the version is taken from the contents
            switch (weighted({5, 3, 1, 1})) {
            case 0: snprintf(b, sizeof b, st.version == 1 ? "x.s%dp" : "x.ts", n); break;
            case 1: snprintf(b, sizeof b, st.version == 1 ? "x.ts" : "x.s%dp", n); break;
            case 2: snprintf(b, sizeof b, "x.s2p"); break;                // .s2p is a wildcard for the port count
            default: snprintf(b, sizeof b, "data.txt"); s.set_ft = chance(1, 2) ? VNADATA_FILETYPE_TOUCHSTONE1 : VNADATA_FILETYPE_TOUCHSTONE2; break;
            }
            s.filename = b;
            s.text = tsio::write_touchstone(t, st, c);
            static const char *un[] = {"Hz", "kHz", "MHz", "GHz"};
            snprintf(b, sizeof b, "touchstone v%d unit=%s fmt=%s matrix=%c order=%s noise=%d decor=%d crlf=%d name=%s", st.version, un[st.unit], tsio::fmt_name(st.fmt), st.matrix_format, st.order_21_12 ? "21_12" : "12_21", st.noise_rows, decor, (int)crlf, s.filename.c_str());
            s.desc = b;
        } else {
            tsio::NpdStyle &st = s.npd;
            st = tsio::NpdStyle();
            st.decor = decor; st.crlf = crlf; st.key_block = !chance(1, 3);
            // the group that carries the truth, plus optional further views of the same network
            int mf = is_power(t.param) ? (int[]){F_RI, F_MA, F_DB}[weighted({4, 3, 3})] : (int[]){F_RI, F_MA}[weighted({4, 3})];
            s.main_fmt = mf;
            std::vector<tsio::NpdGroup> gs; gs.push_back(tsio::NpdGroup{t.param, mf});
            while (gs.size() < 4 && chance(1, 3)) {
                tsio::NpdGroup g{t.param, F_RI};
                switch (weighted({3, 2, 2, 2})) {
                case 0: g.fmt = (int[]){F_RI, F_MA, F_DB}[c.draw(is_power(t.param) ? 3 : 2)]; break;           // same parameter, other encoding
                case 1: g.param = P_S; g.fmt = (int)range(n >= 2 ? F_IL : F_RL, F_VSWR); break;                   // scalar views
                case 2: g.param = P_ZIN; g.fmt = chance(1, 2) ? F_RI : F_MA; break;
                default: g.param = P_ZIN; g.fmt = (int)range(F_PRC, F_SRL); break;
                }
                if (fmt_is_zin_view(g.fmt) && t.f[0] == 0) continue;
                gs.push_back(g);
            }
            // keep only groups whose numbers are defined and finite for this truth
            cols.clear(); st.groups.clear();
            for (auto &g : gs) { std::vector<std::vector<double>> cc; if (npd_columns(t, g, cc)) { st.groups.push_back(g); cols.push_back(cc); } }
            if (decor) {   // any order of the groups
                for (size_t i = 0; i + 1 < st.groups.size(); i++) { size_t j = i + (size_t)c.draw(st.groups.size() - i); if (j != i) { std::swap(st.groups[i], st.groups[j]); std::swap(cols[i], cols[j]); } }
            }
            // among equally good encodings of the truth's parameter the file must be unambiguous:
            // all groups of the truth's parameter hold the same network, so any choice is the truth
            switch (weighted({5, 2, 2})) {
            case 0: s.filename = "x.npd"; break;
            case 1: s.filename = "x"; break;                        // unknown type, nothing set: NPD is the default
            default: s.filename = "data.txt"; s.set_ft = VNADATA_FILETYPE_NPD; break;
            }
            s.text = tsio::write_npd(t, st, cols, c);
            std::string gl; for (auto &g : st.groups) gl += tsio::specifier_name(g.param, g.fmt) + ",";
            snprintf(b, sizeof b, "npd groups=%s key_block=%d decor=%d crlf=%d name=%s", gl.c_str(), (int)st.key_block, decor, (int)crlf, s.filename.c_str());
            s.desc = b;
        }
    }
};

struct H {
    Ctx &c;
    ErrLog log;
    tsio::Truth t; bool npd_only = false, symmetric = false;
    H(Ctx &c_) : c(c_) {}

    static bool ts1_scaled(int param, int r, int q) { return param == P_Z || param == P_Y || ((param == P_H || param == P_G) && r == q); }

    // tolerance (absolute) of one loaded cell for a spelling
    double cell_tol(const Spelling &s, int fi, int r, int q) {
        tsio::cd v = t.data[fi][(size_t)r * t.ports + q];
        double kappa = 0;
        if (s.main_fmt == F_MA) kappa = 1;
        if (s.main_fmt == F_DB) kappa = 1 + 0.1152 * fabs(20 * log10(std::abs(v)));
        if (s.family == tsio::K_TS1 && ts1_scaled(t.param, r, q)) kappa += 1;
        return C_POLAR * EPS * kappa * std::abs(v);
    }

    void load_and_compare(Spelling &s, VD &d, const char *tag) {
        d.v = vnadata_alloc(errlog_fn, &log);
        PBT_CHECK(c, d.v != nullptr, "C08.setup", "vnadata_alloc failed");
        if (s.set_ft >= 0) vnadata_set_filetype(d.v, (vnadata_filetype_t)s.set_ft);
        log.clear();
        FILE *fp = fmemopen((void *)s.text.data(), s.text.size(), "r");
        PBT_CHECK(c, fp != nullptr, "C08.setup", "fmemopen failed");
        int rc = vnadata_fload(d.v, fp, s.filename.c_str());
        fclose(fp);
        PBT_CHECK(c, rc == 0 && log.n_nonwarning() == 0, "C08.valid_file_rejected", "spelling %s (%s): vnadata_fload returned %d: %s", tag, s.desc.c_str(), rc, log.text().c_str());
        int n = t.ports, F = (int)t.f.size();
        PBT_CHECK(c, (int)vnadata_get_type(d.v) == t.param, "C08.type", "spelling %s (%s): loaded type %s, truth %s", tag, s.desc.c_str(), type_name(vnadata_get_type(d.v)), pname(t.param));
        PBT_CHECK(c, vnadata_get_rows(d.v) == n && vnadata_get_columns(d.v) == n && vnadata_get_frequencies(d.v) == F, "C08.dims", "spelling %s (%s): loaded %dx%d F=%d, truth %dx%d F=%d", tag, s.desc.c_str(), vnadata_get_rows(d.v), vnadata_get_columns(d.v), vnadata_get_frequencies(d.v), n, n, F);
        bool scaled_f = s.family != tsio::K_NPD && s.ts.unit != 0;
        for (int fi = 0; fi < F; fi++) {
            double lf = vnadata_get_frequency(d.v, fi);
            double tol = scaled_f ? 4 * EPS * t.f[fi] : 0;
            if (scaled_f && t.f[fi] > 0) c.track_max("freq_err/eps", fabs(lf - t.f[fi]) / (EPS * t.f[fi]));
            PBT_CHECK(c, fabs(lf - t.f[fi]) <= tol, "C08.frequency", "spelling %s (%s): frequency %d loaded as %.17g, truth %.17g", tag, s.desc.c_str(), fi, lf, t.f[fi]);
        }
        PBT_CHECK(c, (bool)vnadata_has_fz0(d.v) == t.per_freq_z0, "C08.z0_mode", "spelling %s (%s): per-frequency z0 %d, truth %d", tag, s.desc.c_str(), (int)vnadata_has_fz0(d.v), (int)t.per_freq_z0);
        for (int fi = 0; fi < F; fi++) for (int k = 0; k < n; k++) {
            dcx z = vnadata_get_fz0(d.v, fi, k);
            tsio::cd tz = t.per_freq_z0 ? t.fz0[fi][k] : t.z0[k];
            PBT_CHECK(c, re_(z) == tz.real() && im_(z) == tz.imag(), "C08.z0", "spelling %s (%s): z0 of port %d at frequency %d loaded as %.17g%+.17gj, truth %.17g%+.17gj", tag, s.desc.c_str(), k + 1, fi, re_(z), im_(z), tz.real(), tz.imag());
        }
        for (int fi = 0; fi < F; fi++) for (int r = 0; r < n; r++) for (int q = 0; q < n; q++) {
            dcx v = vnadata_get_cell(d.v, fi, r, q);
            tsio::cd tv = t.data[fi][(size_t)r * n + q];
            double err = std::abs(tocd(v) - tv), tol = cell_tol(s, fi, r, q);
            if (tol > 0) c.track_max("value_err/tol", err / tol);
            PBT_CHECK(c, err <= tol, "C08.value", "spelling %s (%s): cell (%d,%d) at frequency %d loaded as %.17g%+.17gj, truth %.17g%+.17gj (|diff| %.3g > tol %.3g)", tag, s.desc.c_str(), r + 1, q + 1, fi, re_(v), im_(v), tv.real(), tv.imag(), err, tol);
        }
    }

    // the independent reader must read back what the independent writer wrote (harness self-check)
    void self_check(const Spelling &s, const char *tag) {
        tsio::Parsed P = s.family == tsio::K_NPD ? tsio::read_npd(s.text) : tsio::read_touchstone(s.text);
        PBT_CHECK(c, P.ok, "C08.tsio_selfcheck", "spelling %s (%s): tsio cannot read its own output: %s", tag, s.desc.c_str(), P.err.c_str());
        int n = t.ports, F = (int)t.f.size();
        PBT_CHECK(c, P.kind == s.family && P.ports == n && (int)P.freq.size() == F, "C08.tsio_selfcheck", "spelling %s: kind/ports/F read back as %s/%d/%zu", tag, tsio::kind_name(P.kind), P.ports, P.freq.size());
        const tsio::Group *g = nullptr;
        for (auto &q : P.groups) if (q.param == t.param && q.fmt == s.main_fmt) { g = &q; break; }
        PBT_CHECK(c, g != nullptr, "C08.tsio_selfcheck", "spelling %s: main group not found", tag);
        for (int fi = 0; fi < F; fi++) {
            double fr = P.frequency_hz(fi);
            PBT_CHECK(c, fabs(fr - t.f[fi]) <= 4 * EPS * t.f[fi], "C08.tsio_selfcheck", "spelling %s: frequency %d read back as %.17g", tag, fi, fr);
            for (int i = 0; i < n * n; i++) {
                cl dv; decode(g->fmt, (ld)P.cols[fi][g->col0 + 2 * i].val, (ld)P.cols[fi][g->col0 + 2 * i + 1].val, (ld)fr, dv);
                if (P.kind == tsio::K_TS1) dv = ts1_denormalise(t.param, i / n, i % n, dv, (ld)P.R_value);
                tsio::cd tv = t.data[fi][i];
                double err = (double)std::abs(dv - cl(tv.real(), tv.imag()));
                PBT_CHECK(c, err <= cell_tol(s, fi, i / n, i % n) + 4 * EPS * std::abs(tv), "C08.tsio_selfcheck", "spelling %s: cell %d at frequency %d read back as %.17Lg%+.17Lgj, truth %.17g%+.17gj", tag, i, fi, dv.real(), dv.imag(), tv.real(), tv.imag());
            }
        }
    }

    void run() {
        CtxChooser ch(c);
        Gen g(ch);
        g.truth(t, npd_only, symmetric);
        int n = t.ports, F = (int)t.f.size();
        c.note("truth: %s %dx%d F=%d %s z0 %s%s", pname(t.param), n, n, F, symmetric ? "symmetric" : "general", t.per_freq_z0 ? "per-frequency" : "per-port", npd_only ? " (NPD only)" : "");
        if (c.want_desc) {
            for (int fi = 0; fi < F; fi++) {
                std::string l = "f=" + num(t.f[fi]) + " z0:";
                for (int k = 0; k < n; k++) { tsio::cd z = t.per_freq_z0 ? t.fz0[fi][k] : t.z0[k]; l += " " + num(z.real()) + "," + num(z.imag()); }
                l += " data:";
                for (auto &v : t.data[fi]) l += " " + num(v.real()) + "," + num(v.imag());
                c.note("%s", l.substr(0, 1900).c_str());
            }
        }
        Spelling s[2]; std::vector<std::vector<std::vector<double>>> cols;
        VD d[2];
        for (int k = 0; k < 2; k++) {
            c.mark();
            g.spelling(t, npd_only, symmetric, s[k], cols);
            c.note("spelling %c: %s", 'A' + k, s[k].desc.c_str());
            if (c.want_desc && s[k].text.size() < 1800) c.note("---- %c ----\n%s-----------", 'A' + k, s[k].text.c_str());
        }
        for (int k = 0; k < 2; k++) { self_check(s[k], k ? "B" : "A"); load_and_compare(s[k], d[k], k ? "B" : "A"); }
        // to each other
        for (int fi = 0; fi < F; fi++) {
            PBT_CHECK(c, fabs(vnadata_get_frequency(d[0].v, fi) - vnadata_get_frequency(d[1].v, fi)) <= 8 * EPS * t.f[fi], "C08.pair_frequency", "frequency %d differs between the spellings: %.17g vs %.17g", fi, vnadata_get_frequency(d[0].v, fi), vnadata_get_frequency(d[1].v, fi));
            for (int r = 0; r < n; r++) for (int q = 0; q < n; q++) {
                dcx a = vnadata_get_cell(d[0].v, fi, r, q), b = vnadata_get_cell(d[1].v, fi, r, q);
                double tol = cell_tol(s[0], fi, r, q) + cell_tol(s[1], fi, r, q);
                PBT_CHECK(c, std::abs(tocd(a) - tocd(b)) <= tol, "C08.pair_value", "cell (%d,%d) at frequency %d differs between the spellings: %.17g%+.17gj vs %.17g%+.17gj", r + 1, q + 1, fi, re_(a), im_(a), re_(b), im_(b));
            }
        }
        // classes and the non-trivial rule of DESIGN.md
        bool interesting = false;
        for (int k = 0; k < 2; k++) {
            const Spelling &x = s[k];
            static const char *un[] = {"Hz", "kHz", "MHz", "GHz"};
            if (x.family == tsio::K_NPD) { c.label(std::string("npd:") + tsio::fmt_name(x.main_fmt)); if (x.npd.groups.size() > 1) c.label("npd:multi-group"); if (x.npd.used_decoration) { c.label("decorated"); interesting = true; } if (x.main_fmt != F_RI) interesting = true; }
            else {
                c.label(std::string(x.family == tsio::K_TS1 ? "v1:" : "v2:") + un[x.ts.unit] + ":" + tsio::fmt_name(x.ts.fmt));
                if (x.ts.unit != 0 || x.ts.fmt != F_RI || x.ts.matrix_format != 'F' || x.ts.order_21_12 || x.ts.noise_rows || x.ts.used_decoration || x.ts.used_default) interesting = true;
                if (x.ts.matrix_format != 'F') c.label(x.ts.matrix_format == 'U' ? "v2:Upper" : "v2:Lower");
                if (x.ts.order_21_12) c.label("v2:21_12");
                if (x.ts.noise_rows) c.label(x.family == tsio::K_TS1 ? "v1:noise" : "v2:noise");
                if (x.ts.used_default) c.label("option-default");
                if (x.ts.used_decoration) c.label("decorated");
                if (x.ts.crlf) c.label("crlf");
                if (x.family == tsio::K_TS1 && n == 4) c.label("v1:4-port");
            }
        }
        if (s[0].family != s[1].family) c.label("pair:mixed-framing");
        if (interesting && F >= 2) c.nontrivial();
    }
    static std::string num(double x) { char b[40]; snprintf(b, sizeof b, "%.17g", x); return b; }
};

} // namespace

void pbt_property(Ctx &c) {
    H h(c);
    h.run();
}

// ---- corpus side mode --------------------------------------------------------------------------
// Deterministic: candidates come from fixed seeds; a candidate is kept when it shows a feature
// (framing x unit, framing x encoding, Upper/Lower, 21_12, noise, CRLF, multi-group NPD,
// per-frequency z0, ...) that no earlier file has, then the set is filled up to 48 files.
void pbt_global_setup() {
    const char *dir = getenv("C08_DUMP_CORPUS");
    if (!dir || !*dir) return;
    mkdir(dir, 0777);
    std::set<std::string> seen;
    int written = 0;
    auto emit = [&](const Spelling &s, const tsio::Truth &t) {
        char name[512];
        if (s.family == tsio::K_TS1) snprintf(name, sizeof name, "%s/tsio-%02d-v1.s%dp", dir, written, t.ports);
        else snprintf(name, sizeof name, "%s/tsio-%02d-%s", dir, written, s.family == tsio::K_TS2 ? "v2.ts" : "npd.npd");
        FILE *fp = fopen(name, "w");
        if (!fp) { perror(name); _exit(1); }
        fwrite(s.text.data(), 1, s.text.size(), fp);
        fclose(fp);
        written++;
    };
    for (int pass = 0; pass < 2; pass++) {
        for (uint64_t seed = 1; seed <= 600 && written < 48; seed++) {
            tsio::SeededChooser ch(seed * 0x9E3779B97F4A7C15ull + (uint64_t)pass * 7919);
            Gen g(ch);
            tsio::Truth t; bool npd_only, symmetric;
            g.truth(t, npd_only, symmetric);
            if (t.ports > 4 || t.f.size() > 3) continue;
            Spelling s; std::vector<std::vector<std::vector<double>>> cols;
            g.spelling(t, npd_only, symmetric, s, cols);
            if (s.text.size() >= 2048) continue;
            static const char *un[] = {"Hz", "kHz", "MHz", "GHz"};
            std::vector<std::string> feat;
            std::string fam = tsio::kind_name(s.family);
            feat.push_back(fam + ":ports" + std::to_string(t.ports));
            feat.push_back(fam + ":" + pname(t.param));
            if (s.family == tsio::K_NPD) {
                feat.push_back(fam + ":" + tsio::fmt_name(s.main_fmt));
                for (auto &q : s.npd.groups) feat.push_back(fam + ":group:" + tsio::specifier_name(q.param, q.fmt));
                if (t.per_freq_z0) feat.push_back("npd:per-frequency-z0");
                if (!s.npd.key_block) feat.push_back("npd:no-key-block");
                if (s.npd.crlf) feat.push_back("npd:crlf");
            } else {
                feat.push_back(fam + ":" + un[s.ts.unit]); feat.push_back(fam + ":" + tsio::fmt_name(s.ts.fmt));
                if (s.ts.matrix_format != 'F') feat.push_back(fam + ":" + std::string(1, s.ts.matrix_format));
                if (s.ts.order_21_12) feat.push_back(fam + ":21_12");
                if (s.ts.noise_rows) feat.push_back(fam + ":noise");
                if (s.ts.crlf) feat.push_back(fam + ":crlf");
                if (s.ts.used_default) feat.push_back(fam + ":default-option");
                if (s.ts.explicit_reference) feat.push_back(fam + ":reference");
                if (s.ts.decor == 0) feat.push_back(fam + ":plain");
            }
            bool fresh = false;
            for (auto &f : feat) if (!seen.count(f)) fresh = true;
            if (pass == 0 && !fresh) continue;
            for (auto &f : feat) seen.insert(f);
            emit(s, t);
        }
    }
    {   // the legacy "#:rows / #:columns" NPD header the loader accepts for compatibility
        tsio::PlainChooser ch; Gen g(ch);
        tsio::Truth t; t.param = P_S; t.ports = 2; t.f = {1e6, 2e6}; t.z0.assign(2, tsio::cd(50, 0));
        t.data = {{tsio::cd(0.1, 0.2), tsio::cd(0.9, 0), tsio::cd(0.9, 0), tsio::cd(-0.1, 0.05)}, {tsio::cd(0.2, 0.1), tsio::cd(0.8, -0.1), tsio::cd(0.8, -0.1), tsio::cd(0, 0.1)}};
        Spelling s; s.family = tsio::K_NPD; s.npd.groups = {tsio::NpdGroup{P_S, F_RI}}; s.npd.legacy_rows_columns = true;
        std::vector<std::vector<std::vector<double>>> cols(1);
        Gen::npd_columns(t, s.npd.groups[0], cols[0]);
        s.text = tsio::write_npd(t, s.npd, cols, ch);
        emit(s, t);
    }
    fprintf(stderr, "C08: wrote %d corpus files to %s (%zu distinct features)\n", written, dir, seen.size());
    _exit(0);
}
