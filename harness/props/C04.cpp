// C04 -- every vnaconv_* conversion yields the same physical network.
//
// Oracle (DESIGN.md section 3, C04), reference = convref.hpp (defining port relations of vnaconv(3)):
//   (i)   the output matrix satisfies its own defining relation on the states allowed by the input
//         matrix (null space of the input's constraint), bound C_REL * eps * kappa;
//   (ii)  out == in (aliased) gives a bit-identical result to the non-aliased call;
//   (iii) converting back with the inverse function returns the input;
//   (iv)  n-port functions at n = 2 agree with the two-port functions;
//   (v)   ...zi / ...zin equal v_k / i_k of the state with every other port terminated in its z0.
// All comparisons of computed values are made in normalised units (see convref.hpp) with a
// tolerance c * eps * kappa, kappa computed per case by refla/convref.
#include "pbt.hpp"
#include <cfloat>
#include <string>
#include <vector>
#include "vna.hpp"
#include "refla.hpp"
#include "convref.hpp"

const char *PBT_PROPERTY = "C04";

using namespace pbt;
using refla::C;
using refla::Mat;
using refla::real;

static_assert(VPT_S == convref::P_S && VPT_T == convref::P_T && VPT_U == convref::P_U && VPT_Z == convref::P_Z &&
              VPT_Y == convref::P_Y && VPT_H == convref::P_H && VPT_G == convref::P_G && VPT_A == convref::P_A &&
              VPT_B == convref::P_B && VPT_ZIN == convref::P_ZIN, "type numbering");

namespace {

// ---- calibrated constants (see notes/agent-conv.md for the observed maxima) -------------------
const double EPS = DBL_EPSILON;
const double KAPPA_CAP = 1e6;     // cases whose conversion is closer than this to its singular set are rebuilt
const double C_REL = 1000;        // (i)   relation error      <= C_REL * eps * kappa_fwd
const double C_RT = 1000;         // (iii) round trip error    <= C_RT  * eps * (kappa_back + sens_back * kappa_fwd)
const double C_NP2 = 1000;        // (iv)  n-port vs two-port  <= C_NP2 * eps * kappa_fwd
const double C_ZI = 1000;         // (v)   zin error / |z0|    <= C_ZI  * eps * kappa_zin

// ---- the 90 functions, keyed by their names --------------------------------------------------
typedef void (*F2)(const dcx (*)[2], dcx (*)[2]);
typedef void (*F2Z)(const dcx (*)[2], dcx (*)[2], const dcx *);
typedef void (*F2I)(const dcx (*)[2], dcx *, const dcx *);
typedef void (*FN)(const dcx *, dcx *, int);
typedef void (*FNZ)(const dcx *, dcx *, const dcx *, int);
enum Kind { K2, K2Z, K2I, KN, KNZ, KNI };

struct Func {
    const char *name; int src, dst; Kind kind;
    F2 f2 = nullptr; F2Z f2z = nullptr; F2I f2i = nullptr; FN fn = nullptr; FNZ fnz = nullptr;
    bool nport() const { return kind == KN || kind == KNZ || kind == KNI; }
    bool takes_z0() const { return kind != K2 && kind != KN; }
    bool to_zin() const { return kind == K2I || kind == KNI; }
};
// the kind follows from the C signature declared in vnaconv.h (overload resolution)
Func mk(const char *n, int s, int d, F2 f) { Func x{n, s, d, K2}; x.f2 = f; return x; }
Func mk(const char *n, int s, int d, F2Z f) { Func x{n, s, d, K2Z}; x.f2z = f; return x; }
Func mk(const char *n, int s, int d, F2I f) { Func x{n, s, d, K2I}; x.f2i = f; return x; }
Func mk(const char *n, int s, int d, FN f) { Func x{n, s, d, KN}; x.fn = f; return x; }
Func mk(const char *n, int s, int d, FNZ f) { Func x{n, s, d, d == VPT_ZIN ? KNI : KNZ}; x.fnz = f; return x; }

enum { T_s = VPT_S, T_t = VPT_T, T_u = VPT_U, T_z = VPT_Z, T_y = VPT_Y, T_h = VPT_H, T_g = VPT_G, T_a = VPT_A, T_b = VPT_B };
#define CV(a, b) mk("vnaconv_" #a "to" #b, T_##a, T_##b, vnaconv_##a##to##b)
#define CVI(a) mk("vnaconv_" #a "tozi", T_##a, VPT_ZIN, vnaconv_##a##tozi)
#define CVN(a, b) mk("vnaconv_" #a "to" #b "n", T_##a, T_##b, vnaconv_##a##to##b##n)
#define CVIN(a) mk("vnaconv_" #a "tozin", T_##a, VPT_ZIN, vnaconv_##a##tozin)
#define ROW(a, b1, b2, b3, b4, b5, b6, b7, b8) CV(a, b1), CV(a, b2), CV(a, b3), CV(a, b4), CV(a, b5), CV(a, b6), CV(a, b7), CV(a, b8)

const std::vector<Func> &funcs() {
    static const std::vector<Func> v = {
        ROW(s, t, u, z, y, h, g, a, b), ROW(t, s, u, z, y, h, g, a, b), ROW(u, s, t, z, y, h, g, a, b),
        ROW(z, s, t, u, y, h, g, a, b), ROW(y, s, t, u, z, h, g, a, b), ROW(h, s, t, u, z, y, g, a, b),
        ROW(g, s, t, u, z, y, h, a, b), ROW(a, s, t, u, z, y, h, g, b), ROW(b, s, t, u, z, y, h, g, a),
        CVI(s), CVI(t), CVI(u), CVI(z), CVI(y), CVI(h), CVI(g), CVI(a), CVI(b),
        CVN(s, z), CVN(s, y), CVN(z, s), CVN(z, y), CVN(y, s), CVN(y, z),
        CVIN(s), CVIN(z), CVIN(y),
    };
    return v;
}
const Func *find_func(int src, int dst, bool nport) {
    for (auto &f : funcs()) if (f.src == src && f.dst == dst && f.nport() == nport) return &f;
    return nullptr;
}

void call(const Func &f, const dcx *in, dcx *out, const dcx *z0, int n) {
    switch (f.kind) {
    case K2: f.f2((const dcx(*)[2])in, (dcx(*)[2])out); break;
    case K2Z: f.f2z((const dcx(*)[2])in, (dcx(*)[2])out, z0); break;
    case K2I: f.f2i((const dcx(*)[2])in, out, z0); break;
    case KN: f.fn(in, out, n); break;
    case KNZ: case KNI: f.fnz(in, out, z0, n); break;
    }
}

Mat to_mat(const std::vector<dcx> &v, int r, int c) { Mat m(r, c); for (int i = 0; i < r * c; i++) m.a[i] = C(re_(v[i]), im_(v[i])); return m; }
bool all_finite(const std::vector<dcx> &v) { for (auto z : v) if (!std::isfinite(re_(z)) || !std::isfinite(im_(z))) return false; return true; }
bool same_bits_vec(const std::vector<dcx> &a, const std::vector<dcx> &b, size_t n) { return memcmp(a.data(), b.data(), n * sizeof(dcx)) == 0; }

std::string fmt_mat(const std::vector<dcx> &v, int r, int c) {
    std::string s; char b[96];
    for (int i = 0; i < r; i++) { s += i ? "; " : "["; for (int j = 0; j < c; j++) { snprintf(b, sizeof b, "%s%.17g%+.17gi", j ? ", " : "", re_(v[i * c + j]), im_(v[i * c + j])); s += b; } }
    return s + "]";
}

struct Case {
    Ctx &c;
    const Func *f = nullptr;
    int n = 2;
    int zclass = 0;
    std::vector<dcx> z0;            // as passed to the library
    std::vector<C> zo;              // reference impedances used by the oracle
    std::vector<dcx> in;            // input matrix (n x n)
    explicit Case(Ctx &c_) : c(c_) {}

    dcx gen_z0_value(bool complex_ok) {
        // Re z0 in [1, 500], Im z0 in [-200, 200]; simplest 50
        double re, im = 0;
        switch (c.weighted({3, 2, 3})) {
        case 0: re = 50; break;
        case 1: re = (double)c.range(1, 500); break;
        default: re = c.real(1, 500); break;
        }
        if (complex_ok) im = c.boolean() ? (double)c.range(-200, 200) : c.real(-200, 200);
        return mkc(re, im);
    }
    void gen_z0() {
        zclass = c.weighted({2, 2, 4});      // equal real | equal complex | all different
        z0.assign(n, mkc(50, 0));
        if (zclass == 0) { dcx z = gen_z0_value(false); for (auto &x : z0) x = z; }
        else if (zclass == 1) { dcx z = gen_z0_value(true); for (auto &x : z0) x = z; }
        else for (auto &x : z0) x = gen_z0_value(c.chance(3, 4));
    }
    C gen_entry(int mode) {
        if (mode == 0) return C((real)c.range(-4, 4) / 2, (real)c.range(-4, 4) / 2);
        return C(c.real(-1, 1), c.real(-1, 1));
    }
    // n independent states in normalised coordinates (2n x n), then physical
    Mat gen_states() {
        int mode = c.weighted({2, 4, 3});    // small dyadic | uniform | passive-ish via waves
        Mat X(2 * n, n);
        if (mode < 2) { for (auto &z : X.a) z = gen_entry(mode); }
        else {
            // a = unit incident waves, b = Sn a with |entries of Sn| <= 1/sqrt(n) (passive-ish);
            // v = (Z* a + Z b)/(K Re Z), i = (a - b)/(K Re Z) as tabulated in vnaconv(3), then normalised
            real lim = 1 / sqrtl((real)n);
            for (int k = 0; k < n; k++)
                for (int j = 0; j < n; j++) {
                    C a = C(k == j ? 1 : 0), b = C(c.real(-1, 1) * lim, c.real(-1, 1) * lim);
                    C Z(re_(z0[k]), im_(z0[k])); real K = 1 / sqrtl(fabsl(Z.re)), m = sqrtl(refla::abs(Z));
                    C v = (refla::conj(Z) * a + Z * b) / C(K * Z.re), i = (a - b) / C(K * Z.re);
                    X(k, j) = v / C(m); X(n + k, j) = i * C(m);
                }
        }
        c.label(mode == 0 ? "states:dyadic" : mode == 1 ? "states:uniform" : "states:passive-waves");
        if (c.chance(1, 4)) {
            // impedance level of the network different from the reference impedances (towards
            // open / short circuits as seen from z0): voltages * sqrt(level), currents / sqrt(level)
            real lv = sqrtl(powl(10, c.real(-2, 2)));
            for (int i = 0; i < n; i++) for (int j = 0; j < n; j++) { X(i, j) = X(i, j) * C(lv); X(n + i, j) = X(n + i, j) / C(lv); }
            c.label("states:impedance-level-shifted");
        }
        std::vector<real> s = convref::sigma(zgen());
        for (int i = 0; i < 2 * n; i++) for (int j = 0; j < n; j++) X(i, j) = X(i, j) * C(s[i]);
        return X;
    }
    std::vector<C> zgen() const { std::vector<C> z; for (auto x : z0) z.push_back(C(re_(x), im_(x))); return z; }

    void run() {
        const auto &fs = funcs();
        f = &fs[c.draw(fs.size())];
        c.label(f->name);
        if (f->nport()) { static const int ns[] = {2, 1, 3, 4, 5, 6}; n = ns[c.weighted({3, 1, 3, 2, 2, 1})]; }
        gen_z0();
        // impedances used by the oracle: the function's z0 when it takes one; the relation of a
        // conversion without z0 does not depend on the reference impedances at all, so any
        // positive-real choice decides it: 1 for wave<->wave, |z0| (units only) for v/i<->v/i
        zo = zgen();
        if (!f->takes_z0()) for (auto &z : zo) z = convref::is_wave_type(f->src) ? C(1) : C(refla::abs(z));

        // Functions that take z0 work through power waves; with a reactive reference impedance the
        // wave representation itself loses a factor |Z|/Re Z (a - b = K Re(Z) i is a small difference
        // of quantities of size K |Z| i), whatever the source and destination types are.
        double gamma = 1;
        if (f->takes_z0()) for (auto &z : zo) gamma = std::max(gamma, (double)(refla::abs(z) / fabsl(z.re)));

        convref::Analysis an; convref::ZinAnalysis za;
        int attempts = 0; bool built = false;
        for (; attempts < 6 && !built; attempts++) {
            c.mark();
            Mat Nin;
            if (c.chance(1, 5)) {
                // the input matrix itself from small dyadic numbers (zeros included) in normalised units:
                // the states with E_src u = unit vectors, D_src u = columns of the matrix
                convref::RelHat h; convref::relation_hat(f->src, zgen(), h);
                Mat Nh(n, n); for (auto &z : Nh.a) z = c.chance(1, 4) ? C(0) : gen_entry(0);
                Nin = convref::from_hat(Nh, h.wD, h.wE);
                c.label("states:matrix-dyadic");
            } else {
                Mat U = gen_states();
                bool ok; real ksrc;
                Nin = convref::from_states(f->src, U, zgen(), &ok, &ksrc);
                if (!ok || !(ksrc < KAPPA_CAP)) continue;
            }
            if (!Nin.all_finite()) continue;
            in.resize(n * n);
            for (int i = 0; i < n * n; i++) in[i] = mkc((double)Nin.a[i].re, (double)Nin.a[i].im);
            if (!all_finite(in)) continue;
            Mat Nd = to_mat(in, n, n);          // the input the library really sees (rounded to double)
            if (f->to_zin()) { za = convref::analyse_zin(f->src, Nd, zo); built = za.ok && za.kappa_max < KAPPA_CAP; }
            else { an = convref::analyse(f->src, Nd, f->dst, zo); built = an.ok && an.kappa < KAPPA_CAP; }
        }
        if (attempts > 1) c.label("rebuilt");
        if (!built) { c.label("filtered"); return; }

        static const char *zc[] = {"z0:equal-real", "z0:equal-complex", "z0:different"};
        c.label(zc[zclass]);
        if (n >= 3) c.label("n>=3");
        if (n == 1) c.label("n==1");
        c.note("%s n=%d z0=%s", f->name, n, fmt_mat(z0, 1, n).c_str());
        c.note("in=%s", fmt_mat(in, n, n).c_str());
        // non-trivial rule of DESIGN.md: z0 unequal or complex, or n >= 3, or aliased call -- the
        // aliased call is made in every case
        c.nontrivial();

        size_t outlen = f->to_zin() ? (size_t)n : (size_t)n * n;
        std::vector<dcx> out(outlen, mkc(NAN, NAN)), in_copy = in;
        call(*f, in.data(), out.data(), z0.data(), n);
        PBT_CHECK(c, same_bits_vec(in, in_copy, in.size()), "C04.input_modified", "%s modified its const input", f->name);
        c.note("out=%s", fmt_mat(out, f->to_zin() ? 1 : n, n).c_str());

        // (ii) aliasing: same array as input and output
        {
            std::vector<dcx> buf = in;
            call(*f, buf.data(), buf.data(), z0.data(), n);
            if (!same_bits_vec(buf, out, outlen))
                c.fail(f->to_zin() ? "C04.alias_zi_differs" : "C04.alias_differs", "%s: in-place result %s differs from separate-array result %s",
                       f->name, fmt_mat(buf, f->to_zin() ? 1 : n, n).c_str(), fmt_mat(out, f->to_zin() ? 1 : n, n).c_str());
        }

        if (f->to_zin()) {
            // (v) terminated input impedance
            if (!all_finite(out)) {
                // Where some zin_k equals -z0_k the reflection coefficient of that port has a pole
                // (the network terminated in z0 at every port has a natural mode: det(Z + Z0) = 0,
                // which makes zin_k = -z0_k at every port at once).  The n-port functions compute
                // through (Z + Z0)^-1 or S and return NaN there although zin itself is finite.
                // vnaconv(3) allows inf/nan "if the conversion is nondeterministic"; exactly on this
                // measure-zero set a non-finite result is accepted and counted, not asserted
                // (reported in notes/agent-conv.md).  A finite result must still be right.
                real dist = INFINITY;
                for (int k = 0; k < n; k++) dist = std::min(dist, refla::abs(za.zin[k] + zo[k]) / refla::abs(zo[k]));
                if (dist < 1e-9L) { c.label("accepted:nonfinite-zin-at-pole-of-reflection(zin=-z0)"); return; }
            }
            PBT_CHECK(c, all_finite(out), "C04.zin_nonfinite", "%s: non-finite input impedance away from the singular set (kappa %.3g): %s",
                      f->name, (double)za.kappa_max, fmt_mat(out, 1, n).c_str());
            for (int k = 0; k < n; k++) {
                real err = refla::abs(C(re_(out[k]), im_(out[k])) - za.zin[k]) / refla::abs(zo[k]);
                double bound = EPS * gamma * (double)za.kappa[k];
                c.track_max("zin_err/(eps*kappa)", (double)err / bound);
                c.track_max(std::string("zin_err/(eps*kappa):") + (f->nport() ? "nport" : "2port"), (double)err / bound);
                if (!((double)err <= C_ZI * bound))
                    c.fail("C04.zin_wrong", "%s: zi[%d] = %.17g%+.17gi, terminated input impedance of the network is %.17Lg%+.17Lgi (error/|z0| %.3Lg, bound %.3g, kappa %.3Lg)",
                           f->name, k, re_(out[k]), im_(out[k]), za.zin[k].re, za.zin[k].im, err, C_ZI * bound, za.kappa[k]);
            }
            // (iv) n-port zin at n = 2 agrees with the two-port function
            if (f->nport() && n == 2) {
                const Func *g = find_func(f->src, VPT_ZIN, false);
                std::vector<dcx> o2(2, mkc(NAN, NAN));
                call(*g, in.data(), o2.data(), z0.data(), 2);
                for (int k = 0; k < 2; k++) {
                    real d = refla::abs(C(re_(out[k]) - re_(o2[k]), im_(out[k]) - im_(o2[k]))) / refla::abs(zo[k]);
                    double bound = EPS * gamma * (double)za.kappa[k];
                    c.track_max("np2_zin_diff/(eps*kappa)", (double)d / bound);
                    if (!((double)d <= C_NP2 * bound))
                        c.fail("C04.nport_2port_disagree", "%s and %s disagree at n=2: zi[%d] %.17g%+.17gi vs %.17g%+.17gi", f->name, g->name, k, re_(out[k]), im_(out[k]), re_(o2[k]), im_(o2[k]));
                }
                c.label("nport-vs-2port");
            }
            return;
        }

        // (i) defining relation of the output on the states of the input
        PBT_CHECK(c, all_finite(out), "C04.nonfinite", "%s: non-finite output away from the singular set (kappa %.3g): %s", f->name, (double)an.kappa, fmt_mat(out, n, n).c_str());
        Mat Nout = to_mat(out, n, n);
        {
            real err = convref::relation_error(an, Nout);
            double bound = EPS * gamma * (double)an.kappa;
            c.track_max("rel_err/(eps*kappa)", (double)err / bound);
            c.track_max(std::string("rel_err/(eps*kappa):") + (f->nport() ? "nport" : "2port"), (double)err / bound);
            c.track_max("log10_kappa", log10((double)an.kappa));
            if (!((double)err <= C_REL * bound)) {
                std::vector<dcx> ref(n * n); for (int i = 0; i < n * n; i++) ref[i] = mkc((double)an.Nref.a[i].re, (double)an.Nref.a[i].im);
                c.fail("C04.relation_violated", "%s: output does not satisfy its defining relation on the states of the input: normalised error %.3Lg > %.3g (kappa %.3Lg); output %s; the network's %s-matrix is %s",
                       f->name, err, C_REL * bound, an.kappa, fmt_mat(out, n, n).c_str(), convref::letter(f->dst), fmt_mat(ref, n, n).c_str());
            }
        }

        // (iv) n-port function at n = 2 agrees with the two-port one
        if (f->nport() && n == 2) {
            const Func *g = find_func(f->src, f->dst, false);
            std::vector<dcx> o2(4, mkc(NAN, NAN));
            call(*g, in.data(), o2.data(), z0.data(), 2);
            Mat d = refla::sub(convref::to_hat(Nout, an.dst.wD, an.dst.wE), convref::to_hat(to_mat(o2, 2, 2), an.dst.wD, an.dst.wE));
            double diff = (double)refla::norm_max(d), bound = EPS * gamma * (double)an.kappa;
            c.track_max("np2_diff/(eps*kappa)", diff / bound);
            if (!(diff <= C_NP2 * bound))
                c.fail("C04.nport_2port_disagree", "%s and %s disagree at n=2: %s vs %s (normalised difference %.3g, bound %.3g)", f->name, g->name,
                       fmt_mat(out, 2, 2).c_str(), fmt_mat(o2, 2, 2).c_str(), diff, C_NP2 * bound);
            c.label("nport-vs-2port");
        }

        // (iii) converting back returns the original
        {
            const Func *g = find_func(f->dst, f->src, f->nport());
            convref::Analysis ab = convref::analyse(f->dst, Nout, f->src, zo);
            if (!ab.ok || !(ab.kappa < KAPPA_CAP)) { c.label("roundtrip-skipped:back-conversion-near-singular"); return; }
            std::vector<dcx> back(n * n, mkc(NAN, NAN));
            call(*g, out.data(), back.data(), z0.data(), n);
            Mat d = refla::sub(convref::to_hat(to_mat(back, n, n), an.src.wD, an.src.wE), an.Nin_hat);
            double diff = d.all_finite() ? (double)refla::norm_max(d) : INFINITY;
            double bound = EPS * gamma * ((double)ab.kappa + (double)ab.sens * (double)an.kappa);
            c.track_max("roundtrip_err/(eps*kappa)", diff / bound);
            if (!(diff <= C_RT * bound))
                c.fail("C04.roundtrip", "%s then %s does not return the input: %s -> %s -> %s (normalised error %.3g, bound %.3g)", f->name, g->name,
                       fmt_mat(in, n, n).c_str(), fmt_mat(out, n, n).c_str(), fmt_mat(back, n, n).c_str(), diff, C_RT * bound);
            c.label("roundtrip");
        }
    }
};

} // namespace

void pbt_global_setup() {
    const char *e1 = refla::selftest(), *e2 = convref::selftest();
    if (*e1 || *e2) { fprintf(stderr, "C04: reference self-test failed: refla '%s' convref '%s'\n", e1, e2); abort(); }
    if (funcs().size() != 90) { fprintf(stderr, "C04: function table has %zu entries, expected 90\n", funcs().size()); abort(); }
}

void pbt_property(Ctx &c) {
    Case k(c);
    k.run();
}
