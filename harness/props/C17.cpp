// C17 -- equivalent ways of describing the same calibration give the same result.
// Metamorphic oracle: two runs related by one transformation must correct a device identically.
#include "pbt.hpp"
#include "calscen.hpp"

const char *PBT_PROPERTY = "C17";
using namespace pbt;
using namespace cs;

static const long double EPS = 1.1102230246251565e-16L;

namespace {

struct Opt {
    bool unrelated = false;       // T5: other parameters / calibration in the same vnacal_t first
    bool per_frequency = false;   // T6: one vnacal_new_t per frequency
    int shared_order = 0;         // T6: 0 = a fresh vnacal_t per frequency; 1 / 2 = ONE vnacal_t (the same parameter handles), frequencies descending / in tape order
    C ab_scale = C(1, 0);         // T4
};

// "Unrelated" content of the same vnacal_t: 0..8 further parameters (scalar, vector, unknown) made first, a one-port
// helper calibration that uses some of them, and a random subset deleted again -- so the parameter handles of the
// calibration under test are shifted, sparse and partly recycled.
void add_unrelated(Ctx &c, vnacal_t *vcp, ErrLog &log) {
    double fv[2] = {1e6, 2e6}; dcx gv[2] = {mkc(0.1, 0.2), mkc(0.2, 0.1)};
    std::vector<int> extra;
    int k = (int)c.range(0, 8);
    for (int i = 0; i < k; i++) {
        int h;
        switch (c.weighted({3, 2, 1})) {
        case 0: h = vnacal_make_scalar_parameter(vcp, mkc(0.3 + 0.05 * i, 0.1)); break;
        case 1: h = vnacal_make_vector_parameter(vcp, fv, 2, gv); break;
        default: { int g = vnacal_make_scalar_parameter(vcp, mkc(0.2, -0.3 + 0.05 * i)); PBT_CHECK(c, g >= 0, "C17.unrelated", "make parameter failed: %s", log.text().c_str()); extra.push_back(g); h = vnacal_make_unknown_parameter(vcp, g); } break;
        }
        PBT_CHECK(c, h >= 0, "C17.unrelated", "make parameter failed: %s", log.text().c_str());
        extra.push_back(h);
    }
    int h1 = vnacal_make_scalar_parameter(vcp, mkc(0.3, 0.1));
    int h2 = vnacal_make_vector_parameter(vcp, fv, 2, gv);
    PBT_CHECK(c, h1 >= 0 && h2 >= 0, "C17.unrelated", "make parameter failed: %s", log.text().c_str());
    vnacal_new_t *vnp = vnacal_new_alloc(vcp, VNACAL_T8, 1, 1, 2);
    PBT_CHECK(c, vnp != nullptr, "C17.unrelated", "new_alloc failed");
    vnacal_new_set_frequency_vector(vnp, fv);
    const dcx e00 = mkc(0.05, 0.02), e11 = mkc(-0.1, 0.05), e10e01 = mkc(0.8, 0.3);
    int hs[4] = {VNACAL_SHORT, VNACAL_OPEN, VNACAL_MATCH, h1}; dcx g[4] = {mkc(-1, 0), mkc(1, 0), mkc(0, 0), mkc(0.3, 0.1)};
    for (int q = 0; q < 4; q++) {
        dcx mv[2]; for (int f = 0; f < 2; f++) mv[f] = e00 + e10e01 * g[q] / (1.0 - e11 * g[q]);
        dcx *m[1] = {mv};
        int rc = vnacal_new_add_single_reflect_m(vnp, m, 1, 1, hs[q], 1);
        PBT_CHECK(c, rc == 0, "C17.unrelated", "add failed: %s", log.text().c_str());
    }
    PBT_CHECK(c, vnacal_new_solve(vnp) == 0, "C17.unrelated", "solve of the unrelated calibration failed: %s", log.text().c_str());
    PBT_CHECK(c, vnacal_add_calibration(vcp, "unrelated", vnp) >= 0, "C17.unrelated", "add_calibration failed");
    vnacal_new_free(vnp);
    if (c.boolean()) vnacal_delete_parameter(vcp, h1);
    for (int h : extra) if (c.boolean()) vnacal_delete_parameter(vcp, h);
    (void)h2;
}

// restrict a scenario to one frequency
Scenario at_frequency(const Scenario &sc, int f) {
    Scenario s = sc; s.F = 1; s.freq = {sc.freq[f]}; s.box = {sc.box[f]}; s.dut = {sc.dut[f]};
    for (auto &st : s.stds) {
        st.Sfull = {st.Sfull[f]};
        if (!st.noise.empty()) st.noise = {st.noise[f]};
        if (!st.Afix.empty()) st.Afix = {st.Afix[f]};
        // vector parameters keep their full grid: libvna interpolates (exact at a knot)
    }
    return s;
}

// run: returns false if solve failed (rc), corrected DUT in out
bool run_once(Ctx &c, Scenario sc, const Opt &o, std::vector<Mat> &out, std::string &why, const std::vector<double> &fullgrid) {
    if (o.per_frequency && sc.F > 1 && o.shared_order != 0) {
        // one vnacal_t: the vector parameters are made once and evaluated by one vnacal_new_t per frequency, in an
        // order that is not ascending (their values must not depend on what was evaluated before)
        out.assign(sc.F, Mat());
        Runner base(c, sc); base.ab_scale = o.ab_scale; base.create();
        for (auto &st : sc.stds) for (auto &cell : st.cells) if (cell.kind == SCell::VECTOR && cell.uparam < 0) (void)base.handle_of(cell);
        std::vector<int> order; for (int f = 0; f < sc.F; f++) order.push_back(sc.F - 1 - f);
        if (o.shared_order == 2) for (size_t i = order.size(); i > 1; i--) std::swap(order[i - 1], order[c.draw(i)]);
        for (int f : order) {
            Scenario sf = at_frequency(sc, f);
            Runner run(c, sf); run.ab_scale = o.ab_scale; run.vcp = base.vcp; run.borrowed_vcp = true;
            run.alloc();
            int idx = 0;
            for (auto &st : sf.stds) { int rc = run.add(st); PBT_CHECK(c, rc == 0, "C17.add_refused", "standard %d (%s) refused at frequency %d: %s", idx, st.describe().c_str(), f, base.log.text().c_str()); idx++; }
            if (vnacal_new_solve(run.vnp) != 0) { why = "solve failed: " + base.log.text(); return false; }
            int ci = vnacal_add_calibration(run.vcp, "main", run.vnp);
            PBT_CHECK(c, ci >= 0, "C17.add_calibration", "add_calibration failed: %s", base.log.text().c_str());
            if (vnacal_find_calibration(run.vcp, "main") >= 0) ci = vnacal_find_calibration(run.vcp, "main");
            std::vector<Mat> o1;
            if (run.apply(ci, sf.dut, o1) != 0) { why = "apply failed: " + base.log.text(); return false; }
            out[f] = o1[0];
        }
        return true;
    }
    if (o.per_frequency && sc.F > 1) {
        out.clear();
        for (int f = 0; f < sc.F; f++) {
            std::vector<Mat> o1; Opt o2 = o; o2.per_frequency = false;
            if (!run_once(c, at_frequency(sc, f), o2, o1, why, fullgrid)) return false;
            out.push_back(o1[0]);
        }
        return true;
    }
    Runner run(c, sc);
    run.ab_scale = o.ab_scale;
    run.create();
    if (o.unrelated) add_unrelated(c, run.vcp, run.log);
    run.alloc();
    // vector parameters are defined on the FULL frequency grid even when this run covers one frequency
    for (auto &st : sc.stds) for (auto &cell : st.cells) if (cell.kind == SCell::VECTOR && cell.handle < 0 && cell.kf.empty()) {
        std::vector<dcx> g; for (auto &x : cell.v) g.push_back(mkc((double)x.real(), (double)x.imag()));
        cell.handle = vnacal_make_vector_parameter(run.vcp, fullgrid.data(), (int)fullgrid.size(), g.data());
        PBT_CHECK(c, cell.handle >= 0, "C17.make_vector", "make_vector_parameter failed: %s", run.log.text().c_str());
    }
    int idx = 0;
    for (auto &st : sc.stds) {
        int rc = run.add(st);
        PBT_CHECK(c, rc == 0, "C17.add_refused", "standard %d (%s) refused: %s", idx, st.describe().c_str(), run.log.text().c_str());
        idx++;
    }
    if (vnacal_new_solve(run.vnp) != 0) { why = "solve failed: " + run.log.text(); return false; }
    int ci = vnacal_add_calibration(run.vcp, "main", run.vnp);
    PBT_CHECK(c, ci >= 0, "C17.add_calibration", "add_calibration failed: %s", run.log.text().c_str());
    if (vnacal_find_calibration(run.vcp, "main") >= 0) ci = vnacal_find_calibration(run.vcp, "main");   // index is C16's business
    if (run.apply(ci, sc.dut, out) != 0) { why = "apply failed: " + run.log.text(); return false; }
    return true;
}

// consistent renumbering of the VNA ports (square calibrations only)
Scenario renumber(const Scenario &sc, const std::vector<int> &pi) {
    Scenario s = sc; int P = sc.P;
    auto permM = [&](const Mat &A) { Mat B(A.r, A.c); for (int i = 0; i < A.r; i++) for (int j = 0; j < A.c; j++) B(pi[i], pi[j]) = A(i, j); return B; };
    for (int f = 0; f < sc.F; f++) {
        Box &b = s.box[f]; const Box &a = sc.box[f];
        b.El = permM(a.El);
        if (vm::is_colsys(sc.type)) { for (int j = 0; j < P; j++) { b.Erc[pi[j]] = permM(a.Erc[j]); b.Emc[pi[j]] = permM(a.Emc[j]); b.Etc[pi[j]] = a.Etc[j]; } }
        else { b.Er = permM(a.Er); b.Et = permM(a.Et); b.Em = permM(a.Em); }
        s.dut[f] = permM(sc.dut[f]);
    }
    for (auto &st : s.stds) { for (auto &p : st.ports) p = pi[p]; for (auto &S : st.Sfull) S = permM(S); st.Afix.clear(); if (st.null_map) { for (size_t i = 0; i < st.ports.size(); i++) if (st.ports[i] != (int)i) st.null_map = false; } }
    return s;
}

} // namespace

void pbt_property(Ctx &c) {
    Scenario sc;
    int T = 1 + (int)c.draw(8);      // transformation T1..T8
    sc.type = T == 7 ? (c.boolean() ? (int)vm::E12 : (int)vm::UE14) : (int)c.draw(8);
    gen_dims(c, sc.type, 4, sc.r, sc.c);
    // vnacal_apply needs a square (or 1x2 / 2x1) calibration to compare corrected devices; T8 needs square
    if ((sc.r != sc.c && std::max(sc.r, sc.c) != 2) || T == 8) sc.r = sc.c = std::max(sc.r, sc.c);
    sc.P = std::max(sc.r, sc.c);
    sc.F = 1 + c.weighted({4, 3, 2});
    sc.ab = c.boolean();
    sc.freq = gen_freqs(c, sc.F);
    for (int f = 0; f < sc.F; f++) sc.box.push_back(gen_box(c, sc.type, sc.r, sc.c));
    Gen g(c, sc);
    g.baseline(); g.extras(); g.cover_leakage(); g.shuffle();
    long double kappa = 0;
    for (int f = 0; f < sc.F; f++) { vm::Ident id = ident_at(sc, f); if (!id.determining) { c.label("filtered:not-determining"); return; } kappa = std::max(kappa, id.kappa); }
    // T3 / T5 / T6: vector standards on their OWN knot grid (6..9 knots on 0.8 fmin .. 1.25 fmax, none of them a
    // calibration frequency), values on a smooth function of the frequency that the library's rational interpolation
    // only approximates (error ~1e-6, treated like perturbed data): the calibration frequencies fall between the knots,
    // so every evaluation goes through the interpolator, and which knots it uses -- its search state -- matters
    bool own_knots = false;
    if ((T == 3 || T == 5 || T == 6) && c.chance(2, 3)) {
        bool any = false;
        for (auto &st : sc.stds) {
            bool touched = false;
            for (auto &cell : st.cells) if (cell.kind == SCell::VECTOR && cell.uparam < 0) {
                C base = cell.v[0], al = rnd_disk(c, 0, 0.3L), be = rnd_disk(c, 0, 0.2L);
                double fm = 0.5 * (sc.freq.front() + sc.freq.back()), span = std::max(sc.freq.back() - sc.freq.front(), 0.1 * fm);
                long double phi = 1.5L * (c.unit() - 0.5L);     // a rotation the rational interpolant only approximates: WHICH knots it uses matters
                auto gfun = [&](double f) { long double t = (long double)((f - fm) / span); return base * polar(1, phi * t) * (C(1, 0) + al * t) / (C(1, 0) + be * t); };
                int K = 6 + (int)c.draw(4); double lo = 0.8 * sc.freq.front(), hi = 1.25 * sc.freq.back();
                cell.kf.clear(); cell.kv.clear();
                for (int k = 0; k < K; k++) {
                    double f = k == 0 ? lo : k == K - 1 ? hi : lo + (hi - lo) * (k + 0.6 * (c.unit() - 0.5)) / (K - 1);
                    for (double cf : sc.freq) if (std::fabs(f - cf) < 1e-3 * cf) f = cf * 1.01;
                    if (!cell.kf.empty() && f <= cell.kf.back()) f = cell.kf.back() * 1.001;
                    cell.kf.push_back(f); cell.kv.push_back(gfun(f));
                }
                for (int f = 0; f < sc.F; f++) cell.v[f] = gfun(sc.freq[f]);
                touched = any = true;
            }
            if (touched) g.finish(st);
        }
        if (any) { c.label("vector-standards:own-knots"); own_knots = true; }
    }
    sc.dut = gen_dut(c, sc.P, sc.F);
    // T5 also with self-calibration: an extra double reflect whose two ports carry the SAME unknown reflection (one
    // handle used in two cells), guess within 10 % -- the handle identity must survive whatever else lives in the
    // vnacal_t.  Both descriptions run the same iteration on the same data, so the comparison stays exact.
    bool has_unknown = false;
    if (T == 5 && sc.P >= 2 && !vm::is_16(sc.type) && c.boolean()) {
        auto pp = g.perm_ports(2);
        C r0 = rnd_disk(c, 0.5L, 1.0L);
        Standard st = g.dbl(pp[0], pp[1], r0, r0, false, 0);
        if (st.entry == Standard::DOUBLE && st.cells.size() == 2) {
            UParam u; for (int f = 0; f < sc.F; f++) u.truth.push_back(r0);
            C d = rnd_disk(c, 0, 0.1L); for (auto &t : u.truth) u.guess.push_back(t * (C(1, 0) + d));
            sc.uparams.push_back(u);
            for (auto &cell : st.cells) { cell.kind = SCell::SCALAR; cell.v = u.truth; cell.uparam = 0; cell.handle = -1; }
            g.finish(st);
            sc.stds.push_back(st);
            bool det = true; for (int f = 0; f < sc.F; f++) if (!ident_with_unknowns(sc, f).determining) det = false;
            if (det) { has_unknown = true; c.label("T5:shared-unknown"); } else { sc.stds.pop_back(); sc.uparams.clear(); }
        }
    }
    bool perturbed = c.boolean();
    if (own_knots) perturbed = true;      // the interpolant differs from the model's value by its (tiny) interpolation error: inconsistent data, as with noise
    if (T == 2 || T == 8) perturbed = false;             // "for data that fit the error model" / leakage samples differ
    if (T == 4 && !sc.ab) sc.ab = true;
    if (perturbed) for (auto &st : sc.stds) for (int f = 0; f < sc.F; f++) { Mat N(sc.r, sc.c); for (auto &x : N.a) x = C(1e-3L * (2 * c.unit() - 1), 1e-3L * (2 * c.unit() - 1)); st.noise.push_back(N); }
    // fixed 'a' matrices so that both runs see the same a/b data (except T4's scale)
    if (sc.ab) for (auto &st : sc.stds) for (int f = 0; f < sc.F; f++) {
        Mat A(vm::is_colsys(sc.type) ? 1 : sc.c, sc.c);
        for (int i = 0; i < A.r; i++) for (int j = 0; j < A.c; j++) A(i, j) = (vm::is_colsys(sc.type) || i == j) ? polar(0.5L + c.unit(), 2 * M_PIl * c.unit()) : rnd_disk(c, 0, 0.15L);
        st.Afix.push_back(A);
    }
    Scenario s2 = sc; Opt o1, o2;
    bool changed = false;
    std::vector<int> pi;
    switch (T) {
    case 1:   // through <-> line (0,1;1,0) <-> mapped matrix with the port map
        for (auto &st : s2.stds) if (st.entry == Standard::THROUGH || ((st.entry == Standard::LINE || st.entry == Standard::MAPPED) && st.k == 2)) {
            int to = (int)c.draw(3);
            Standard::Entry ne = to == 0 ? Standard::THROUGH : to == 1 ? Standard::LINE : Standard::MAPPED;
            bool is_ideal = st.entry == Standard::THROUGH;
            if (!is_ideal) { if (ne == Standard::THROUGH) continue; }      // only an ideal through may become vnacal_new_add_through
            if (ne == st.entry) continue;
            if (is_ideal) { SCell z, o; z.kind = SCell::MATCH; z.v.assign(sc.F, C(0, 0)); o.kind = SCell::OPEN; o.v.assign(sc.F, C(1, 0)); st.cells = {z, o, o, z}; }   // VNACAL_ZERO / VNACAL_ONE
            st.entry = ne; st.null_map = false; changed = true;
        }
        break;
    case 2:   // full <-> abbreviated measurement matrix
        for (auto &st : s2.stds) if (st.abbrev_rows || st.abbrev_cols) { st.abbrev_rows = st.abbrev_cols = false; changed = true; }
        break;
    case 3:   // order of the standards
        for (size_t i = s2.stds.size(); i > 1; i--) { size_t j = c.draw(i); if (j != i - 1) changed = true; std::swap(s2.stds[i - 1], s2.stds[j]); }
        break;
    case 4: o2.ab_scale = polar(c.boolean() ? 0.1L + 9.9L * c.unit() : std::pow(10.0L, -12 + 24 * c.unit()), 2 * M_PIl * c.unit()); changed = true; break;     // ordinary or extreme (1e-12 .. 1e12) common scale
    case 5: o2.unrelated = true; changed = true; break;
    case 6: o2.per_frequency = true; o2.shared_order = (int)c.draw(3); changed = sc.F > 1; { char l[40]; snprintf(l, sizeof l, "T6:order=%d", o2.shared_order); c.label(l); } break;
    case 7: s2.type = sc.type == vm::E12 ? vm::UE14 : vm::E12; for (auto &b : s2.box) b.type = s2.type; changed = true; break;
    case 8: { for (int p = 0; p < sc.P; p++) pi.push_back(p); for (size_t i = pi.size(); i > 1; i--) { size_t j = c.draw(i); if (j != i - 1) changed = true; std::swap(pi[i - 1], pi[j]); } s2 = renumber(sc, pi); break; }
    }
    char tl[16]; snprintf(tl, sizeof tl, "T%d", T); c.label(tl);
    c.label(perturbed ? "data:perturbed" : "data:exact");
    c.label(std::string("type:") + vm::tname(sc.type));
    c.note("%s  transformation T%d %s kappa=%.3Lg", sc.describe().c_str(), T, perturbed ? "perturbed" : "exact", kappa);
    for (auto &st : sc.stds) c.note("  A: %s", st.describe().c_str());
    for (auto &st : s2.stds) c.note("  B: %s", st.describe().c_str());
    if (changed && sc.P >= 2) c.nontrivial();

    std::vector<Mat> out1, out2; std::string why1, why2;
    bool ok1 = run_once(c, sc, o1, out1, why1, sc.freq);
    bool ok2 = run_once(c, s2, o2, out2, why2, sc.freq);
    PBT_CHECK(c, ok1 == ok2, "C17.outcome_differs", "one description solved and the other did not: A: %s  B: %s", ok1 ? "ok" : why1.c_str(), ok2 ? "ok" : why2.c_str());
    if (!ok1) { PBT_CHECK(c, perturbed || has_unknown, "C17.solve_failed", "exact well-conditioned data refused: %s", why1.c_str()); c.label("both-failed"); return; }
    long double worst = 0; int wf = 0, wi = 0, wj = 0;
    for (int f = 0; f < sc.F; f++) for (int i = 0; i < sc.P; i++) for (int j = 0; j < sc.P; j++) {
        C b = T == 8 ? out2[f](pi[i], pi[j]) : out2[f](i, j);
        long double e = std::abs(out1[f](i, j) - b);
        if (!(e <= worst)) { worst = e; wf = f; wi = i; wj = j; }
    }
    long double scale = EPS * kappa * 10 * (perturbed ? (1 + kappa * 1e-3L) : 1);
    c.track_max(perturbed ? "diff/(eps*kappa*10*(1+kappa*1e-3)) perturbed" : "diff/(eps*kappa*10) exact", (double)(worst / scale));
    PBT_CHECK(c, worst <= 1e4L * scale, "C17.result_differs", "T%d (%s data): corrected S[%d][%d] at f%d differs between the two descriptions by %.3Lg (bound %.3Lg, kappa %.3Lg)",
              T, perturbed ? "perturbed" : "exact", wi + 1, wj + 1, wf, worst, 1e4L * scale, kappa);
}
