// C06 -- network data survive save and load (Touchstone 1, Touchstone 2, NPD).
//
// Oracle (DESIGN.md section 3, C06):
//  (1) vnadata_cksave and vnadata_save/fsave agree on the same object (both directions);
//  (2) the written file, read by the independent reader tsio, denotes the object's type, dimensions,
//      frequencies, reference impedances and data in the requested parameter forms, to the tolerance
//      implied by the requested precision (exact at VNADATA_MAX_PRECISION in ri); expected numbers
//      come from tsconv (defining port relations of vnaconv(3), format formulas of vnadata(3));
//  (3) vnadata_load of the file succeeds whenever it holds a loadable (complex) parameter and
//      reproduces what the file text denotes (bit-exact in ri, c*eps otherwise).
#include "pbt.hpp"
#include <string>
#include <vector>
#include <algorithm>
#include "vna.hpp"
#include "tsio.hpp"

const char *PBT_PROPERTY = "C06";
using namespace pbt;
using namespace tsconv;
using tsio::Tok;

namespace {

const double EPS = 2.220446049250313e-16;
const int PMAX = VNADATA_MAX_PRECISION;
// calibrated constants (see notes/agent-files.md): observed maxima are tracked as *_ratio
const double C_CONV = 32768;   // conversion noise: C_CONV * eps * (|y| + element-wise sensitivity)
const double C_FIELD = 256;    // rounding of a derived field (abs, arg, log10, RC/RL views) in double
const double C_LOAD = 256;     // loader decode (polar, dB, RC/RL, TS1 un-normalisation)
const long double DB_ABS = 8.685889638065037L;   // d(20 log10 m) = 8.69 dm/m: absolute rounding floor of a dB field
const long double ILL = 1e-9L; // conversion noise above ILL * |value|: value numerically undetermined, not compared

struct Spec { int param; int fmt; };          // param may be P_UNDEF (bare ri/ma/dB)

struct MemFile {
    char *buf = nullptr; size_t len = 0; FILE *fp = nullptr;
    MemFile() { fp = open_memstream(&buf, &len); }
    ~MemFile() { if (fp) fclose(fp); free(buf); }
    std::string finish() { if (fp) { fclose(fp); fp = nullptr; } return std::string(buf ? buf : "", len); }
};
struct VD { vnadata_t *v = nullptr; ~VD() { if (v) vnadata_free(v); } };

static const char *ft_name(int t) { static const char *n[] = {"AUTO", "NPD", "TS1", "TS2"}; return (t >= 0 && t <= 3) ? n[t] : "unset"; }

struct H {
    Ctx &c;
    ErrLog log;
    // ---- the case ----
    int type = P_S, n = 1, rows = 1, cols = 1, F = 1;
    std::vector<double> f;
    int z0mode = 0;                              // 0 equal real, 1 unequal real, 2 complex, 3 per-frequency
    std::vector<std::vector<cl>> z0;             // [F][n] (the same row for every f unless per-frequency)
    std::vector<std::vector<cl>> data;           // [F][cells]
    std::string filename; int set_ft = -1;
    bool has_format = false; std::string format; std::vector<Spec> specs;
    int fprec = 0, dprec = 0;                    // 0 = setter not called
    bool nice = false;
    // ---- derived ----
    int kind_model = tsio::K_NPD; bool ts_promotable = false;
    int p_f() const { return fprec ? fprec : 7; }
    int p_d() const { return dprec ? dprec : 6; }

    H(Ctx &c_) : c(c_) {}

    // ------------------------------------------------------------------ generation ---
    cl gen_phase(ld mag) { double ph = c.real(0, 2 * 3.14159265358979323846); return std::polar<ld>(mag, ph); }
    int gen_precision() {
        switch (c.weighted({3, 6, 2})) {
        case 0: return 0;
        case 1: return (int)c.range(1, 17);
        default: return PMAX;
        }
    }
    void gen_shape() {
        type = (int)c.range(P_S, P_ZIN);
        if (is_2x2_only(type)) n = 2;
        else n = 1 + c.weighted({4, 6, 4, 3, 1, 1});
        rows = type == P_ZIN ? 1 : n; cols = n;
        F = (int)c.range(1, 4);
    }
    void gen_file() {
        static const char *names[] = {"f.npd", "f.s2p", "f.ts", "f.s1p", "f.s3p", "f.s4p", "f.dat", "f"};
        filename = names[c.weighted({6, 4, 6, 2, 3, 3, 3, 2})];
        set_ft = c.weighted({4, 1, 1, 2, 2}) - 1;          // -1 not called, 0 AUTO, 1 NPD, 2 TS1, 3 TS2
        // model of vnadata(3): the extension decides; else the set file type; else NPD
        std::string ext; size_t dot = filename.rfind('.'); if (dot != std::string::npos) ext = filename.substr(dot + 1);
        ts_promotable = false;
        if (ext == "ts") { if (set_ft == VNADATA_FILETYPE_TOUCHSTONE1) { kind_model = tsio::K_TS1; ts_promotable = true; } else kind_model = tsio::K_TS2; }
        else if (ext.size() == 3 && ext[0] == 's' && ext[2] == 'p') kind_model = tsio::K_TS1;
        else if (ext == "npd") kind_model = tsio::K_NPD;
        else if (set_ft == VNADATA_FILETYPE_TOUCHSTONE1) kind_model = tsio::K_TS1;
        else if (set_ft == VNADATA_FILETYPE_TOUCHSTONE2) kind_model = tsio::K_TS2;
        else kind_model = tsio::K_NPD;
    }
    std::string spell(const std::string &s) {       // random letter case and blanks (vnadata_set_format ignores both)
        std::string o;
        int mode = (int)c.draw(4);
        for (char ch : s) {
            char x = ch;
            if (mode == 1) x = (char)toupper((unsigned char)ch); else if (mode == 2) x = (char)tolower((unsigned char)ch);
            else if (mode == 3 && c.boolean()) x = (char)(isupper((unsigned char)ch) ? tolower((unsigned char)ch) : toupper((unsigned char)ch));
            o += x;
        }
        return o;
    }
    // a specifier the documentation allows for this object and file type
    Spec gen_valid_spec(bool touchstone) {
        Spec s{P_UNDEF, F_RI};
        if (type == P_ZIN) {        // only the input-impedance views (Touchstone cannot hold them at all)
            int k = (int)c.draw(7);
            s.param = k == 0 ? P_UNDEF : P_ZIN;
            s.fmt = k <= 2 ? F_RI : k == 3 ? F_MA : (int)c.range(F_PRC, F_SRL);
            return s;
        }
        int k = touchstone ? c.weighted({5, 3, 8, 0, 0, 0}) : c.weighted({4, 2, 5, 2, 3, 3});
        switch (k) {
        case 0: s.param = type; break;
        case 1: s.param = P_UNDEF; break;
        case 2: {
            std::vector<int> ok = {P_S, P_Z, P_Y};
            if (n == 2) { ok.push_back(P_H); ok.push_back(P_G); if (!touchstone) for (int q : {P_T, P_U, P_A, P_B}) ok.push_back(q); }
            s.param = c.pick(ok); break;
        }
        case 3: s.param = P_ZIN; s.fmt = c.boolean() ? F_MA : F_RI; return s;
        case 4: s.param = P_ZIN; s.fmt = (int)c.range(F_PRC, F_SRL); return s;
        default: s.param = P_S; s.fmt = n >= 2 ? (int)c.range(F_IL, F_VSWR) : (int)c.range(F_RL, F_VSWR); return s;
        }
        int prm = s.param == P_UNDEF ? type : s.param;
        if (touchstone && !(prm == P_S || prm == P_Z || prm == P_Y || prm == P_H || prm == P_G)) s.param = P_S, prm = P_S;
        s.fmt = (int[]){F_RI, F_MA, F_DB}[c.weighted({4, 3, 3})];
        if (!touchstone && s.fmt == F_DB && !is_power(prm)) s.fmt = F_MA;     // NPD: dB only for s, t, u
        return s;
    }
    Spec gen_spec(bool touchstone) {
        if (!c.chance(1, 5)) return gen_valid_spec(touchstone);
        Spec s{P_UNDEF, F_RI};
        // 0 own type, 1 bare, 2 S/Z/Y, 3 any matrix type, 4 Zin, 5 Zin view, 6 scalar view
        int k = touchstone ? c.weighted({6, 3, 6, 3, 1, 1, 1}) : c.weighted({5, 2, 5, 4, 2, 3, 3});
        switch (k) {
        case 0: s.param = type; break;
        case 1: s.param = P_UNDEF; break;
        case 2: s.param = (int[]){P_S, P_Z, P_Y}[c.draw(3)]; break;
        case 3: s.param = (int)c.range(P_S, P_B); break;
        case 4: s.param = P_ZIN; break;
        case 5: s.param = P_ZIN; s.fmt = (int)c.range(F_PRC, F_SRL); return s;
        default: s.param = P_S; s.fmt = (int)c.range(F_IL, F_VSWR); return s;
        }
        s.fmt = (int[]){F_RI, F_MA, F_DB}[c.weighted({4, 3, 3})];
        if (s.param == P_ZIN && s.fmt == F_DB) s.fmt = F_MA;          // "ZindB" is not in the grammar
        return s;
    }
    void gen_format() {
        bool ts = kind_model != tsio::K_NPD;
        has_format = !c.chance(1, 6);
        specs.clear(); format.clear();
        if (!has_format) return;
        int cnt = ts ? (c.chance(1, 12) ? 2 : 1) : 1 + c.weighted({5, 4, 3, 2});
        for (int i = 0; i < cnt; i++) {
            c.mark();
            Spec s = gen_spec(ts);
            specs.push_back(s);
            std::string name;
            bool omit_ri = s.fmt == F_RI && s.param != P_UNDEF && c.chance(1, 4);     // "S" == "Sri"
            if (s.fmt >= F_PRC) name = tsio::fmt_name(s.fmt);
            else name = std::string(s.param == P_UNDEF ? "" : pname(s.param)) + (omit_ri ? "" : tsio::fmt_name(s.fmt));
            if (i) format += c.chance(1, 4) ? ", " : ",";
            format += spell(name);
        }
    }
    void gen_frequencies() {
        // strictly ascending, and still distinct after rounding to the requested number of digits
        // (Touchstone wants increasing frequencies; precision must not merge neighbours)
        int p = p_f();
        bool views = false;
        for (auto &s : specs) if (fmt_is_zin_view(s.fmt)) views = true;
        f.assign(F, 0);
        int e = (int)c.range(0, 9);
        if (p <= 14) {
            long long lo = 1; for (int i = 1; i < p; i++) lo *= 10;            // p-digit mantissas lo .. hi
            long long hi = lo * 10 - 1;
            std::vector<long long> M(F);
            for (auto &m : M) m = lo + (long long)(c.unit() * (double)(hi - lo + 1));
            std::sort(M.begin(), M.end());
            for (int i = 0; i < F; i++) { if (M[i] > hi) M[i] = hi; if (i && M[i] <= M[i - 1]) M[i] = M[i - 1] + 1; }
            if (M[F - 1] > hi) M[F - 1] = hi;
            for (int i = F - 2; i >= 0; i--) if (M[i] >= M[i + 1]) M[i] = M[i + 1] - 1;        // hi - lo >= 8 >= F - 1: stays >= lo
            int dec = 0;
            for (int i = 0; i < F; i++) {
                if (i && c.chance(1, 4)) dec++;                                   // jump a decade
                long double frac = c.chance(1, 2) ? 0.0L : (long double)c.real(-0.4, 0.4);
                f[i] = (double)(((long double)M[i] + frac) * powl(10.0L, (long double)(e + dec - (p - 1))));
            }
            if (F > 1 && (double)M[1] / (double)M[0] < 1 + 50.0 / (double)lo) c.label("freq-close-at-precision");
        } else {
            double x = c.real(1, 10) * pow(10.0, e);
            for (int i = 0; i < F; i++) { if (i) x *= 1 + c.real(0.001, 1.0); f[i] = x; }
        }
        if (!views && c.chance(1, 16)) { f[0] = 0; c.label("f0=0"); }
    }
    void gen_z0() {
        // Touchstone cannot hold complex or per-frequency z0 (refusals still generated, but less often)
        z0mode = kind_model == tsio::K_NPD ? c.weighted({5, 3, 3, 2}) : c.weighted({9, 3, 1, 1});
        if (n == 1 && z0mode == 1) z0mode = 0;
        auto real_z = [&]() -> cl {
            switch (c.weighted({3, 1, 3})) {
            case 0: return cl(50);
            case 1: return cl(1);
            default: return cl((ld)pow(10.0, c.real(0, 3)));
            }
        };
        auto complex_z = [&]() -> cl { return cl((ld)c.real(1, 200), (ld)c.real(-100, 100)); };
        z0.assign(F, std::vector<cl>(n));
        if (z0mode == 0) { cl z = real_z(); for (auto &r : z0) for (auto &x : r) x = z; }
        else if (z0mode == 1) {
            // unequal real: drawn with repetition from a few values, so that patterns like 50/75/50 (last port
            // equal to the first, a middle one different) occur; only "all equal" is excluded
            std::vector<cl> r(n); cl pool[3] = {real_z(), real_z(), real_z()};
            for (auto &x : r) x = pool[c.draw(3)];
            bool alleq = true; for (int k = 1; k < n; k++) if (!(r[k] == r[0])) alleq = false;
            if (alleq) { int k = 1 + (int)c.draw(n - 1); r[k] = r[0] * (ld)1.5; }
            for (auto &q : z0) q = r;
        }
        else if (z0mode == 2) { std::vector<cl> r(n); for (auto &x : r) x = c.chance(1, 4) ? real_z() : complex_z(); for (auto &q : z0) q = r; }
        else for (auto &r : z0) for (auto &x : r) x = c.chance(1, 4) ? real_z() : complex_z();
        for (auto &r : z0) for (auto &x : r) x = cl((ld)(double)x.real(), (ld)(double)x.imag());
    }
    static cl rd(cl x) { return cl((ld)(double)x.real(), (ld)(double)x.imag()); }     // round to double
    void gen_data() {
        int cells = rows * cols;
        // Where the saver has to convert (another parameter type requested, or Touchstone 1
        // normalisation of Z/Y/H/G) the object holds a well-conditioned network derived from a
        // moderate S matrix; accuracy of the conversions on badly scaled data is the subject of
        // C04/C05, not of this property.  Free magnitudes 1e-12..1e12 are used where the numbers
        // are stored directly.
        bool conv = false;
        for (auto &s : specs) {
            int prm = s.param == P_UNDEF ? type : s.param;
            if (prm != type) conv = true;
            if (kind_model == tsio::K_TS1 && prm != P_S) conv = true;
        }
        if (!has_format && kind_model == tsio::K_TS1 && type != P_S) conv = true;
        nice = conv ? true : c.chance(1, 4);
        data.assign(F, std::vector<cl>(cells));
        for (int fi = 0; fi < F; fi++) {
            if (nice) {
                std::vector<cl> S((size_t)n * n), out;
                for (auto &x : S) x = gen_phase((ld)c.real(0.05, 0.9) / (ld)n);
                for (int k = 0; k < n; k++) S[(size_t)k * n + k] *= (ld)n * (ld)0.6;      // reflections up to ~0.54
                bool ok;
                if (type == P_ZIN) ok = to_zin(P_S, n, S, z0[fi].data(), out);
                else ok = convert(P_S, n, S, z0[fi].data(), type, out);
                if (!ok) { out.assign(cells, cl(1)); c.label("nice-fallback"); }
                for (int i = 0; i < cells; i++) data[fi][i] = rd(out[i]);
            } else {
                int emode = c.weighted({3, 2});             // one scale per matrix | per element
                double e0 = c.real(-12, 12);
                for (auto &x : data[fi]) {
                    double e = emode ? c.real(-12, 12) : e0 + c.real(-0.5, 0.5);
                    x = rd(gen_phase((ld)pow(10.0, e)));
                    if (!conv && c.chance(1, 12)) x = c.boolean() ? cl(0) : cl((ld)(double)x.real(), 0);
                }
            }
        }
    }

    void describe() {
        c.note("object: type %s %dx%d F=%d  z0mode=%d  %s data", pname(type), rows, cols, F, z0mode, nice ? "network-derived" : "free-magnitude");
        c.note("file: name \"%s\" set_filetype=%s -> model kind %s%s", filename.c_str(), ft_name(set_ft), tsio::kind_name(kind_model), ts_promotable ? " (may promote to v2)" : "");
        c.note("format: %s   fprecision=%d dprecision=%d (0 = default)", has_format ? ("\"" + format + "\"").c_str() : "(not set)", fprec, dprec);
        if (!c.want_desc) return;
        for (int fi = 0; fi < F; fi++) {
            std::string s = "f[" + std::to_string(fi) + "]=" + hexd(f[fi]) + " z0:";
            for (auto &z : z0[fi]) s += " " + hexd((double)z.real()) + "," + hexd((double)z.imag());
            s += " data:";
            for (auto &v : data[fi]) s += " " + hexd((double)v.real()) + "," + hexd((double)v.imag());
            c.note("%s", s.c_str());
            if (z0mode != 3 && fi == 0 && F > 1) { /* same z0 for the other frequencies */ }
        }
    }
    static std::string hexd(double x) { char b[40]; snprintf(b, sizeof b, "%.17g", x); return b; }

    // ------------------------------------------------------------------ object ---
    void build(VD &o) {
        o.v = vnadata_alloc_and_init(errlog_fn, &log, (vnadata_parameter_type_t)type, rows, cols, F);
        PBT_CHECK(c, o.v != nullptr, "C06.setup", "alloc_and_init(%s,%d,%d,%d) failed: %s", pname(type), rows, cols, F, log.text().c_str());
        int rc = vnadata_set_frequency_vector(o.v, f.data());
        std::vector<dcx> tmp((size_t)std::max(rows * cols, n));
        for (int fi = 0; fi < F && rc == 0; fi++) {
            for (int i = 0; i < rows * cols; i++) tmp[i] = mkc((double)data[fi][i].real(), (double)data[fi][i].imag());
            rc = vnadata_set_matrix(o.v, fi, tmp.data());
        }
        if (rc == 0) {
            if (z0mode == 3) {
                for (int fi = 0; fi < F && rc == 0; fi++) { for (int k = 0; k < n; k++) tmp[k] = mkc((double)z0[fi][k].real(), (double)z0[fi][k].imag()); rc = vnadata_set_fz0_vector(o.v, fi, tmp.data()); }
            } else { for (int k = 0; k < n; k++) tmp[k] = mkc((double)z0[0][k].real(), (double)z0[0][k].imag()); rc = vnadata_set_z0_vector(o.v, tmp.data()); }
        }
        if (rc == 0 && set_ft >= 0) rc = vnadata_set_filetype(o.v, (vnadata_filetype_t)set_ft);
        if (rc == 0 && has_format) rc = vnadata_set_format(o.v, format.c_str());
        if (rc == 0 && fprec) rc = vnadata_set_fprecision(o.v, fprec);
        if (rc == 0 && dprec) rc = vnadata_set_dprecision(o.v, dprec);
        PBT_CHECK(c, rc == 0 && log.n_nonwarning() == 0, "C06.setup", "building the object failed: %s", log.text().c_str());
    }

    // ------------------------------------------------------------------ expectations ---
    struct Val { cl v; ld noise; };          // expected complex value and bound on the library's own rounding noise
    static double uphase(uint64_t &s) { return (double)(sm64(s) >> 11) / (double)(1ull << 53) * 6.283185307179586; }

    // out = fn(in, z0); noise = own rounding (C_CONV eps (|y| + sens)) + propagated input noise
    template <class Fn> bool stage(const std::vector<Val> &in, const std::vector<cl> &zz, Fn fn, std::vector<Val> &out) {
        std::vector<cl> x(in.size()), y; std::vector<ld> sens;
        for (size_t i = 0; i < in.size(); i++) x[i] = in[i].v;
        if (!sensitivity(n, x, zz, fn, y, sens)) return false;
        out.resize(y.size());
        for (size_t i = 0; i < y.size(); i++) { out[i].v = y[i]; out[i].noise = C_CONV * EPS * (std::abs(y[i]) + sens[i]); }
        bool any = false; for (auto &q : in) if (q.noise > 0) any = true;
        if (any) {
            uint64_t s = 77;
            for (int t = 0; t < 4; t++) {
                std::vector<cl> xp = x, y2;
                for (size_t i = 0; i < x.size(); i++) xp[i] += std::polar<ld>(in[i].noise, (ld)uphase(s));
                if (!fn(xp, zz, y2)) { for (auto &q : out) q.noise = INFINITY; break; }
                for (size_t i = 0; i < y.size(); i++) { ld d = 2 * std::abs(y2[i] - y[i]); ld base = C_CONV * EPS * (std::abs(y[i]) + sens[i]); if (base + d > out[i].noise) out[i].noise = base + d; }
            }
        }
        return true;
    }
    // expected values of one parameter at frequency fi, as written to a file of kind `kind`
    bool expected(int param, int fi, int kind, std::vector<Val> &out) {
        std::vector<Val> obj(data[fi].size());
        for (size_t i = 0; i < obj.size(); i++) obj[i] = Val{data[fi][i], 0};
        const std::vector<cl> &zz = z0[fi];
        bool normalise = kind == tsio::K_TS1 && !(zz[0] == cl(1));
        if (type == P_ZIN) { if (param != P_ZIN) return false; out = obj; return true; }
        if (!normalise) {
            if (param == type) { out = obj; return true; }
            if (param == P_ZIN) return stage(obj, zz, [&](const std::vector<cl> &N, const std::vector<cl> &z, std::vector<cl> &o) { return to_zin(type, n, N, z.data(), o); }, out);
            return stage(obj, zz, [&](const std::vector<cl> &N, const std::vector<cl> &z, std::vector<cl> &o) { return convert(type, n, N, z.data(), param, o); }, out);
        }
        // Touchstone 1: S (or T/U) relative to R, then the requested parameter normalised to R
        ld R = zz[0].real();
        int mid = (type == P_T || type == P_U) ? type : P_S;
        std::vector<Val> m;
        if (mid == type) m = obj;
        else if (!stage(obj, zz, [&](const std::vector<cl> &N, const std::vector<cl> &z, std::vector<cl> &o) { return convert(type, n, N, z.data(), mid, o); }, m)) return false;
        if (param == mid) { out = m; return true; }
        auto leg2 = [&](const std::vector<cl> &N, const std::vector<cl> &z, std::vector<cl> &o) {
            std::vector<cl> t;
            if (!convert(mid, n, N, z.data(), param, t)) return false;
            o.resize(t.size());
            for (int r = 0; r < n; r++) for (int q = 0; q < n; q++) o[(size_t)r * n + q] = ts1_normalise(param, r, q, t[(size_t)r * n + q], R);
            return true;
        };
        return stage(m, zz, leg2, out);
    }

    // tolerance of a "significant digits" field
    void check_sig(const Tok &t, ld expv, int p, ld fnoise, bool direct, const char *what, int fi, int idx, ld absround = 0) {
        if (!(fnoise == fnoise) || std::isinf((double)fnoise)) { c.label("field-unconstrained"); return; }
        double e = (double)expv;
        if (std::isnan(e)) { c.label("expected-nan"); return; }
        if (std::isinf(e) && fnoise > 0) { c.label("field-unconstrained"); return; }     // a pole of the view formula reached through a conversion
        if (std::isinf(e)) { PBT_CHECK(c, std::isinf(t.val) && (t.val > 0) == (e > 0), "C06.file_value", "%s f%d #%d: file has %s, expected %g", what, fi, idx, t.text.c_str(), e); return; }
        if (p == PMAX && direct && fnoise == 0) {
            PBT_CHECK(c, t.val == e, "C06.max_precision_not_exact", "%s f%d #%d: file has %s (= %a) but the object holds %a", what, fi, idx, t.text.c_str(), t.val, e);
            return;
        }
        ld rel = p == PMAX ? 0 : 0.6L * powl(10.0L, 1 - p);
        ld tol = rel * fabsl(expv) + (direct ? 0 : C_FIELD * EPS * (fabsl(expv) + absround)) + fnoise + 2 * EPS * fabsl(expv);   // last term: decimal -> double rounding of the reader
        ld err = fabsl((ld)t.val - expv);
        if (tol > 0 && fnoise == 0) c.track_max("sig_err/tol", (double)(err / tol));
        if (fnoise > 0 && p == PMAX) c.track_max("conv_err/noise", (double)(err / fnoise));
        if (!direct && fnoise == 0 && p == PMAX && fabsl(expv) + absround > 0) c.track_max("field_err/tol", (double)(err / (C_FIELD * EPS * (fabsl(expv) + absround))));
        PBT_CHECK(c, err <= tol, "C06.file_value", "%s f%d #%d: file has %s, expected %.17Lg (|diff| %.3Lg > tol %.3Lg; precision %d)", what, fi, idx, t.text.c_str(), expv, err, tol, p);
    }
    void check_angle(const Tok &t, ld expdeg, ld anoise_deg, const char *what, int fi, int idx) {
        if (!(anoise_deg == anoise_deg) || std::isinf((double)anoise_deg) || anoise_deg > 90) { c.label("field-unconstrained"); return; }
        if (std::isnan((double)expdeg)) { c.label("expected-nan"); return; }
        ld txt = t.hex ? 0 : (t.decimals >= 0 ? 0.6L * powl(10.0L, -t.decimals) : 0);
        ld tol = txt + 16 * EPS * 180 + anoise_deg;
        ld err = fabsl(remainderl((ld)t.val - expdeg, 360.0L));
        c.track_max("angle_err/tol", (double)(err / tol));
        PBT_CHECK(c, err <= tol, "C06.file_angle", "%s f%d #%d: file has angle %s, expected %.17Lg deg (|diff| %.3Lg > tol %.3Lg; %d decimals printed)", what, fi, idx, t.text.c_str(), expdeg, err, tol, t.decimals);
    }
    // noise of a real field g(v) caused by a complex noise disc of radius nz around v
    template <class G> ld field_noise(cl v, ld nz, G g) {
        if (nz == 0) return 0;
        if (!(nz < INFINITY)) return INFINITY;
        ld g0 = g(v), m = 0;
        for (int k = 0; k < 8; k++) { ld d = fabsl(g(v + std::polar<ld>(nz, k * PI_L / 4)) - g0); if (!(d <= m)) m = d; }
        return 2 * m;
    }

    // ------------------------------------------------------------------ the check ---
    void run() {
        gen_shape(); gen_file(); gen_format();
        fprec = gen_precision(); dprec = gen_precision();
        gen_frequencies(); gen_z0(); gen_data();
        describe();

        // resolved request
        std::vector<Spec> req = specs;
        if (!has_format) req.push_back(Spec{type, F_RI});
        for (auto &s : req) if (s.param == P_UNDEF) s.param = type;
        bool ts = kind_model != tsio::K_NPD;
        // refusals the documentation implies
        const char *must_refuse = nullptr;
        if (ts && req.size() != 1) must_refuse = "Touchstone takes a single specifier (vnadata(3))";
        for (auto &s : req) {
            if (ts && !(s.param == P_S || s.param == P_Z || s.param == P_Y || s.param == P_H || s.param == P_G)) must_refuse = "Touchstone is restricted to the s, z, y, h, g variants (vnadata(3))";
            if (ts && s.fmt > F_RI) must_refuse = "Touchstone is restricted to the s, z, y, h, g variants (vnadata(3))";
            if (type == P_ZIN && s.param != P_ZIN) must_refuse = "input impedances cannot be converted back to a matrix";
            if (is_2x2_only(s.param) && n != 2) must_refuse = "t, u, h, g, a, b parameters are defined for two-port networks only (vnaconv(3))";
        }
        bool must_accept = !has_format && kind_model == tsio::K_NPD;

        VD o; build(o);
        bool real_file = c.chance(1, 16);      // vnadata_save / vnadata_load on a real file instead of fsave / fload
        std::string path = filename;
        struct Unlinker { std::string p; ~Unlinker() { if (!p.empty()) unlink(p.c_str()); } } unl;
        if (real_file) { const char *d = getenv("PBT_TMPDIR"); path = std::string(d ? d : "/tmp") + "/c06_" + std::to_string((int)getpid()) + "_" + filename; unl.p = path; c.label("real-file"); }
        bool ck_first = !c.chance(1, 3);
        int rc_ck = -2, rc_sv; std::string text;
        log.clear();
        if (ck_first) rc_ck = vnadata_cksave(o.v, path.c_str());
        std::string ck_msgs = log.text(); int ck_err = log.n_nonwarning(); log.clear();
        if (real_file) {
            rc_sv = vnadata_save(o.v, path.c_str());
            FILE *fp = fopen(path.c_str(), "r");
            if (fp) { char b[4096]; size_t k; while ((k = fread(b, 1, sizeof b, fp)) > 0) text.append(b, k); fclose(fp); }
        } else { MemFile m; rc_sv = vnadata_fsave(o.v, m.fp, path.c_str()); text = m.finish(); }
        std::string sv_msgs = log.text(); int sv_err = log.n_nonwarning(); log.clear();
        if (!ck_first) { rc_ck = vnadata_cksave(o.v, path.c_str()); ck_msgs = log.text(); ck_err = log.n_nonwarning(); log.clear(); }
        c.note("%s: cksave=%d  %s=%d", ck_first ? "cksave first" : "save first", rc_ck, real_file ? "save" : "fsave", rc_sv);

        // (1) cksave <=> save
        PBT_CHECK(c, (rc_ck == 0) == (rc_sv == 0), "C06.cksave_save_disagree", "cksave returned %d (%s) but %s returned %d (%s)", rc_ck, ck_msgs.c_str(), real_file ? "save" : "fsave", rc_sv, sv_msgs.c_str());
        PBT_CHECK(c, (rc_ck == 0 || rc_ck == -1) && (rc_sv == 0 || rc_sv == -1), "C06.return_value", "return values must be 0 or -1: cksave %d save %d", rc_ck, rc_sv);
        if (rc_sv == 0) PBT_CHECK(c, sv_err == 0 && ck_err == 0, "C06.error_on_success", "success reported together with an error callback: %s %s", ck_msgs.c_str(), sv_msgs.c_str());
        if (rc_sv != 0) {
            PBT_CHECK(c, !must_accept, "C06.valid_refused", "saving to NPD with the default format was refused: %s", sv_msgs.c_str());
            c.label("refused");
            c.label(must_refuse ? "refused:documented" : "refused:other");
            return;
        }
        PBT_CHECK(c, must_refuse == nullptr, "C06.invalid_accepted", "save succeeded although %s", must_refuse);
        c.label("accepted");
        if (n >= 2 || fprec || dprec || req.size() > 1 || z0mode != 0) c.nontrivial();
        if (c.want_desc && text.size() < 1500) c.note("---- file ----\n%s--------------", text.c_str());

        // (2) independent reading of the file
        tsio::Parsed P = ts ? tsio::read_touchstone(text) : tsio::read_npd(text);
        PBT_CHECK(c, P.ok, "C06.file_unreadable", "independent reader rejects the %s file: %s", tsio::kind_name(kind_model), P.err.c_str());
        bool equal_z0 = true; for (int k = 1; k < n; k++) if (!(z0[0][k] == z0[0][0])) equal_z0 = false;
        if (ts_promotable) {
            bool fits_v1 = n <= 4 && equal_z0;
            PBT_CHECK(c, P.kind == tsio::K_TS2 || (P.kind == tsio::K_TS1 && fits_v1), "C06.file_kind", "file is %s but a %d-port with %s z0 does not fit Touchstone 1", tsio::kind_name(P.kind), n, equal_z0 ? "equal" : "unequal");
            if (P.kind == tsio::K_TS2 && fits_v1) c.label("promoted-without-need");
        } else PBT_CHECK(c, P.kind == kind_model, "C06.file_kind", "file is %s, expected %s for \"%s\" with file type %s", tsio::kind_name(P.kind), tsio::kind_name(kind_model), filename.c_str(), ft_name(set_ft));
        int kind = P.kind;
        c.label(std::string("kind:") + tsio::kind_name(kind));
        c.label(std::string("type:") + pname(type));
        c.label("z0mode:" + std::to_string(z0mode));
        c.label(nice ? "data:network" : "data:free");
        PBT_CHECK(c, P.ports == n, "C06.file_ports", "file declares %d ports, object has %d", P.ports, n);
        PBT_CHECK(c, (int)P.freq.size() == F && (P.nfreq_declared < 0 || P.nfreq_declared == F), "C06.file_frequencies", "file holds %zu frequencies (declared %d), object has %d", P.freq.size(), P.nfreq_declared, F);
        if (kind == tsio::K_NPD) {
            PBT_CHECK(c, P.field_keys == P.data_columns && P.field_keys_sequential, "C06.npd_field_key", "the '# field' key lists %d fields%s but data lines have %d columns", P.field_keys, P.field_keys_sequential ? "" : " (not numbered 1..N)", P.data_columns);
            PBT_CHECK(c, (P.fprecision < 0 || P.fprecision == p_f()) && (P.dprecision < 0 || P.dprecision == p_d()), "C06.npd_precision_header", "header says fprecision %d dprecision %d, object has %d %d", P.fprecision, P.dprecision, p_f(), p_d());
        }
        // groups
        PBT_CHECK(c, P.groups.size() == req.size(), "C06.file_groups", "file holds %zu parameter groups, %zu requested (%s)", P.groups.size(), req.size(), format.c_str());
        std::vector<int> gmap(req.size(), -1);
        {
            std::vector<bool> used(P.groups.size(), false);
            for (size_t i = 0; i < req.size(); i++) if (P.groups[i].param == req[i].param && P.groups[i].fmt == req[i].fmt) { gmap[i] = (int)i; used[i] = true; }
            for (size_t i = 0; i < req.size(); i++) if (gmap[i] < 0) for (size_t g = 0; g < P.groups.size(); g++) if (!used[g] && P.groups[g].param == req[i].param && P.groups[g].fmt == req[i].fmt) { gmap[i] = (int)g; used[g] = true; break; }
            for (size_t i = 0; i < req.size(); i++) {
                std::string have; for (auto &g : P.groups) have += g.name + " ";
                PBT_CHECK(c, gmap[i] >= 0, "C06.file_parameter", "requested %s%s (object type %s, format \"%s\") but the file declares: %s", pname(req[i].param), tsio::fmt_name(req[i].fmt), pname(type), has_format ? format.c_str() : "", have.c_str());
            }
        }
        // frequencies
        for (int fi = 0; fi < F; fi++) {
            ld fv = (ld)P.freq[fi].val * (kind == tsio::K_NPD ? 1 : (ld)P.unit_mult);
            Tok t = P.freq[fi]; t.val = (double)fv;
            check_sig(t, (ld)f[fi], p_f(), 0, P.unit_mult == 1 || kind == tsio::K_NPD, "frequency", fi, 0);
        }
        // reference impedances
        if (kind != tsio::K_NPD) {
            for (int k = 0; k < n; k++) check_sig(P.z0re[k], z0[0][k].real(), p_d(), 0, true, "z0", 0, k);
        } else if (P.per_freq_z0) {
            for (int fi = 0; fi < F; fi++) for (int k = 0; k < n; k++) { check_sig(P.fz0[fi][2 * k], z0[fi][k].real(), p_d(), 0, true, "fz0.re", fi, k); check_sig(P.fz0[fi][2 * k + 1], z0[fi][k].imag(), p_d(), 0, true, "fz0.im", fi, k); }
        } else {
            for (int fi = 0; fi < F; fi++) for (int k = 0; k < n; k++) { check_sig(P.z0re[k], z0[fi][k].real(), p_d(), 0, true, "z0.re", fi, k); check_sig(P.z0im[k], z0[fi][k].imag(), p_d(), 0, true, "z0.im", fi, k); }
        }
        // values
        bool illcond = false;
        for (size_t gi = 0; gi < req.size(); gi++) {
            const tsio::Group &g = P.groups[gmap[gi]];
            c.label(std::string("fmt:") + tsio::fmt_name(g.fmt));
            for (int fi = 0; fi < F; fi++) {
                std::vector<Val> ev;
                bool ok = expected(g.param, fi, kind, ev);
                if (!ok) { c.label("expected-undefined"); continue; }      // conversion singular for these numbers: nothing to compare
                const std::vector<Tok> &row = P.cols[fi];
                ld fr = (ld)f[fi];
                bool direct = true; for (auto &q : ev) if (q.noise > 0) direct = false;
                // a value whose conversion noise exceeds 1e-9 of its size (sensitivity amplification > ~130) is numerically undetermined
                // (singular or nearly singular conversion): nothing meaningful to compare
                for (auto &q : ev) if (!(q.noise <= ILL * std::abs(q.v))) { illcond = true; q.noise = INFINITY; }
                int p = p_d();
                std::string gname = g.name;
                if (g.fmt == F_IL) {
                    int k = 0;
                    for (int r = 0; r < n; r++) for (int q = 0; q < n; q++) { if (r == q) continue; const Val &e = ev[(size_t)r * n + q];
                        check_sig(row[g.col0 + k], insertion_loss(e.v), p, field_noise(e.v, e.noise, [](cl v) { return insertion_loss(v); }), false, "IL", fi, k, DB_ABS); k++; }
                } else if (g.fmt == F_RL) {
                    for (int k = 0; k < n; k++) { const Val &e = ev[(size_t)k * n + k]; check_sig(row[g.col0 + k], return_loss(e.v), p, field_noise(e.v, e.noise, [](cl v) { return return_loss(v); }), false, "RL", fi, k, DB_ABS); }
                } else if (g.fmt == F_VSWR) {
                    for (int k = 0; k < n; k++) { const Val &e = ev[(size_t)k * n + k];
                        if (!(std::abs(e.v) + e.noise < 1)) { c.label("vswr-undefined(|s|>=1)"); continue; }
                        check_sig(row[g.col0 + k], vswr(e.v), p, field_noise(e.v, e.noise, [](cl v) { return vswr(v); }), false, "VSWR", fi, k, 2 * vswr(e.v) / (1 - std::abs(e.v))); }
                } else {
                    for (size_t i = 0; i < ev.size(); i++) {
                        const Val &e = ev[i];
                        const Tok &a = row[g.col0 + 2 * i], &b = row[g.col0 + 2 * i + 1];
                        ld o2[2]; encode(g.fmt, e.v, fr, o2);
                        if (g.fmt == F_RI) {
                            check_sig(a, o2[0], p, e.noise, direct, gname.c_str(), fi, (int)(2 * i));
                            check_sig(b, o2[1], p, e.noise, direct, gname.c_str(), fi, (int)(2 * i + 1));
                        } else if (g.fmt == F_MA || g.fmt == F_DB) {
                            int fm = g.fmt;
                            if (e.v == cl(0)) { c.label("polar-of-zero"); if (fm == F_MA) check_sig(a, 0, p, e.noise, false, gname.c_str(), fi, (int)(2 * i)); continue; }
                            check_sig(a, o2[0], p, field_noise(e.v, e.noise, [fm, fr](cl v) { ld o[2]; encode(fm, v, fr, o); return o[0]; }), false, gname.c_str(), fi, (int)(2 * i), fm == F_DB ? DB_ABS : 0);
                            ld an = e.noise == 0 ? 0 : (e.noise < std::abs(e.v) / 2 ? 2 * asinl(e.noise / std::abs(e.v)) * 180 / PI_L : INFINITY);
                            check_angle(b, o2[1], an, gname.c_str(), fi, (int)(2 * i + 1));
                        } else {   // R-C / R-L views of the input impedance
                            int fm = g.fmt;
                            for (int w = 0; w < 2; w++) {
                                ld fnz = field_noise(e.v, e.noise, [fm, fr, w](cl v) { ld o[2]; encode(fm, v, fr, o); return o[w]; });
                                check_sig(w ? b : a, o2[w], p, fnz, false, gname.c_str(), fi, (int)(2 * i + w));
                            }
                        }
                    }
                }
            }
        }
        if (illcond) c.label("ill-conditioned-conversion");

        // (3) load the file back
        bool loadable = false;
        for (auto &g : P.groups) if (fmt_is_complex(g.fmt)) loadable = true;
        if (!loadable) { c.label("scalar-views-only"); return; }
        VD d;
        bool dirty = c.chance(1, 3);
        if (dirty) {
            d.v = vnadata_alloc_and_init(errlog_fn, &log, VPT_Z, 3, 3, 2);
            if (d.v && c.boolean()) vnadata_set_fz0(d.v, 1, 2, mkc(7, 1));
            c.label("load-into-used-object");
        } else d.v = vnadata_alloc(errlog_fn, &log);
        PBT_CHECK(c, d.v != nullptr, "C06.setup", "allocating the destination failed");
        // the name decides the type; if it does not, the destination's file type does; else NPD
        std::string ext; { size_t dot = filename.rfind('.'); if (dot != std::string::npos) ext = filename.substr(dot + 1); }
        bool name_decides = ext == "ts" || ext == "npd" || (ext.size() == 3 && ext[0] == 's' && ext[2] == 'p');
        if (!name_decides) {
            if (ts) vnadata_set_filetype(d.v, c.boolean() ? VNADATA_FILETYPE_TOUCHSTONE1 : VNADATA_FILETYPE_TOUCHSTONE2);
            else if (c.boolean()) vnadata_set_filetype(d.v, VNADATA_FILETYPE_NPD);
        }
        log.clear();
        int rc_ld;
        if (real_file) rc_ld = vnadata_load(d.v, path.c_str());
        else {
            FILE *fp = fmemopen((void *)text.data(), text.size(), "r");
            PBT_CHECK(c, fp != nullptr, "C06.setup", "fmemopen failed");
            rc_ld = vnadata_fload(d.v, fp, filename.c_str());
            fclose(fp);
        }
        c.note("%s(\"%s\") = %d %s", real_file ? "load" : "fload", filename.c_str(), rc_ld, log.text().c_str());
        PBT_CHECK(c, rc_ld == 0 && log.n_nonwarning() == 0, "C06.load_rejects_saved_file", "vnadata_fload of the file just saved (%s, parameters %s) returned %d: %s", tsio::kind_name(kind), kind == tsio::K_NPD ? format.c_str() : P.groups[0].name.c_str(), rc_ld, log.text().c_str());
        int lt = (int)vnadata_get_type(d.v);
        std::vector<const tsio::Group *> cand;
        for (auto &g : P.groups) if (fmt_is_complex(g.fmt) && g.param == lt) cand.push_back(&g);
        {
            std::string have; for (auto &g : P.groups) have += g.name + " ";
            PBT_CHECK(c, !cand.empty(), "C06.loaded_type", "loaded type %s is none of the saved parameters (%s)", pname(lt), have.c_str());
        }
        int er = lt == P_ZIN ? 1 : n;
        PBT_CHECK(c, vnadata_get_rows(d.v) == er && vnadata_get_columns(d.v) == n && vnadata_get_frequencies(d.v) == F, "C06.loaded_dims", "loaded %dx%d F=%d, expected %dx%d F=%d", vnadata_get_rows(d.v), vnadata_get_columns(d.v), vnadata_get_frequencies(d.v), er, n, F);
        for (int fi = 0; fi < F; fi++) {
            double lf = vnadata_get_frequency(d.v, fi);
            double ff = P.frequency_hz(fi);
            bool exactf = kind == tsio::K_NPD || P.unit_mult == 1;
            PBT_CHECK(c, exactf ? lf == ff : fabs(lf - ff) <= 4 * EPS * fabs(ff), "C06.loaded_frequency", "frequency %d: loaded %.17g, file says %s (%.17g Hz)", fi, lf, P.freq[fi].text.c_str(), ff);
            if (p_f() == PMAX) PBT_CHECK(c, lf == f[fi], "C06.max_precision_not_exact", "frequency %d: loaded %a, object had %a", fi, lf, f[fi]);
        }
        bool lperf = vnadata_has_fz0(d.v);
        PBT_CHECK(c, lperf == (kind == tsio::K_NPD && P.per_freq_z0), "C06.loaded_z0_mode", "loaded object %s per-frequency z0 but the file %s", lperf ? "has" : "has no", P.per_freq_z0 ? "declares PER-FREQUENCY" : "does not");
        for (int fi = 0; fi < F; fi++) for (int k = 0; k < n; k++) {
            dcx lz = vnadata_get_fz0(d.v, fi, k);
            double zr, zi;
            if (kind != tsio::K_NPD) { zr = P.z0re[k].val; zi = 0; }
            else if (P.per_freq_z0) { zr = P.fz0[fi][2 * k].val; zi = P.fz0[fi][2 * k + 1].val; }
            else { zr = P.z0re[k].val; zi = P.z0im[k].val; }
            PBT_CHECK(c, re_(lz) == zr && im_(lz) == zi, "C06.loaded_z0", "z0 of port %d at frequency %d: loaded %.17g%+.17gj, file says %.17g%+.17gj", k + 1, fi, re_(lz), im_(lz), zr, zi);
            if (p_d() == PMAX) PBT_CHECK(c, re_(lz) == (double)z0[fi][k].real() && im_(lz) == (double)z0[fi][k].imag(), "C06.max_precision_not_exact", "z0 of port %d: loaded %a%+aj, object had %a%+aj", k + 1, re_(lz), im_(lz), (double)z0[fi][k].real(), (double)z0[fi][k].imag());
        }
        int cells = er * n;
        for (int fi = 0; fi < F; fi++) for (int i = 0; i < cells; i++) {
            dcx lv = vnadata_get_cell(d.v, fi, i / n, i % n);
            cl lvl((ld)re_(lv), (ld)im_(lv));
            ld best = INFINITY; std::string detail;
            for (const tsio::Group *g : cand) {
                const Tok &a = P.cols[fi][g->col0 + 2 * i], &b = P.cols[fi][g->col0 + 2 * i + 1];
                cl dv; ld fr = (ld)P.frequency_hz(fi);
                decode(g->fmt, (ld)a.val, (ld)b.val, fr, dv);
                int r = i / n, q = i % n;
                // Touchstone 1 stores Z, Y, H, G normalised to R
                bool scaled = kind == tsio::K_TS1 && (g->param == P_Z || g->param == P_Y || ((g->param == P_H || g->param == P_G) && r == q));
                if (scaled) dv = ts1_denormalise(g->param, r, q, dv, (ld)P.R_value);
                bool exact = g->fmt == F_RI && !scaled;
                ld tol = exact ? 0 : C_LOAD * EPS * std::abs(dv) * (1 + (g->fmt == F_DB ? 0.1152L * fabsl((ld)a.val) : 0));
                ld err = std::abs(lvl - dv);
                bool nonfinite = !std::isfinite((double)dv.real()) || !std::isfinite((double)dv.imag());
                ld ratio;
                if (nonfinite) { ratio = 0; c.label("file-value-nonfinite"); }      // inf/nan in the file: nothing to assert
                else ratio = err == 0 ? 0 : (tol > 0 ? err / tol : INFINITY);
                if (ratio < best || detail.empty()) { best = std::min(best, ratio); char bb[400]; snprintf(bb, sizeof bb, "group %s holds %s %s = %.17Lg%+.17Lgj", g->name.c_str(), a.text.c_str(), b.text.c_str(), dv.real(), dv.imag()); detail = bb; }
            }
            if (best > 0 && best < INFINITY) c.track_max("load_err/tol", (double)best);
            PBT_CHECK(c, best <= 1, "C06.loaded_value", "cell (%d,%d) at frequency %d: loaded %.17g%+.17gj as type %s but %s (error/tolerance %.3Lg)", i / n + 1, i % n + 1, fi, re_(lv), im_(lv), pname(lt), detail.c_str(), best);
            // statement: exact at maximum precision in rectangular form where the values are stored directly
            if (p_d() == PMAX && lt == type && !(kind == tsio::K_TS1 && !(z0[fi][0] == cl(1)))) {
                bool ri_direct = false; for (const tsio::Group *g : cand) if (g->fmt == F_RI) ri_direct = true;
                if (ri_direct && cand.size() == 1) PBT_CHECK(c, re_(lv) == (double)data[fi][i].real() && im_(lv) == (double)data[fi][i].imag(), "C06.max_precision_not_exact", "cell %d at frequency %d: loaded %a%+aj, object had %a%+aj", i, fi, re_(lv), im_(lv), (double)data[fi][i].real(), (double)data[fi][i].imag());
            }
        }
        c.label("loaded");
    }
};

} // namespace

void pbt_property(Ctx &c) {
    H h(c);
    h.run();
}
