// C16 -- a vnacal_t is a table of named calibrations plus a table of parameter handles.
//
// Stateful histories (depth <= 100) over one vnacal_t and up to three vnacal_new_t, compared after
// every step with a TABLE MODEL: live calibrations ci -> {name, type, dims, f, z0, error box,
// property tree}, live parameter handles h -> {kind, supplied values / truth}.  Calibrations come
// from cheap scenarios with known truth (1-port short-open-match-like reflects of every error-term
// type, 2x2 SOLT with an 8-term error box), so the *contents* of a slot can be recognised by
// applying it to a synthetic measurement of a known DUT.  A shadow vnacal_t replays the same
// parameter creations / adds / solves WITHOUT any vnacal_delete_parameter: a handle deleted while
// a vnacal_new_t uses it must give the same solve outcome and corrected DUT as that clone.
#include "pbt.hpp"
#include <map>
#include <set>
#include <algorithm>
#include "vna.hpp"
#include "docmodel.hpp"
#include "propgen.hpp"

const char *PBT_PROPERTY = "C16";
using namespace pbt;
using namespace doc;

namespace {

// messages must stay valid UTF-8 even when truncated: print every byte >= 0x80 as an escape
static std::string ascii_only(const std::string &s) { std::string o; for (unsigned char ch : s) { if (ch >= 0x80) { char b[8]; snprintf(b, sizeof b, "\\x%02x", ch); o += b; } else o += (char)ch; } return o; }
static std::string qe(const std::string &s) { return ascii_only(doc::esc(s)); }
static std::string qs(const doc::NodeP &n) { return ascii_only(doc::show(n)); }

static const char *TYPE_NAMES[] = {"T8", "U8", "TE10", "UE10", "T16", "U16", "UE14", "?", "E12"};
static const int TYPES1[] = {VNACAL_T8, VNACAL_U8, VNACAL_TE10, VNACAL_UE10, VNACAL_T16, VNACAL_U16, VNACAL_UE14, VNACAL_E12};
static const int TYPES2[] = {VNACAL_T8, VNACAL_U8, VNACAL_TE10, VNACAL_UE10, VNACAL_UE14, VNACAL_E12};

// tolerances (calibrated with track_max, see notes/agent-cal.md)
static const double TOL_LINEAR = 1e-9;     // corrected DUT of a calibration solved from known standards
static const double TOL_ITER = 3e-4;       // ... solved together with unknown parameters (iterative, p_tolerance 1e-6)
static const double TOL_CLONE = 1e-9;      // history with deletes vs. clone without

struct Box {                 // 8-term error box: M = El + Er (I - S Em)^-1 S Et, all four diagonal
    int ports = 1, F = 0;
    std::vector<cd> el[2], er[2], et[2], em[2];
    cd refl(int p, int k, cd g) const { return el[p][k] + er[p][k] * et[p][k] * g / (1.0 - em[p][k] * g); }
    void meas2(int k, const cd S[4], cd M[4]) const {
        cd a11 = 1.0 - S[0] * em[0][k], a12 = -S[1] * em[1][k], a21 = -S[2] * em[0][k], a22 = 1.0 - S[3] * em[1][k];
        cd det = a11 * a22 - a12 * a21;
        cd i11 = a22 / det, i12 = -a12 / det, i21 = -a21 / det, i22 = a11 / det;
        cd x11 = i11 * S[0] + i12 * S[2], x12 = i11 * S[1] + i12 * S[3], x21 = i21 * S[0] + i22 * S[2], x22 = i21 * S[1] + i22 * S[3];
        M[0] = el[0][k] + er[0][k] * x11 * et[0][k]; M[1] = er[0][k] * x12 * et[1][k];
        M[2] = er[1][k] * x21 * et[0][k];            M[3] = el[1][k] + er[1][k] * x22 * et[1][k];
    }
};

struct CalM {
    std::string name; int type = 0, rows = 0, cols = 0, F = 0;
    std::vector<double> f; cd z0;
    Box box; bool trusted = true; double tol = TOL_LINEAR;
    NodeP props;
};
struct ParM {
    enum K { SCALAR, VECTOR, UNKNOWN, CORRELATED } kind = SCALAR;
    cd gamma;                        // SCALAR: supplied value
    int band = -1;                   // frequency band it is tied to (VECTOR: its knots; UNKNOWN/CORRELATED: through the chain or the sigma grid); -1: any
    int n = 4;                       // number of points of that band it covers (VECTOR: knots)
    std::vector<cd> g;               // VECTOR: supplied values at the knots bands[band][0..n-1]
    std::vector<cd> truth;           // value function used by the scenarios, [band * 4 + k] (VECTOR: own band only; UNKNOWN: guess + delta;
                                     // CORRELATED: the truth of its `other`, so that the correlation residual is zero at the truth)
    int other = -1;
    int chain_band = -1, chain_n = 0;   // band / knots of the VECTOR at the end of the guess/other chain (0: scalar)
    bool solved = false, value_trusted = false; int solved_band = 0, solved_F = 0; double solved_tol = 0;   // the MOST RECENT successful solve
    int shadow = -1;                 // twin handle in the shadow vnacal_t (never deleted there)
    int uses = 0;                    // adds (into still existing vnacal_new_t) that referenced it
};
struct Std { int kind = 0; int h1 = 0, h2 = 0; std::vector<cd> v1, v2; bool unknown = false; int also = -1; std::vector<int> unks; };   // unks: unknown / correlated handles of a 2-port standard (and their unknown `other`)   // also: unknown `other` of a correlated h1 (solved with it)   // kind 0 reflect (1-port), 1 double reflect, 2 through
struct SlotPar { std::vector<cd> v; int twin = -1; bool unknown = false; int also = -1; int corr_other = -1; };   // corr_other: the `other` of a correlated handle is registered with it   // what a slot knows about a handle it used (survives the handle's deletion)
struct NewM {
    vnacal_new_t *vn = nullptr, *svn = nullptr;
    std::map<int, SlotPar> seen;    // 1-port reflect handles registered in this vnacal_new_t
    std::set<int> regd;             // every handle number an ACCEPTED standard of this vnacal_new_t registered (incl. the `other` of a correlated one)
    int type = 0, ports = 1, band = 0, F = 0; std::vector<double> f; cd z0;   // f = bands[band][0..F-1]
    Box box;
    std::vector<Std> stds; std::set<int> handles;
    bool have_cal = false, trusted = false; double tol = TOL_LINEAR;   // a solved calibration waits in vn
    bool ever_solved = false;
};

struct DataH { vnadata_t *v; explicit DataH(vnadata_t *p) : v(p) {} ~DataH() { if (v) vnadata_free(v); } };

struct H {
    Ctx &c;
    ErrLog log, slog;
    vnacal_t *vc = nullptr, *sh = nullptr;
    PropGen g;
    // Three frequency bands of four points; every vnacal_new_t takes the first F points of ONE of them, so two
    // calibrations sharing a handle differ in length, or have the same length with overlapping but different
    // frequencies (bands 0 / 1), or the same length in a disjoint band (band 2).
    double bands[3][4];
    std::map<int, CalM> cals;
    std::map<int, ParM> pars;
    std::set<int> dead;              // handles that were live once and are not now
    NodeP gprops;
    NewM nw[3];
    int step = 0;
    bool f_two = false, f_delrep = false, f_inuse = false;
    int name_seq = 0;

    H(Ctx &c_) : c(c_), g(c_) {}
    ~H() {
        // vnacal_free at any point: whatever is still allocated (vnacal_new_t, parameters, calibrations) goes with it
        if (vc) vnacal_free(vc);
        if (sh) vnacal_free(sh);
    }

    // ---------------------------------------------------------------- helpers
    cd gen_small(double r) { double m = c.real(0, r), a = c.real(0, 6.283185307179586); return std::polar(m, a); }
    cd gen_gamma() {          // near one of the classical standards, so that well separated triples are common
        static const cd base[] = {cd(-1, 0), cd(1, 0), cd(0, 0), cd(0, 1), cd(0, -1), cd(0.5, 0.5)};
        cd b = base[c.weighted({3, 3, 3, 1, 1, 1})];
        cd z = b + gen_small(0.08);
        if (z == cd(0, 0) || z == cd(1, 0) || z == cd(-1, 0)) z += cd(0.01, 0.02);
        return z;
    }
    cd value_of(int h, int band, int k) const {
        if (h == VNACAL_MATCH) return cd(0, 0);
        if (h == VNACAL_OPEN) return cd(1, 0);
        if (h == VNACAL_SHORT) return cd(-1, 0);
        const ParM &p = pars.at(h);
        if (p.kind == ParM::SCALAR) return p.gamma;
        return p.truth.at(band * 4 + k);
    }
    int cover_of(int h) const { return h < 3 ? 4 : pars.at(h).n; }
    int band_of(int h) const { return h < 3 ? -1 : pars.at(h).band; }
    // may the handle stand in a calibration on this band with F points?  (values are only ever needed at knots)
    bool usable(int h, int band, int F) const { return h < 3 || ((pars.at(h).band == -1 || pars.at(h).band == band) && pars.at(h).n >= F); }
    int twin_of(int h) const { return h < 3 ? h : pars.at(h).shadow; }
    std::string hs(int h) const {
        if (h < 3) return h == 0 ? "MATCH" : h == 1 ? "OPEN" : "SHORT";
        return "h" + std::to_string(h);
    }
    void no_callback(const char *fn) {
        PBT_CHECK(c, log.n_total() == 0, "C16.silent_function_called_error_fn", "step %d: %s invoked the error function (%s); vnacal(3): these functions don't invoke it", step, fn, log.text().c_str());
    }

    // apply calibration ci of v to the synthetic measurement of a DUT behind `box`; returns max |S - truth|
    double content_error(vnacal_t *v, ErrLog &lg, int ci, const CalM &m, const std::vector<cd> &dut, std::vector<cd> *out, const char *what) {
        int P = m.box.ports;
        std::vector<std::vector<dcx>> cells(P * P, std::vector<dcx>(m.F));
        for (int k = 0; k < m.F; k++) {
            if (P == 1) cells[0][k] = mkc(m.box.refl(0, k, dut[k]));
            else { cd M[4]; m.box.meas2(k, &dut[4 * k], M); for (int q = 0; q < 4; q++) cells[q][k] = mkc(M[q]); }
        }
        std::vector<dcx *> ptr; for (auto &v_ : cells) ptr.push_back(v_.data());
        DataH d(vnadata_alloc(errlog_fn, &lg));
        PBT_CHECK(c, d.v != nullptr, "C16.harness", "vnadata_alloc failed");
        lg.clear();
        int rc = vnacal_apply_m(v, ci, m.f.data(), m.F, ptr.data(), P, P, d.v);
        PBT_CHECK(c, rc == 0, "C16.apply_failed", "step %d (%s): vnacal_apply_m on calibration %d (%s) failed: %s", step, what, ci, m.name.c_str(), lg.text().c_str());
        double worst = 0;
        for (int k = 0; k < m.F; k++) for (int q = 0; q < P * P; q++) {
            cd s = tocd(vnadata_get_cell(d.v, k, q / P, q % P));
            if (out) out->push_back(s);
            double e = std::abs(s - dut[P * P * k + q]);
            if (!(e <= worst)) worst = e;      // NaN propagates
        }
        return worst;
    }
    std::vector<cd> gen_dut(const Box &b) {
        std::vector<cd> d;
        for (int k = 0; k < b.F; k++) {
            if (b.ports == 1) d.push_back(std::polar(c.real(0, 0.9), c.real(0, 6.283185307179586)));
            else for (int q = 0; q < 4; q++) d.push_back(gen_small(0.45));
        }
        return d;
    }
    void check_contents(const char *what) {
        for (auto &kv : cals) {
            if (!kv.second.trusted) continue;
            std::vector<cd> dut = gen_dut(kv.second.box);
            double e = content_error(vc, log, kv.first, kv.second, dut, nullptr, what);
            c.track_max(kv.second.tol == TOL_LINEAR ? "content_err_linear/tol" : "content_err_iter/tol", e / kv.second.tol);
            PBT_CHECK(c, e <= kv.second.tol, "C16.slot_contents_changed", "step %d (%s): calibration %d (%s) no longer corrects a DUT measured through ITS error box: error %.3g > %.3g", step, what, kv.first, kv.second.name.c_str(), e, kv.second.tol);
        }
    }

    // ------------------------------------------------------------ table check
    void check_tables(const char *what) {
        log.clear();
        int end = vnacal_get_calibration_end(vc);
        int want_end = cals.empty() ? 0 : cals.rbegin()->first + 1;
        PBT_CHECK(c, end == want_end, "C16.calibration_end", "step %d (%s): vnacal_get_calibration_end = %d, model %d (one past the highest live index)", step, what, end, want_end);
        for (int ci = -2; ci <= want_end + 1; ci++) {
            auto it = cals.find(ci);
            errno = 0;
            const char *nm = vnacal_get_name(vc, ci);
            if (it == cals.end()) {
                PBT_CHECK(c, nm == nullptr, "C16.dead_slot_has_name", "step %d (%s): vnacal_get_name(%d) = \"%s\" but no calibration has that index", step, what, ci, nm);
                PBT_CHECK(c, (int)vnacal_get_type(vc, ci) == -1, "C16.dead_slot_getter", "step %d (%s): vnacal_get_type(%d) of an empty slot is not -1", step, what, ci);
                PBT_CHECK(c, vnacal_get_rows(vc, ci) == -1 && vnacal_get_columns(vc, ci) == -1 && vnacal_get_frequencies(vc, ci) == -1, "C16.dead_slot_getter", "step %d (%s): rows/columns/frequencies(%d) of an empty slot are not all -1", step, what, ci);
                PBT_CHECK(c, vnacal_get_fmin(vc, ci) == HUGE_VAL && vnacal_get_fmax(vc, ci) == HUGE_VAL && vnacal_get_frequency_vector(vc, ci) == nullptr, "C16.dead_slot_getter", "step %d (%s): fmin/fmax/frequency_vector(%d) of an empty slot do not fail", step, what, ci);
                PBT_CHECK(c, re_(vnacal_get_z0(vc, ci)) == HUGE_VAL, "C16.dead_slot_getter", "step %d (%s): vnacal_get_z0(%d) of an empty slot is not HUGE_VAL", step, what, ci);
                if (ci != -1) {
                    PBT_CHECK(c, vnacal_property_type(vc, ci, ".") == -1 && vnacal_property_get_subtree(vc, ci, ".") == nullptr, "C16.dead_slot_properties", "step %d (%s): property functions accept index %d of an empty slot", step, what, ci);
                }
                continue;
            }
            const CalM &m = it->second;
            PBT_CHECK(c, nm != nullptr && m.name == nm, "C16.name_at_index", "step %d (%s): vnacal_get_name(%d) = %s, model \"%s\"", step, what, ci, nm ? qe(nm).c_str() : "NULL", m.name.c_str());
            int fi = vnacal_find_calibration(vc, m.name.c_str());
            PBT_CHECK(c, fi == ci, "C16.find_index", "step %d (%s): vnacal_find_calibration(\"%s\") = %d, model %d", step, what, m.name.c_str(), fi, ci);
            int ty = (int)vnacal_get_type(vc, ci), r = vnacal_get_rows(vc, ci), co = vnacal_get_columns(vc, ci), F = vnacal_get_frequencies(vc, ci);
            PBT_CHECK(c, ty == m.type && r == m.rows && co == m.cols && F == m.F, "C16.getters", "step %d (%s): calibration %d (%s): type/rows/columns/frequencies = %d/%d/%d/%d, model %d/%d/%d/%d", step, what, ci, m.name.c_str(), ty, r, co, F, m.type, m.rows, m.cols, m.F);
            const double *fv = vnacal_get_frequency_vector(vc, ci);
            PBT_CHECK(c, fv != nullptr, "C16.getters", "step %d (%s): frequency vector of calibration %d is NULL", step, what, ci);
            for (int k = 0; k < m.F; k++) PBT_CHECK(c, same_bits(fv[k], m.f[k]), "C16.getters", "step %d (%s): calibration %d f[%d] = %.17g, model %.17g", step, what, ci, k, fv[k], m.f[k]);
            PBT_CHECK(c, same_bits(vnacal_get_fmin(vc, ci), m.f.front()) && same_bits(vnacal_get_fmax(vc, ci), m.f.back()), "C16.getters", "step %d (%s): fmin/fmax of calibration %d = %g/%g, model %g/%g", step, what, ci, vnacal_get_fmin(vc, ci), vnacal_get_fmax(vc, ci), m.f.front(), m.f.back());
            dcx z = vnacal_get_z0(vc, ci);
            PBT_CHECK(c, same_bits(z, mkc(m.z0)), "C16.getters", "step %d (%s): z0 of calibration %d = %g%+gj, model %g%+gj", step, what, ci, re_(z), im_(z), m.z0.real(), m.z0.imag());
            std::string why; NodeP got = read_tree(vnacal_property_get_subtree(vc, ci, "."), why);
            PBT_CHECK(c, why.empty() && equal(got, m.props), "C16.property_roots", "step %d (%s): properties of calibration %d: %s  model %s %s", step, what, ci, qs(got).c_str(), qs(m.props).c_str(), why.c_str());
        }
        {
            std::string why; NodeP got = read_tree(vnacal_property_get_subtree(vc, -1, "."), why);
            PBT_CHECK(c, why.empty() && equal(got, gprops), "C16.property_roots", "step %d (%s): global properties: %s  model %s %s", step, what, qs(got).c_str(), qs(gprops).c_str(), why.c_str());
        }
        errno = 0;
        int nf = vnacal_find_calibration(vc, "no such name");
        PBT_CHECK(c, nf == -1 && errno == ENOENT, "C16.find_missing", "step %d (%s): find of a name that is not in the table = %d errno %d (vnacal(3): -1, ENOENT)", step, what, nf, errno);
        no_callback("vnacal_find_calibration / vnacal_get_* / vnacal_property_*");
    }
    void check_params(const char *what) {
        // predefined handles are permanent
        static const double pre[3] = {0.0, 1.0, -1.0};
        for (int h = 0; h < 3; h++) {
            log.clear();
            dcx v = vnacal_get_parameter_value(vc, h, bands[0][0]);
            PBT_CHECK(c, re_(v) == pre[h] && im_(v) == 0.0, "C16.predefined_handle", "step %d (%s): value of predefined handle %d = %g%+gj, expected %g", step, what, h, re_(v), im_(v), pre[h]);
        }
        int top = pars.empty() ? 3 : pars.rbegin()->first + 1;
        if (!dead.empty()) top = std::max(top, *dead.rbegin() + 1);
        for (int h = -2; h <= top + 2; h++) {
            if (h >= 0 && h < 3) continue;
            auto it = pars.find(h);
            log.clear();
            if (it == pars.end()) {
                dcx v = vnacal_get_parameter_value(vc, h, bands[0][0]);
                PBT_CHECK(c, re_(v) == HUGE_VAL, "C16.dead_handle_has_value", "step %d (%s): vnacal_get_parameter_value(%d) of a handle that is not live returned %g%+gj", step, what, h, re_(v), im_(v));
                continue;
            }
            const ParM &p = it->second;
            switch (p.kind) {
            case ParM::SCALAR: {
                dcx v = vnacal_get_parameter_value(vc, h, bands[(size_t)step % 3][(size_t)step % 4]);
                PBT_CHECK(c, same_bits(v, mkc(p.gamma)), "C16.scalar_value", "step %d (%s): scalar h%d = %.17g%+.17gj, supplied %.17g%+.17gj", step, what, h, re_(v), im_(v), p.gamma.real(), p.gamma.imag());
                break;
            }
            case ParM::VECTOR:
                for (int k = 0; k < p.n; k++) {
                    dcx v = vnacal_get_parameter_value(vc, h, bands[p.band][k]);
                    PBT_CHECK(c, same_bits(v, mkc(p.g[k])), "C16.vector_value_at_knot", "step %d (%s): vector h%d at knot %d = %.17g%+.17gj, supplied %.17g%+.17gj", step, what, h, k, re_(v), im_(v), p.g[k].real(), p.g[k].imag());
                }
                break;
            default:
                if (p.solved && !p.value_trusted) break;      // written by a solve whose outcome is not asserted
                if (!p.solved) {
                    dcx v = vnacal_get_parameter_value(vc, h, bands[0][0]);
                    PBT_CHECK(c, re_(v) == HUGE_VAL, "C16.unsolved_has_value", "step %d (%s): unknown/correlated h%d was never solved but has value %g%+gj (vnacal_parameter(3): fails if not solved)", step, what, h, re_(v), im_(v));
                } else {
                    // the value is the one of the MOST RECENT solve, on that solve's frequencies
                    const double *sf = bands[p.solved_band];
                    for (int k = 0; k < p.solved_F; k++) {
                        log.clear();
                        dcx v = vnacal_get_parameter_value(vc, h, sf[k]);
                        cd t = p.truth[p.solved_band * 4 + k];
                        PBT_CHECK(c, re_(v) != HUGE_VAL, "C16.solved_value", "step %d (%s): %s h%d was last solved on band %d (%d points) but vnacal_get_parameter_value at its f[%d] = %g fails: %s", step, what, p.kind == ParM::UNKNOWN ? "unknown" : "correlated", h, p.solved_band, p.solved_F, k, sf[k], log.text().c_str());
                        double e = std::abs(tocd(v) - t);
                        c.track_max("unknown_param_err/tol", e / p.solved_tol);
                        PBT_CHECK(c, e <= p.solved_tol, "C16.solved_value", "step %d (%s): %s h%d (last solved on band %d, %d points) at f[%d] = %g: %.9g%+.9gj, truth %.9g%+.9gj (error %.3g)", step, what, p.kind == ParM::UNKNOWN ? "unknown" : "correlated", h, p.solved_band, p.solved_F, k, sf[k], re_(v), im_(v), t.real(), t.imag(), e);
                    }
                    // ... and only there: well outside of that grid the value is refused
                    for (double f : {0.5 * sf[0], 1.5 * sf[p.solved_F - 1]}) {
                        dcx v = vnacal_get_parameter_value(vc, h, f);
                        PBT_CHECK(c, re_(v) == HUGE_VAL, "C16.solved_value_out_of_range", "step %d (%s): h%d was last solved on %g..%g but vnacal_get_parameter_value(%g) returns %g%+gj", step, what, h, sf[0], sf[p.solved_F - 1], f, re_(v), im_(v));
                    }
                }
                break;
            }
        }
    }

    // ------------------------------------------------------------ parameters
    void made(int h, ParM p, const char *fn) {
        PBT_CHECK(c, h >= 3, "C16.make_failed", "step %d: %s returned %d: %s", step, fn, h, log.text().c_str());
        PBT_CHECK(c, pars.find(h) == pars.end(), "C16.live_handle_returned_twice", "step %d: %s returned handle %d which is still live (%s)", step, fn, h, fn);
        dead.erase(h);
        pars[h] = p;
    }
    void op_make_scalar() {
        cd z;
        int k = c.weighted({8, 1, 4});       // new alternatives at the END: recorded tapes keep their meaning
        bool special = false;
        if (k == 0) z = gen_gamma();
        else if (k == 1) { z = (cd[]){cd(0, 0), cd(1, 0), cd(-1, 0)}[c.draw(3)]; c.label("scalar:exactly-0/+-1"); }
        else {
            // exact special values a continuum never hits: only gamma EXACTLY 0, +1, -1 may share the predefined handles
            special = true;
            static const double one[] = {1.0, -1.0};
            switch (c.draw(8)) {
            case 0: z = cd(one[c.draw(2)], (double[]){0.25, -2.0, 1e-300, -4.9406564584124654e-324, 1.0, -1.0}[c.draw(6)]); c.label("scalar:re=+-1,im!=0"); break;
            case 1: z = cd(c.boolean() ? 0.0 : -0.0, (double[]){0.5, -0.25, 1e-300, 2.0}[c.draw(4)]); c.label("scalar:re=0,im!=0"); break;
            case 2: z = cd((double[]){0.37, -0.62, 2.0, -1.5, 0.999, 1.001}[c.draw(6)], c.boolean() ? 0.0 : -0.0); c.label("scalar:im=0,generic-re"); break;
            case 3: z = cd(c.boolean() ? 0.0 : -0.0, one[c.draw(2)]); c.label("scalar:+-j"); break;
            case 4: z = (cd[]){cd(1e-300, 0), cd(0, 1e-300), cd(-1e-300, 1e-300), cd(4.9406564584124654e-324, 0), cd(2.2250738585072014e-308, -2.2250738585072014e-308)}[c.draw(5)]; c.label("scalar:tiny"); break;
            case 5: z = cd((double[]){std::nextafter(1.0, 2.0), std::nextafter(1.0, 0.0), std::nextafter(-1.0, 0.0), std::nextafter(-1.0, -2.0)}[c.draw(4)], 0.0); c.label("scalar:one-ulp-from-+-1"); break;
            case 6: z = cd((double[]){1.0, -1.0, 0.0}[c.draw(3)], (double[]){std::nextafter(0.0, 1.0), -std::nextafter(0.0, 1.0), 2.220446049250313e-16}[c.draw(3)]); c.label("scalar:im-one-ulp-from-0"); break;
            default: z = (cd[]){cd(-0.0, 0.0), cd(0.0, -0.0), cd(1.0, -0.0), cd(-1.0, -0.0)}[c.draw(4)]; c.label("scalar:signed-zero-variants-of-0/+-1"); break;
            }
        }
        c.note("make_scalar(%.17g%+.17gj)%s", z.real(), z.imag(), special ? "  [special value]" : "");
        log.clear();
        int h = vnacal_make_scalar_parameter(vc, mkc(z));
        int s = vnacal_make_scalar_parameter(sh, mkc(z));
        if (h >= 0 && h < 3) {    // the library may hand out the permanent handle of the same value
            static const double pre[3] = {0.0, 1.0, -1.0};
            PBT_CHECK(c, z.real() == pre[h] && z.imag() == 0.0, "C16.predefined_handle", "step %d: make_scalar(%g%+gj) returned predefined handle %d", step, z.real(), z.imag(), h);
            c.note("  -> predefined %d", h);
            return;
        }
        ParM p; p.kind = ParM::SCALAR; p.gamma = z; p.n = 4; p.shadow = s;
        made(h, p, "vnacal_make_scalar_parameter");
        c.note("  -> h%d", h);
        if (special && c.boolean()) {      // straight into a standard, so that the solve / clone / content oracles see the value
            std::vector<int> v; for (int i = 0; i < 3; i++) if (nw[i].vn && nw[i].ports == 1 && nw[i].stds.size() < 60) v.push_back(i);
            if (!v.empty()) { add_reflect(v[c.draw(v.size())], h); c.label("special-scalar-in-standard"); }
        }
    }
    void op_make_vector() {
        int n = (int)c.range(1, 4);
        int b = (int)c.draw(3);
        ParM p; p.kind = ParM::VECTOR; p.n = n; p.band = b; p.chain_n = n; p.chain_band = b;
        cd base = gen_gamma();
        for (int k = 0; k < n; k++) p.g.push_back(base + gen_small(0.05));
        p.truth.assign(12, cd(NAN, NAN));
        for (int k = 0; k < n; k++) p.truth[b * 4 + k] = p.g[k];
        std::vector<dcx> gv; for (auto &z : p.g) gv.push_back(mkc(z));
        log.clear();
        int h = vnacal_make_vector_parameter(vc, bands[b], n, gv.data());
        p.shadow = vnacal_make_vector_parameter(sh, bands[b], n, gv.data());
        c.note("make_vector(%d knots on band %d, base %.4g%+.4gj) -> h%d", n, b, base.real(), base.imag(), h);
        made(h, p, "vnacal_make_vector_parameter");
    }
    // a live handle by kinds; -1 if none
    int pick_handle(bool predefined, bool scalar, bool vector, bool unknown, bool correlated) {
        std::vector<int> v;
        if (predefined) { v.push_back(2); v.push_back(1); v.push_back(0); }
        for (auto &kv : pars) {
            ParM::K k = kv.second.kind;
            if ((k == ParM::SCALAR && scalar) || (k == ParM::VECTOR && vector) || (k == ParM::UNKNOWN && unknown) || (k == ParM::CORRELATED && correlated)) v.push_back(kv.first);
        }
        if (v.empty()) return -1;
        return v[c.draw(v.size())];
    }
    int pick_dead_handle() {      // deleted, never allocated, negative
        switch (c.weighted({3, 2, 1, 1})) {
        case 0: if (!dead.empty()) { auto it = dead.begin(); std::advance(it, c.draw(dead.size())); return *it; } /*FALLTHROUGH*/
        case 1: { int top = pars.empty() ? 3 : pars.rbegin()->first + 1; if (!dead.empty()) top = std::max(top, *dead.rbegin() + 1); return top + (int)c.draw(40); }
        case 2: return -1;
        default: return -(int)c.range(2, 1000);
        }
    }
    void op_make_unknown() {
        if (c.chance(1, 8)) {     // invalid guess handle: refused
            int bad = pick_dead_handle();
            c.note("make_unknown(guess = dead handle %d)", bad);
            log.clear();
            int h = vnacal_make_unknown_parameter(vc, bad);
            PBT_CHECK(c, h == -1, "C16.invalid_handle_accepted", "step %d: vnacal_make_unknown_parameter(%d) with a handle that is not live returned %d", step, bad, h);
            return;
        }
        int other = pick_handle(true, true, true, false, false);
        ParM p; p.kind = ParM::UNKNOWN; p.other = other; p.n = cover_of(other); p.band = band_of(other);
        p.chain_n = other < 3 ? 0 : pars.at(other).chain_n; p.chain_band = other < 3 ? -1 : pars.at(other).chain_band;
        // the actual standard behind the unknown: near the guess, a different value at every frequency of every band
        p.truth.assign(12, cd(NAN, NAN));
        for (int b = 0; b < 3; b++) for (int k = 0; k < 4; k++) if (usable(other, b, k + 1)) p.truth[b * 4 + k] = value_of(other, b, k) + gen_small(0.04);
        log.clear();
        int h = vnacal_make_unknown_parameter(vc, other);
        p.shadow = vnacal_make_unknown_parameter(sh, twin_of(other));
        c.note("make_unknown(guess %s) -> h%d", hs(other).c_str(), h);
        made(h, p, "vnacal_make_unknown_parameter");
    }
    void op_make_correlated() {
        int other = pick_handle(true, true, true, true, false);
        ParM p; p.kind = ParM::CORRELATED; p.other = other; p.n = cover_of(other); p.band = band_of(other);
        // sigma grid: one frequency-independent value, an explicit grid, or (vector at the end of the chain) the NULL grid
        p.chain_n = other < 3 ? 0 : pars.at(other).chain_n; p.chain_band = other < 3 ? -1 : pars.at(other).chain_band;
        int form = c.weighted({3, 3, p.chain_n >= 2 ? 3u : 0u});
        double sig[4]; for (int k = 0; k < 4; k++) sig[k] = c.real(0.001, 0.1);
        log.clear();
        int h, s;
        if (form == 0) { h = vnacal_make_correlated_parameter(vc, other, nullptr, 1, sig); s = vnacal_make_correlated_parameter(sh, twin_of(other), nullptr, 1, sig); c.note("make_correlated(other %s, 1 sigma) -> h%d", hs(other).c_str(), h); }
        else if (form == 1) {      // explicit sigma grid: on the band of the chain's vector (must overlap it), else on any band; it limits where the parameter may be used
            int n = (int)c.range(3, 4), b = p.chain_band >= 0 ? p.chain_band : (int)c.draw(3);
            h = vnacal_make_correlated_parameter(vc, other, bands[b], n, sig); s = vnacal_make_correlated_parameter(sh, twin_of(other), bands[b], n, sig);
            p.band = b; p.n = std::min(p.n, n);
            c.note("make_correlated(other %s, %d sigma frequencies on band %d) -> h%d", hs(other).c_str(), n, b, h);
        } else { int n = p.chain_n; h = vnacal_make_correlated_parameter(vc, other, nullptr, n, sig); s = vnacal_make_correlated_parameter(sh, twin_of(other), nullptr, n, sig); p.band = p.chain_band; p.n = std::min(p.n, n); c.note("make_correlated(other %s, NULL grid: the %d knots of the vector at the end of the chain) -> h%d", hs(other).c_str(), n, h); c.label("correlated-null-grid"); }
        p.shadow = s;
        // the standard behind a correlated parameter is the very standard behind its `other`: zero correlation residual at the truth
        p.truth.assign(12, cd(NAN, NAN));
        for (int b = 0; b < 3; b++) for (int k = 0; k < 4; k++) if (usable(other, b, k + 1)) p.truth[b * 4 + k] = value_of(other, b, k);
        made(h, p, "vnacal_make_correlated_parameter");
    }
    void op_delete_parameter() {
        int k = c.weighted({6, 1, 3});
        if (k == 0 && !pars.empty()) {
            auto it = pars.begin(); std::advance(it, c.draw(pars.size()));
            int h = it->first;
            bool inuse = it->second.uses > 0;
            c.note("delete_parameter(h%d)%s", h, inuse ? "  [in use by a vnacal_new_t]" : "");
            log.clear();
            int rc = vnacal_delete_parameter(vc, h);
            PBT_CHECK(c, rc == 0, "C16.delete_live_handle_failed", "step %d: vnacal_delete_parameter(%d) of a live handle returned %d: %s", step, h, rc, log.text().c_str());
            pars.erase(it); dead.insert(h);
            if (inuse) { f_inuse = true; c.label("parameter-deleted-in-use"); }
            return;
        }
        if (k == 1 || (k == 0 && pars.empty())) {
            int h = (int)c.draw(3);
            c.note("delete_parameter(predefined %d)", h);
            log.clear();
            int rc = vnacal_delete_parameter(vc, h);   // accepted or refused: both leave the handle valid (checked below)
            (void)rc;
            c.label("delete-predefined");
            return;
        }
        int h = pick_dead_handle();
        c.note("delete_parameter(dead handle %d)", h);
        log.clear();
        errno = 0;
        int rc = vnacal_delete_parameter(vc, h);
        PBT_CHECK(c, rc == -1, "C16.delete_dead_handle_accepted", "step %d: vnacal_delete_parameter(%d) of a handle that is not live (deleted / never allocated / negative) returned %d (vnacal_parameter(3): -1, EINVAL)", step, h, rc);
        c.label(h < 0 ? "delete-negative-handle" : "delete-dead-handle");
    }
    void op_probe_value() {
        // vector parameters: inside and outside of the range
        int h = pick_handle(false, false, true, false, false);
        if (h < 0) return;
        const ParM &p = pars.at(h);
        double lo = bands[p.band][0], hi = bands[p.band][p.n - 1];
        int where = (int)c.draw(3);
        double f = where == 0 ? lo * 0.5 : where == 1 ? hi * 1.5 : lo + (hi - lo) * c.unit();
        c.note("get_parameter_value(h%d, %s)", h, where == 0 ? "below range" : where == 1 ? "above range" : "inside range");
        log.clear();
        dcx v = vnacal_get_parameter_value(vc, h, f);
        if (where != 2) PBT_CHECK(c, re_(v) == HUGE_VAL, "C16.out_of_range_value", "step %d: vector h%d (range %g..%g) evaluated at %g returned %g%+gj", step, h, lo, hi, f, re_(v), im_(v));
        else PBT_CHECK(c, std::isfinite(re_(v)) && std::isfinite(im_(v)), "C16.in_range_value", "step %d: vector h%d (range %g..%g) evaluated at %g failed: %s", step, h, lo, hi, f, log.text().c_str());
    }

    // ---------------------------------------------------------- vnacal_new_t
    int pick_slot(bool used) { std::vector<int> v; for (int i = 0; i < 3; i++) if ((nw[i].vn != nullptr) == used) v.push_back(i); return v.empty() ? -1 : v[c.draw(v.size())]; }
    void op_new_alloc(int force_ports = 0) {
        int s = pick_slot(false);
        if (s < 0) return;
        NewM &n = nw[s];
        n = NewM();
        n.ports = force_ports ? force_ports : c.chance(1, 4) ? 2 : 1;
        n.type = n.ports == 1 ? TYPES1[c.draw(8)] : TYPES2[c.draw(6)];
        n.F = (int)c.range(1, 3);
        n.band = (int)c.draw(3);
        n.f.assign(bands[n.band], bands[n.band] + n.F);
        n.z0 = c.boolean() ? cd(50, 0) : cd(c.real(10, 200), c.real(-50, 50));
        n.box.ports = n.ports; n.box.F = n.F;
        for (int p = 0; p < n.ports; p++) for (int k = 0; k < n.F; k++) {
            n.box.el[p].push_back(gen_small(0.25)); n.box.em[p].push_back(gen_small(0.25));
            n.box.er[p].push_back(std::polar(c.real(0.7, 1.2), c.real(0, 6.283185307179586)));
            n.box.et[p].push_back(n.ports == 1 ? cd(1, 0) : std::polar(c.real(0.8, 1.1), c.real(0, 6.283185307179586)));
        }
        c.note("new_alloc(slot %d: %s %dx%d, %d frequencies of band %d, z0 %.4g%+.4gj)", s, TYPE_NAMES[n.type], n.ports, n.ports, n.F, n.band, n.z0.real(), n.z0.imag());
        log.clear();
        n.vn = vnacal_new_alloc(vc, (vnacal_type_t)n.type, n.ports, n.ports, n.F);
        PBT_CHECK(c, n.vn != nullptr, "C16.new_alloc_failed", "step %d: vnacal_new_alloc failed: %s", step, log.text().c_str());
        n.svn = vnacal_new_alloc(sh, (vnacal_type_t)n.type, n.ports, n.ports, n.F);
        PBT_CHECK(c, n.svn != nullptr, "C16.harness", "shadow new_alloc failed");
        int rc = vnacal_new_set_frequency_vector(n.vn, n.f.data());
        PBT_CHECK(c, rc == 0, "C16.new_alloc_failed", "step %d: vnacal_new_set_frequency_vector failed: %s", step, log.text().c_str());
        vnacal_new_set_frequency_vector(n.svn, n.f.data());
        rc = vnacal_new_set_z0(n.vn, mkc(n.z0));
        PBT_CHECK(c, rc == 0, "C16.new_alloc_failed", "step %d: vnacal_new_set_z0 failed", step);
        vnacal_new_set_z0(n.svn, mkc(n.z0));
    }
    void release_slot(NewM &n) {
        for (int h : n.handles) { auto it = pars.find(h); if (it != pars.end() && it->second.uses > 0) it->second.uses--; }
        n = NewM();
    }
    void op_new_free() {
        int s = pick_slot(true);
        if (s < 0) return;
        c.note("new_free(slot %d)", s);
        vnacal_new_free(nw[s].vn); vnacal_new_free(nw[s].svn);
        release_slot(nw[s]);
    }
    // which standard the slot still lacks: prefer completing a determining set
    int pick_std_handle(const NewM &n, bool allow_unknown) {
        // usable: covers the calibration's frequencies; known kinds (+ unknown on 1-port)
        std::vector<int> v = {2, 1, 0}, shared;
        for (auto &kv : pars) {
            const ParM &p = kv.second;
            if (!usable(kv.first, n.band, n.F)) continue;
            if (p.kind == ParM::SCALAR || p.kind == ParM::VECTOR) v.push_back(kv.first);
            // a correlated parameter brings its `other` into the calibration: that handle must still be live
            else if (allow_unknown && (p.kind == ParM::UNKNOWN || (p.kind == ParM::CORRELATED && (p.other < 3 || pars.count(p.other))))) { v.push_back(kv.first); shared.push_back(kv.first); }
        }
        // unknown / correlated handles are shared between the vnacal_new_t: the same handle gets solved again and again, on other grids
        if (!shared.empty() && c.chance(1, 4)) return shared[c.draw(shared.size())];
        if (c.chance(3, 5)) {   // next of short/open/match not yet present
            for (int h : {2, 1, 0}) { bool have = false; for (auto &s : n.stds) if (s.kind != 2 && (s.h1 == h)) have = true; if (!have) return h; }
        }
        return v[c.draw(v.size())];
    }
    void op_add_std(int s = -1) {
        if (s < 0) s = pick_slot(true);
        if (s < 0) return;
        NewM &n = nw[s];
        if (n.stds.size() >= 12) return;
        Std st;
        std::vector<std::vector<dcx>> cells(n.ports * n.ports, std::vector<dcx>(n.F));
        int rc, src;
        log.clear();
        if (n.ports == 1) {
            st.kind = 0; st.h1 = pick_std_handle(n, true);
            st.unknown = st.h1 >= 3 && (pars.at(st.h1).kind == ParM::UNKNOWN || pars.at(st.h1).kind == ParM::CORRELATED);
            if (st.h1 >= 3 && pars.at(st.h1).kind == ParM::CORRELATED) { int o = pars.at(st.h1).other; if (o >= 3 && pars.at(o).kind == ParM::UNKNOWN) st.also = o; c.label("correlated-in-calibration"); }
            for (int k = 0; k < n.F; k++) { st.v1.push_back(value_of(st.h1, n.band, k)); cells[0][k] = mkc(n.box.refl(0, k, st.v1[k])); }
            dcx *ptr[1] = {cells[0].data()};
            c.note("add_single_reflect_m(slot %d, %s)", s, hs(st.h1).c_str());
            rc = vnacal_new_add_single_reflect_m(n.vn, ptr, 1, 1, st.h1, 1);
            src = vnacal_new_add_single_reflect_m(n.svn, ptr, 1, 1, twin_of(st.h1), 1);
            if (rc == 0 && !n.seen.count(st.h1)) { SlotPar sp; sp.v = st.v1; sp.twin = twin_of(st.h1); sp.unknown = st.unknown; sp.also = st.also; if (st.h1 >= 3 && pars.at(st.h1).kind == ParM::CORRELATED) sp.corr_other = pars.at(st.h1).other; n.seen[st.h1] = sp; }
        } else {
            bool thru = c.chance(1, 4);
            bool have_thru = false; for (auto &q : n.stds) if (q.kind == 2) have_thru = true;
            if (!have_thru && n.stds.size() >= 3) thru = true;
            dcx *ptr[4] = {cells[0].data(), cells[1].data(), cells[2].data(), cells[3].data()};
            if (thru) {
                st.kind = 2;
                for (int k = 0; k < n.F; k++) { cd S[4] = {0, 1, 1, 0}, M[4]; n.box.meas2(k, S, M); for (int q = 0; q < 4; q++) cells[q][k] = mkc(M[q]); }
                c.note("add_through_m(slot %d, ports 1-2)", s);
                rc = vnacal_new_add_through_m(n.vn, ptr, 2, 2, 1, 2);
                src = vnacal_new_add_through_m(n.svn, ptr, 2, 2, 1, 2);
            } else {
                st.kind = 1; st.h1 = pick_std_handle(n, false); st.h2 = c.chance(2, 3) ? st.h1 : pick_std_handle(n, false);
                for (int k = 0; k < n.F; k++) {
                    st.v1.push_back(value_of(st.h1, n.band, k)); st.v2.push_back(value_of(st.h2, n.band, k));
                    cd S[4] = {st.v1[k], 0, 0, st.v2[k]}, M[4]; n.box.meas2(k, S, M); for (int q = 0; q < 4; q++) cells[q][k] = mkc(M[q]);
                }
                c.note("add_double_reflect_m(slot %d, %s, %s)", s, hs(st.h1).c_str(), hs(st.h2).c_str());
                rc = vnacal_new_add_double_reflect_m(n.vn, ptr, 2, 2, st.h1, st.h2, 1, 2);
                src = vnacal_new_add_double_reflect_m(n.svn, ptr, 2, 2, twin_of(st.h1), twin_of(st.h2), 1, 2);
            }
        }
        PBT_CHECK(c, rc == 0, "C16.add_failed", "step %d: vnacal_new_add_* with live handles failed: %s", step, log.text().c_str());
        PBT_CHECK(c, src == 0, "C16.harness", "shadow add failed: %s", slog.text().c_str());
        std::vector<int> used; if (st.kind == 0) used = {st.h1, st.also}; else if (st.kind == 1) used = {st.h1, st.h2};
        for (int h : used) if (h >= 0) n.regd.insert(h);
        if (st.kind == 0 && st.h1 >= 3 && pars.at(st.h1).kind == ParM::CORRELATED) n.regd.insert(pars.at(st.h1).other);
        for (int h : used) if (h >= 3 && n.handles.insert(h).second) pars.at(h).uses++;
        n.stds.push_back(st);
    }
    // are three known reflects on `port` pairwise >= 0.4 apart at every frequency?
    static bool has_triple(const NewM &n, int port) {
        std::vector<const std::vector<cd> *> v;
        for (auto &s : n.stds) { if (s.kind == 2 || s.unknown) continue; v.push_back(port == 0 ? &s.v1 : (s.kind == 1 ? &s.v2 : &s.v1)); }
        auto far = [&](size_t a, size_t b) { for (int k = 0; k < n.F; k++) if (std::abs((*v[a])[k] - (*v[b])[k]) < 0.4) return false; return true; };
        for (size_t a = 0; a < v.size(); a++) for (size_t b = a + 1; b < v.size(); b++) { if (!far(a, b)) continue; for (size_t d = b + 1; d < v.size(); d++) if (far(a, d) && far(b, d)) return true; }
        return false;
    }
    static bool determined(const NewM &n) {
        if (n.ports == 1) return has_triple(n, 0);
        bool thru = false; for (auto &s : n.stds) if (s.kind == 2) thru = true;
        return thru && has_triple(n, 0) && has_triple(n, 1);
    }
    void op_solve(int s = -1) {
        if (s < 0) s = pick_slot(true);
        if (s < 0) return;
        NewM &n = nw[s];
        bool det = determined(n);
        if (!det && !c.chance(1, 6)) { op_add_std(s); return; }     // mostly solve determined systems; sometimes a premature one
        std::set<int> unk; for (auto &st : n.stds) if (st.unknown) { if (st.kind == 0) { unk.insert(st.h1); if (st.also >= 0) unk.insert(st.also); } for (int u : st.unks) unk.insert(u); }
        c.note("solve(slot %d)%s%s", s, det ? "" : "  [not yet determined: outcome not asserted]", unk.empty() ? "" : "  [with unknown parameters]");
        log.clear(); slog.clear();
        int rc = vnacal_new_solve(n.vn);
        int src = vnacal_new_solve(n.svn);
        PBT_CHECK(c, rc == src, "C16.deleted_handle_changes_solve", "step %d: vnacal_new_solve = %d (%s) but the clone history without parameter deletions gives %d (%s)", step, rc, log.text().c_str(), src, slog.text().c_str());
        if (det) PBT_CHECK(c, rc == 0, "C16.solve_failed", "step %d: vnacal_new_solve failed on a determined, well-conditioned standard set: %s", step, log.text().c_str());
        if (rc == 0) {
            n.have_cal = true; n.ever_solved = true; n.trusted = det; n.tol = unk.empty() ? TOL_LINEAR : TOL_ITER;
            for (int h : unk) { auto it = pars.find(h); if (it != pars.end()) { if (it->second.solved && (it->second.solved_band != n.band || it->second.solved_F != n.F)) c.label(it->second.solved_F != n.F ? "handle-re-solved:other-length" : n.band + it->second.solved_band == 1 ? "handle-re-solved:same-length-overlapping-grid" : "handle-re-solved:same-length-disjoint-band"); it->second.solved = true; it->second.value_trusted = det; it->second.solved_band = n.band; it->second.solved_F = n.F; it->second.solved_tol = TOL_ITER; } }
            if (!unk.empty()) c.label("solved-with-unknown");
        }
        if (!det) c.label("premature-solve");
    }
    std::string gen_cal_name(bool want_existing) {
        if (want_existing && !cals.empty()) { auto it = cals.begin(); std::advance(it, c.draw(cals.size())); return it->second.name; }
        static const char *pool[] = {"cal", "a b", "x:y", "T8", "0", "\xC3\xBC", "#1", "-", "long name with several words"};
        std::string base = pool[c.draw(9)];
        for (auto &kv : cals) if (kv.second.name == base) return base + "-" + std::to_string(++name_seq);
        return base;
    }
    void op_add_calibration(int s = -1) {
        if (s < 0) {     // prefer a slot that holds a solved calibration
            std::vector<int> v; for (int i = 0; i < 3; i++) if (nw[i].vn && nw[i].have_cal) v.push_back(i);
            if (!v.empty() && c.chance(7, 8)) s = v[c.draw(v.size())]; else s = pick_slot(true);
        }
        if (s < 0) return;
        NewM &n = nw[s];
        bool replace = !cals.empty() && c.chance(1, 3);
        std::string name = gen_cal_name(replace);
        if (!n.have_cal && n.ever_solved) return;   // solved calibration already stored: vnacal(3) does not say what a second add does -- not generated
        if (!n.have_cal) {
            c.note("add_calibration(\"%s\", slot %d)  [nothing solved: refused]", name.c_str(), s);
            log.clear();
            int ci = vnacal_add_calibration(vc, name.c_str(), n.vn);
            PBT_CHECK(c, ci == -1, "C16.add_unsolved_accepted", "step %d: vnacal_add_calibration of a vnacal_new_t without a solved calibration returned %d", step, ci);
            return;
        }
        int old = -1; for (auto &kv : cals) if (kv.second.name == name) old = kv.first;
        size_t count_before = cals.size();
        c.note("add_calibration(\"%s\", slot %d)%s", name.c_str(), s, old >= 0 ? "  [replaces]" : "");
        log.clear();
        int ci = vnacal_add_calibration(vc, name.c_str(), n.vn);
        PBT_CHECK(c, ci >= 0, "C16.add_calibration_failed", "step %d: vnacal_add_calibration failed: %s", step, log.text().c_str());
        c.note("  -> ci %d", ci);
        int fi = vnacal_find_calibration(vc, name.c_str());
        PBT_CHECK(c, fi == ci, "C16.add_returns_wrong_index", "step %d: vnacal_add_calibration(\"%s\") returned %d but vnacal_find_calibration gives %d", step, name.c_str(), ci, fi);
        if (old >= 0) { cals.erase(old); f_delrep = true; c.label("replace-existing-name"); }
        PBT_CHECK(c, cals.find(ci) == cals.end(), "C16.add_overwrote_live_slot", "step %d: vnacal_add_calibration(\"%s\") returned index %d which holds the live calibration \"%s\"", step, name.c_str(), ci, cals.count(ci) ? cals[ci].name.c_str() : "");
        CalM m; m.name = name; m.type = n.type; m.rows = m.cols = n.ports; m.F = n.F; m.f = n.f; m.z0 = n.z0; m.box = n.box; m.trusted = n.trusted; m.tol = n.tol;
        cals[ci] = m;
        if (old >= 0) PBT_CHECK(c, cals.size() == count_before, "C16.replace_changed_count", "step %d: replacing \"%s\" changed the number of live calibrations", step, name.c_str());
        n.have_cal = false;
        if (cals.size() >= 2) f_two = true;
        // clone without deletions: same corrected DUT
        slog.clear();
        int sci = vnacal_add_calibration(sh, "clone", n.svn);
        PBT_CHECK(c, sci >= 0, "C16.harness", "shadow add_calibration failed: %s", slog.text().c_str());
        if (m.trusted) {
            std::vector<cd> dut = gen_dut(m.box), a, b;
            double e = content_error(vc, log, ci, m, dut, &a, "add_calibration");
            content_error(sh, slog, sci, m, dut, &b, "add_calibration (clone)");
            double d = 0; for (size_t i = 0; i < a.size(); i++) d = std::max(d, std::abs(a[i] - b[i]));
            c.track_max("clone_diff/tol", d / TOL_CLONE);
            PBT_CHECK(c, d <= TOL_CLONE, "C16.deleted_handle_changes_result", "step %d: corrected DUT differs by %.3g from the clone history without parameter deletions", step, d);
            PBT_CHECK(c, e <= m.tol, "C16.solved_calibration_wrong", "step %d: calibration \"%s\" (%s %dx%d) does not correct a DUT measured through its own error box: error %.3g > %.3g", step, name.c_str(), TYPE_NAMES[m.type], m.rows, m.cols, e, m.tol);
        }
        vnacal_delete_calibration(sh, sci);
    }
    void op_delete_calibration() {
        int ci;
        bool live = !cals.empty() && c.chance(3, 4);
        if (live) { auto it = cals.begin(); std::advance(it, c.draw(cals.size())); ci = it->first; }
        else { int end = cals.empty() ? 0 : cals.rbegin()->first + 1; ci = (int)c.range(-2, end + 2); if (cals.count(ci)) ci = end; }
        c.note("delete_calibration(%d)%s", ci, live ? "" : "  [no such calibration]");
        log.clear(); errno = 0;
        int rc = vnacal_delete_calibration(vc, ci);
        if (live) {
            PBT_CHECK(c, rc == 0, "C16.delete_calibration_failed", "step %d: vnacal_delete_calibration(%d) of a live calibration returned %d errno %d", step, ci, rc, errno);
            cals.erase(ci); f_delrep = true; c.label("delete-calibration");
        } else {
            PBT_CHECK(c, rc == -1, "C16.delete_dead_calibration_accepted", "step %d: vnacal_delete_calibration(%d) of an empty slot returned %d", step, ci, rc);
        }
        no_callback("vnacal_delete_calibration");
    }
    void op_property() {
        // root: global, a live calibration, or an index without calibration
        int ci; NodeP *root = nullptr;
        int k = c.weighted({3, 4, 1});
        if (k == 1 && !cals.empty()) { auto it = cals.begin(); std::advance(it, c.draw(cals.size())); ci = it->first; root = &it->second.props; }
        else if (k == 2) { int end = cals.empty() ? 0 : cals.rbegin()->first + 1; ci = (int)c.range(-3, end + 1); if (ci == -1 || cals.count(ci)) ci = end; }
        else { ci = -1; root = &gprops; }
        bool del = c.chance(1, 4);
        NodeP dummy;
        Desc d = g.gen_desc(root ? *root : dummy, !del);
        log.clear(); errno = 0;
        if (del) {
            std::string ds = g.print(d);
            c.note("property_delete(ci %d, %s)", ci, qe(ds).c_str());
            int rc = vnacal_property_delete(vc, ci, "%s", ds.c_str());
            if (!root) { PBT_CHECK(c, rc == -1, "C16.property_bad_index_accepted", "step %d: vnacal_property_delete with index %d of no calibration returned %d", step, ci, rc); return; }
            NodeP before = clone(*root);
            Res r = op_delete(root, d);
            if (!r.ok) *root = before;
            PBT_CHECK(c, (rc == 0) == r.ok, "C16.property_result", "step %d: vnacal_property_delete(%d, %s) returned %d, model %s", step, ci, qe(ds).c_str(), rc, r.ok ? "accepts" : "refuses");
        } else {
            bool isnull = c.chance(1, 6);
            std::string val = isnull ? "" : g.gen_value();
            std::string ds = g.print(d) + (isnull ? "#" : "=" + val);
            c.note("property_set(ci %d, %s)", ci, qe(ds).c_str());
            int rc = vnacal_property_set(vc, ci, "%s", ds.c_str());
            if (!root) { PBT_CHECK(c, rc == -1, "C16.property_bad_index_accepted", "step %d: vnacal_property_set with index %d of no calibration returned %d", step, ci, rc); return; }
            NodeP before = clone(*root);
            Res r = op_set(root, d, isnull, val);
            if (!r.ok) *root = before;
            PBT_CHECK(c, (rc == 0) == r.ok, "C16.property_result", "step %d: vnacal_property_set(%d, %s) returned %d, model %s", step, ci, qe(ds).c_str(), rc, r.ok ? "accepts" : "refuses");
            if (r.ok && !isnull && d.tail == Desc::NONE && !d.has_insert()) {
                std::string qs = g.print(d);
                const char *got = vnacal_property_get(vc, ci, "%s", qs.c_str());
                PBT_CHECK(c, got && val == got, "C16.property_get", "step %d: vnacal_property_get(%d, %s) = %s after setting %s", step, ci, qe(qs).c_str(), got ? qe(got).c_str() : "NULL", qe(val).c_str());
            }
        }
        c.label(ci == -1 ? "global-property-op" : "calibration-property-op");
    }

    // ---- many parameters in ONE vnacal_new_t: its handle table grows (8 -> 16 -> 32 -> 64 buckets) ------------
    // number of distinct handles registered in the slot (handle 0 is registered by vnacal_new_alloc itself)
    static size_t registered(const NewM &n) { std::set<int> r = {0}; for (auto &kv : n.seen) { r.insert(kv.first); if (kv.second.corr_other >= 0) r.insert(kv.second.corr_other); } return r.size(); }
    static bool registered_in(const NewM &n, int h) { if (n.seen.count(h)) return true; for (auto &kv : n.seen) if (kv.second.corr_other == h) return true; return false; }
    static int table_size(size_t reg) { int t = 8; while ((size_t)t <= reg) t *= 2; return t; }
    // one reflect standard with handle h on the 1-port slot s; h is live and usable there, or was used there before
    // (then it keeps working in that slot even if it has been deleted from the vnacal_t since)
    void add_reflect(int s, int h) {
        NewM &n = nw[s];
        bool live = h < 3 || pars.count(h);
        SlotPar sp;
        auto it = n.seen.find(h);
        if (it != n.seen.end()) sp = it->second;
        else {
            sp.twin = twin_of(h);
            if (h >= 3) { const ParM &p = pars.at(h); sp.unknown = p.kind == ParM::UNKNOWN || p.kind == ParM::CORRELATED; if (p.kind == ParM::CORRELATED) { sp.corr_other = p.other; if (p.other >= 3 && pars.at(p.other).kind == ParM::UNKNOWN) sp.also = p.other; } }
            for (int k = 0; k < n.F; k++) sp.v.push_back(value_of(h, n.band, k));
        }
        std::vector<dcx> m(n.F); for (int k = 0; k < n.F; k++) m[k] = mkc(n.box.refl(0, k, sp.v[k]));
        dcx *ptr[1] = {m.data()};
        c.note("add_single_reflect_m(slot %d, %s)%s", s, hs(h).c_str(), live ? "" : "  [deleted from the vnacal_t, still in use by this slot]");
        log.clear(); slog.clear();
        int rc = vnacal_new_add_single_reflect_m(n.vn, ptr, 1, 1, h, 1);
        int src = vnacal_new_add_single_reflect_m(n.svn, ptr, 1, 1, sp.twin, 1);
        if (!live) PBT_CHECK(c, rc == 0, "C16.deleted_handle_refused_in_its_slot", "step %d: handle %d was deleted while slot %d uses it (%zu handles registered there) and must keep working in that slot, but vnacal_new_add_single_reflect_m fails: %s", step, h, s, registered(n), log.text().c_str());
        PBT_CHECK(c, rc == 0, "C16.add_failed", "step %d: vnacal_new_add_single_reflect_m with live handle %d failed: %s", step, h, log.text().c_str());
        PBT_CHECK(c, src == 0, "C16.harness", "shadow add failed: %s", slog.text().c_str());
        Std st; st.kind = 0; st.h1 = h; st.v1 = sp.v; st.unknown = sp.unknown; st.also = sp.also;
        n.stds.push_back(st); n.seen[h] = sp; n.regd.insert(h); if (sp.corr_other >= 0) n.regd.insert(sp.corr_other);
        if (live) for (int u : {h, sp.also}) if (u >= 3 && pars.count(u) && n.handles.insert(u).second) pars.at(u).uses++;
    }
    int make_filler() {        // a cheap scalar (3 in 4) or vector parameter
        if (c.chance(1, 4)) { size_t before = pars.size(); op_make_vector(); return pars.size() > before ? -2 : -1; }
        cd z = gen_gamma();
        log.clear();
        int h = vnacal_make_scalar_parameter(vc, mkc(z));
        ParM p; p.kind = ParM::SCALAR; p.gamma = z; p.n = 4; p.shadow = vnacal_make_scalar_parameter(sh, mkc(z));
        made(h, p, "vnacal_make_scalar_parameter");
        return h;
    }
    void op_fill_slot() {
        // A. many cheap parameters; handle numbers made sparse by deleting some of them and recycling the freed indices
        int create = (int)c.range(8, 40);
        std::vector<int> mine;
        for (int i = 0; i < create; i++) { int h = make_filler(); if (h >= 3) mine.push_back(h); }
        int deleted = 0;
        for (int h : mine) if (c.chance(1, 2) && pars.count(h) && pars.at(h).uses == 0) { log.clear(); PBT_CHECK(c, vnacal_delete_parameter(vc, h) == 0, "C16.delete_live_handle_failed", "step %d: vnacal_delete_parameter(%d) of a live handle failed: %s", step, h, log.text().c_str()); pars.erase(h); dead.insert(h); deleted++; }
        int recycle = (int)c.range(0, 15);
        for (int i = 0; i < recycle; i++) make_filler();
        c.note("fill: %d cheap parameters created, %d of them deleted again, %d more created (recycled indices); %zu live handles, highest %d", create, deleted, recycle, pars.size(), pars.empty() ? 2 : pars.rbegin()->first);
        // B. a 1-port slot
        int s = -1;
        { std::vector<int> v; for (int i = 0; i < 3; i++) if (nw[i].vn && nw[i].ports == 1) v.push_back(i);
          if (v.empty() || (pick_slot(false) >= 0 && c.boolean())) { op_new_alloc(); v.clear(); for (int i = 0; i < 3; i++) if (nw[i].vn && nw[i].ports == 1) v.push_back(i); }
          if (v.empty()) return;
          s = v[c.draw(v.size())]; }
        NewM &n = nw[s];
        // C. 8..40 distinct handles into that slot
        std::vector<int> cand;
        for (auto &kv : pars) { if (n.seen.count(kv.first) || !usable(kv.first, n.band, n.F)) continue; const ParM &p = kv.second; if (p.kind == ParM::SCALAR || p.kind == ParM::VECTOR || p.kind == ParM::UNKNOWN || (p.kind == ParM::CORRELATED && (p.other < 3 || pars.count(p.other)))) cand.push_back(kv.first); }
        for (int h : {2, 1, 0}) if (!n.seen.count(h)) cand.push_back(h);
        int want = (int)c.range(8, 40);
        for (int i = 0; i < want && !cand.empty() && n.stds.size() < 70; i++) { size_t k = c.draw(cand.size()); int h = cand[k]; cand.erase(cand.begin() + k); add_reflect(s, h); }
        size_t reg = registered(n);
        if (reg >= 8) c.label("table-grown:" + std::to_string(table_size(reg)));
        // D. handles used again after the growth: live ones, and ones deleted from the vnacal_t in between
        int reuse = (int)c.range(2, 8);
        std::vector<int> gone;
        for (int i = 0; i < reuse && !n.seen.empty() && n.stds.size() < 80; i++) {
            auto it = n.seen.begin(); std::advance(it, c.draw(n.seen.size()));
            int h = it->first;
            bool congruent = false; for (auto &kv : n.seen) if (kv.first > h && (kv.first - h) % table_size(reg) == 0) congruent = true;
            if (h >= 3 && pars.count(h) && c.boolean()) {
                c.note("delete_parameter(h%d)  [in use by slot %d]", h, s);
                log.clear();
                PBT_CHECK(c, vnacal_delete_parameter(vc, h) == 0, "C16.delete_live_handle_failed", "step %d: vnacal_delete_parameter(%d) of a live handle failed: %s", step, h, log.text().c_str());
                pars.erase(h); dead.insert(h); f_inuse = true; c.label("parameter-deleted-in-use");
            }
            bool live = h < 3 || pars.count(h);
            if (!live) gone.push_back(h);
            if (reg >= 8) { c.label(live ? "reuse-after-growth:live" : "reuse-after-growth:deleted"); if (congruent) c.label(live ? "reuse-after-growth:live,lower-of-two-in-one-bucket" : "reuse-after-growth:deleted,lower-of-two-in-one-bucket"); }
            add_reflect(s, h);
        }
        // E. ... and such a deleted handle is refused by a vnacal_new_t that never used it
        if (!gone.empty()) for (int t = 0; t < 3; t++) if (t != s && nw[t].vn && nw[t].ports == 1 && !registered_in(nw[t], gone[0])) {
            std::vector<dcx> m(nw[t].F, mkc(0.1, 0.2)); dcx *ptr[1] = {m.data()};
            c.note("add_single_reflect_m(slot %d, deleted handle %d)  [never used there: refused]", t, gone[0]);
            log.clear();
            int rc = vnacal_new_add_single_reflect_m(nw[t].vn, ptr, 1, 1, gone[0], 1);
            PBT_CHECK(c, rc == -1, "C16.deleted_handle_accepted_elsewhere", "step %d: handle %d is deleted and was never used by slot %d, but vnacal_new_add_single_reflect_m accepts it", step, gone[0], t);
            c.label("deleted-handle-refused-elsewhere");
            break;
        }
        check_params("fill");
        // F. the usual oracles afterwards: solve, store, recognise the contents, compare with the clone without deletions
        if (determined(n) && c.chance(3, 4)) { op_solve(s); op_add_calibration(s); }
    }

    // ---- refused standards inside a slot's history: a rejected add leaves the vnacal_new_t unchanged ----------------
    // an ACCEPTED double reflect (h1 on port 1, h2 on port 2) on the 2x2 slot s; the handles are live and usable there
    void add_double(int s, int h1, int h2) {
        NewM &n = nw[s];
        Std st; st.kind = 1; st.h1 = h1; st.h2 = h2;
        std::vector<std::vector<dcx>> cells(4, std::vector<dcx>(n.F));
        for (int k = 0; k < n.F; k++) {
            st.v1.push_back(value_of(h1, n.band, k)); st.v2.push_back(value_of(h2, n.band, k));
            cd S[4] = {st.v1[k], 0, 0, st.v2[k]}, M[4]; n.box.meas2(k, S, M); for (int q = 0; q < 4; q++) cells[q][k] = mkc(M[q]);
        }
        for (int h : {h1, h2}) if (h >= 3) {
            const ParM &p = pars.at(h);
            if (p.kind == ParM::UNKNOWN || p.kind == ParM::CORRELATED) { st.unknown = true; st.unks.push_back(h); }
            if (p.kind == ParM::CORRELATED) { n.regd.insert(p.other); if (p.other >= 3 && pars.at(p.other).kind == ParM::UNKNOWN) st.unks.push_back(p.other); }
        }
        dcx *ptr[4] = {cells[0].data(), cells[1].data(), cells[2].data(), cells[3].data()};
        c.note("add_double_reflect_m(slot %d, %s, %s)", s, hs(h1).c_str(), hs(h2).c_str());
        log.clear(); slog.clear();
        int rc = vnacal_new_add_double_reflect_m(n.vn, ptr, 2, 2, h1, h2, 1, 2);
        int src = vnacal_new_add_double_reflect_m(n.svn, ptr, 2, 2, twin_of(h1), twin_of(h2), 1, 2);
        PBT_CHECK(c, rc == 0, "C16.add_failed", "step %d: vnacal_new_add_double_reflect_m(%s, %s) with live handles failed: %s", step, hs(h1).c_str(), hs(h2).c_str(), log.text().c_str());
        PBT_CHECK(c, src == 0, "C16.harness", "shadow add failed: %s", slog.text().c_str());
        for (int h : {h1, h2}) { n.regd.insert(h); if (h >= 3 && n.handles.insert(h).second) pars.at(h).uses++; }
        for (int u : st.unks) if (pars.count(u) && n.handles.insert(u).second) pars.at(u).uses++;
        n.stds.push_back(st);
    }
    int make_unknown_of(int guess) {      // a fresh unknown parameter with the given (live / predefined) guess
        ParM p; p.kind = ParM::UNKNOWN; p.other = guess; p.n = cover_of(guess); p.band = band_of(guess);
        p.chain_n = guess < 3 ? 0 : pars.at(guess).chain_n; p.chain_band = guess < 3 ? -1 : pars.at(guess).chain_band;
        p.truth.assign(12, cd(NAN, NAN));
        for (int b = 0; b < 3; b++) for (int k = 0; k < 4; k++) if (usable(guess, b, k + 1)) p.truth[b * 4 + k] = value_of(guess, b, k) + gen_small(0.04);
        log.clear();
        int h = vnacal_make_unknown_parameter(vc, guess);
        p.shadow = vnacal_make_unknown_parameter(sh, twin_of(guess));
        c.note("make_unknown(guess %s) -> h%d", hs(guess).c_str(), h);
        made(h, p, "vnacal_make_unknown_parameter");
        return h;
    }
    void op_refused_add() {
        // a 2x2 slot
        int s = -1;
        { std::vector<int> v; for (int i = 0; i < 3; i++) if (nw[i].vn && nw[i].ports == 2) v.push_back(i);
          if (v.empty() || (pick_slot(false) >= 0 && c.chance(1, 3))) { op_new_alloc(2); v.clear(); for (int i = 0; i < 3; i++) if (nw[i].vn && nw[i].ports == 2 && nw[i].stds.empty()) v.push_back(i); }
          if (v.empty()) return;
          s = v[c.draw(v.size())]; }
        NewM &n = nw[s];
        if (n.stds.size() >= 20) return;
        // the first cell: a parameter this slot has not registered yet -- a fresh unknown (mostly), a fresh correlated, or a fresh scalar
        int kind = c.weighted({6, 2, 2});
        int P;
        if (kind == 0) P = make_unknown_of((int[]){VNACAL_SHORT, VNACAL_OPEN, VNACAL_MATCH}[c.draw(3)]);
        else if (kind == 1) {
            int o = c.boolean() ? make_unknown_of(VNACAL_OPEN) : (int)c.draw(3);
            ParM p; p.kind = ParM::CORRELATED; p.other = o; p.n = 4; p.band = -1;
            double sig[1] = {c.real(0.001, 0.1)};
            log.clear();
            P = vnacal_make_correlated_parameter(vc, o, nullptr, 1, sig); p.shadow = vnacal_make_correlated_parameter(sh, twin_of(o), nullptr, 1, sig);
            p.truth.assign(12, cd(NAN, NAN)); for (int b = 0; b < 3; b++) for (int k = 0; k < 4; k++) p.truth[b * 4 + k] = value_of(o, b, k);
            c.note("make_correlated(other %s, 1 sigma) -> h%d", hs(o).c_str(), P);
            made(P, p, "vnacal_make_correlated_parameter");
        } else { P = make_filler(); if (P < 3) return; if (!usable(P, n.band, n.F)) return; }
        // the later cell: a handle that is not live and that this slot never registered
        int D = pick_dead_handle();
        if (D >= 0 && (pars.count(D) || n.regd.count(D) || D < 3)) { int top = pars.empty() ? 3 : pars.rbegin()->first + 1; if (!dead.empty()) top = std::max(top, *dead.rbegin() + 1); D = top + 5; }
        std::vector<std::vector<dcx>> cells(4, std::vector<dcx>(n.F, mkc(0.25, -0.125)));
        dcx *ptr[4] = {cells[0].data(), cells[1].data(), cells[2].data(), cells[3].data()};
        int S4[4] = {P, VNACAL_ZERO, VNACAL_ZERO, D};
        bool bad_first = c.chance(1, 6);       // sometimes the invalid handle comes first: refused before anything is registered
        if (bad_first) std::swap(S4[0], S4[3]);
        int api = (int)c.draw(3);
        c.note("%s(slot %d, S = [%s, 0; 0, %s])  [%d is not a live handle: must be refused]", api == 0 ? "add_double_reflect_m" : api == 1 ? "add_line_m" : "add_mapped_matrix_m", s, S4[0] == D ? std::to_string(D).c_str() : hs(S4[0]).c_str(), S4[3] == D ? std::to_string(D).c_str() : hs(S4[3]).c_str(), D);
        log.clear(); errno = 0;
        int rc = api == 0 ? vnacal_new_add_double_reflect_m(n.vn, ptr, 2, 2, S4[0], S4[3], 1, 2) : api == 1 ? vnacal_new_add_line_m(n.vn, ptr, 2, 2, S4, 1, 2) : vnacal_new_add_mapped_matrix_m(n.vn, ptr, 2, 2, S4, 2, 2, nullptr);
        PBT_CHECK(c, rc == -1, "C16.invalid_handle_accepted", "step %d: a standard whose S matrix contains handle %d (deleted / never allocated) was accepted by slot %d", step, D, s);
        c.label(bad_first ? "refused-add:invalid-cell-first" : kind == 0 ? "refused-add:first-cell-unknown" : kind == 1 ? "refused-add:first-cell-correlated" : "refused-add:first-cell-known");
        // from here on everything must be as if that call had never been made (the clone never sees it)
        if (c.chance(1, 4)) {
            // the only reference to P came from the refused call: deleting P releases it, and this slot does not know it
            c.note("delete_parameter(h%d)  [only ever passed to the refused call]", P);
            log.clear();
            PBT_CHECK(c, vnacal_delete_parameter(vc, P) == 0, "C16.delete_live_handle_failed", "step %d: vnacal_delete_parameter(%d) of a live handle failed: %s", step, P, log.text().c_str());
            pars.erase(P); dead.insert(P);
            int S2[4] = {P, VNACAL_ZERO, VNACAL_ZERO, VNACAL_MATCH};
            c.note("add_line_m(slot %d, S = [%d, 0; 0, MATCH])  [deleted, and the refused call must not have registered it: refused]", s, P);
            log.clear();
            rc = vnacal_new_add_line_m(n.vn, ptr, 2, 2, S2, 1, 2);
            PBT_CHECK(c, rc == -1, "C16.refused_add_left_registration", "step %d: handle %d was only ever passed to a REFUSED standard of slot %d and then deleted, but slot %d still accepts it: the refused call left it registered", step, P, s, s);
            c.label("refused-add:then-deleted-and-refused");
            check_params("refused add");
            return;
        }
        // accepted standards that use the first-cell parameter again, and a second fresh unknown after it
        add_double(s, P, (int[]){VNACAL_MATCH, VNACAL_SHORT, VNACAL_OPEN}[c.draw(3)]);
        c.label("reuse-after-refused-add");
        if (c.chance(3, 4)) { int W = make_unknown_of((int[]){VNACAL_OPEN, VNACAL_SHORT, VNACAL_MATCH}[c.draw(3)]); add_double(s, (int[]){VNACAL_OPEN, VNACAL_MATCH, VNACAL_SHORT}[c.draw(3)], W); c.label("reuse-after-refused-add:second-unknown"); }
        // complete the set with known standards, solve, store: solved values, clone without the refused call, slot contents
        for (int i = 0; i < 12 && !determined(n); i++) op_add_std(s);
        check_params("refused add");
        if (determined(n) && c.chance(7, 8)) { op_solve(s); op_add_calibration(s); }
    }

    // the usual life of a calibration in one go: allocate (or take a slot), add standards until the
    // set determines the error terms, solve, store
    void op_whole_calibration() {
        int s = pick_slot(true);
        if (s < 0 || c.chance(1, 3)) { int before = pick_slot(false); if (before >= 0) { op_new_alloc(); for (int i = 0; i < 3; i++) if (nw[i].vn && nw[i].stds.empty()) s = i; } }
        if (s < 0) return;
        for (int i = 0; i < 10 && !determined(nw[s]); i++) op_add_std(s);
        if (!determined(nw[s])) return;
        if (c.chance(1, 5)) { op_delete_parameter(); check_params("delete inside"); }
        op_solve(s);
        op_add_calibration(s);
    }

    // -------------------------------------------------------------------- run
    void run() {
        double fb = c.real(1e5, 1e9);
        for (int k = 0; k < 4; k++) { bands[0][k] = fb * (k + 1); bands[1][k] = fb * (k + 1) * 1.37; bands[2][k] = fb * 10 * (k + 1); }
        vc = vnacal_create(errlog_fn, &log);
        sh = vnacal_create(errlog_fn, &slog);
        PBT_CHECK(c, vc && sh, "C16.create_failed", "vnacal_create failed");
        check_tables("create"); check_params("create");
        size_t mean = (size_t)(4 + c.size / 2);
        for (size_t nops = 0; (c.mark(), c.more(nops, mean, 100)); nops++) {
            step++;
            int op = c.weighted({5, 3, 3, 2, 5, 4, 10, 6, 6, 5, 8, 2, 2, 8, 3, 3});    // new alternatives go to the END: recorded tapes keep their meaning
            bool cal_op = false, par_op = false;
            switch (op) {
            case 0: op_make_scalar(); par_op = true; break;
            case 1: op_make_vector(); par_op = true; break;
            case 2: op_make_unknown(); par_op = true; break;
            case 3: op_make_correlated(); par_op = true; break;
            case 4: op_delete_parameter(); par_op = true; break;
            case 5: op_new_alloc(); break;
            case 6: op_add_std(); break;
            case 7: op_solve(); par_op = true; break;
            case 8: op_add_calibration(); cal_op = true; break;
            case 9: op_delete_calibration(); cal_op = true; break;
            case 10: op_property(); break;
            case 11: op_new_free(); par_op = true; break;
            case 12: op_probe_value(); break;
            case 13: op_whole_calibration(); cal_op = par_op = true; break;
            case 14: op_fill_slot(); cal_op = par_op = true; break;
            default: op_refused_add(); cal_op = par_op = true; break;
            }
            check_tables("after op");
            if (par_op) check_params("after op");
            if (cal_op) check_contents("after op");
        }
        check_params("end"); check_contents("end");
        if (f_two && (f_delrep || f_inuse)) c.nontrivial();
        if (f_two) c.label(">=2-live-calibrations");
        // sometimes free the vnacal_new_t structures first, mostly leave them to vnacal_free
        if (c.chance(1, 4)) for (int i = 0; i < 3; i++) if (nw[i].vn) { vnacal_new_free(nw[i].vn); vnacal_new_free(nw[i].svn); nw[i] = NewM(); }
    }
};

} // namespace

void pbt_property(Ctx &c) {
    H h(c);
    h.run();
}
