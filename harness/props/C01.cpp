// C01 -- calibrate-then-apply recovers the true S-parameters of any device.
// Oracle: physical E-term VNA model (vnamodel.hpp); standards through every entry point.
#include "pbt.hpp"
#include "calscen.hpp"
#include "calverify.hpp"

const char *PBT_PROPERTY = "C01";
using namespace pbt;
using namespace cs;

static const long double EPS = 1.1102230246251565e-16L;
static const long double CTOL = 1e4L;       // bound = CTOL * eps * kappa_J * kappa_apply (see DESIGN section 9)

void pbt_property(Ctx &c) {
    Scenario sc;
    sc.type = (int)c.draw(8);
    gen_dims(c, sc.type, 4, sc.r, sc.c);
    sc.P = std::max(sc.r, sc.c);
    sc.F = 1 + c.weighted({5, 3, 2, 1});
    sc.ab = c.boolean();
    sc.freq = gen_freqs(c, sc.F);
    for (int f = 0; f < sc.F; f++) sc.box.push_back(gen_box(c, sc.type, sc.r, sc.c));
    Gen g(c, sc);
    g.baseline();
    g.extras();
    g.cover_leakage();
    g.shuffle();
    // sufficiency / conditioning by construction, verified by the model's identifiability test
    long double kappa = 0;
    for (int attempt = 0;; attempt++) {
        bool ok = true; kappa = 0;
        for (int f = 0; f < sc.F; f++) { vm::Ident id = ident_at(sc, f); if (!id.determining) { ok = false; break; } kappa = std::max(kappa, id.kappa); }
        if (ok) break;
        if (attempt >= 3) { c.label("filtered:not-determining"); return; }
        std::vector<int> inorder; for (int p = 0; p < sc.P; p++) inorder.push_back(p);
        sc.stds.push_back(g.full_random(inorder, true));
    }
    sc.dut = gen_dut(c, sc.P, sc.F);
    c.note("%s kappa=%.3Lg", sc.describe().c_str(), kappa);
    for (auto &st : sc.stds) c.note("  %s", st.describe().c_str());
    if (c.want_desc) for (int f = 0; f < sc.F; f++) {
        Box &b = sc.box[f]; std::string s = "  box f" + std::to_string(f) + ":";
        auto ps = b.params(); char t[64];
        for (auto *p : ps) { snprintf(t, sizeof t, " %.3Lg%+.3Lgi", p->real(), p->imag()); s += t; }
        c.note("%s", s.c_str());
    }

    // classification
    bool nt = sc.ab || sc.r != sc.c || sc.F >= 2;
    for (auto &st : sc.stds) {
        if (st.abbrev_rows || st.abbrev_cols) { nt = true; c.label("abbreviated-matrix"); }
        if (st.entry != Standard::MAPPED) nt = true;
        bool ident = true; for (size_t i = 0; i < st.ports.size(); i++) if (st.ports[i] != (int)i) ident = false;
        if (!ident && st.entry >= Standard::LINE) { nt = true; c.label("permuted-port-map"); }
        for (auto &s : st.cells) if (s.kind == SCell::VECTOR) { nt = true; c.label("vector-standard"); }
    }
    c.label(std::string("type:") + vm::tname(sc.type));
    c.label(sc.r == sc.c ? "shape:square" : "shape:rectangular");
    c.label(sc.ab ? "form:a/b" : "form:m");
    char dl[32]; snprintf(dl, sizeof dl, "dims:%dx%d", sc.r, sc.c); c.label(dl);
    if (nt) c.nontrivial();

    Runner run(c, sc);
    run.create();
    // a third of the cases: the vnacal_t already holds (and has lost) unrelated parameters, so the scenario's handles are sparse
    if (c.chance(1, 3)) { int nfill = (int)c.range(6, 40); run.make_fillers(nfill, c); c.label("sparse-handles"); }
    run.alloc();
    if (c.boolean()) { int rc = vnacal_new_set_z0(run.vnp, mkc(c.real(10, 100), c.real(-20, 20))); PBT_CHECK(c, rc == 0, "C01.set_z0", "vnacal_new_set_z0 failed"); }
    int idx = 0;
    for (auto &st : sc.stds) {
        int rc = run.add(st);
        PBT_CHECK(c, rc == 0, "C01.add_refused", "standard %d (%s) refused: %s", idx, st.describe().c_str(), run.log.text().c_str());
        PBT_CHECK(c, run.log.n_nonwarning() == 0, "C01.add_callback", "standard %d accepted but error callback fired: %s", idx, run.log.text().c_str());
        idx++;
    }
    run.log.clear();
    int rc = vnacal_new_solve(run.vnp);
    PBT_CHECK(c, rc == 0, "C01.solve_failed", "vnacal_new_solve failed on a sufficient, well-conditioned set (kappa %.3Lg): %s", kappa, run.log.text().c_str());
    PBT_CHECK(c, run.log.n_nonwarning() == 0, "C01.solve_callback", "solve succeeded but error callback fired: %s", run.log.text().c_str());
    int ci = vnacal_add_calibration(run.vcp, "cal", run.vnp);
    PBT_CHECK(c, ci >= 0, "C01.add_calibration", "vnacal_add_calibration failed: %s", run.log.text().c_str());
    // clause (iii): the saved error terms satisfy the documented M/S equation for every added standard
    // (decides the shapes apply refuses; cross-checks the others)
    if (!run.apply_supported() || c.chance(1, 4)) {
        calfile::File file; std::string err;
        PBT_CHECK(c, save_and_read(c, run.vcp, file, err), "C01.save_unreadable", "saved calibration file not readable by the independent reader: %s (%s)", err.c_str(), run.log.text().c_str());
        PBT_CHECK(c, file.cals.size() == 1 && file.cals[0].type == vm::tname(sc.type) && file.cals[0].rows == sc.r && file.cals[0].cols == sc.c && file.cals[0].F == sc.F, "C01.save_header", "saved calibration has the wrong type/dimensions");
        for (int f = 0; f < sc.F; f++) {
            std::string why; long double res = saved_terms_residual(sc, file.cals[0], f, why);
            PBT_CHECK(c, why.empty(), "C01.saved_terms_structure", "f%d: %s", f, why.c_str());
            c.track_max("saved-terms residual/(eps*kappa*10)", (double)(res / (EPS * kappa * 10)));
            PBT_CHECK(c, res <= CTOL * EPS * kappa * 10, "C01.saved_terms_equation", "%s %dx%d f%d: saved error terms violate the documented M/S equation: relative residual %.3Lg (bound %.3Lg, kappa %.3Lg)", vm::tname(sc.type), sc.r, sc.c, f, res, CTOL * EPS * kappa * 10, kappa);
        }
        c.label("saved-terms-checked");
    }
    if (!run.apply_supported()) { c.label("apply:unsupported-shape"); return; }
    std::vector<Mat> out;
    run.log.clear();
    rc = run.apply(ci, sc.dut, out);
    PBT_CHECK(c, rc == 0, "C01.apply_failed", "vnacal_apply%s failed: %s", sc.ab ? "" : "_m", run.log.text().c_str());
    PBT_CHECK(c, run.log.n_nonwarning() == 0, "C01.apply_callback", "apply succeeded but error callback fired: %s", run.log.text().c_str());
    long double worst = 0; int wf = 0, wi = 0, wj = 0;
    for (int f = 0; f < sc.F; f++) for (int i = 0; i < sc.P; i++) for (int j = 0; j < sc.P; j++) {
        long double e = std::abs(out[f](i, j) - sc.dut[f](i, j));
        if (!(e <= worst)) { worst = e; wf = f; wi = i; wj = j; }
    }
    long double kap_apply = 10;      // tracking terms in [0.6,1.2], |Em| <= 0.2, |S| <= 0.9: modest by construction
    long double bound = CTOL * EPS * kappa * kap_apply;
    c.track_max("err/(eps*kappa*kappa_apply)", (double)(worst / (EPS * kappa * kap_apply)));
    c.track_max("kappa", (double)kappa);
    PBT_CHECK(c, worst <= bound, "C01.dut_mismatch", "corrected S[%d][%d] at f%d differs from the device by %.3Lg (bound %.3Lg, kappa %.3Lg): got %.6Lg%+.6Lgi want %.6Lg%+.6Lgi",
              wi + 1, wj + 1, wf, worst, bound, kappa, out[wf](wi, wj).real(), out[wf](wi, wj).imag(), sc.dut[wf](wi, wj).real(), sc.dut[wf](wi, wj).imag());
}
