// C10 -- frequency interpolation is exact at the given points and refuses out-of-range use.
#include "pbt.hpp"
#include <complex>
#include <vector>
#include <algorithm>
#include "vna.hpp"

const char *PBT_PROPERTY = "C10";
using namespace pbt;
typedef std::complex<long double> LC;
static const long double EPS = 1.1102230246251565e-16L;

namespace {

struct VC { vnacal_t *p = nullptr; ErrLog log; VC() { p = vnacal_create(errlog_fn, &log); } ~VC() { if (p) vnacal_free(p); } };

// rational function num(f)/den(f) with complex coefficients in the scaled variable t = (f - f0)/span
struct Rat {
    std::vector<LC> num, den; long double f0 = 0, span = 1;
    LC at(long double f) const {
        LC t((f - f0) / span, 0), n(0, 0), d(0, 0);
        for (size_t i = num.size(); i-- > 0;) n = n * t + num[i];
        for (size_t i = den.size(); i-- > 0;) d = d * t + den[i];
        return n / d;
    }
};
// the family an m-point window reproduces exactly: m odd: deg (m-1)/2 over (m-1)/2; m even: (m/2 - 1) over m/2
Rat gen_rat(Ctx &c, int m, long double fmin, long double fmax) {
    Rat r; r.f0 = fmin; r.span = fmax > fmin ? fmax - fmin : 1;
    int dn = (m & 1) ? (m - 1) / 2 : m / 2 - 1, dd = (m & 1) ? (m - 1) / 2 : m / 2;
    if (m <= 1) { dn = dd = 0; }
    // optionally a lower-order member of the family
    if (dn > 0 && c.chance(1, 4)) dn--;
    if (dd > 0 && c.chance(1, 4)) dd--;
    for (int i = 0; i <= dn; i++) r.num.push_back(LC(c.real(-1, 1), c.real(-1, 1)));
    // denominator as a product of (t - p_k) with poles at least one band-width off the real axis
    r.den = {LC(1, 0)};
    for (int k = 0; k < dd; k++) {
        LC pole(c.real(-1, 2), (c.boolean() ? 1 : -1) * c.real(1.0, 3.0));
        std::vector<LC> nd(r.den.size() + 1, LC(0, 0));
        for (size_t i = 0; i < r.den.size(); i++) { nd[i + 1] += r.den[i]; nd[i] -= pole * r.den[i]; }
        r.den = nd;
    }
    if (std::abs(r.num[0]) < 0.1L) r.num[0] += LC(0.5L, 0);
    return r;
}
std::vector<double> gen_grid(Ctx &c, int n, double lo, double hi) {
    std::vector<double> g;
    if (n == 1) { g.push_back(lo + (hi - lo) * c.unit()); return g; }
    bool logsp = c.boolean() && lo > 0;
    for (int i = 0; i < n; i++) {
        double x = (double)i / (n - 1);
        if (i > 0 && i < n - 1) x += 0.6 * (c.unit() - 0.5) / (n - 1);   // jittered, still strictly ascending
        g.push_back(logsp ? lo * std::pow(hi / lo, x) : lo + (hi - lo) * x);
    }
    return g;
}
dcx todcx(LC z) { return mkc((double)z.real(), (double)z.imag()); }

// ---- A. vnacal_get_parameter_value on vector parameters ------------------------------------------
void value_queries(Ctx &c) {
    int n = 1 + c.weighted({1, 3, 2, 2, 2, 1, 1, 1, 1, 1, 1, 1});
    double lo = 1e6 * (double)c.range(1, 1000), hi = lo * (1.5 + 20 * c.unit());
    std::vector<double> grid = gen_grid(c, n, lo, hi);
    int m = std::min(n, 5);
    Rat r = gen_rat(c, m, lo, hi);
    std::vector<dcx> vals; for (double f : grid) vals.push_back(todcx(r.at(f)));
    // queries: knots, midpoints, repeated, inside the 1 % slack, random
    std::vector<double> q;
    size_t nq = 1 + (size_t)c.draw(12);
    for (size_t i = 0; i < nq; i++) {
        switch (n == 1 ? 0 : c.weighted({3, 3, 3, 1, 1})) {
        case 0: q.push_back(grid[c.draw(grid.size())]); break;
        case 1: { size_t k = c.draw(grid.size() - 1); q.push_back(0.5 * (grid[k] + grid[k + 1])); break; }
        case 2: q.push_back(grid.front() + (grid.back() - grid.front()) * c.unit()); break;
        case 3: if (!q.empty()) q.push_back(q[c.draw(q.size())]); else q.push_back(grid[0]); break;
        default: q.push_back(c.boolean() ? grid.front() * (1 - 0.009 * c.unit()) : grid.back() * (1 + 0.009 * c.unit())); break;
        }
    }
    c.note("vector parameter with %d knots [%g..%g], window %d, %zu queries", n, grid.front(), grid.back(), m, q.size());
    c.label("A:get_parameter_value"); if (n == 2) c.label("two-knot-vector");
    VC vc; PBT_CHECK(c, vc.p, "C10.create", "vnacal_create failed");
    int h = vnacal_make_vector_parameter(vc.p, grid.data(), n, vals.data());
    PBT_CHECK(c, h >= 3, "C10.make_vector", "make_vector_parameter failed: %s", vc.log.text().c_str());
    // reference answers on a fresh identical parameter, one query each (no history)
    std::vector<dcx> fresh;
    for (double f : q) {
        int h2 = vnacal_make_vector_parameter(vc.p, grid.data(), n, vals.data());
        PBT_CHECK(c, h2 >= 3, "C10.make_vector", "make_vector_parameter failed");
        fresh.push_back(vnacal_get_parameter_value(vc.p, h2, f));
        vnacal_delete_parameter(vc.p, h2);
    }
    bool offknot = false;
    for (size_t i = 0; i < q.size(); i++) {
        vc.log.clear();
        dcx v = vnacal_get_parameter_value(vc.p, h, q[i]);
        PBT_CHECK(c, re_(v) != HUGE_VAL, "C10.in_range_refused", "query %zu at %.17g inside [%g, %g] (+-1%%) refused: %s", i, q[i], grid.front(), grid.back(), vc.log.text().c_str());
        PBT_CHECK(c, same_bits(v, fresh[i]), "C10.history_dependent", "value at %.17g depends on the queries made before: %.17g%+.17gi vs fresh %.17g%+.17gi", q[i], re_(v), im_(v), re_(fresh[i]), im_(fresh[i]));
        auto it = std::find(grid.begin(), grid.end(), q[i]);
        if (it != grid.end()) {
            dcx want = vals[it - grid.begin()];
            PBT_CHECK(c, same_bits(v, want), "C10.knot_not_exact", "value at knot %zu (%.17g) is %.17g%+.17gi, supplied %.17g%+.17gi", (size_t)(it - grid.begin()), q[i], re_(v), im_(v), re_(want), im_(want));
        } else if (q[i] >= grid.front() && q[i] <= grid.back()) {
            offknot = true;
            LC want = r.at(q[i]); long double e = std::abs(LC(re_(v), im_(v)) - want) / std::max(1.0L, std::abs(want));
            c.track_max("rational reproduction err/eps", (double)(e / EPS));
            PBT_CHECK(c, e <= 1e6L * EPS, "C10.rational_not_reproduced", "between knots at %.17g: got %.12g%+.12gi, the rational function gives %.12Lg%+.12Lgi (rel err %.3Lg), %d knots", q[i], re_(v), im_(v), want.real(), want.imag(), e, n);
        }
    }
    // out of range by >= 5 %: refused
    for (int side = 0; side < 2; side++) {
        double f = side ? grid.back() * (1.05 + c.unit()) : grid.front() * (0.95 - 0.9 * c.unit());
        vc.log.clear(); errno = 0;
        dcx v = vnacal_get_parameter_value(vc.p, h, f); int err = errno;
        PBT_CHECK(c, re_(v) == HUGE_VAL && err == EINVAL && vc.log.n_nonwarning() >= 1, "C10.extrapolated", "get_parameter_value at %.6g outside [%g, %g] by >= 5%% not refused (re=%g errno=%d)", f, grid.front(), grid.back(), re_(v), err);
    }
    if (offknot || n == 2 || q.size() >= 3) c.nontrivial();
}

// ---- B/C. vector standards on their own grid, apply range ------------------------------------------
// one-port T8 model: m = e00 + e10e01 g / (1 - e11 g)
struct OnePort { LC e00, e11, et; LC meas(LC g) const { return e00 + et * g / (LC(1, 0) - e11 * g); } };

void standards_and_apply(Ctx &c) {
    int F = 2 + (int)c.draw(4);
    double lo = 1e6 * (double)c.range(1, 1000), hi = lo * (1.5 + 10 * c.unit());
    std::vector<double> cal = gen_grid(c, F, lo, hi);
    OnePort box{LC(c.real(-.1, .1), c.real(-.1, .1)), LC(c.real(-.2, .2), c.real(-.2, .2)), LC(c.real(.6, 1.1), c.real(-.3, .3))};
    // three reflect standards, each a vector parameter on its own grid; scenario per standard: cover / low / high / both short
    VC vc; PBT_CHECK(c, vc.p, "C10.create", "vnacal_create failed");
    bool set_first = c.boolean();      // frequency vector before or after the standards
    vnacal_new_t *vnp = vnacal_new_alloc(vc.p, c.boolean() ? VNACAL_T8 : VNACAL_E12, 1, 1, F);
    PBT_CHECK(c, vnp, "C10.new_alloc", "vnacal_new_alloc failed");
    if (set_first) PBT_CHECK(c, vnacal_new_set_frequency_vector(vnp, cal.data()) == 0, "C10.set_fv", "set_frequency_vector failed");
    c.label("B:vector-standard-range"); c.label(set_first ? "order:grid-first" : "order:standards-first");
    static const LC base[3] = {LC(-0.9L, 0.1L), LC(0.85L, -0.2L), LC(0.05L, 0.1L)};
    int accepted = 0; bool deferred_bad = false;
    std::vector<Rat> truth;
    std::vector<std::pair<double, double>> accepted_grids;
    for (int k = 0; k < 3; k++) {
        int scen = c.weighted({5, 2, 2, 1});       // 0 cover, 1 low shortfall, 2 high shortfall, 3 both
        int n = 2 + (int)c.draw(8);
        double glo = (scen == 1 || scen == 3) ? lo * (1.05 + 0.3 * c.unit()) : lo * (0.5 + 0.5 * c.unit());
        double ghi = (scen == 2 || scen == 3) ? hi * (0.95 - 0.3 * c.unit()) : hi * (1.0 + c.unit());
        if (scen == 0 && c.chance(1, 4)) { glo = lo; ghi = hi; }
        if (ghi <= glo * 1.01) { ghi = glo * 1.02; }
        std::vector<double> grid = gen_grid(c, n, glo, ghi);
        Rat r = gen_rat(c, std::min(n, 5), glo, ghi);
        // the standard's value must itself be a member of the reproducible family (closed under scaling):
        // base[k] * r(f) / r(f_mid)
        Rat rk = r; { LC sc = base[k] / r.at(0.5 * (lo + hi)); for (auto &x : rk.num) x *= sc; }
        std::vector<dcx> vals; for (double f : grid) vals.push_back(todcx(rk.at(f)));
        int h = vnacal_make_vector_parameter(vc.p, grid.data(), n, vals.data());
        PBT_CHECK(c, h >= 3, "C10.make_vector", "make_vector_parameter failed");
        // measurement at the calibration frequencies from the true (rational) value
        std::vector<dcx> mv; for (double f : cal) mv.push_back(todcx(box.meas(rk.at(f))));
        dcx *mm[1] = {mv.data()};
        vc.log.clear(); errno = 0;
        int rc = vnacal_new_add_single_reflect_m(vnp, mm, 1, 1, h, 1); int err = errno;
        c.note("standard %d: grid [%g..%g] (%d knots) vs calibration [%g..%g]: scenario %d -> rc %d", k, glo, ghi, n, lo, hi, scen, rc);
        bool must_refuse = scen != 0;
        if (scen == 2) c.label("high-end-shortfall"); if (scen == 1) c.label("low-end-shortfall");
        if (set_first) {
            if (must_refuse) {
                PBT_CHECK(c, rc == -1, "C10.shortfall_accepted", "vector standard covering [%g, %g] accepted for calibration band [%g, %g] (misses %s by >= 5%%)", glo, ghi, lo, hi, scen == 1 ? "the low end" : scen == 2 ? "the high end" : "both ends");
                PBT_CHECK(c, err == EINVAL && vc.log.n_nonwarning() >= 1 && vc.log.last()->category == VNAERR_USAGE, "C10.refusal_report", "refusal with errno %d / %s", err, vc.log.text().c_str());
                k--;        // "no effect": replace by another attempt
                if (c.draw(4) == 0) { /* keep going */ }
                continue;
            }
            PBT_CHECK(c, rc == 0, "C10.cover_refused", "vector standard covering [%g, %g] refused for calibration band [%g, %g]: %s", glo, ghi, lo, hi, vc.log.text().c_str());
            truth.push_back(rk); accepted++; accepted_grids.push_back({grid.front(), grid.back()});
        } else {
            PBT_CHECK(c, rc == 0, "C10.add_before_grid_refused", "add before set_frequency_vector refused: %s", vc.log.text().c_str());
            if (must_refuse) deferred_bad = true;
            truth.push_back(rk); accepted++; accepted_grids.push_back({grid.front(), grid.back()});
        }
    }
    if (!set_first) {
        vc.log.clear(); errno = 0;
        int rc = vnacal_new_set_frequency_vector(vnp, cal.data()); int err = errno;
        if (deferred_bad) {
            PBT_CHECK(c, rc == -1 && err == EINVAL, "C10.shortfall_accepted", "set_frequency_vector accepted a band [%g, %g] that an already added vector standard does not cover (rc %d errno %d)", lo, hi, rc, err);
            c.nontrivial(); vnacal_new_free(vnp); return;
        }
        PBT_CHECK(c, rc == 0, "C10.cover_refused", "set_frequency_vector refused although every standard covers the band: %s", vc.log.text().c_str());
    }
    vc.log.clear();
    int rc = vnacal_new_solve(vnp);
    PBT_CHECK(c, rc == 0, "C10.solve_failed", "solve failed: %s", vc.log.text().c_str());
    int ci = vnacal_add_calibration(vc.p, "c", vnp); ci = vnacal_find_calibration(vc.p, "c");
    PBT_CHECK(c, ci >= 0, "C10.add_calibration", "add_calibration failed");
    // REPLACING the frequency vector: the standards collected so far are judged against the new band -- one that
    // some accepted vector standard misses by >= 5 % must be refused (and leave the old band in force), one that all
    // of them still cover must be accepted
    if (c.chance(1, 2)) {
        double slo = 0, shi = 1e300;      // band covered by every accepted vector standard
        for (auto &gr : accepted_grids) { slo = std::max(slo, gr.first); shi = std::min(shi, gr.second); }
        int how = (int)c.draw(3);         // 0: still covered, 1: misses at the low end, 2: misses at the high end
        double nlo, nhi;
        if (how == 0) { nlo = std::max(slo, lo) * (1 + 0.02 * c.unit()); nhi = std::min(shi, hi) * (1 - 0.02 * c.unit()); if (nhi <= nlo * 1.001) { nlo = lo; nhi = hi; } }
        else if (how == 1) { nlo = slo * (0.3 + 0.65 * c.unit()); nhi = std::min(shi, hi); }
        else { nlo = std::max(slo, lo); nhi = shi * (1.05 + c.unit()); }
        std::vector<double> cal2 = gen_grid(c, F, nlo, nhi);
        vc.log.clear(); errno = 0;
        int r2 = vnacal_new_set_frequency_vector(vnp, cal2.data()); int e2 = errno;
        c.note("replace the frequency vector: new band [%g, %g], standards cover [%g, %g] -> rc %d", nlo, nhi, slo, shi, r2);
        if (how == 0) { c.label("regrid:still-covered"); PBT_CHECK(c, r2 == 0, "C10.cover_refused", "replacing the frequency vector by a band [%g, %g] that every standard covers ([%g, %g]) refused: %s", nlo, nhi, slo, shi, vc.log.text().c_str()); }
        else {
            c.label(how == 1 ? "regrid:low-end-shortfall" : "regrid:high-end-shortfall");
            PBT_CHECK(c, r2 == -1 && e2 == EINVAL, "C10.shortfall_accepted", "replacing the frequency vector by a band [%g, %g] that an already added vector standard (cover [%g, %g]) misses by >= 5%% was accepted (rc %d errno %d)", nlo, nhi, slo, shi, r2, e2);
            vc.log.clear();
            PBT_CHECK(c, vnacal_new_solve(vnp) == 0, "C10.refused_regrid_changed_object", "after the refused replacement the calibration no longer solves: %s", vc.log.text().c_str());
            // ... and the refused band must not have replaced the accepted one: the calibration made now still has the old frequencies
            int cj = vnacal_add_calibration(vc.p, "after-refusal", vnp); cj = vnacal_find_calibration(vc.p, "after-refusal");
            PBT_CHECK(c, cj >= 0, "C10.add_calibration", "add_calibration failed");
            const double *fv2 = vnacal_get_frequency_vector(vc.p, cj);
            PBT_CHECK(c, fv2 && vnacal_get_frequencies(vc.p, cj) == F, "C10.refused_regrid_changed_object", "calibration after the refused replacement has %d frequencies, expected %d", vnacal_get_frequencies(vc.p, cj), F);
            for (int i = 0; i < F; i++) PBT_CHECK(c, fv2[i] == cal[i], "C10.refused_regrid_changed_object", "after the REFUSED replacement of the frequency vector the calibration is made at %.17g instead of %.17g (index %d): the refused band was stored", fv2[i], cal[i], i);
        }
        c.nontrivial();
    }
    vnacal_new_free(vnp);
    // ---- C. apply: in-range (on and off grid) accepted and exact for a frequency-independent error box;
    //         out of range by >= 5 % refused
    c.label("C:apply-range");
    int nf = 1 + (int)c.draw(5);
    std::vector<double> af;
    { double a = lo * (0.991 + 0.008 * c.unit()), b = hi * (1.009 - 0.008 * c.unit()); if (!c.boolean()) { a = lo; b = hi; } af = gen_grid(c, nf, a, nf == 1 ? b : b); if (nf == 1) af[0] = a + (b - a) * c.unit(); }
    LC dut(c.real(-.8, .8), c.real(-.8, .8));
    std::vector<dcx> mv(nf, todcx(box.meas(dut))); dcx *mm[1] = {mv.data()};
    vnadata_t *vd = vnadata_alloc(errlog_fn, &vc.log);
    vc.log.clear();
    rc = vnacal_apply_m(vc.p, ci, af.data(), nf, mm, 1, 1, vd);
    PBT_CHECK(c, rc == 0, "C10.apply_in_range_refused", "apply at %d frequencies within [%g, %g] refused: %s", nf, lo, hi, vc.log.text().c_str());
    for (int f = 0; f < nf; f++) {
        dcx s = vnadata_get_cell(vd, f, 0, 0); long double e = std::abs(LC(re_(s), im_(s)) - dut);
        c.track_max("apply off-grid err/eps", (double)(e / EPS));
        PBT_CHECK(c, e <= 1e6L * EPS, "C10.apply_interpolation", "apply at %.10g (calibration grid [%g..%g], %d points, frequency-independent error terms): S11 off by %.3Lg", af[f], lo, hi, F, e);
    }
    for (int side = 0; side < 2; side++) {
        double f = side ? hi * (1.05 + c.unit()) : lo * (0.95 - 0.5 * c.unit());
        dcx one = todcx(box.meas(dut)); dcx *m1[1] = {&one};
        vc.log.clear(); errno = 0;
        rc = vnacal_apply_m(vc.p, ci, &f, 1, m1, 1, 1, vd); int err = errno;
        PBT_CHECK(c, rc == -1 && err == EINVAL && vc.log.n_nonwarning() >= 1, "C10.apply_extrapolated", "apply at %.6g outside the calibration band [%g, %g] by >= 5%% not refused (rc %d errno %d)", f, lo, hi, rc, err);
    }
    vnadata_free(vd);
    c.nontrivial();
}

// ---- D. noise grids --------------------------------------------------------------------------------
void noise_grids(Ctx &c) {
    int F = 1 + (int)c.draw(4);
    double lo = 1e6 * (double)c.range(1, 1000), hi = F == 1 ? lo : lo * (1.5 + 10 * c.unit());
    std::vector<double> cal = gen_grid(c, F, lo, hi); if (F == 1) cal[0] = lo;
    VC vc; vnacal_new_t *vnp = vnacal_new_alloc(vc.p, VNACAL_T8, 1, 1, F);
    PBT_CHECK(c, vnp && vnacal_new_set_frequency_vector(vnp, cal.data()) == 0, "C10.new_alloc", "setup failed");
    c.label("D:noise-grid");
    int variant = (int)c.draw(4);
    std::vector<double> fv, nf, tr; int rc; bool must_accept = true, must_refuse = false;
    vc.log.clear(); errno = 0;
    switch (variant) {
    case 0: {   // one point, non-NULL frequency vector ("is not used")
        fv = {lo * (0.2 + 3 * c.unit())}; nf = {1e-4}; tr = {1e-3};
        rc = vnacal_new_set_m_error(vnp, fv.data(), 1, nf.data(), c.boolean() ? tr.data() : nullptr);
        c.label("one-point-with-frequency-vector"); break; }
    case 1: nf.assign(F, 1e-4); rc = vnacal_new_set_m_error(vnp, nullptr, F, nf.data(), nullptr); break;
    default: {  // own grid: cover or shortfall >= 5 %
        int scen = F == 1 ? 0 : c.weighted({3, 1, 1});
        int n = 2 + (int)c.draw(5);
        double glo = scen == 1 ? lo * 1.06 : lo * (0.5 + 0.5 * c.unit()), ghi = scen == 2 ? hi * 0.94 : hi * (1 + c.unit());
        if (ghi <= glo) ghi = glo * 1.5;
        fv = gen_grid(c, n, glo, ghi); nf.assign(n, 1e-4);
        rc = vnacal_new_set_m_error(vnp, fv.data(), n, nf.data(), nullptr);
        must_accept = scen == 0; must_refuse = scen != 0;
        c.note("noise grid [%g..%g] vs calibration [%g..%g] scenario %d -> rc %d", glo, ghi, lo, hi, scen, rc);
        break; }
    }
    int err = errno;
    if (must_accept) PBT_CHECK(c, rc == 0, "C10.noise_grid_refused", "set_m_error variant %d refused: %s", variant, vc.log.text().c_str());
    if (must_refuse) PBT_CHECK(c, rc == -1 && err == EINVAL, "C10.noise_shortfall_accepted", "noise grid missing the calibration band by >= 5%% accepted (rc %d errno %d)", rc, err);
    vnacal_new_free(vnp);
    c.nontrivial();
}

// ---- E: sigma grids of correlated parameters -------------------------------------------------------
// A standard whose S cell is a correlated parameter is usable only where BOTH its 'other' parameter and its sigma
// grid are defined: a sigma grid (>= 2 knots) that misses the calibration band by >= 5 % at either end must get
// the standard refused (grid first) or the frequency vector refused (standards first); one that covers the band,
// or a 1-point sigma ("frequency vector is ignored"), must be accepted.  The 'other' parameter always covers.
void sigma_grids(Ctx &c) {
    int F = 2 + (int)c.draw(4);
    double lo = 1e6 * (double)c.range(1, 1000), hi = lo * (1.5 + 10 * c.unit());
    std::vector<double> cal = gen_grid(c, F, lo, hi);
    VC vc; PBT_CHECK(c, vc.p, "C10.create", "vnacal_create failed");
    bool set_first = c.boolean();
    vnacal_new_t *vnp = vnacal_new_alloc(vc.p, c.boolean() ? VNACAL_T8 : VNACAL_E12, 1, 1, F);
    PBT_CHECK(c, vnp, "C10.new_alloc", "vnacal_new_alloc failed");
    if (set_first) PBT_CHECK(c, vnacal_new_set_frequency_vector(vnp, cal.data()) == 0, "C10.set_fv", "set_frequency_vector failed");
    c.label("E:correlated-sigma-range"); c.label(set_first ? "order:grid-first" : "order:standards-first");
    // the 'other' parameter: scalar, a vector that covers the band generously, or an unknown with a scalar guess
    int other;
    switch (c.weighted({2, 2, 1})) {
    case 0: other = vnacal_make_scalar_parameter(vc.p, todcx(LC(0.8L, -0.1L))); c.label("other:scalar"); break;
    case 1: { std::vector<double> g = gen_grid(c, 2 + (int)c.draw(4), lo * 0.5, hi * 2); std::vector<dcx> v(g.size(), todcx(LC(0.8L, -0.1L))); other = vnacal_make_vector_parameter(vc.p, g.data(), (int)g.size(), v.data()); c.label("other:vector"); break; }
    default: { int gs = vnacal_make_scalar_parameter(vc.p, todcx(LC(0.8L, -0.1L))); other = vnacal_make_unknown_parameter(vc.p, gs); c.label("other:unknown"); break; }
    }
    PBT_CHECK(c, other >= 3, "C10.make_parameter", "making the 'other' parameter failed: %s", vc.log.text().c_str());
    // which frequency-limited thing the standard's parameter hangs on: 0 = the sigma grid of a correlated parameter
    // (above), 1 = the VECTOR initial guess of an unknown parameter, 2 = the vector parameter a correlated parameter is
    // correlated with (1-point sigma), 3 = a correlated parameter on an unknown parameter with a vector guess
    int which = c.weighted({4, 3, 2, 1});
    int scen = c.weighted({4, 2, 2, 1, which == 0 ? 1u : 0u});       // 0 cover, 1 low shortfall, 2 high shortfall, 3 both, 4 one point
    int n = scen == 4 ? 1 : 2 + (int)c.draw(7);
    double glo = (scen == 1 || scen == 3) ? lo * (1.05 + 0.3 * c.unit()) : lo * (0.5 + 0.5 * c.unit());
    double ghi = (scen == 2 || scen == 3) ? hi * (0.95 - 0.3 * c.unit()) : hi * (1.0 + c.unit());
    if (scen == 0 && c.chance(1, 4)) { glo = lo; ghi = hi; }
    if (ghi <= glo * 1.01) ghi = glo * 1.02;
    std::vector<double> grid = n == 1 ? std::vector<double>{hi * 3} : gen_grid(c, n, glo, ghi);      // 1 point: a frequency far outside, "ignored"
    std::vector<double> sig; for (int i = 0; i < n; i++) sig.push_back(0.01 * (1 + c.unit()));
    vc.log.clear();
    int h;
    if (which == 0) {
        h = vnacal_make_correlated_parameter(vc.p, other, grid.data(), n, sig.data());
        PBT_CHECK(c, h >= 3, "C10.make_correlated", "vnacal_make_correlated_parameter (%d sigma knots) failed: %s", n, vc.log.text().c_str());
    } else {
        std::vector<dcx> gv(grid.size(), todcx(LC(0.7L, 0.2L)));
        int vec = vnacal_make_vector_parameter(vc.p, grid.data(), n, gv.data());
        PBT_CHECK(c, vec >= 3, "C10.make_vector", "make_vector_parameter failed: %s", vc.log.text().c_str());
        double s1 = 0.02;
        if (which == 1) { h = vnacal_make_unknown_parameter(vc.p, vec); c.label("limited-by:unknown-with-vector-guess"); }
        else if (which == 2) { h = vnacal_make_correlated_parameter(vc.p, vec, nullptr, 1, &s1); c.label("limited-by:correlate-is-a-vector"); }
        else { int u = vnacal_make_unknown_parameter(vc.p, vec); PBT_CHECK(c, u >= 3, "C10.make_parameter", "make_unknown_parameter failed"); h = vnacal_make_correlated_parameter(vc.p, u, nullptr, 1, &s1); c.label("limited-by:correlate-is-an-unknown-with-vector-guess"); }
        PBT_CHECK(c, h >= 3, "C10.make_parameter", "making the frequency-limited parameter (variant %d) failed: %s", which, vc.log.text().c_str());
    }
    std::vector<dcx> mv(F, mkc(0.3, 0.2)); dcx *mm[1] = {mv.data()};
    vc.log.clear(); errno = 0;
    int rc = vnacal_new_add_single_reflect_m(vnp, mm, 1, 1, h, 1); int err = errno;
    bool must_refuse = scen >= 1 && scen <= 3;
    c.note("correlated standard: sigma grid [%g..%g] (%d knots) vs calibration [%g..%g]: scenario %d, %s -> add rc %d", grid.front(), grid.back(), n, lo, hi, scen, set_first ? "grid first" : "standards first", rc);
    if (scen == 2) c.label("sigma:high-end-shortfall"); if (scen == 1) c.label("sigma:low-end-shortfall"); if (scen == 4) c.label("sigma:one-point");
    if (set_first) {
        if (must_refuse) {
            PBT_CHECK(c, rc == -1, "C10.sigma_shortfall_accepted", "standard whose parameter is only defined on [%g, %g] (sigma grid, vector guess or vector correlate) misses the calibration band [%g, %g] (%s by >= 5%%) accepted", grid.front(), grid.back(), lo, hi, scen == 1 ? "the low end" : scen == 2 ? "the high end" : "both ends");
            PBT_CHECK(c, err == EINVAL && vc.log.n_nonwarning() >= 1 && vc.log.last()->category == VNAERR_USAGE, "C10.refusal_report", "refusal with errno %d / %s", err, vc.log.text().c_str());
        } else PBT_CHECK(c, rc == 0, "C10.sigma_cover_refused", "standard whose frequency-limited parameter covers the band (or has a one-point sigma) refused: %s", vc.log.text().c_str());
    } else {
        PBT_CHECK(c, rc == 0, "C10.add_before_grid_refused", "add before set_frequency_vector refused: %s", vc.log.text().c_str());
        vc.log.clear(); errno = 0;
        rc = vnacal_new_set_frequency_vector(vnp, cal.data()); err = errno;
        if (must_refuse) PBT_CHECK(c, rc == -1 && err == EINVAL, "C10.sigma_shortfall_accepted", "set_frequency_vector accepted a band [%g, %g] that the frequency-limited parameter (defined on [%g, %g]) of an already added standard does not cover (rc %d errno %d)", lo, hi, grid.front(), grid.back(), rc, err);
        else PBT_CHECK(c, rc == 0, "C10.sigma_cover_refused", "set_frequency_vector refused although the sigma grid covers the band: %s", vc.log.text().c_str());
    }
    c.nontrivial();
    vnacal_new_free(vnp);
}

// ---- F: apply with frequency-DEPENDENT error terms ---------------------------------------------------
// A 1x1 E12 calibration whose error terms (directivity, tracking, match) are straight lines in the frequency, solved
// exactly from short / open / match.  The saved terms el, er, em are then linear too, which the interpolation
// reproduces, so a device measured at ANY frequency of the band must be corrected exactly -- on the calibration grid,
// on a grid of another length, and on grids of the SAME length that share the first points (or only the start) with
// the calibration grid but differ later (a zoomed sweep).  The answer at a frequency must not depend on the rest
// of the request.
void apply_varying_terms(Ctx &c) {
    int F = 3 + (int)c.draw(10);
    double lo = 1e6 * (double)c.range(1, 1000), hi = lo * (1.5 + 10 * c.unit());
    std::vector<double> cal = gen_grid(c, F, lo, hi);
    LC a0(c.real(-.1, .1), c.real(-.1, .1)), a1(c.real(-.1, .1), c.real(-.1, .1)), b0(c.real(-.2, .2), c.real(-.2, .2)), b1(c.real(-.15, .15), c.real(-.15, .15)), t0(c.real(.6, 1.1), c.real(-.3, .3)), t1(c.real(-.3, .3), c.real(-.3, .3));
    auto box_at = [&](double f) { long double t = (long double)((f - lo) / (hi - lo)); return OnePort{a0 + a1 * t, b0 + b1 * t, t0 + t1 * t}; };
    VC vc; PBT_CHECK(c, vc.p, "C10.create", "vnacal_create failed");
    vnacal_new_t *vnp = vnacal_new_alloc(vc.p, VNACAL_E12, 1, 1, F);
    PBT_CHECK(c, vnp && vnacal_new_set_frequency_vector(vnp, cal.data()) == 0, "C10.new_alloc", "vnacal_new_alloc / set_frequency_vector failed");
    static const int hs[3] = {VNACAL_SHORT, VNACAL_OPEN, VNACAL_MATCH}; static const LC gs[3] = {LC(-1, 0), LC(1, 0), LC(0, 0)};
    for (int k = 0; k < 3; k++) {
        std::vector<dcx> mv; for (double f : cal) mv.push_back(todcx(box_at(f).meas(gs[k])));
        dcx *mm[1] = {mv.data()};
        PBT_CHECK(c, vnacal_new_add_single_reflect_m(vnp, mm, 1, 1, hs[k], 1) == 0, "C10.add", "add failed: %s", vc.log.text().c_str());
    }
    PBT_CHECK(c, vnacal_new_solve(vnp) == 0, "C10.solve_failed", "solve failed: %s", vc.log.text().c_str());
    int ci = vnacal_add_calibration(vc.p, "c", vnp); ci = vnacal_find_calibration(vc.p, "c");
    PBT_CHECK(c, ci >= 0, "C10.add_calibration", "add_calibration failed");
    vnacal_new_free(vnp);
    c.label("F:apply-varying-terms");
    LC dut(c.real(-.8, .8), c.real(-.8, .8));
    vnadata_t *vd = vnadata_alloc(errlog_fn, &vc.log);
    auto corrected = [&](const std::vector<double> &af, std::vector<LC> &out, const char *what) {
        std::vector<dcx> mv; for (double f : af) mv.push_back(todcx(box_at(f).meas(dut)));
        dcx *mm[1] = {mv.data()};
        vc.log.clear();
        int rc = vnacal_apply_m(vc.p, ci, af.data(), (int)af.size(), mm, 1, 1, vd);
        PBT_CHECK(c, rc == 0, "C10.apply_in_range_refused", "apply (%s, %zu frequencies within [%g, %g]) refused: %s", what, af.size(), lo, hi, vc.log.text().c_str());
        out.clear();
        for (size_t f = 0; f < af.size(); f++) {
            dcx sv = vnadata_get_cell(vd, (int)f, 0, 0); LC got(re_(sv), im_(sv)); out.push_back(got);
            long double e = std::abs(got - dut);
            c.track_max("apply with linear error terms: err/eps", (double)(e / EPS));
            PBT_CHECK(c, e <= 1e7L * EPS, "C10.apply_interpolation", "apply (%s) at %.10g, request point %zu of %zu (calibration grid [%g..%g], %d points, error terms linear in f): S11 off by %.3Lg", what, af[f], f, af.size(), lo, hi, F, e);
        }
    };
    std::vector<LC> out;
    corrected(cal, out, "the calibration grid");
    // same length, same start, smaller stop
    { std::vector<double> z(F); double stop = lo + (hi - lo) * (0.3 + 0.6 * c.unit()); for (int i = 0; i < F; i++) z[i] = lo + (stop - lo) * i / (F - 1); z[0] = cal[0]; corrected(z, out, "zoomed sweep of the same length");
      // a subset of that request must give the same answers
      if (F >= 3) { std::vector<double> sub = {z[1], z[F - 1]}; std::vector<LC> o2; corrected(sub, o2, "two points of the zoomed sweep"); c.label("F:request-independence");
        PBT_CHECK(c, std::abs(o2[0] - out[1]) <= 1e7L * EPS && std::abs(o2[1] - out[F - 1]) <= 1e7L * EPS, "C10.apply_depends_on_request", "the corrected value at a frequency depends on the other frequencies of the request (differences %.3Lg, %.3Lg)", std::abs(o2[0] - out[1]), std::abs(o2[1] - out[F - 1])); } }
    // same length, the first k points are the calibration's own, the rest lie between later calibration points
    { int k = 1 + (int)c.draw(F - 1); std::vector<double> m = cal; for (int i = k; i < F; i++) m[i] = i + 1 < F ? cal[i] + (cal[i + 1] - cal[i]) * (0.2 + 0.6 * c.unit()) : cal[i] - (cal[i] - std::max(cal[i - 1], m[i - 1])) * 0.5;
      bool asc = true; for (int i = 1; i < F; i++) if (!(m[i] > m[i - 1])) asc = false;
      if (asc) corrected(m, out, "same length, common leading points"); }
    // another length
    { int nf = 1 + (int)c.draw(2 * F); std::vector<double> o = gen_grid(c, std::max(nf, 2), lo, hi); if (nf == 1) o.resize(1); corrected(o, out, "a grid of another length"); }
    vnadata_free(vd);
    c.nontrivial();
}

// ---- G: values of the measurement-noise vectors between their knots ---------------------------------
// vnacal_new_set_m_error with a frequency grid of its own: between the knots the noise floor and the tracking
// noise are interpolated, and data that lie on a straight line are reproduced exactly.  The values are not
// observable directly; they weight an over-determined, slightly inconsistent calibration.  Metamorphic oracle: the
// same two straight lines given (A) on the calibration's own grid -- every evaluation is a knot -- and (B) on
// 2..4 knots of another grid that covers the band must lead to the same corrected device.
void noise_values(Ctx &c) {
    int F = 3 + (int)c.draw(5);
    double lo = 1e6 * (double)c.range(1, 1000), hi = lo * (1.5 + 10 * c.unit());
    std::vector<double> cal = gen_grid(c, F, lo, hi);
    OnePort box{LC(c.real(-.1, .1), c.real(-.1, .1)), LC(c.real(-.2, .2), c.real(-.2, .2)), LC(c.real(.6, 1.1), c.real(-.3, .3))};
    double n0 = 1e-4 * (1 + 9 * c.unit()), gn = c.real(-0.4, 2.0), t0 = 1e-3 * (1 + 9 * c.unit()), gt = c.real(-0.4, 2.0);
    auto line = [&](double v0, double g, double f) { return v0 * (1 + g * (f - lo) / (hi - lo)); };
    bool with_tr = c.chance(3, 4);
    int type = c.boolean() ? VNACAL_T8 : VNACAL_E12;
    static const LC gam[5] = {LC(-1, 0), LC(1, 0), LC(0, 0), LC(0.3L, 0.6L), LC(-0.4L, -0.5L)};
    static const int hs[3] = {VNACAL_SHORT, VNACAL_OPEN, VNACAL_MATCH};
    // measurements: the model plus an inconsistency of the order of the noise itself
    std::vector<std::vector<dcx>> meas(5);
    for (int k = 0; k < 5; k++) for (double f : cal) { LC m = box.meas(gam[k]); double sg = 0.5 * std::hypot(line(n0, gn, f), with_tr ? line(t0, gt, f) * (double)std::abs(m) : 0.0); meas[k].push_back(todcx(m + LC(sg * c.real(-1, 1), sg * c.real(-1, 1)))); }
    int K = 2 + (int)c.draw(3);
    std::vector<double> kf(K);
    kf[0] = lo * (0.8 + 0.2 * c.unit()); kf[K - 1] = hi * (1 + 0.2 * c.unit());
    if (c.chance(1, 4)) { kf[0] = lo; kf[K - 1] = hi; }
    { std::vector<double> in; for (int i = 1; i + 1 < K; i++) in.push_back(kf[0] + (kf[K - 1] - kf[0]) * (0.1 + 0.8 * c.unit())); std::sort(in.begin(), in.end()); for (int i = 1; i + 1 < K; i++) kf[i] = in[i - 1]; }
    for (int i = 1; i < K; i++) if (!(kf[i] > kf[i - 1] * (1 + 1e-9))) { c.label("G:filtered(coincident knots)"); return; }
    c.label("G:noise-values-between-knots"); c.label(with_tr ? "G:with-tracking-noise" : "G:noise-floor-only"); { char l[32]; snprintf(l, sizeof l, "G:knots=%d", K); c.label(l); }
    c.note("noise floor %.3g (slope %.2f), tracking %.3g (slope %.2f)%s; %d knots [%g..%g] vs calibration grid of %d points [%g..%g], %s", n0, gn, t0, gt, with_tr ? "" : " (not given)", K, kf[0], kf[K - 1], F, lo, hi, type == VNACAL_T8 ? "T8" : "E12");
    VC vc; PBT_CHECK(c, vc.p, "C10.create", "vnacal_create failed");
    LC dut(c.real(-.8, .8), c.real(-.8, .8));
    vnadata_t *vd = vnadata_alloc(errlog_fn, &vc.log);
    auto run = [&](const std::vector<double> &g, const char *name, std::vector<LC> &out) -> bool {
        std::vector<double> nf, tr; for (double f : g) { nf.push_back(line(n0, gn, f)); tr.push_back(line(t0, gt, f)); }
        vnacal_new_t *vnp = vnacal_new_alloc(vc.p, (vnacal_type_t)type, 1, 1, F);
        PBT_CHECK(c, vnp && vnacal_new_set_frequency_vector(vnp, cal.data()) == 0, "C10.new_alloc", "vnacal_new_alloc / set_frequency_vector failed");
        vc.log.clear();
        PBT_CHECK(c, vnacal_new_set_m_error(vnp, g.data(), (int)g.size(), nf.data(), with_tr ? tr.data() : nullptr) == 0, "C10.noise_grid_refused", "set_m_error with a covering grid of %zu knots refused: %s", g.size(), vc.log.text().c_str());
        for (int k = 0; k < 5; k++) {
            dcx *mm[1] = {meas[k].data()};
            int h = k < 3 ? hs[k] : vnacal_make_scalar_parameter(vc.p, todcx(gam[k]));
            PBT_CHECK(c, h >= 0 && vnacal_new_add_single_reflect_m(vnp, mm, 1, 1, h, 1) == 0, "C10.add", "add failed: %s", vc.log.text().c_str());
            if (k >= 3) vnacal_delete_parameter(vc.p, h);
        }
        vc.log.clear();
        int rc = vnacal_new_solve(vnp);
        if (rc != 0) { vnacal_new_free(vnp); return false; }
        int ci = vnacal_add_calibration(vc.p, name, vnp); ci = vnacal_find_calibration(vc.p, name);
        vnacal_new_free(vnp);
        PBT_CHECK(c, ci >= 0, "C10.add_calibration", "add_calibration failed");
        std::vector<dcx> mv; for (size_t i = 0; i < cal.size(); i++) mv.push_back(todcx(box.meas(dut)));
        dcx *mm[1] = {mv.data()};
        PBT_CHECK(c, vnacal_apply_m(vc.p, ci, cal.data(), F, mm, 1, 1, vd) == 0, "C10.apply_in_range_refused", "apply on the calibration grid refused: %s", vc.log.text().c_str());
        out.clear(); for (int f = 0; f < F; f++) { dcx sv = vnadata_get_cell(vd, f, 0, 0); out.push_back(LC(re_(sv), im_(sv))); }
        return true;
    };
    std::vector<LC> a, b;
    bool oka = run(cal, "a", a), okb = run(kf, "b", b);
    vnadata_free(vd);
    if (!oka || !okb) { c.label(oka == okb ? "G:both-solves-failed(inconclusive)" : "G:one-solve-failed(inconclusive)"); return; }
    long double worst = 0; int at = 0;
    for (int f = 0; f < F; f++) { long double e = std::abs(a[f] - b[f]); if (e > worst) { worst = e; at = f; } }
    c.track_max("noise lines on knots vs on the calibration grid: difference of the corrected device", (double)worst);
    PBT_CHECK(c, worst <= 1e-8L, "C10.noise_interpolation", "noise floor / tracking noise on straight lines: given on %d knots [%g..%g] the corrected device differs by %.3Lg (at calibration frequency %d = %.10g) from the same lines given on the calibration grid itself", K, kf[0], kf[K - 1], worst, at, cal[at]);
    c.nontrivial();
}

} // namespace

void pbt_property(Ctx &c) {
    switch (c.weighted({5, 4, 2, 2, 2, 2})) {
    case 0: value_queries(c); break;
    case 1: standards_and_apply(c); break;
    case 2: noise_grids(c); break;
    case 3: sigma_grids(c); break;
    case 5: noise_values(c); break;
    default: apply_varying_terms(c); break;
    }
}
