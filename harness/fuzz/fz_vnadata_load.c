/*
 * fz_vnadata_load.c -- C09 libFuzzer target for vnadata_fload (Touchstone 1,
 * Touchstone 2, NPD) with a semantic oracle (DESIGN.md section 3, C09).
 *
 * Input layout: byte 0 is a selector, the rest is the file.
 *   selector % 6        extension: 0..3 -> .s1p .s2p .s3p .s4p, 4 -> .ts, 5 -> .npd
 *                       ('0'..'5' select the same with a fresh destination)
 *   (selector / 6) % 4  previous contents of the SECOND destination object
 *                       (0: S 2x2 F=2, 1: Z 3x3 F=1 per-frequency z0, 2: UNDEF 0x0 F=3, 3: Zin 1x2 F=1)
 *
 * Oracle, per input:
 *   - the file is loaded twice: into a fresh vnadata_t (A) and into one that
 *     already holds other data (B).  vnadata(3): load changes "the type,
 *     dimensions, frequency vector and z0 values of the structure to match the
 *     data" -- so both calls must agree in return value and, on success, in
 *     every observable (type, dimensions, frequencies, cells, z0 mode and
 *     values, file type, format string).
 *   - failure: -1, errno per vnaerr(3) (EBADMSG / ENOPROTOOPT / system errno in
 *     category SYSTEM), >= 1 non-warning callback; a file that opens with an
 *     unsupported version declaration fails with ENOPROTOOPT (category VERSION); the destination can still be
 *     queried through every getter, re-initialised and freed.
 *   - success: no non-warning callback; type defined and dimensions legal for
 *     it (own rule table below), every frequency / cell / z0 readable through
 *     the getters and consistent with the vector getters; with >= 1 port and
 *     >= 1 frequency the object is saved as NPD ("<type>ri", both precisions
 *     VNADATA_MAX_PRECISION = hexadecimal floats) and re-loaded: everything
 *     must compare numerically equal (finite values; cells with a non-finite
 *     component are not compared, see fz_equal_complex).  Objects
 *     that came from a Touchstone file are also saved back as Touchstone:
 *     vnadata_cksave and vnadata_fsave must agree, the text must load again to
 *     the same dimensions and frequencies (values exact for S parameters,
 *     which the Touchstone saver writes without arithmetic).
 *   Sanitizers, asserts and LeakSanitizer (libFuzzer -detect_leaks=1) judge
 *   every iteration as well.
 *
 * Skipped, counted as excluded_huge: files declaring more than FZ_MAX_DIM ports
 * or frequencies, or more than FZ_MAX_CELLS cells x frequencies (honest
 * resource exhaustion / int overflow of size arithmetic, DESIGN.md section 6).
 */
#define FZ_TARGET	"fz_vnadata_load"
#define FZ_AUX1_NAME	"touchstone_resaved"
#define FZ_AUX2_NAME	"loaded_touchstone"
#define FZ_AUX3_NAME	"loaded_npd"
#define FZ_TEXT_MUTATOR	1
#include "fz_common.h"
#include <vnadata.h>

static const char *const extensions[6] = { ".s1p", ".s2p", ".s3p", ".s4p", ".ts", ".npd" };

/* ------------------------------------------------------------ size pre-scan */
/* value of the word that follows position p the way the Touchstone scanner sees it */
static bool ts_next_word(const uint8_t *p, const uint8_t *end, char *word, size_t wsize)
{
    size_t n = 0;

    for (;;) {
	while (p < end && isspace(*p))
	    ++p;
	if (p < end && *p == '!') {
	    while (p < end && *p != '\n')
		++p;
	    continue;
	}
	break;
    }
    while (p < end && n + 1 < wsize && (isalnum(*p) || *p == '+' || *p == ',' || *p == '-' || *p == '.' || *p == '_'))
	word[n++] = (char)*p++;
    word[n] = '\0';
    return n != 0;
}

static bool declares_huge(const uint8_t *d, size_t n)
{
    static const char *const ts_kw[] = { "[number of ports]", "[number of frequencies]" };
    static const char *const npd_kw[] = { "#:ports", "#:rows", "#:columns", "#:frequencies" };
    long ts_val[2] = { 0, 0 }, npd_val[4] = { 0, 0, 0, 0 };
    char word[64] = { 0 };

    for (int k = 0; k < 2; ++k) {
	const uint8_t *p = d, *hit;

	while ((hit = fz_memcasemem(p, (size_t)(d + n - p), ts_kw[k])) != NULL) {
	    p = hit + strlen(ts_kw[k]);
	    if (ts_next_word(p, d + n, word, sizeof(word))) {
		long v = labs(strtol(word, NULL, 0));

		if (fz_number_exceeds(word, FZ_MAX_DIM))
		    return true;
		if (v > ts_val[k])
		    ts_val[k] = v;
	    }
	}
    }
    for (int k = 0; k < 4; ++k) {
	const uint8_t *p = d, *hit;

	while ((hit = fz_memcasemem(p, (size_t)(d + n - p), npd_kw[k])) != NULL) {
	    size_t i = 0;

	    p = hit + strlen(npd_kw[k]);
	    while (p < d + n && (*p == ' ' || *p == '\t' || *p == '\r' || *p == '\v' || *p == '\f'))
		++p;
	    while (p + i < d + n && i + 1 < sizeof(word) && !isspace(p[i]))
		word[i] = (char)p[i], ++i;
	    word[i] = '\0';
	    if (i != 0) {
		long v = labs(strtol(word, NULL, 0));

		if (fz_number_exceeds(word, FZ_MAX_DIM))
		    return true;
		if (v > npd_val[k])
		    npd_val[k] = v;
	    }
	}
    }
    if (ts_val[0] * ts_val[0] * (ts_val[1] > 1 ? ts_val[1] : 1) > FZ_MAX_CELLS)
	return true;
    {
	long ports = npd_val[0];

	if (npd_val[1] > ports)
	    ports = npd_val[1];
	if (npd_val[2] > ports)
	    ports = npd_val[2];
	if (ports * ports * (npd_val[3] > 1 ? npd_val[3] : 1) > FZ_MAX_CELLS)
	    return true;
    }
    return false;
}

/* -------------------------------------------------------- version oracle */
/*
 * Does the file open with a version declaration the library does not support?
 * vnaerr(3): such a file is a VNAERR_VERSION error, errno ENOPROTOOPT.  Only the
 * case where the declaration is the very first thing in the file is decided
 * (nothing else can have gone wrong before it); everything else returns false.
 */
static bool opens_with_unsupported_version(int ext, const uint8_t *d, size_t n)
{
    const uint8_t *p = d, *end = d + n;
    char word[64] = { 0 };	/* fully initialised: -O2 turns strcmp(word, "2.0") into a 4-byte compare (memcheck) */

    if (ext != 5) {		/* Touchstone: [Version] <word>, comments start with '!' */
	for (;;) {
	    while (p < end && isspace(*p))
		++p;
	    if (p < end && *p == '!') {
		while (p < end && *p != '\n')
		    ++p;
		continue;
	    }
	    break;
	}
	if ((size_t)(end - p) < 9 || strncasecmp((const char *)p, "[version]", 9) != 0)
	    return false;
	p += 9;
	if (!ts_next_word(p, end, word, sizeof(word)) || strlen(word) >= sizeof(word) - 1)
	    return false;
	{	/* the scanner only starts a word at an alphanumeric, '+', '-' or '.' */
	    const uint8_t *q = p;

	    for (;;) {
		while (q < end && isspace(*q))
		    ++q;
		if (q < end && *q == '!') {
		    while (q < end && *q != '\n')
			++q;
		    continue;
		}
		break;
	    }
	    if (q >= end || !(isalnum(*q) || *q == '+' || *q == '-' || *q == '.'))
		return false;
	    if (*q >= 0x80)
		return false;
	}
	return strcmp(word, "2.0") != 0 && strcmp(word, "1.0") != 0;
    }
    /* NPD: first record "#:version <arg>"; blank lines and '#' comments (not "#:<letter>") before it */
    for (;;) {
	while (p < end && isascii(*p) && isspace(*p))
	    ++p;
	if (p >= end || *p != '#')
	    return false;
	if (p + 2 < end && p[1] == ':' && isalpha(p[2]))
	    break;
	while (p < end && *p != '\n')
	    ++p;
    }
    if ((size_t)(end - p) < 10 || memcmp(p, "#:version", 9) != 0 || !(isascii(p[9]) && isspace(p[9])) || p[9] == '\n')
	return false;
    p += 9;
    while (p < end && isascii(*p) && isspace(*p) && *p != '\n')
	++p;
    {
	size_t k = 0;

	while (p < end && k + 1 < sizeof(word) && !(isascii(*p) && isspace(*p)))
	    word[k++] = (char)*p++;
	word[k] = '\0';
	if (k == 0 || k + 1 >= sizeof(word) || word[0] == '#' || memchr(word, 0, k) != NULL)
	    return false;
    }
    return strcmp(word, "1.0") != 0;
}

/* ------------------------------------------------------------- rule table */
/* vnadata(3), vnadata_init: "the dimensions must be consistent with the parameter type" */
static bool dims_legal(vnadata_parameter_type_t type, int rows, int columns)
{
    if (rows < 0 || columns < 0)
	return false;
    switch (type) {
    case VPT_S: case VPT_Z: case VPT_Y:
	return rows == columns;
    case VPT_T: case VPT_U: case VPT_H: case VPT_G: case VPT_A: case VPT_B:
	return rows == 2 && columns == 2;
    case VPT_ZIN:
	return rows == 1;
    default:
	return false;		/* VPT_UNDEF or garbage: a loaded file always has a type */
    }
}

/* ------------------------------------------------------- object inspection */
static int obj_ports(const vnadata_t *v)
{
    int r = vnadata_get_rows(v), c = vnadata_get_columns(v);

    return r > c ? r : c;
}

/* read everything through the getters; any error callback here is a violation */
static void read_all(const char *who, vnadata_t *v, fz_errlog_t *el, bool loaded)
{
    int rows = vnadata_get_rows(v), cols = vnadata_get_columns(v), F = vnadata_get_frequencies(v);
    int ports = obj_ports(v);
    const double *fv = vnadata_get_frequency_vector(v);
    int before = el->el_errors;
    volatile double sink = 0.0;

    FZ_CHECK(rows >= 0 && cols >= 0 && F >= 0, "C09.vnadata_negative_dimension", "%s: %d x %d x %d", who, rows, cols, F);
    FZ_CHECK(F == 0 || fv != NULL, "C09.vnadata_getter_inconsistent", "%s: frequency vector NULL with %d frequencies", who, F);
    for (int f = 0; f < F; ++f) {
	double x = vnadata_get_frequency(v, f);
	const double complex *m = vnadata_get_matrix(v, f);

	FZ_CHECK(fz_same_double(x, fv[f]), "C09.vnadata_getter_inconsistent", "%s: get_frequency(%d) differs from the vector", who, f);
	FZ_CHECK(rows * cols == 0 || m != NULL, "C09.vnadata_getter_inconsistent", "%s: get_matrix(%d) NULL", who, f);
	for (int r = 0; r < rows; ++r) {
	    for (int c = 0; c < cols; ++c) {
		double complex z = vnadata_get_cell(v, f, r, c);

		FZ_CHECK(fz_same_complex(z, m[r * cols + c]), "C09.vnadata_getter_inconsistent",
			"%s: get_cell(%d,%d,%d) differs from get_matrix", who, f, r, c);
		sink += creal(z) + cimag(z);
	    }
	}
	if (vnadata_has_fz0(v)) {
	    const double complex *zv = vnadata_get_fz0_vector(v, f);

	    FZ_CHECK(ports == 0 || zv != NULL, "C09.vnadata_getter_inconsistent", "%s: get_fz0_vector(%d) NULL", who, f);
	    for (int p = 0; p < ports; ++p) {
		double complex z = vnadata_get_fz0(v, f, p);

		FZ_CHECK(fz_same_complex(z, zv[p]), "C09.vnadata_getter_inconsistent", "%s: get_fz0(%d,%d) differs from the vector", who, f, p);
	    }
	}
    }
    if (!vnadata_has_fz0(v)) {
	const double complex *zv = vnadata_get_z0_vector(v);

	FZ_CHECK(ports == 0 || zv != NULL, "C09.vnadata_getter_inconsistent", "%s: get_z0_vector NULL with %d ports", who, ports);
	for (int p = 0; p < ports; ++p) {
	    double complex z = vnadata_get_z0(v, p);

	    FZ_CHECK(fz_same_complex(z, zv[p]), "C09.vnadata_getter_inconsistent", "%s: get_z0(%d) differs from the vector", who, p);
	}
    }
    if (F >= 1) {
	FZ_CHECK(fz_same_double(vnadata_get_fmin(v), fv[0]) && fz_same_double(vnadata_get_fmax(v), fv[F - 1]),
		"C09.vnadata_getter_inconsistent", "%s: fmin/fmax differ from the ends of the frequency vector", who);
    }
    (void)vnadata_get_type_name(vnadata_get_type(v));
    (void)vnadata_get_filetype(v);
    (void)vnadata_get_format(v);
    (void)vnadata_get_fprecision(v);
    (void)vnadata_get_dprecision(v);
    (void)sink;
    FZ_CHECK(el->el_errors == before, "C09.vnadata_getter_failed", "%s: a getter reported an error: %s", who, el->el_last);
    if (loaded) {
	/* the loaders enforce 0..VNADATA_MAX_PRECISION on the precisions a file may carry (vnadata_save sizes buffers from them) */
	FZ_CHECK(vnadata_get_fprecision(v) >= 0 && vnadata_get_fprecision(v) <= VNADATA_MAX_PRECISION &&
		vnadata_get_dprecision(v) >= 0 && vnadata_get_dprecision(v) <= VNADATA_MAX_PRECISION,
		"C09.vnadata_precision_out_of_range", "%s: loaded object has precisions %d / %d outside 0..%d", who,
		vnadata_get_fprecision(v), vnadata_get_dprecision(v), VNADATA_MAX_PRECISION);
	FZ_CHECK(dims_legal(vnadata_get_type(v), rows, cols), "C09.vnadata_dims_illegal_for_type",
		"%s: loaded object has type %d (%s) with %d x %d", who, (int)vnadata_get_type(v),
		vnadata_get_type_name(vnadata_get_type(v)), rows, cols);
    }
}

/* compare two objects; `what' says which pair */
static void compare_objects(const char *what, vnadata_t *a, vnadata_t *b, bool exact_values, bool compare_z0)
{
    int rows = vnadata_get_rows(a), cols = vnadata_get_columns(a), F = vnadata_get_frequencies(a), ports = obj_ports(a);

    FZ_CHECK(vnadata_get_type(a) == vnadata_get_type(b), "C09.vnadata_mismatch_type", "%s: type %s vs %s", what,
	    vnadata_get_type_name(vnadata_get_type(a)), vnadata_get_type_name(vnadata_get_type(b)));
    FZ_CHECK(rows == vnadata_get_rows(b) && cols == vnadata_get_columns(b) && F == vnadata_get_frequencies(b),
	    "C09.vnadata_mismatch_dims", "%s: %d x %d x %d vs %d x %d x %d", what, rows, cols, F,
	    vnadata_get_rows(b), vnadata_get_columns(b), vnadata_get_frequencies(b));
    for (int f = 0; f < F; ++f) {
	FZ_CHECK(fz_equal_double(vnadata_get_frequency(a, f), vnadata_get_frequency(b, f)), "C09.vnadata_mismatch_frequency",
		"%s: frequency %d: %a vs %a", what, f, vnadata_get_frequency(a, f), vnadata_get_frequency(b, f));
	if (!exact_values)
	    continue;
	for (int r = 0; r < rows; ++r) {
	    for (int c = 0; c < cols; ++c) {
		double complex x = vnadata_get_cell(a, f, r, c), y = vnadata_get_cell(b, f, r, c);

		FZ_CHECK(fz_equal_complex(x, y), "C09.vnadata_mismatch_cell", "%s: cell (%d,%d,%d): %a%+aj vs %a%+aj", what, f, r, c,
			creal(x), cimag(x), creal(y), cimag(y));
	    }
	}
    }
    if (!compare_z0)
	return;
    FZ_CHECK(vnadata_has_fz0(a) == vnadata_has_fz0(b), "C09.vnadata_mismatch_z0mode", "%s: per-frequency z0 %d vs %d", what,
	    (int)vnadata_has_fz0(a), (int)vnadata_has_fz0(b));
    if (vnadata_has_fz0(a)) {
	for (int f = 0; f < F; ++f) {
	    for (int p = 0; p < ports; ++p) {
		double complex x = vnadata_get_fz0(a, f, p), y = vnadata_get_fz0(b, f, p);

		FZ_CHECK(fz_equal_complex(x, y), "C09.vnadata_mismatch_z0", "%s: fz0 (%d,%d): %a%+aj vs %a%+aj", what, f, p,
			creal(x), cimag(x), creal(y), cimag(y));
	    }
	}
    } else {
	for (int p = 0; p < ports; ++p) {
	    double complex x = vnadata_get_z0(a, p), y = vnadata_get_z0(b, p);

	    FZ_CHECK(fz_equal_complex(x, y), "C09.vnadata_mismatch_z0", "%s: z0 (%d): %a%+aj vs %a%+aj", what, p,
		    creal(x), cimag(x), creal(y), cimag(y));
	}
    }
}

/* give the second destination some previous life */
static void prepopulate(vnadata_t *v, int variant)
{
    static const double complex zz[3] = { 75.0 + 1.0 * I, 33.0 - 2.0 * I, 20.0 };

    switch (variant) {
    case 0:
	(void)vnadata_init(v, VPT_S, 2, 2, 2);
	for (int f = 0; f < 2; ++f) {
	    (void)vnadata_set_frequency(v, f, 1.0625e3 * (f + 1));
	    for (int k = 0; k < 4; ++k)
		(void)vnadata_set_cell(v, f, k / 2, k % 2, (0.1234567 + k) - (7.654321e-3 * (f + 1)) * I);
	}
	(void)vnadata_set_z0_vector(v, zz);
	break;
    case 1:
	(void)vnadata_init(v, VPT_Z, 3, 3, 1);
	(void)vnadata_set_frequency(v, 0, 2.5e9);
	for (int k = 0; k < 9; ++k)
	    (void)vnadata_set_cell(v, 0, k / 3, k % 3, 11.0 * k + 0.5 * I);
	(void)vnadata_set_fz0_vector(v, 0, zz);
	break;
    case 2:
	(void)vnadata_init(v, VPT_UNDEF, 0, 0, 3);
	for (int f = 0; f < 3; ++f)
	    (void)vnadata_set_frequency(v, f, 10.0 + f);
	break;
    default:
	(void)vnadata_init(v, VPT_ZIN, 1, 2, 1);
	(void)vnadata_set_frequency(v, 0, 7.0);
	(void)vnadata_set_cell(v, 0, 0, 0, 49.0 + 3.0 * I);
	(void)vnadata_set_cell(v, 0, 0, 1, 51.0 - 3.0 * I);
	(void)vnadata_set_filetype(v, VNADATA_FILETYPE_TOUCHSTONE2);
	(void)vnadata_set_format(v, "Zinma,PRC");
	break;
    }
}

static int load_bytes(vnadata_t *v, const uint8_t *data, size_t size, const char *name, int *err)
{
    static char empty[1];
    FILE *fp = fmemopen(size ? (void *)data : (void *)empty, size ? size : 1, "r");
    int rc;

    if (fp == NULL)
	abort();	/* harness problem, not a finding */
    if (size == 0)
	(void)fseek(fp, 0, SEEK_END);		/* an empty file */
    errno = 0;
    rc = vnadata_fload(v, fp, name);
    *err = errno;
    (void)fclose(fp);
    return rc;
}

/* save `v' under `name' into a malloc'ed text; NULL when the saver refuses */
static char *save_text(vnadata_t *v, const char *name, size_t *len, int *rc_out)
{
    char *text = NULL;
    FILE *fp = open_memstream(&text, len);
    int rc;

    if (fp == NULL)
	abort();
    rc = vnadata_fsave(v, fp, name);
    if (fclose(fp) != 0)
	abort();
    *rc_out = rc;
    if (rc != 0) {
	free(text);
	return NULL;
    }
    if (fz_verbose)
	fprintf(stderr, "C09-RESAVED %s (%zu bytes):\n%s\n", name, *len, text);
    return text;
}

int LLVMFuzzerTestOneInput(const uint8_t *data, size_t size)
{
    fz_errlog_t ela, elb, elc;
    vnadata_t *a, *b;
    char name[16];
    int ext, variant, rca, rcb, erra, errb;
    const uint8_t *file;
    size_t fsize;

    fz_begin_exec();
    if (size < 1)
	return 0;
    ext = data[0] % 6;
    variant = (data[0] / 6) % 4;
    file = data + 1;
    fsize = size - 1;
    if (declares_huge(file, fsize)) {
	fz_count(FZC_EXCLUDED_HUGE);
	FZ_CLASS("excluded_huge");
	return 0;
    }
    snprintf(name, sizeof(name), "fz%s", extensions[ext]);
    fz_errlog_reset(&ela);
    fz_errlog_reset(&elb);
    a = vnadata_alloc(fz_errfn, &ela);
    b = vnadata_alloc(fz_errfn, &elb);
    if (a == NULL || b == NULL)
	abort();
    prepopulate(b, variant);
    FZ_CHECK(elb.el_errors == 0, "C09.harness", "prepopulate failed: %s", elb.el_last);

    rca = load_bytes(a, file, fsize, name, &erra);
    rcb = load_bytes(b, file, fsize, name, &errb);
    FZ_CHECK(rca == 0 || rca == -1, "C09.return_value", "vnadata_fload returned %d", rca);
    if (rca != rcb && !(erra == ENOMEM || errb == ENOMEM)) {
	fz_violation("C09.vnadata_load_depends_on_previous_contents",
		"%s: vnadata_fload returned %d into a fresh object (%s) but %d into one holding other data (%s)",
		name, rca, rca ? ela.el_last : "ok", rcb, rcb ? elb.el_last : "ok");
    }

    if (rca == -1) {
	bool after_data = false;

	fz_check_failure("vnadata_fload", erra, &ela);
	if (opens_with_unsupported_version(ext, file, fsize) && erra != ENOMEM) {
	    FZ_CHECK(erra == ENOPROTOOPT && ela.el_last_category == VNAERR_VERSION, "C09.unsupported_version_not_reported_as_version",
		    "%s opens with an unsupported version but the failure is category %d, errno %d (%s): %s", name,
		    ela.el_last_category, erra, strerror(erra), ela.el_last);
	}
	if (rcb == -1)
	    fz_check_failure("vnadata_fload (second destination)", errb, &elb);
	/* the destinations are still usable */
	read_all("after failed load", a, &ela, false);
	read_all("after failed load (second destination)", b, &elb, false);
	if (vnadata_get_frequencies(a) >= 1) {
	    const double complex *m = vnadata_get_matrix(a, 0);
	    int cells = vnadata_get_rows(a) * vnadata_get_columns(a);

	    if (vnadata_get_frequency(a, 0) != 0.0)
		after_data = true;
	    for (int k = 0; k < cells && !after_data; ++k)
		if (creal(m[k]) != 0.0 || cimag(m[k]) != 0.0)
		    after_data = true;
	}
	if (after_data) {
	    fz_count(FZC_FAILED_DATA);
	    fz_count(FZC_NONTRIVIAL);
	    FZ_CLASS("failed_after_data");
	} else {
	    fz_count(FZC_FAILED_HEADER);
	    FZ_CLASS("failed_in_header");
	}
	{
	    int n = ela.el_errors;

	    FZ_CHECK(vnadata_init(a, VPT_S, 1, 1, 1) == 0 && ela.el_errors == n, "C09.vnadata_unusable_after_failure",
		    "vnadata_init after a failed load failed: %s", ela.el_last);
	    (void)vnadata_set_cell(a, 0, 0, 0, 1.0);
	    read_all("re-initialised after failed load", a, &ela, false);
	}
	vnadata_free(a);
	vnadata_free(b);
	return 0;
    }

    /* success */
    FZ_CHECK(!opens_with_unsupported_version(ext, file, fsize), "C09.unsupported_version_accepted",
	    "%s opens with an unsupported version but was loaded", name);
    fz_check_success("vnadata_fload", &ela);
    if (rcb == 0)
	fz_check_success("vnadata_fload (second destination)", &elb);
    fz_count(FZC_LOADED_OK);
    fz_count(ext == 5 ? FZC_AUX3 : FZC_AUX2);
    read_all("loaded object", a, &ela, true);
    if (rcb == 0) {
	read_all("loaded object (second destination)", b, &elb, true);
	compare_objects("fresh vs previously used destination", a, b, true, true);
	FZ_CHECK(vnadata_get_filetype(a) == vnadata_get_filetype(b), "C09.vnadata_mismatch_filetype",
		"file type %d vs %d (fresh vs previously used destination)", (int)vnadata_get_filetype(a), (int)vnadata_get_filetype(b));
	{
	    const char *fa = vnadata_get_format(a), *fb = vnadata_get_format(b);

	    FZ_CHECK((fa == NULL) == (fb == NULL) && (fa == NULL || strcmp(fa, fb) == 0), "C09.vnadata_mismatch_format",
		    "format '%s' vs '%s' (fresh vs previously used destination)", fa ? fa : "(null)", fb ? fb : "(null)");
	}
    }
    vnadata_free(b);

    if (vnadata_get_rows(a) >= 1 && vnadata_get_columns(a) >= 1 && vnadata_get_frequencies(a) >= 1) {
	vnadata_filetype_t loaded_filetype = vnadata_get_filetype(a);
	char format[16];
	char *text;
	size_t len = 0;
	int rc, err;
	vnadata_t *c;

	fz_count(FZC_NONTRIVIAL);
	FZ_CLASS("loaded_ok");

	/*
	 * 0. NPD files carry their own format list and precisions (0..1000): save
	 * once exactly as loaded.  The saver may refuse or fail (a listed parameter
	 * may not be computable from the data), but what it writes must load again
	 * with the same shape; values are not compared at the file's precision.
	 */
	if (ext == 5) {
	    text = save_text(a, "fz.npd", &len, &rc);
	    if (rc == 0) {
		fz_errlog_reset(&elc);
		c = vnadata_alloc(fz_errfn, &elc);
		if (c == NULL)
		    abort();
		rc = load_bytes(c, (const uint8_t *)text, len, "fz.npd", &err);
		if (rc != 0 && err != ENOMEM) {
		    fz_violation("C09.vnadata_resaved_not_loadable",
			    "NPD text written with the format '%s' and precisions %d/%d taken from the file does not load: %s",
			    vnadata_get_format(a) ? vnadata_get_format(a) : "(null)", vnadata_get_fprecision(a), vnadata_get_dprecision(a),
			    elc.el_last);
		}
		if (rc == 0) {
		    FZ_CHECK(vnadata_get_frequencies(c) == vnadata_get_frequencies(a) && obj_ports(c) == obj_ports(a),
			    "C09.vnadata_mismatch_dims", "saved as loaded and reloaded: %d ports x %d frequencies became %d x %d",
			    obj_ports(a), vnadata_get_frequencies(a), obj_ports(c), vnadata_get_frequencies(c));
		}
		vnadata_free(c);
		free(text);
	    }
	    ela.el_errors = 0;	/* refusals are reported through the callback: expected */
	}
	snprintf(format, sizeof(format), "%sri", vnadata_get_type_name(vnadata_get_type(a)));
	FZ_CHECK(vnadata_set_format(a, format) == 0, "C09.vnadata_not_savable", "vnadata_set_format(%s) failed: %s", format, ela.el_last);
	FZ_CHECK(vnadata_set_fprecision(a, VNADATA_MAX_PRECISION) == 0 && vnadata_set_dprecision(a, VNADATA_MAX_PRECISION) == 0,
		"C09.vnadata_not_savable", "set precision failed: %s", ela.el_last);

	/* 1. NPD: stores every type, complex per-port z0 and per-frequency z0 */
	text = save_text(a, "fz.npd", &len, &rc);
	FZ_CHECK(rc == 0 && ela.el_errors == 0, "C09.vnadata_not_savable",
		"loaded %s %d x %d x %d object cannot be saved as NPD %s: %s", vnadata_get_type_name(vnadata_get_type(a)),
		vnadata_get_rows(a), vnadata_get_columns(a), vnadata_get_frequencies(a), format, ela.el_last);
	fz_errlog_reset(&elc);
	c = vnadata_alloc(fz_errfn, &elc);
	if (c == NULL)
	    abort();
	rc = load_bytes(c, (const uint8_t *)text, len, "fz.npd", &err);
	if (rc != 0 && err != ENOMEM) {
	    fz_violation("C09.vnadata_resaved_not_loadable", "NPD text written from the loaded object does not load: %s", elc.el_last);
	}
	if (rc == 0) {
	    fz_check_success("vnadata_fload of re-saved NPD", &elc);
	    compare_objects("loaded vs saved-as-NPD-and-reloaded", a, c, true, true);
	    fz_count(FZC_RESAVED);
	}
	vnadata_free(c);
	free(text);

	/* 2. back to Touchstone when it came from Touchstone */
	if (ext != 5 && (loaded_filetype == VNADATA_FILETYPE_TOUCHSTONE1 || loaded_filetype == VNADATA_FILETYPE_TOUCHSTONE2)) {
	    int ck, nerr;

	    (void)vnadata_set_filetype(a, loaded_filetype);
	    nerr = ela.el_errors;
	    ck = vnadata_cksave(a, "fz.ts");
	    ela.el_errors = nerr;		/* a refusal is reported through the callback: expected */
	    text = save_text(a, "fz.ts", &len, &rc);
	    FZ_CHECK((ck == 0) == (rc == 0), "C09.vnadata_cksave_save_disagree", "vnadata_cksave returned %d but vnadata_fsave %d: %s",
		    ck, rc, ela.el_last);
	    if (rc == 0) {
		bool is_s = vnadata_get_type(a) == VPT_S;

		FZ_CHECK(ela.el_errors == nerr, "C09.success_with_error_callback", "vnadata_fsave succeeded but reported: %s", ela.el_last);
		fz_errlog_reset(&elc);
		c = vnadata_alloc(fz_errfn, &elc);
		if (c == NULL)
		    abort();
		rc = load_bytes(c, (const uint8_t *)text, len, "fz.ts", &err);
		if (rc != 0 && err != ENOMEM) {
		    fz_violation("C09.vnadata_resaved_not_loadable", "Touchstone text written from the loaded object does not load: %s",
			    elc.el_last);
		}
		if (rc == 0) {
		    fz_check_success("vnadata_fload of re-saved Touchstone", &elc);
		    compare_objects("loaded vs saved-as-Touchstone-and-reloaded", a, c, is_s, is_s);
		    fz_count(FZC_AUX1);
		}
		vnadata_free(c);
		free(text);
	    }
	    ela.el_errors = 0;
	}
    } else {
	fz_count(FZC_EMPTY_OBJECT);
	FZ_CLASS("loaded_empty_object");
    }
    vnadata_free(a);
    return 0;
}

/* ---------------------------------------------------------------- mutator */
#ifndef FZ_STANDALONE
static const char *const keywords[] = {
    "[Version] 2.0\n", "[Version] 1.0\n", "[Version] 3.0\n", "[Number of Ports] 2\n", "[Number of Ports] 1\n", "[Number of Ports] 3\n",
    "[Number of Ports] 0\n", "[Number of Frequencies] 1\n", "[Number of Frequencies] 2\n", "[Number of Frequencies] 0\n",
    "[Number of Noise Frequencies] 1\n", "[Two-Port Order] 12_21\n", "[Two-Port Order] 21_12\n", "[Reference] 50 75\n", "[Reference]",
    "[Matrix Format] Full\n", "[Matrix Format] Lower\n", "[Matrix Format] Upper\n", "[Network Data]\n", "[Noise Data]\n", "[End]\n",
    "[Begin Information]\n", "[End Information]\n", "[Mixed-Mode Order]", "# Hz S RI R 50\n", "# GHz Z MA R 1\n", "# kHz Y DB\n", "# MHz H RI R 75\n",
    "# G ma\n", "#", "R", "Hz", "THz", "S", "Z", "Y", "H", "G", "DB", "MA", "RI", "!", "! comment\n",
    "#:version 1.0\n", "#:ports 2\n", "#:ports 1\n", "#:ports 0\n", "#:rows 2\n", "#:columns 2\n", "#:frequencies 1\n", "#:frequencies 2\n",
    "#:parameters Sri\n", "#:parameters\n", "#:parameters Zri Sdb Zinma\n", "#:parameters Tma IL RL VSWR\n", "#:parameters PRC SRL\n",
    "#:z0 50 0 75 0\n", "#:z0 PER-FREQUENCY\n", "#:fprecision 7\n", "#:dprecision MAX\n", "#:fprecision 1000\n", "#:", "# ",
    "Sri", "Sma", "SdB", "Tri", "Uri", "Zri", "Yma", "Hri", "Gri", "Ari", "Bri", "Zinri", "Zinma", "PRC", "PRL", "SRC", "SRL", "IL", "RL", "VSWR", "ri",
};

size_t LLVMFuzzerCustomMutator(uint8_t *data, size_t size, size_t max_size, unsigned int seed)
{
    return fz_text_mutate(data, size, max_size, seed, 1, keywords, sizeof(keywords) / sizeof(keywords[0]));
}
#endif /* FZ_STANDALONE */
