/*
 * fz_common.h -- shared plumbing of the C09 libFuzzer targets (fz_vnadata_load.c,
 * fz_vnacal_load.c, fz_yaml.c): error-callback log, counters flushed to a
 * per-process file, the oracle-violation trap, small helpers and the optional
 * structure-aware mutator for text inputs.
 *
 * Environment (all optional):
 *   FZ_STATS_DIR   directory for the per-process counter files <target>.<pid>.cnt
 *   FZ_NO_SKIP     "1": do not skip the regions of open known findings (used to
 *                  replay regress/C09/open-* artifacts)
 *   FZ_NO_MUTATOR  "1": LLVMFuzzerCustomMutator degenerates to LLVMFuzzerMutate
 *   FZ_VERBOSE     "1": print the class of every input to stderr (replay mode)
 *   PBT_TMPDIR     directory for temporary files (fallback /tmp)
 */
#ifndef FZ_COMMON_H
#define FZ_COMMON_H

#ifndef _GNU_SOURCE
#define _GNU_SOURCE
#endif
#include <assert.h>
#include <complex.h>
#include <ctype.h>
#include <errno.h>
#include <fcntl.h>
#include <math.h>
#include <stdarg.h>
#include <stdbool.h>
#include <stdint.h>
#include <stdio.h>
#include <stdlib.h>
#include <string.h>
#include <sys/mman.h>
#include <sys/stat.h>
#include <sys/types.h>
#include <unistd.h>
#include <vnaerr.h>

#ifndef FZ_TARGET
#error "define FZ_TARGET before including fz_common.h"
#endif

/* sizes above which an input is skipped as resource-bound (DESIGN.md section 6) */
#define FZ_MAX_DIM	4096		/* declared ports / rows / columns / frequencies / list index */
#define FZ_MAX_CELLS	(1L << 20)	/* declared cells x frequencies (16 MiB of double complex) */

/* ------------------------------------------------------------------ counters */
enum {
    FZC_EXECS, FZC_LOADED_OK, FZC_FAILED_HEADER, FZC_FAILED_DATA, FZC_EXCLUDED_HUGE,
    FZC_EXCLUDED_KNOWN, FZC_RESAVED, FZC_NONTRIVIAL, FZC_EMPTY_OBJECT,
    FZC_ERR_SYSTEM, FZC_ERR_USAGE, FZC_ERR_VERSION, FZC_ERR_SYNTAX, FZC_ERR_OTHER,
    FZC_WARNINGS, FZC_ENOMEM, FZC_AUX1, FZC_AUX2, FZC_AUX3, FZC_N
};
static const char *const fz_counter_names[FZC_N] = {
    "execs", "loaded_ok", "failed_in_header", "failed_after_data", "excluded_huge",
    "excluded_known", "resaved_and_compared", "nontrivial", "loaded_empty_object",
    "fail_category_system", "fail_category_usage", "fail_category_version", "fail_category_syntax",
    "fail_category_other", "warnings", "fail_enomem", FZ_AUX1_NAME, FZ_AUX2_NAME, FZ_AUX3_NAME
};
static unsigned long fz_counters[FZC_N];
static int fz_stats_fd = -2;
static bool fz_no_skip, fz_no_mutator, fz_verbose;
static const char *fz_tmpdir = "/tmp";

static void fz_flush_counters(void)
{
    char buf[2048];
    int n = 0;

    if (fz_stats_fd < 0)
	return;
    for (int i = 0; i < FZC_N; ++i)
	n += snprintf(buf + n, sizeof(buf) - n, "%s %lu\n", fz_counter_names[i], fz_counters[i]);
    /* fixed-size block so that a shorter rewrite never leaves a tail */
    while (n < (int)sizeof(buf) - 1)
	buf[n++] = ' ';
    buf[n++] = '\n';
    (void)!pwrite(fz_stats_fd, buf, n, 0);
}

static void fz_init_once(void)
{
    const char *s;

    if (fz_stats_fd != -2)
	return;
    fz_stats_fd = -1;
    if ((s = getenv("FZ_STATS_DIR")) != NULL && s[0] != '\0') {
	char path[512];

	snprintf(path, sizeof(path), "%s/%s.%ld.cnt", s, FZ_TARGET, (long)getpid());
	fz_stats_fd = open(path, O_CREAT | O_WRONLY | O_TRUNC | O_CLOEXEC, 0644);
    }
    fz_no_skip = (s = getenv("FZ_NO_SKIP")) != NULL && s[0] == '1';
    fz_no_mutator = (s = getenv("FZ_NO_MUTATOR")) != NULL && s[0] == '1';
    fz_verbose = (s = getenv("FZ_VERBOSE")) != NULL && s[0] == '1';
    if ((s = getenv("PBT_TMPDIR")) != NULL && s[0] != '\0')
	fz_tmpdir = s;
    atexit(fz_flush_counters);
}

static inline void fz_count(int which)
{
    ++fz_counters[which];
}

static inline void fz_begin_exec(void)
{
    fz_init_once();
    if ((++fz_counters[FZC_EXECS] & 0xff) == 0)
	fz_flush_counters();
}

#define FZ_CLASS(name)	do { if (fz_verbose) fprintf(stderr, "C09-CLASS %s\n", name); } while (0)

/* ------------------------------------------------------------- violation trap */
/*
 * fz_violation: an oracle assertion failed.  One line on stderr
 * "C09-VIOLATION code=<stable code> <details>", counters flushed, then a trap so
 * that libFuzzer stores the input as a crash artifact.
 */
static void fz_violation(const char *code, const char *fmt, ...)
    __attribute__((noreturn, format(printf, 2, 3)));
static void fz_violation(const char *code, const char *fmt, ...)
{
    va_list ap;
    char msg[600];

    va_start(ap, fmt);
    vsnprintf(msg, sizeof(msg), fmt, ap);
    va_end(ap);
    for (char *p = msg; *p; ++p)
	if (*p == '\n' || *p == '\r')
	    *p = ' ';
    fprintf(stderr, "C09-VIOLATION code=%s target=%s %s\n", code, FZ_TARGET, msg);
    fflush(stderr);
    fz_flush_counters();
    __builtin_trap();
}

#define FZ_CHECK(cond, code, ...) do { if (!(cond)) fz_violation(code, __VA_ARGS__); } while (0)

/* --------------------------------------------------------------- error log */
typedef struct fz_errlog {
    int el_errors;		/* non-warning callbacks */
    int el_warnings;
    int el_last_category;	/* of the last non-warning callback */
    int el_errno_at_last;	/* errno when the last non-warning callback ran */
    int el_foreign;		/* callbacks in categories a loader must not use: USAGE, MATH, INTERNAL */
    char el_foreign_msg[240];	/* first of them */
    char el_last[240];		/* last non-warning message */
    char el_first[240];		/* first non-warning message */
} fz_errlog_t;

static void fz_errfn(const char *message, void *arg, vnaerr_category_t category)
{
    fz_errlog_t *el = arg;
    int saved = errno;

    if (category == VNAERR_WARNING) {
	++el->el_warnings;
    } else {
	if (el->el_errors++ == 0)
	    snprintf(el->el_first, sizeof(el->el_first), "%s", message ? message : "(null)");
	if (category != VNAERR_SYSTEM && category != VNAERR_VERSION && category != VNAERR_SYNTAX) {
	    if (el->el_foreign++ == 0)
		snprintf(el->el_foreign_msg, sizeof(el->el_foreign_msg), "%s", message ? message : "(null)");
	}
	el->el_last_category = (int)category;
	el->el_errno_at_last = saved;
	snprintf(el->el_last, sizeof(el->el_last), "%s", message ? message : "(null)");
    }
    errno = saved;
}

static inline void fz_errlog_reset(fz_errlog_t *el)
{
    memset(el, 0, sizeof(*el));
    el->el_last_category = -1;
}

/*
 * fz_check_failure: the documented shape of a failed load (vnaerr(3) table,
 * property statement): errno is EBADMSG (syntax), ENOPROTOOPT (version) or a
 * non-zero system errno reported in category VNAERR_SYSTEM; at least one
 * non-warning callback.  `what' names the call.
 */
static void fz_check_failure(const char *what, int err, const fz_errlog_t *el)
{
    FZ_CHECK(err != 0, "C09.fail_errno_zero", "%s failed with errno 0 (last message: %s)", what, el->el_last);
    FZ_CHECK(el->el_errors >= 1, "C09.fail_without_callback",
	    "%s failed (errno %d %s) without any non-warning error callback", what, err, strerror(err));
    if (el->el_foreign != 0) {
	/* vnaerr(3): USAGE and INTERNAL "indicate software bugs"; a malformed file is SYNTAX / VERSION */
	fz_count(FZC_ERR_USAGE);
	fz_violation("C09.fail_usage_category", "%s: malformed file content reported in a category other than "
		"SYNTAX/VERSION/SYSTEM (errno %d %s): %s", what, err, strerror(err), el->el_foreign_msg);
    }
    switch (el->el_last_category) {
    case VNAERR_SYSTEM:
	fz_count(FZC_ERR_SYSTEM);
	if (err == ENOMEM)
	    fz_count(FZC_ENOMEM);
	break;
    case VNAERR_VERSION:
	fz_count(FZC_ERR_VERSION);
	FZ_CHECK(err == ENOPROTOOPT, "C09.fail_errno_mismatch",
		"%s: version error reported but errno is %d (%s): %s", what, err, strerror(err), el->el_last);
	break;
    case VNAERR_SYNTAX:
	fz_count(FZC_ERR_SYNTAX);
	FZ_CHECK(err == EBADMSG, "C09.fail_errno_mismatch",
		"%s: syntax error reported but errno is %d (%s): %s", what, err, strerror(err), el->el_last);
	break;
    case VNAERR_USAGE:
	fz_count(FZC_ERR_USAGE);
	fz_violation("C09.fail_usage_category", "%s: malformed file content reported as a usage error "
		"(errno %d %s, not EBADMSG/ENOPROTOOPT/system): %s", what, err, strerror(err), el->el_last);
    default:
	fz_count(FZC_ERR_OTHER);
	fz_violation("C09.fail_other_category", "%s: failure reported in category %d (errno %d %s): %s",
		what, el->el_last_category, err, strerror(err), el->el_last);
    }
}

static void fz_check_success(const char *what, const fz_errlog_t *el)
{
    FZ_CHECK(el->el_errors == 0, "C09.success_with_error_callback",
	    "%s succeeded but reported %d error(s) through the callback, first: %s", what, el->el_errors, el->el_first);
    fz_counters[FZC_WARNINGS] += el->el_warnings;
}

/* ------------------------------------------------------------------ helpers */
/* bitwise equality of doubles, all NaNs equal */
static inline bool fz_same_double(double a, double b)
{
    if (isnan(a) || isnan(b))
	return isnan(a) && isnan(b);
    return memcmp(&a, &b, sizeof(a)) == 0;
}

/*
 * numeric equality (+0 == -0); values with a non-finite component on either
 * side are not compared: the loaders build complex numbers as re + I*im, which
 * is only exact for finite parts (inf + I*inf gives nan+inf*I), and the
 * neighbouring checks (C06) assert numeric equality of finite data only.
 */
static inline bool fz_equal_double(double a, double b)
{
    if (!isfinite(a) || !isfinite(b))
	return true;
    return a == b;
}

static inline bool fz_equal_complex(double complex a, double complex b)
{
    if (!isfinite(creal(a)) || !isfinite(cimag(a)) || !isfinite(creal(b)) || !isfinite(cimag(b)))
	return true;
    return creal(a) == creal(b) && cimag(a) == cimag(b);
}

static inline bool fz_same_complex(double complex a, double complex b)
{
    return fz_same_double(creal(a), creal(b)) && fz_same_double(cimag(a), cimag(b));
}

/* read a whole FILE (memstream or memfd) -- not needed for memstreams */

/* growing byte buffer */
typedef struct fz_buf {
    char *b_data;
    size_t b_len, b_cap;
} fz_buf_t;

static void fz_buf_add(fz_buf_t *b, const void *p, size_t n)
{
    if (b->b_len + n + 1 > b->b_cap) {
	size_t cap = b->b_cap ? b->b_cap : 256;

	while (cap < b->b_len + n + 1)
	    cap *= 2;
	b->b_data = realloc(b->b_data, cap);
	if (b->b_data == NULL)
	    abort();
	b->b_cap = cap;
    }
    memcpy(b->b_data + b->b_len, p, n);
    b->b_len += n;
    b->b_data[b->b_len] = '\0';
}

static void fz_buf_printf(fz_buf_t *b, const char *fmt, ...) __attribute__((format(printf, 2, 3)));
static void fz_buf_printf(fz_buf_t *b, const char *fmt, ...)
{
    char tmp[128];
    va_list ap;
    int n;

    va_start(ap, fmt);
    n = vsnprintf(tmp, sizeof(tmp), fmt, ap);
    va_end(ap);
    if (n > (int)sizeof(tmp) - 1)
	n = sizeof(tmp) - 1;
    fz_buf_add(b, tmp, n);
}

static inline void fz_buf_free(fz_buf_t *b)
{
    free(b->b_data);
    memset(b, 0, sizeof(*b));
}

/* case-insensitive memmem */
static const uint8_t *fz_memcasemem(const uint8_t *h, size_t hn, const char *needle)
{
    size_t nn = strlen(needle);

    if (nn == 0 || hn < nn)
	return NULL;
    for (size_t i = 0; i + nn <= hn; ++i) {
	size_t j = 0;

	while (j < nn && tolower(h[i + j]) == tolower((unsigned char)needle[j]))
	    ++j;
	if (j == nn)
	    return h + i;
    }
    return NULL;
}

/*
 * fz_number_exceeds: does the text [p, end) start (after blanks) with a number
 * whose magnitude exceeds `limit' under ANY of the conversions the loaders use
 * (strtol base 0, strtol base 10 as in %d, strtod)?  Conservative on purpose.
 */
static bool fz_number_exceeds(const char *s, double limit)
{
    char *end;
    double d;
    long l;

    while (*s == ' ' || *s == '\t')
	++s;
    errno = 0;
    d = strtod(s, &end);
    if (end != s && (isnan(d) || fabs(d) > limit))
	return true;
    l = strtol(s, &end, 0);
    if (end != s && (l > limit || l < -limit))
	return true;
    l = strtol(s, &end, 10);
    if (end != s && (l > limit || l < -limit))
	return true;
    /* values that wrap when stored in an int */
    if (end != s && (l > 2147483647L || l < -2147483647L))
	return true;
    errno = 0;
    return false;
}

/* ------------------------------------------------------- property trees */
#ifdef FZ_PROPERTY_TREE
#include <vnaproperty.h>

/*
 * fz_prop_dump: canonical text of a property tree, read through the public API
 * only (type / count / keys / get / get_subtree / quote_key).  Any getter that
 * fails on a node the tree itself listed is a violation ("every cell readable").
 */
static void fz_prop_dump(const char *who, const vnaproperty_t *node, fz_buf_t *out, int depth, unsigned long *nodes)
{
    int t;

    if (nodes != NULL)
	++*nodes;
    if (node == NULL) {
	fz_buf_add(out, "~", 1);
	return;
    }
    FZ_CHECK(depth < 100000, "C09.property_tree_unreadable", "%s: tree deeper than 100000", who);
    t = vnaproperty_type(node, ".");
    if (t == 's') {
	const char *v = vnaproperty_get(node, ".");

	FZ_CHECK(v != NULL, "C09.property_tree_unreadable", "%s: get(.) of a scalar returned NULL", who);
	fz_buf_printf(out, "s%zu:", strlen(v));
	fz_buf_add(out, v, strlen(v));
    } else if (t == 'm') {
	const char **keys = vnaproperty_keys(node, "{}");
	int cnt = vnaproperty_count(node, "{}"), i = 0;

	FZ_CHECK(keys != NULL, "C09.property_tree_unreadable", "%s: keys({}) of a map returned NULL", who);
	fz_buf_add(out, "m{", 2);
	for (; keys[i] != NULL; ++i) {
	    char *q = vnaproperty_quote_key(keys[i]);
	    vnaproperty_t *child;

	    FZ_CHECK(q != NULL, "C09.property_tree_unreadable", "%s: quote_key failed", who);
	    errno = 0;
	    child = vnaproperty_get_subtree(node, "%s", q);
	    FZ_CHECK(child != NULL || errno == 0, "C09.property_tree_unreadable",
		    "%s: get_subtree of listed key '%s' (quoted '%s') failed: %s", who, keys[i], q, strerror(errno));
	    fz_buf_printf(out, "k%zu:", strlen(keys[i]));
	    fz_buf_add(out, keys[i], strlen(keys[i]));
	    fz_buf_add(out, "=", 1);
	    fz_prop_dump(who, child, out, depth + 1, nodes);
	    fz_buf_add(out, ";", 1);
	    free(q);
	}
	free((void *)keys);
	FZ_CHECK(cnt == i, "C09.property_tree_unreadable", "%s: count({}) = %d but keys() lists %d", who, cnt, i);
	fz_buf_add(out, "}", 1);
    } else if (t == 'l') {
	int cnt = vnaproperty_count(node, "[]");

	FZ_CHECK(cnt >= 0, "C09.property_tree_unreadable", "%s: count([]) of a list failed", who);
	fz_buf_add(out, "l[", 2);
	for (int i = 0; i < cnt; ++i) {
	    vnaproperty_t *child;

	    errno = 0;
	    child = vnaproperty_get_subtree(node, "[%d]", i);
	    FZ_CHECK(child != NULL || errno == 0, "C09.property_tree_unreadable", "%s: get_subtree([%d]) of %d failed: %s",
		    who, i, cnt, strerror(errno));
	    fz_prop_dump(who, child, out, depth + 1, nodes);
	    fz_buf_add(out, ";", 1);
	}
	fz_buf_add(out, "]", 1);
    } else {
	fz_violation("C09.property_tree_unreadable", "%s: type(.) of a non-null node returned %d", who, t);
    }
}

/* does a map key ask for a list index (or anything numeric after '[') beyond FZ_MAX_DIM ? */
static bool fz_key_has_huge_index(const char *key)
{
    for (const char *p = key; *p != '\0'; ++p) {
	if (*p == '[' && fz_number_exceeds(p + 1, FZ_MAX_DIM))
	    return true;
    }
    return false;
}
#endif /* FZ_PROPERTY_TREE */

/* ------------------------------------------------ structure-aware text mutator */
#if defined(FZ_TEXT_MUTATOR) && !defined(FZ_STANDALONE)
extern size_t LLVMFuzzerMutate(uint8_t *Data, size_t Size, size_t MaxSize);

static uint32_t fzm_state;
static inline uint32_t fzm_rand(void)
{
    fzm_state ^= fzm_state << 13;
    fzm_state ^= fzm_state >> 17;
    fzm_state ^= fzm_state << 5;
    return fzm_state;
}
static inline uint32_t fzm_below(uint32_t n)
{
    return n ? fzm_rand() % n : 0;
}

typedef struct { size_t off, len; } fzm_span_t;

/* split [skip, size) into lines (with their newline) or into tokens (runs of non-blank) */
static size_t fzm_split(const uint8_t *d, size_t skip, size_t size, bool lines, fzm_span_t *v, size_t maxv)
{
    size_t n = 0, i = skip;

    while (i < size && n < maxv) {
	size_t s = i;

	if (lines) {
	    while (i < size && d[i] != '\n')
		++i;
	    if (i < size)
		++i;
	} else {
	    while (i < size && (d[i] == ' ' || d[i] == '\t' || d[i] == '\n' || d[i] == '\r'))
		++i;
	    s = i;
	    while (i < size && !(d[i] == ' ' || d[i] == '\t' || d[i] == '\n' || d[i] == '\r'))
		++i;
	    if (i == s)
		break;
	}
	v[n].off = s;
	v[n].len = i - s;
	++n;
    }
    return n;
}

/* replace span sp of (d,size) with (rep,rlen); returns new size or 0 if it does not fit */
static size_t fzm_replace(uint8_t *d, size_t size, size_t maxsize, fzm_span_t sp, const uint8_t *rep, size_t rlen)
{
    size_t nsize = size - sp.len + rlen;

    if (nsize > maxsize)
	return 0;
    memmove(d + sp.off + rlen, d + sp.off + sp.len, size - sp.off - sp.len);
    memcpy(d + sp.off, rep, rlen);
    return nsize;
}

static const char *const fzm_numbers[] = {
    "0", "1", "-1", "2", "3", "4", "5", "9", "10", "0.0", "-0.0", "1e308", "-1e308", "1e-320", "nan", "inf", "-inf",
    "0x1p+0", "4096", "4097", "65536", "2147483647", "2147483648", "-2147483648", "4294967297", "1e999", "50", "50.0",
    "1j", "+1.5 -2.5j", "~", "null", "[]", "{}", "PER-FREQUENCY", "12_21", "21_12", "Full", "Lower", "Upper", "2.0", "1.0",
};

static bool fzm_looks_numeric(const uint8_t *p, size_t n)
{
    if (n == 0 || n > 40)
	return false;
    return isdigit(p[0]) || ((p[0] == '-' || p[0] == '+' || p[0] == '.') && n > 1 && (isdigit(p[1]) || p[1] == '.'));
}

/*
 * fzm_flip_collection: change the YAML node kind of one flow collection in place:
 * a sequence with an even number of items [a, b, c, d] becomes the mapping
 * {a: b, c: d}; a mapping {a: b, c: d} becomes the sequence [a, b, c, d].
 * The size does not change.  Returns the size or 0 if nothing was found.
 */
static size_t fzm_flip_collection(uint8_t *d, size_t size, size_t skip)
{
    size_t start = skip + fzm_below((uint32_t)(size - skip)), open = size, close = size;
    size_t seps[256], nseps = 0;
    int depth = 0;
    bool to_map;

    for (size_t k = 0; k < size - skip; ++k) {		/* next '[' or '{' at or after a random position, cyclic */
	size_t i = skip + (start - skip + k) % (size - skip);

	if (d[i] == '[' || d[i] == '{') {
	    open = i;
	    break;
	}
    }
    if (open == size)
	return 0;
    to_map = d[open] == '[';
    for (size_t i = open; i < size; ++i) {
	uint8_t ch = d[i];

	if (ch == '[' || ch == '{') {
	    ++depth;
	} else if (ch == ']' || ch == '}') {
	    if (--depth == 0) {
		close = i;
		break;
	    }
	} else if (depth == 1 && nseps < 256) {
	    if (ch == ',' || (!to_map && ch == ':' && i + 1 < size && (d[i + 1] == ' ' || d[i + 1] == '\n')))
		seps[nseps++] = i;
	}
    }
    if (close == size || nseps == 0)
	return 0;
    if (to_map) {
	if (nseps % 2 == 0)		/* odd number of items: leave the last one as a key without value */
	    --nseps;
	for (size_t k = 0; k < nseps; k += 2) {
	    if (seps[k] + 1 >= size || (d[seps[k] + 1] != ' ' && d[seps[k] + 1] != '\n'))
		return 0;		/* a flow mapping needs ": " */
	    d[seps[k]] = ':';
	}
	d[open] = '{';
	d[close] = '}';
    } else {
	for (size_t k = 0; k < nseps; ++k)
	    d[seps[k]] = ',';
	d[open] = '[';
	d[close] = ']';
    }
    return size;
}

/*
 * fz_text_mutate: one structure-aware mutation of a text input.  `skip' leading
 * bytes (selector byte) are left to libFuzzer's own mutations.  Extra keyword
 * table supplied by the target.
 */
static size_t fz_text_mutate(uint8_t *d, size_t size, size_t maxsize, unsigned seed, size_t skip,
	const char *const *keywords, size_t nkeywords)
{
    static uint8_t work[65536 + 1024];	/* scratch copy: intermediate steps may exceed maxsize */
    const size_t cap = sizeof(work);
    uint8_t *const orig = d;
    fzm_span_t spans[512];
    uint8_t tmp[256];
    size_t n, a, b, nsize = 0;
    bool lines;

    fzm_state = seed * 2654435761u + 0x9e3779b9u;
    if (fzm_state == 0)
	fzm_state = 1;
    fz_init_once();
    if (fz_no_mutator || size <= skip || size > 65536 || fzm_below(4) == 0)	/* 25 %: plain byte mutations */
	return LLVMFuzzerMutate(d, size, maxsize);
    memcpy(work, d, size);
    d = work;
    if (fzm_below(8) == 0) {
	nsize = fzm_flip_collection(d, size, skip);
	if (nsize != 0 && nsize <= maxsize) {
	    memcpy(orig, work, nsize);
	    return nsize;
	}
	nsize = 0;
    }
    lines = fzm_below(3) == 0;
    n = fzm_split(d, skip, size, lines, spans, 512);
    if (n == 0)
	return LLVMFuzzerMutate(orig, size, maxsize);
    a = fzm_below(n);
    b = fzm_below(n);
    switch (fzm_below(10)) {
    case 0:	/* delete a token / line */
	nsize = fzm_replace(d, size, cap, spans[a], (const uint8_t *)"", 0);
	break;
    case 1:	/* duplicate */
	if (spans[a].len <= sizeof(tmp) - 1) {
	    fzm_span_t at = { spans[a].off, 0 };

	    memcpy(tmp, d + spans[a].off, spans[a].len);
	    tmp[spans[a].len] = ' ';
	    nsize = fzm_replace(d, size, cap, at, tmp, spans[a].len + (lines ? 0 : 1));
	}
	break;
    case 2:	/* swap two of equal kind */
	if (a != b && spans[a].len <= sizeof(tmp) && spans[b].len <= sizeof(tmp)) {
	    uint8_t tb[256];
	    size_t lo = a < b ? a : b, hi = a < b ? b : a, la = spans[lo].len, lb = spans[hi].len;

	    memcpy(tmp, d + spans[lo].off, la);
	    memcpy(tb, d + spans[hi].off, lb);
	    /* replace the later one first so the earlier offsets stay valid */
	    nsize = fzm_replace(d, size, cap, spans[hi], tmp, la);
	    if (nsize)
		nsize = fzm_replace(d, nsize, cap, spans[lo], tb, lb);
	}
	break;
    case 3:	/* perturb a number: pick a numeric token near a */
    case 4:
	for (size_t k = 0; k < n; ++k) {
	    size_t idx = (a + k) % n;
	    char num[64];
	    int len = 0;

	    if (lines || !fzm_looks_numeric(d + spans[idx].off, spans[idx].len))
		continue;
	    switch (fzm_below(5)) {
	    case 0: {	/* +-1 on the integer part */
		    long v = strtol((const char *)memcpy(memset(tmp, 0, 64), d + spans[idx].off,
				    spans[idx].len < 63 ? spans[idx].len : 63), NULL, 10);

		    len = snprintf(num, sizeof(num), "%ld", (long)((unsigned long)v + (fzm_below(2) ? 1UL : -1UL)));
		}
		break;
	    case 1:	/* sign */
		if (d[spans[idx].off] == '-') {
		    len = snprintf(num, sizeof(num), "%.*s", (int)(spans[idx].len - 1 < 60 ? spans[idx].len - 1 : 60),
			    d + spans[idx].off + 1);
		} else {
		    len = snprintf(num, sizeof(num), "-%.*s", (int)(spans[idx].len < 60 ? spans[idx].len : 60),
			    d + spans[idx].off);
		}
		break;
	    case 2:	/* scale by a power of ten */
		len = snprintf(num, sizeof(num), "%.*se%d", (int)(spans[idx].len < 40 ? spans[idx].len : 40),
			d + spans[idx].off, (int)fzm_below(40) - 20);
		break;
	    default:	/* special value */
		len = snprintf(num, sizeof(num), "%s", fzm_numbers[fzm_below(sizeof(fzm_numbers) / sizeof(fzm_numbers[0]))]);
		break;
	    }
	    nsize = fzm_replace(d, size, cap, spans[idx], (const uint8_t *)num, len);
	    break;
	}
	break;
    case 5:	/* replace a token by a keyword of the format / insert a keyword */
	if (nkeywords != 0) {
	    const char *kw = keywords[fzm_below(nkeywords)];
	    fzm_span_t at = spans[a];

	    if (fzm_below(2))
		at.len = 0;
	    nsize = fzm_replace(d, size, cap, at, (const uint8_t *)kw, strlen(kw));
	}
	break;
    case 6:	/* truncate at a token / line boundary */
	nsize = spans[a].off + (fzm_below(2) ? spans[a].len : 0);
	if (nsize <= skip)
	    nsize = 0;
	break;
    case 7:	/* change the "node kind": wrap / unwrap brackets, turn a token into a sequence or mapping */
	if (!lines && spans[a].len <= sizeof(tmp) - 8) {
	    static const char *const wraps[][2] = { {"[", "]"}, {"{", "}"}, {"[[", "]]"}, {"{a: ", "}"}, {"- ", ""}, {"? ", ""}, {"&a ", ""}, {"*", ""}, {"\"", "\""}, {"'", "'"}, {"! ", ""}, {"#", ""}, {"[", ""}, {"", "]"} };
	    size_t w = fzm_below(sizeof(wraps) / sizeof(wraps[0])), l0 = strlen(wraps[w][0]), l1 = strlen(wraps[w][1]);

	    memcpy(tmp, wraps[w][0], l0);
	    memcpy(tmp + l0, d + spans[a].off, spans[a].len);
	    memcpy(tmp + l0 + spans[a].len, wraps[w][1], l1);
	    nsize = fzm_replace(d, size, cap, spans[a], tmp, l0 + spans[a].len + l1);
	}
	break;
    case 8:	/* YAML anchor on one token and an alias to it in place of a later one ("&a [1, *a]": shared or self-containing nodes) */
	if (!lines && a != b && spans[a].len <= sizeof(tmp) - 8) {
	    size_t lo = a < b ? a : b, hi = a < b ? b : a;
	    fzm_span_t at = { spans[lo].off, 0 };

	    nsize = fzm_replace(d, size, cap, spans[hi], (const uint8_t *)"*a", 2);
	    if (nsize)
		nsize = fzm_replace(d, nsize, cap, at, (const uint8_t *)"&a ", 3);
	}
	break;
    default:	/* move a line / token to another place (keyword reordering) */
	if (a != b && spans[a].len <= sizeof(tmp)) {
	    size_t la = spans[a].len;
	    fzm_span_t at;

	    memcpy(tmp, d + spans[a].off, la);
	    if (a < b) {	/* insert at b first, then delete a */
		at.off = spans[b].off;
		at.len = 0;
		nsize = fzm_replace(d, size, cap, at, tmp, la);
		if (nsize)
		    nsize = fzm_replace(d, nsize, cap, spans[a], (const uint8_t *)"", 0);
	    } else {
		nsize = fzm_replace(d, size, cap, spans[a], (const uint8_t *)"", 0);
		at.off = spans[b].off;
		at.len = 0;
		if (nsize)
		    nsize = fzm_replace(d, nsize, cap, at, tmp, la);
	    }
	}
	break;
    }
    if (nsize == 0 || nsize > maxsize)
	return LLVMFuzzerMutate(orig, size, maxsize);
    memcpy(orig, work, nsize);
    return nsize;
}
#endif /* FZ_TEXT_MUTATOR */

/* ------------------------------------------ stand-alone driver (valgrind replay) */
#ifdef FZ_STANDALONE
int LLVMFuzzerTestOneInput(const uint8_t *data, size_t size);

int main(int argc, char **argv)
{
    for (int i = 1; i < argc; ++i) {
	FILE *fp = fopen(argv[i], "rb");
	uint8_t *buf;
	size_t n;

	if (fp == NULL) {
	    perror(argv[i]);
	    return 2;
	}
	if ((buf = malloc(1 << 20)) == NULL)
	    abort();
	n = fread(buf, 1, 1 << 20, fp);
	(void)fclose(fp);
	fprintf(stderr, "Running: %s\n", argv[i]);
	{
	    /* exact-size copy so that memcheck sees reads past the end */
	    uint8_t *exact = malloc(n ? n : 1);

	    if (exact == NULL)
		abort();
	    memcpy(exact, buf, n);
	    (void)LLVMFuzzerTestOneInput(exact, n);
	    free(exact);
	}
	free(buf);
    }
    return 0;
}
#endif /* FZ_STANDALONE */

#endif /* FZ_COMMON_H */
