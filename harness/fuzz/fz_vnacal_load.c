/*
 * fz_vnacal_load.c -- C09 libFuzzer target for vnacal_load with a semantic
 * oracle (DESIGN.md section 3, C09).
 *
 * The input bytes are the .vnacal file; they are written to a memfd (fallback:
 * a file under $PBT_TMPDIR) and loaded by path.
 *
 * Oracle, per input:
 *   - failure: NULL, errno per vnaerr(3)/vnacal(3) (EBADMSG, ENOPROTOOPT or a
 *     system errno in category SYSTEM), >= 1 non-warning callback; nothing is
 *     returned, so nothing may leak (LeakSanitizer).
 *   - success: no non-warning callback; for every calibration: type is one of
 *     the eight public types, rows, columns >= 1 and compatible with the type
 *     (vnacal_new(3): T types need rows <= columns, U types, UE14 and E12 need
 *     rows >= columns), every node the loader has to read has the YAML kind
 *     the format prescribes (independent node-kind model below),
 *     frequencies >= 0 and strictly ascending (a NaN is not
 *     ascending), fmin/fmax equal the ends of the vector, z0 and every error
 *     term readable (terms through vnacal_internal.h: there is no public term
 *     getter), property trees readable through the public API.  If at least
 *     one calibration has >= 1 frequency the vnacal_t is saved with both
 *     precisions at VNACAL_MAX_PRECISION and loaded again: names, order,
 *     types, dimensions, frequencies, z0, terms (bit for bit; NaN == NaN) and
 *     property trees must be equal.  Calibrations with >= 1 frequency and at
 *     most 8 x 8 ports are also pushed through vnacal_apply_m once (any return
 *     value accepted; asserts / sanitizer reports are what is looked for).
 *
 * Skipped, counted as excluded_huge: files whose YAML declares rows, columns
 * or frequencies above FZ_MAX_DIM, property keys with list indices above
 * FZ_MAX_DIM, or more than FZ_MAX_CELLS error-term values in total.
 */
#define FZ_TARGET	"fz_vnacal_load"
#define FZ_AUX1_NAME	"calibrations_loaded"
#define FZ_AUX2_NAME	"apply_called"
#define FZ_AUX3_NAME	"legacy_version_files"
#define FZ_TEXT_MUTATOR	1
#define FZ_PROPERTY_TREE 1
#include "fz_common.h"
#include <yaml.h>
#include <vnacal.h>
#include <vnadata.h>
#include "archdep.h"
#include "vnacal_internal.h"

/* ------------------------------------------------------------- pre-scan */
typedef struct scan_result {
    bool sr_huge;
    bool sr_has_data;		/* YAML parses and some calibration has >= 1 data entry */
    bool sr_yaml_ok;
    bool sr_unsupported_version;	/* first line: "#VNACal M.m" with M > 1, or "#VNACAL M.m" with M other than 2, 3 */
    char sr_kind_error[120];	/* non-empty: a node the loader must visit has the wrong YAML kind */
} scan_result_t;

/*
 * Independent model of the node kinds of a calibration file (vnacal(3) file
 * format as written by vnacal_save): which nodes a successful load has to
 * read, and what kind (scalar / sequence / mapping) each must be.  Only
 * "wrong kind => must not load" is concluded from it; counts and values are
 * left to the loader.
 */
static const char *scalar_of(yaml_document_t *doc, int id);

typedef enum { CT_NONE, CT_T8, CT_U8, CT_TE10, CT_UE10, CT_T16, CT_U16, CT_UE14, CT_E12 } cal_kind_t;

static cal_kind_t cal_kind_of(const char *name)
{
    static const struct { const char *n; cal_kind_t k; } table[] = {
	{ "T8", CT_T8 }, { "U8", CT_U8 }, { "TE10", CT_TE10 }, { "UE10", CT_UE10 },
	{ "T16", CT_T16 }, { "U16", CT_U16 }, { "UE14", CT_UE14 }, { "E12", CT_E12 },
    };

    for (size_t i = 0; i < sizeof(table) / sizeof(table[0]); ++i)
	if (strcasecmp(name, table[i].n) == 0)
	    return table[i].k;
    return CT_NONE;
}

/* depth 0: scalar; depth 1: sequence of scalars; depth 2: sequence of sequences of scalars; ... */
static bool nested_ok(yaml_document_t *doc, yaml_node_t *n, int depth)
{
    if (n == NULL)
	return false;
    if (depth == 0)
	return n->type == YAML_SCALAR_NODE;
    if (n->type != YAML_SEQUENCE_NODE)
	return false;
    for (yaml_node_item_t *it = n->data.sequence.items.start; it < n->data.sequence.items.top; ++it)
	if (!nested_ok(doc, yaml_document_get_node(doc, *it), depth - 1))
	    return false;
    return true;
}

/* the matrices a load of this type reads, with their nesting depth */
static void check_entry_kinds(yaml_document_t *doc, yaml_node_t *entry, cal_kind_t kind, bool version0, scan_result_t *sr)
{
    static const struct { cal_kind_t kind; const char *keys[5]; int depth[5]; } table[] = {
	{ CT_T8,   { "ts", "ti", "tx", "tm", NULL }, { 1, 1, 1, 1, 0 } },
	{ CT_TE10, { "ts", "ti", "tx", "tm", "el" }, { 1, 1, 1, 1, 2 } },
	{ CT_U8,   { "um", "ui", "ux", "us", NULL }, { 1, 1, 1, 1, 0 } },
	{ CT_UE10, { "um", "ui", "ux", "us", "el" }, { 1, 1, 1, 1, 2 } },
	{ CT_T16,  { "ts", "ti", "tx", "tm", NULL }, { 2, 2, 2, 2, 0 } },
	{ CT_U16,  { "um", "ui", "ux", "us", NULL }, { 2, 2, 2, 2, 0 } },
	{ CT_UE14, { "um", "ui", "ux", "us", "el" }, { 2, 2, 2, 2, 2 } },
	{ CT_E12,  { "el", "er", "em", NULL, NULL }, { 2, 2, 2, 0, 0 } },
    };
    yaml_node_t *last[5] = { NULL, NULL, NULL, NULL, NULL }, *last_e = NULL;
    const char *const *keys = NULL;
    const int *depth = NULL;

    if (entry == NULL || entry->type != YAML_MAPPING_NODE) {
	snprintf(sr->sr_kind_error, sizeof(sr->sr_kind_error), "an entry of a \"data\" sequence is not a mapping");
	return;
    }
    for (size_t i = 0; i < sizeof(table) / sizeof(table[0]); ++i) {
	if (table[i].kind == kind) {
	    keys = table[i].keys;
	    depth = table[i].depth;
	}
    }
    for (yaml_node_pair_t *p = entry->data.mapping.pairs.start; p < entry->data.mapping.pairs.top; ++p) {
	const char *k = scalar_of(doc, p->key);
	yaml_node_t *v = yaml_document_get_node(doc, p->value);

	if (k == NULL)
	    continue;
	if (strcmp(k, "f") == 0 && (v == NULL || v->type != YAML_SCALAR_NODE)) {
	    snprintf(sr->sr_kind_error, sizeof(sr->sr_kind_error), "a frequency \"f\" is not a scalar");
	    return;
	}
	if (strcmp(k, "e") == 0)
	    last_e = v;
	for (int j = 0; keys != NULL && j < 5 && keys[j] != NULL; ++j)
	    if (strcmp(k, keys[j]) == 0)
		last[j] = v;		/* repeated key: the loader keeps the last one */
    }
    if (version0) {
	if (last_e != NULL && !nested_ok(doc, last_e, 3))
	    snprintf(sr->sr_kind_error, sizeof(sr->sr_kind_error), "legacy \"e\" is not a sequence of sequences of 3-term sequences of scalars");
	return;
    }
    for (int j = 0; keys != NULL && j < 5 && keys[j] != NULL; ++j) {
	if (last[j] != NULL && !nested_ok(doc, last[j], depth[j])) {
	    snprintf(sr->sr_kind_error, sizeof(sr->sr_kind_error), "error term \"%s\" does not have the node kinds of a %s", keys[j],
		    depth[j] == 1 ? "vector of scalars" : "matrix of scalars");
	    return;
	}
    }
}

static const char *scalar_of(yaml_document_t *doc, int id)
{
    yaml_node_t *n = yaml_document_get_node(doc, id);

    if (n == NULL || n->type != YAML_SCALAR_NODE)
	return NULL;
    return (const char *)n->data.scalar.value;
}

static void scan_input(const uint8_t *data, size_t size, scan_result_t *sr)
{
    yaml_parser_t parser;
    yaml_document_t doc;
    size_t skip = 0;
    yaml_node_t *root;
    double total = 0.0;
    bool legacy_sets = false;	/* "#VNACAL 2.x" (= version 0.2): E12 only, "e" matrices, calibrations also under "sets" */
#define legacy_v0 legacy_sets

    memset(sr, 0, sizeof(*sr));
    {
	char line[81];
	size_t n = size < 80 ? size : 80;
	int major, minor;

	for (size_t i = 0; i < n; ++i) {	/* what fgets(line, 81) returns */
	    if (data[i] == '\n') {
		n = i + 1;
		break;
	    }
	}
	memcpy(line, data, n);
	line[n] = '\0';
	if (sscanf(line, "#VNACal %d.%d", &major, &minor) == 2) {
	    legacy_sets = major == 0;
	    sr->sr_unsupported_version = major > 1;
	} else if (sscanf(line, "#VNACAL %d.%d", &major, &minor) == 2) {
	    legacy_sets = major == 2;
	    sr->sr_unsupported_version = major != 2 && major != 3;
	}
    }
    /* the loader takes the first line (at most 80 bytes) with fgets */
    while (skip < size && skip < 80 && data[skip] != '\n')
	++skip;
    if (skip < size && skip < 80)
	++skip;
    if (!yaml_parser_initialize(&parser))
	abort();
    yaml_parser_set_input_string(&parser, data + skip, size - skip);
    if (!yaml_parser_load(&parser, &doc)) {
	yaml_parser_delete(&parser);
	return;
    }
    sr->sr_yaml_ok = true;
    /* every mapping anywhere: size keys and property keys */
    for (int id = 1;; ++id) {
	yaml_node_t *n = yaml_document_get_node(&doc, id);

	if (n == NULL)
	    break;
	if (n->type != YAML_MAPPING_NODE)
	    continue;
	for (yaml_node_pair_t *p = n->data.mapping.pairs.start; p < n->data.mapping.pairs.top; ++p) {
	    const char *key = scalar_of(&doc, p->key), *value = scalar_of(&doc, p->value);

	    if (key == NULL)
		continue;
	    if (fz_key_has_huge_index(key))
		sr->sr_huge = true;
	    if (value != NULL && (strcmp(key, "rows") == 0 || strcmp(key, "columns") == 0 || strcmp(key, "frequencies") == 0)
		    && fz_number_exceeds(value, FZ_MAX_DIM))
		sr->sr_huge = true;
	}
    }
    /* the calibrations the loader will visit, with alias multiplicity */
    root = yaml_document_get_root_node(&doc);
    if (root != NULL && root->type == YAML_MAPPING_NODE) {
	for (yaml_node_pair_t *p = root->data.mapping.pairs.start; p < root->data.mapping.pairs.top; ++p) {
	    const char *key = scalar_of(&doc, p->key);
	    yaml_node_t *seq = yaml_document_get_node(&doc, p->value);

	    bool visited;

	    if (key == NULL || (strcmp(key, "calibrations") != 0 && strcmp(key, "sets") != 0))
		continue;
	    if (seq == NULL || seq->type != YAML_SEQUENCE_NODE)
		continue;
	    visited = strcmp(key, "calibrations") == 0 || legacy_sets;
	    for (yaml_node_item_t *it = seq->data.sequence.items.start; it < seq->data.sequence.items.top; ++it) {
		yaml_node_t *cal = yaml_document_get_node(&doc, *it);
		double r = 0, c = 0, f = 0;
		yaml_node_t *last_data = NULL;
		cal_kind_t kind = legacy_v0 ? CT_E12 : CT_NONE;

		if (cal == NULL || cal->type != YAML_MAPPING_NODE)
		    continue;
		for (yaml_node_pair_t *q = cal->data.mapping.pairs.start; q < cal->data.mapping.pairs.top; ++q) {
		    const char *k = scalar_of(&doc, q->key), *v = scalar_of(&doc, q->value);
		    yaml_node_t *vn = yaml_document_get_node(&doc, q->value);

		    if (k == NULL)
			continue;
		    if (v != NULL && strcmp(k, "rows") == 0)
			r = fabs(strtod(v, NULL));
		    if (v != NULL && strcmp(k, "columns") == 0)
			c = fabs(strtod(v, NULL));
		    if (v != NULL && strcmp(k, "frequencies") == 0)
			f = fabs(strtod(v, NULL));
		    if (strcmp(k, "data") == 0 && vn != NULL && vn->type == YAML_SEQUENCE_NODE &&
			    vn->data.sequence.items.top > vn->data.sequence.items.start)
			sr->sr_has_data = true;
		    if (strcmp(k, "data") == 0)
			last_data = vn;		/* a repeated key: the loader keeps the last one */
		    if (v != NULL && strcmp(k, "type") == 0 && !legacy_v0)
			kind = cal_kind_of(v);
		    if (visited && v == NULL && sr->sr_kind_error[0] == '\0' && (strcmp(k, "rows") == 0 || strcmp(k, "columns") == 0 ||
				strcmp(k, "frequencies") == 0 || strcmp(k, "name") == 0 || strcmp(k, "type") == 0 || strcmp(k, "z0") == 0))
			snprintf(sr->sr_kind_error, sizeof(sr->sr_kind_error), "\"%s\" of a calibration is not a scalar", k);
		}
		if (visited && last_data != NULL && sr->sr_kind_error[0] == '\0') {
		    if (last_data->type != YAML_SEQUENCE_NODE) {
			snprintf(sr->sr_kind_error, sizeof(sr->sr_kind_error), "\"data\" is not a sequence");
		    } else {
			for (yaml_node_item_t *e = last_data->data.sequence.items.start;
				e < last_data->data.sequence.items.top && sr->sr_kind_error[0] == '\0'; ++e)
			    check_entry_kinds(&doc, yaml_document_get_node(&doc, *e), kind, legacy_v0, sr);
		    }
		}
		/* T16/U16 have (rows+columns)^2 terms, the others fewer */
		total += (r + c + 1) * (r + c + 1) * (f < 1 ? 1 : f);
	    }
	}
    }
    if (!(total <= (double)FZ_MAX_CELLS))
	sr->sr_huge = true;
    yaml_document_delete(&doc);
    yaml_parser_delete(&parser);
}

/* --------------------------------------------------------- file plumbing */
typedef struct memfile {
    int mf_fd;
    char mf_path[300];
    bool mf_unlink;
} memfile_t;

static void memfile_open(memfile_t *mf, const char *tag)
{
    mf->mf_unlink = false;
    mf->mf_fd = memfd_create(tag, MFD_CLOEXEC);
    if (mf->mf_fd >= 0) {
	snprintf(mf->mf_path, sizeof(mf->mf_path), "/proc/self/fd/%d", mf->mf_fd);
	return;
    }
    snprintf(mf->mf_path, sizeof(mf->mf_path), "%s/fz-%s-%ld.vnacal", fz_tmpdir, tag, (long)getpid());
    mf->mf_fd = open(mf->mf_path, O_CREAT | O_RDWR | O_TRUNC | O_CLOEXEC, 0600);
    if (mf->mf_fd < 0)
	abort();
    mf->mf_unlink = true;
}

static void memfile_put(memfile_t *mf, const uint8_t *data, size_t size)
{
    size_t off = 0;

    while (off < size) {
	ssize_t n = write(mf->mf_fd, data + off, size - off);

	if (n <= 0)
	    abort();
	off += (size_t)n;
    }
}

static void memfile_close(memfile_t *mf)
{
    (void)close(mf->mf_fd);
    if (mf->mf_unlink)
	(void)unlink(mf->mf_path);
}

/* ---------------------------------------------------------- rule table */
/* vnacal_new(3) / vnacal(3): which measurement-matrix shapes each error term type supports */
static bool shape_legal(vnacal_type_t type, int rows, int columns)
{
    if (rows < 1 || columns < 1)
	return false;
    switch (type) {
    case VNACAL_T8: case VNACAL_TE10: case VNACAL_T16:
	return rows <= columns;
    case VNACAL_U8: case VNACAL_UE10: case VNACAL_U16: case VNACAL_UE14: case VNACAL_E12:
	return rows >= columns;
    default:
	return false;	/* VNACAL_NOTYPE, the internal _VNACAL_E12_UE14, garbage */
    }
}

/* --------------------------------------------------- inspect one vnacal_t */
static void dump_properties(const char *who, vnacal_t *vcp, int ci, fz_buf_t *out)
{
    vnaproperty_t *root;

    errno = 0;
    root = vnacal_property_get_subtree(vcp, ci, ".");
    FZ_CHECK(root != NULL || errno == 0 || errno == ENOENT, "C09.property_tree_unreadable",
	    "%s: vnacal_property_get_subtree(%d, \".\") failed: %s", who, ci, strerror(errno));
    fz_prop_dump(who, root, out, 0, NULL);
}

static int check_loaded(const char *who, vnacal_t *vcp, fz_errlog_t *el, bool *any_frequency)
{
    int end = vnacal_get_calibration_end(vcp), count = 0;
    int before = el->el_errors;
    fz_buf_t buf = { 0 };
    volatile double sink = 0.0;

    *any_frequency = false;
    FZ_CHECK(end >= 0, "C09.vnacal_getter_failed", "%s: vnacal_get_calibration_end returned %d", who, end);
    for (int ci = 0; ci < end; ++ci) {
	const char *name = vnacal_get_name(vcp, ci);
	vnacal_type_t type;
	int rows, cols, F;
	const double *fv;
	double complex z0;
	vnacal_calibration_t *calp;

	if (name == NULL)
	    continue;		/* empty slot */
	++count;
	type = vnacal_get_type(vcp, ci);
	rows = vnacal_get_rows(vcp, ci);
	cols = vnacal_get_columns(vcp, ci);
	F = vnacal_get_frequencies(vcp, ci);
	fv = vnacal_get_frequency_vector(vcp, ci);
	z0 = vnacal_get_z0(vcp, ci);
	sink += creal(z0) + cimag(z0);
	FZ_CHECK(shape_legal(type, rows, cols), "C09.vnacal_shape_illegal_for_type",
		"%s: calibration %d '%s': type %d (%s) with %d x %d measurement matrix", who, ci, name, (int)type,
		vnacal_type_to_name(type) ? vnacal_type_to_name(type) : "?", rows, cols);
	FZ_CHECK(F >= 0 && (F == 0 || fv != NULL), "C09.vnacal_getter_failed", "%s: calibration %d: frequencies %d, vector %p",
		who, ci, F, (const void *)fv);
	for (int f = 0; f < F; ++f) {
	    FZ_CHECK(!isnan(fv[f]), "C09.vnacal_frequencies_not_ascending", "%s: calibration %d '%s': frequency %d is NaN",
		    who, ci, name, f);
	    FZ_CHECK(f == 0 || fv[f] > fv[f - 1], "C09.vnacal_frequencies_not_ascending",
		    "%s: calibration %d '%s': f[%d] = %a after f[%d] = %a", who, ci, name, f, fv[f], f - 1, fv[f - 1]);
	}
	if (F >= 1) {
	    *any_frequency = true;
	    FZ_CHECK(fz_same_double(vnacal_get_fmin(vcp, ci), fv[0]) && fz_same_double(vnacal_get_fmax(vcp, ci), fv[F - 1]),
		    "C09.vnacal_getter_failed", "%s: calibration %d: fmin/fmax differ from the ends of the frequency vector", who, ci);
	}
	calp = _vnacal_get_calibration(vcp, ci);
	FZ_CHECK(calp != NULL && calp->cal_error_terms >= 1 && calp->cal_error_term_vector != NULL, "C09.vnacal_terms_unreadable",
		"%s: calibration %d has no error term vector", who, ci);
	for (int t = 0; t < calp->cal_error_terms; ++t) {
	    FZ_CHECK(F == 0 || calp->cal_error_term_vector[t] != NULL, "C09.vnacal_terms_unreadable",
		    "%s: calibration %d term %d has no vector", who, ci, t);
	    for (int f = 0; f < F; ++f)
		sink += creal(calp->cal_error_term_vector[t][f]) + cimag(calp->cal_error_term_vector[t][f]);
	}
	buf.b_len = 0;
	dump_properties(who, vcp, ci, &buf);
    }
    buf.b_len = 0;
    dump_properties(who, vcp, -1, &buf);
    fz_buf_free(&buf);
    (void)sink;
    FZ_CHECK(el->el_errors == before, "C09.vnacal_getter_failed", "%s: a getter reported an error: %s", who, el->el_last);
    return count;
}

static void compare_loaded(vnacal_t *a, vnacal_t *b)
{
    const char *what = "loaded vs saved-and-reloaded";
    int end = vnacal_get_calibration_end(a), endb = vnacal_get_calibration_end(b);
    fz_buf_t pa = { 0 }, pb = { 0 };
    int cb = 0;

    /* saving compacts empty slots (there are none after a load, but be exact about it) */
    for (int ci = 0; ci < end; ++ci) {
	const char *name = vnacal_get_name(a, ci);
	vnacal_calibration_t *x, *y;
	int F;

	if (name == NULL)
	    continue;
	while (cb < endb && vnacal_get_name(b, cb) == NULL)
	    ++cb;
	FZ_CHECK(cb < endb, "C09.vnacal_mismatch_count", "%s: calibration %d '%s' is missing after the reload", what, ci, name);
	FZ_CHECK(strcmp(name, vnacal_get_name(b, cb)) == 0, "C09.vnacal_mismatch_name", "%s: calibration %d is '%s', reloaded '%s'",
		what, ci, name, vnacal_get_name(b, cb));
	FZ_CHECK(vnacal_get_type(a, ci) == vnacal_get_type(b, cb) && vnacal_get_rows(a, ci) == vnacal_get_rows(b, cb) &&
		vnacal_get_columns(a, ci) == vnacal_get_columns(b, cb) && vnacal_get_frequencies(a, ci) == vnacal_get_frequencies(b, cb),
		"C09.vnacal_mismatch_dims", "%s: calibration '%s': %s %d x %d x %d vs %s %d x %d x %d", what, name,
		vnacal_type_to_name(vnacal_get_type(a, ci)), vnacal_get_rows(a, ci), vnacal_get_columns(a, ci), vnacal_get_frequencies(a, ci),
		vnacal_type_to_name(vnacal_get_type(b, cb)), vnacal_get_rows(b, cb), vnacal_get_columns(b, cb), vnacal_get_frequencies(b, cb));
	F = vnacal_get_frequencies(a, ci);
	for (int f = 0; f < F; ++f) {
	    FZ_CHECK(fz_same_double(vnacal_get_frequency_vector(a, ci)[f], vnacal_get_frequency_vector(b, cb)[f]),
		    "C09.vnacal_mismatch_frequency", "%s: calibration '%s' f[%d]: %a vs %a", what, name, f,
		    vnacal_get_frequency_vector(a, ci)[f], vnacal_get_frequency_vector(b, cb)[f]);
	}
	FZ_CHECK(fz_same_complex(vnacal_get_z0(a, ci), vnacal_get_z0(b, cb)), "C09.vnacal_mismatch_z0",
		"%s: calibration '%s' z0: %a%+aj vs %a%+aj", what, name, creal(vnacal_get_z0(a, ci)), cimag(vnacal_get_z0(a, ci)),
		creal(vnacal_get_z0(b, cb)), cimag(vnacal_get_z0(b, cb)));
	x = _vnacal_get_calibration(a, ci);
	y = _vnacal_get_calibration(b, cb);
	FZ_CHECK(x->cal_error_terms == y->cal_error_terms, "C09.vnacal_mismatch_dims", "%s: calibration '%s': %d vs %d error terms",
		what, name, x->cal_error_terms, y->cal_error_terms);
	for (int t = 0; t < x->cal_error_terms; ++t) {
	    for (int f = 0; f < F; ++f) {
		double complex u = x->cal_error_term_vector[t][f], v = y->cal_error_term_vector[t][f];

		FZ_CHECK(fz_same_complex(u, v), "C09.vnacal_mismatch_term", "%s: calibration '%s' term %d at frequency %d: %a%+aj vs %a%+aj",
			what, name, t, f, creal(u), cimag(u), creal(v), cimag(v));
	    }
	}
	pa.b_len = pb.b_len = 0;
	dump_properties("loaded", a, ci, &pa);
	dump_properties("reloaded", b, cb, &pb);
	FZ_CHECK(pa.b_len == pb.b_len && memcmp(pa.b_data, pb.b_data, pa.b_len) == 0, "C09.vnacal_mismatch_properties",
		"%s: calibration '%s' properties: %.150s vs %.150s", what, name, pa.b_data, pb.b_data);
	++cb;
    }
    while (cb < endb && vnacal_get_name(b, cb) == NULL)
	++cb;
    FZ_CHECK(cb == endb, "C09.vnacal_mismatch_count", "%s: the reloaded file has extra calibration '%s'", what, vnacal_get_name(b, cb));
    pa.b_len = pb.b_len = 0;
    dump_properties("loaded", a, -1, &pa);
    dump_properties("reloaded", b, -1, &pb);
    FZ_CHECK(pa.b_len == pb.b_len && memcmp(pa.b_data, pb.b_data, pa.b_len) == 0, "C09.vnacal_mismatch_properties",
	    "%s: global properties: %.150s vs %.150s", what, pa.b_data, pb.b_data);
    fz_buf_free(&pa);
    fz_buf_free(&pb);
}

/* one apply per small calibration: looks for asserts / memory errors, accepts any result */
static void apply_smoke(vnacal_t *vcp, fz_errlog_t *el)
{
    int end = vnacal_get_calibration_end(vcp);
    fz_errlog_t saved = *el;

    for (int ci = 0; ci < end; ++ci) {
	int rows, cols, F;
	vnadata_t *out;
	fz_errlog_t oel;

	if (vnacal_get_name(vcp, ci) == NULL)
	    continue;
	rows = vnacal_get_rows(vcp, ci);
	cols = vnacal_get_columns(vcp, ci);
	F = vnacal_get_frequencies(vcp, ci);
	if (F < 1 || F > 64 || rows > 8 || cols > 8)
	    continue;
	fz_errlog_reset(&oel);
	if ((out = vnadata_alloc(fz_errfn, &oel)) == NULL)
	    abort();
	{
	    double complex cells[rows * cols][F];
	    double complex *m[rows * cols];

	    for (int k = 0; k < rows * cols; ++k) {
		m[k] = cells[k];
		for (int f = 0; f < F; ++f)
		    cells[k][f] = (k / cols == k % cols ? 0.25 : 0.5) + 0.125 * (k + 1) * I - 0.01 * f;
	    }
	    (void)vnacal_apply_m(vcp, ci, vnacal_get_frequency_vector(vcp, ci), F, m, rows, cols, out);
	    fz_count(FZC_AUX2);
	}
	vnadata_free(out);
    }
    *el = saved;	/* EDOM etc. from apply are not load errors */
}

int LLVMFuzzerTestOneInput(const uint8_t *data, size_t size)
{
    scan_result_t sr;
    memfile_t in, out;
    fz_errlog_t el, el2;
    vnacal_t *vcp, *vcp2;
    bool any_frequency = false;
    int err, count;

    fz_begin_exec();
    scan_input(data, size, &sr);
    if (sr.sr_huge) {
	fz_count(FZC_EXCLUDED_HUGE);
	FZ_CLASS("excluded_huge");
	return 0;
    }
    memfile_open(&in, "in");
    memfile_put(&in, data, size);
    fz_errlog_reset(&el);
    errno = 0;
    vcp = vnacal_load(in.mf_path, fz_errfn, &el);
    err = errno;
    memfile_close(&in);
    if (vcp == NULL) {
	fz_check_failure("vnacal_load", err, &el);
	if (sr.sr_unsupported_version && err != ENOMEM) {
	    FZ_CHECK(err == ENOPROTOOPT && el.el_last_category == VNAERR_VERSION, "C09.unsupported_version_not_reported_as_version",
		    "the first line declares an unsupported version but the failure is category %d, errno %d (%s): %s",
		    el.el_last_category, err, strerror(err), el.el_last);
	}
	if (sr.sr_has_data) {
	    fz_count(FZC_FAILED_DATA);
	    fz_count(FZC_NONTRIVIAL);
	    FZ_CLASS("failed_after_data");
	} else {
	    fz_count(FZC_FAILED_HEADER);
	    FZ_CLASS("failed_in_header");
	}
	return 0;
    }
    fz_check_success("vnacal_load", &el);
    FZ_CHECK(!sr.sr_unsupported_version, "C09.unsupported_version_accepted", "the first line declares an unsupported version but the file was loaded");
    /* independent node-kind model: a file with a node of the wrong YAML kind where the loader has to read must not load */
    FZ_CHECK(sr.sr_kind_error[0] == '\0', "C09.vnacal_wrong_node_kind_accepted", "vnacal_load accepted a file in which %s", sr.sr_kind_error);
    fz_count(FZC_LOADED_OK);
    if (size >= 7 && memcmp(data, "#VNACAL", 7) == 0)
	fz_count(FZC_AUX3);
    count = check_loaded("loaded", vcp, &el, &any_frequency);
    fz_counters[FZC_AUX1] += (unsigned long)count;
    if (count == 0 || !any_frequency) {
	fz_count(FZC_EMPTY_OBJECT);
	FZ_CLASS("loaded_empty_object");
    } else {
	fz_count(FZC_NONTRIVIAL);
	FZ_CLASS("loaded_ok");
    }
    if (any_frequency) {
	int rc;

	FZ_CHECK(vnacal_set_fprecision(vcp, VNACAL_MAX_PRECISION) == 0 && vnacal_set_dprecision(vcp, VNACAL_MAX_PRECISION) == 0 &&
		el.el_errors == 0, "C09.vnacal_not_savable", "setting the precisions failed: %s", el.el_last);
	memfile_open(&out, "out");
	errno = 0;
	rc = vnacal_save(vcp, out.mf_path);
	err = errno;
	if (rc != 0 && err != ENOMEM && err != ENOSPC) {
	    fz_violation("C09.vnacal_not_savable", "vnacal_save of the loaded file failed (errno %d %s): %s", err, strerror(err), el.el_last);
	}
	if (rc == 0) {
	    FZ_CHECK(el.el_errors == 0, "C09.success_with_error_callback", "vnacal_save succeeded but reported: %s", el.el_last);
	    fz_errlog_reset(&el2);
	    errno = 0;
	    vcp2 = vnacal_load(out.mf_path, fz_errfn, &el2);
	    err = errno;
	    if (vcp2 == NULL && err != ENOMEM) {
		if (fz_verbose) {
		    char chunk[4096];
		    ssize_t n;

		    (void)lseek(out.mf_fd, 0, SEEK_SET);
		    while ((n = read(out.mf_fd, chunk, sizeof(chunk))) > 0)
			(void)!write(2, chunk, (size_t)n);
		}
		fz_violation("C09.vnacal_resaved_not_loadable", "the file written by vnacal_save does not load (errno %d %s): %s",
			err, strerror(err), el2.el_last);
	    }
	    if (vcp2 != NULL) {
		bool dummy;

		fz_check_success("vnacal_load of the re-saved file", &el2);
		(void)check_loaded("reloaded", vcp2, &el2, &dummy);
		compare_loaded(vcp, vcp2);
		fz_count(FZC_RESAVED);
		vnacal_free(vcp2);
	    }
	}
	memfile_close(&out);
	apply_smoke(vcp, &el);
    }
    vnacal_free(vcp);
    return 0;
}

/* ---------------------------------------------------------------- mutator */
#ifndef FZ_STANDALONE
static const char *const keywords[] = {
    "#VNACal 1.0\n", "#VNACal 1.1\n", "#VNACal 2.0\n", "#VNACAL 2.0\n", "#VNACAL 3.0\n", "#VNACAL 4.0\n", "#VNACal -1.0\n",
    "---\n", "...\n", "properties:", "calibrations:", "sets:", "- name: x\n", "name:", "type: T8\n", "type: U8\n", "type: TE10\n",
    "type: UE10\n", "type: T16\n", "type: U16\n", "type: UE14\n", "type: E12\n", "type: E12_UE14\n", "rows: 1\n", "rows: 2\n", "rows: 0\n",
    "rows: 3\n", "columns: 1\n", "columns: 2\n", "columns: 0\n", "columns: 3\n", "frequencies: 1\n", "frequencies: 0\n", "frequencies: 2\n",
    "z0:", "z0: 50+0j\n", "data:", "data: []\n", "- f: 1e9\n", "f:", "f: nan\n", "f: -1\n", "e:", "el:", "er:", "em:", "ts:", "ti:", "tx:", "tm:",
    "um:", "ui:", "ux:", "us:", "~", "null", "[~, 1]", "[[~, 0], [0, ~]]", "[1, 0]", "[[1, 0], [0, 1]]", "[[[1,0,0]]]", "{}", "[]", "&a", "*a",
    "+1 +0j", "1.5 -2.5j", "j", "-j", "1 +j", "0x1p+0 -0x1p-1j", "nan nanj", "inf", "!!str", "? [a]\n: b\n", "a[3]: x\n", "a.b: 1\n",
};

size_t LLVMFuzzerCustomMutator(uint8_t *data, size_t size, size_t max_size, unsigned int seed)
{
    return fz_text_mutate(data, size, max_size, seed, 0, keywords, sizeof(keywords) / sizeof(keywords[0]));
}
#endif /* FZ_STANDALONE */
