/*
 * fz_yaml.c -- C09 libFuzzer target for vnaproperty_import_yaml_from_string and
 * vnaproperty_import_yaml_from_file with a semantic oracle (DESIGN.md section 3,
 * C09).  The input bytes are the YAML text.
 *
 * Oracle, per input:
 *   - the text is imported twice: from a NUL-terminated string into a NULL
 *     root (A) and from a FILE into a root that already holds a tree (B).
 *     vnaproperty(3): both build the tree of the document "replacing any
 *     existing content", so (for inputs without a NUL byte, which a C string
 *     cannot carry) both must agree in return value and in the resulting tree.
 *   - failure: -1, errno per vnaerr(3) (EBADMSG for YAML syntax, or a system
 *     errno reported in category SYSTEM), >= 1 non-warning callback; the root
 *     is still a tree that can be read and freed.
 *   - success: no non-warning callback (the "non-scalar key ignored" warning is
 *     documented); every node readable through type / count / keys / get /
 *     get_subtree; the tree is exported with vnaproperty_export_yaml_to_file and
 *     the text imported again: the two trees must be equal.
 *
 * Skipped, counted as excluded_huge: documents with a map key that asks for a
 * list index above FZ_MAX_DIM (a 4 KiB text can otherwise request gigabytes).
 */
#define FZ_TARGET	"fz_yaml"
#define FZ_AUX1_NAME	"tree_nodes_total"
#define FZ_AUX2_NAME	"string_file_compared"
#define FZ_AUX3_NAME	"inputs_with_nul"
#define FZ_TEXT_MUTATOR	1
#define FZ_PROPERTY_TREE 1
#include "fz_common.h"
#include <yaml.h>

/* returns true if the YAML is well formed; *huge when a key asks for a huge list index */
static bool scan_input(const uint8_t *data, size_t size, bool *huge)
{
    yaml_parser_t parser;
    yaml_document_t doc;

    *huge = false;
    if (!yaml_parser_initialize(&parser))
	abort();
    yaml_parser_set_input_string(&parser, data, size);
    if (!yaml_parser_load(&parser, &doc)) {
	yaml_parser_delete(&parser);
	return false;
    }
    for (int id = 1;; ++id) {
	yaml_node_t *n = yaml_document_get_node(&doc, id);

	if (n == NULL)
	    break;
	if (n->type != YAML_MAPPING_NODE)
	    continue;
	for (yaml_node_pair_t *p = n->data.mapping.pairs.start; p < n->data.mapping.pairs.top; ++p) {
	    yaml_node_t *k = yaml_document_get_node(&doc, p->key);

	    if (k != NULL && k->type == YAML_SCALAR_NODE && fz_key_has_huge_index((const char *)k->data.scalar.value))
		*huge = true;
	}
    }
    yaml_document_delete(&doc);
    yaml_parser_delete(&parser);
    return true;
}

static void free_tree(const char *who, vnaproperty_t **rootptr)
{
    int rc = vnaproperty_delete(rootptr, ".");

    FZ_CHECK(rc == 0 && *rootptr == NULL, "C09.yaml_root_not_freeable", "%s: vnaproperty_delete(\".\") returned %d (%s), root %p", who, rc,
	    strerror(errno), (void *)*rootptr);
}

int LLVMFuzzerTestOneInput(const uint8_t *data, size_t size)
{
    static char empty[1];
    fz_errlog_t ela, elb, elc;
    vnaproperty_t *roota = NULL, *rootb = NULL, *rootc = NULL;
    fz_buf_t da = { 0 }, db = { 0 }, dc = { 0 };
    bool huge, wellformed, has_nul;
    unsigned long nodes = 0;
    char *text;
    FILE *fp;
    int rca, rcb, erra, errb;

    fz_begin_exec();
    /* the string variant stops at the first NUL: scan what it sees, and the whole text */
    has_nul = memchr(data, 0, size) != NULL;
    wellformed = scan_input(data, size, &huge);
    if (!huge && has_nul) {
	bool huge2;

	(void)scan_input(data, strnlen((const char *)data, size), &huge2);
	huge = huge2;
    }
    if (huge) {
	fz_count(FZC_EXCLUDED_HUGE);
	FZ_CLASS("excluded_huge");
	return 0;
    }
    if (has_nul)
	fz_count(FZC_AUX3);
    if ((text = malloc(size + 1)) == NULL)
	abort();
    memcpy(text, data, size);
    text[size] = '\0';

    /* A: from string into a NULL root */
    fz_errlog_reset(&ela);
    errno = 0;
    rca = vnaproperty_import_yaml_from_string(&roota, text, fz_errfn, &ela);
    erra = errno;

    /* B: from file into a root with previous content */
    if (vnaproperty_set(&rootb, "old.key=value") != 0 || vnaproperty_set(&rootb, "old.list[1]=x") != 0 || vnaproperty_set(&rootb, "zz=1") != 0)
	abort();
    fp = fmemopen(size ? (void *)data : (void *)empty, size ? size : 1, "r");
    if (fp == NULL)
	abort();
    if (size == 0)
	(void)fseek(fp, 0, SEEK_END);
    fz_errlog_reset(&elb);
    errno = 0;
    rcb = vnaproperty_import_yaml_from_file(&rootb, fp, "fz.yaml", fz_errfn, &elb);
    errb = errno;
    (void)fclose(fp);

    FZ_CHECK((rca == 0 || rca == -1) && (rcb == 0 || rcb == -1), "C09.return_value", "import returned %d / %d", rca, rcb);
    if (!has_nul && rca != rcb && erra != ENOMEM && errb != ENOMEM) {
	fz_violation("C09.yaml_string_file_disagree", "from_string returned %d (%s) but from_file %d (%s) on the same text",
		rca, rca ? ela.el_last : "ok", rcb, rcb ? elb.el_last : "ok");
    }
    if (rca == -1)
	fz_check_failure("vnaproperty_import_yaml_from_string", erra, &ela);
    else
	fz_check_success("vnaproperty_import_yaml_from_string", &ela);
    if (rcb == -1)
	fz_check_failure("vnaproperty_import_yaml_from_file", errb, &elb);
    else
	fz_check_success("vnaproperty_import_yaml_from_file", &elb);

    /* whatever happened, both roots are trees that can be read */
    fz_prop_dump("tree from string", roota, &da, 0, &nodes);
    fz_prop_dump("tree from file", rootb, &db, 0, NULL);

    if (rca == -1) {
	if (wellformed && !has_nul) {
	    fz_count(FZC_FAILED_DATA);
	    fz_count(FZC_NONTRIVIAL);
	    FZ_CLASS("failed_after_data");
	} else {
	    fz_count(FZC_FAILED_HEADER);
	    FZ_CLASS("failed_in_header");
	}
    } else {
	char *out = NULL;
	size_t outlen = 0;
	int rc;

	fz_count(FZC_LOADED_OK);
	fz_counters[FZC_AUX1] += nodes;
	if (nodes >= 2) {
	    fz_count(FZC_NONTRIVIAL);
	    FZ_CLASS("loaded_ok");
	} else {
	    fz_count(FZC_EMPTY_OBJECT);
	    FZ_CLASS("loaded_empty_object");
	}
	if (!has_nul && rcb == 0) {
	    FZ_CHECK(da.b_len == db.b_len && memcmp(da.b_data, db.b_data, da.b_len) == 0, "C09.yaml_string_file_disagree",
		    "tree from string %.150s, tree from file (root had previous content) %.150s", da.b_data, db.b_data);
	    fz_count(FZC_AUX2);
	}
	/* export and import again */
	fp = open_memstream(&out, &outlen);
	if (fp == NULL)
	    abort();
	fz_errlog_reset(&elc);
	errno = 0;
	rc = vnaproperty_export_yaml_to_file(roota, fp, "fz-out.yaml", fz_errfn, &elc);
	if (fclose(fp) != 0)
	    abort();
	if (rc != 0 && errno != ENOMEM)
	    fz_violation("C09.yaml_not_exportable", "export of the imported tree failed: %s (tree %.150s)", elc.el_last, da.b_data);
	if (rc == 0) {
	    FZ_CHECK(elc.el_errors == 0, "C09.success_with_error_callback", "export succeeded but reported: %s", elc.el_last);
	    FZ_CHECK(memchr(out, 0, outlen) == NULL, "C09.yaml_export_has_nul", "exported text contains a NUL byte");
	    if (fz_verbose)
		fprintf(stderr, "C09-RESAVED yaml (%zu bytes):\n%s\n", outlen, out);
	    fz_errlog_reset(&elc);
	    errno = 0;
	    rc = vnaproperty_import_yaml_from_string(&rootc, out, fz_errfn, &elc);
	    if (rc != 0 && errno != ENOMEM)
		fz_violation("C09.yaml_reexport_not_importable", "the exported text does not import: %s (tree %.150s)", elc.el_last, da.b_data);
	    if (rc == 0) {
		fz_check_success("import of the exported text", &elc);
		fz_prop_dump("tree from exported text", rootc, &dc, 0, NULL);
		FZ_CHECK(da.b_len == dc.b_len && memcmp(da.b_data, dc.b_data, da.b_len) == 0, "C09.yaml_roundtrip_mismatch",
			"imported %.200s but export + import gives %.200s", da.b_data, dc.b_data);
		fz_count(FZC_RESAVED);
	    }
	}
	free(out);
    }
    free_tree("tree from string", &roota);
    free_tree("tree from file", &rootb);
    free_tree("tree from exported text", &rootc);
    fz_buf_free(&da);
    fz_buf_free(&db);
    fz_buf_free(&dc);
    free(text);
    return 0;
}

/* ---------------------------------------------------------------- mutator */
#ifndef FZ_STANDALONE
static const char *const keywords[] = {
    "---\n", "...\n", "%YAML 1.1\n", "~", "null", "Null", "NULL", "\"~\"", "''", "\"\"", "{}", "[]", "[~]", "{a: ~}", "- ", "? ", ": ", "&a ", "*a",
    "!!str ", "!!null ", "!!map ", "!!seq ", "|\n", ">\n", "|-\n", "a.b: 1\n", "a[2]: x\n", "a[+]: y\n", "\"a\\\\.b\": z\n", "k=v: w\n", "x#: 1\n",
    "\" lead\": 1\n", "\"trail \": 2\n", "\"\\u2028\": 3\n", "\"\\x85\": 4\n", "\"\\0\": 5\n", "[a, [b, {c: d}]]", "{a: [1, 2], b: {c: ~}}", "? [1]\n: 2\n",
    "\"\": empty\n", "\\", "#", "# comment\n", "\t", "  ", "\n", ",", "'", "\"",
    "<<: *a\n", "<<: [*a, *a]\n", "!!binary |\n  R0lGODlh\n", "!!set {a, b}\n", "!!omap [a: 1]\n", "{a, b: c}", "- - - x\n", "&a\n", "*a : v\n", "&a &b x\n",
    "%TAG ! tag:x,2000:\n", "!<tag:yaml.org,2002:str> v\n", "&a [*a]", "&a {k: *a}", "k: &a\n  - *a\n",
};

size_t LLVMFuzzerCustomMutator(uint8_t *data, size_t size, size_t max_size, unsigned int seed)
{
    return fz_text_mutate(data, size, max_size, seed, 0, keywords, sizeof(keywords) / sizeof(keywords[0]));
}
#endif /* FZ_STANDALONE */
