// calfile.hpp -- the harness' OWN reader and writer of .vnacal calibration files.
//
// Reader: yaml-cpp (a different YAML implementation from the libyaml that libvna uses) + strtod.
// It returns names, order, type, dimensions, frequencies, z0, the property trees and every
// error-term block exactly as written (`ts ti tx tm [el]`, `um ui ux us [el]`, `el er em`, legacy `e`),
// together with facts about the *text* of every number (significant digits, hex notation), which
// is how the checks see the precision the saver really used.
// Writer: emits the current format ("#VNACal 1.0") and the two legacy versions ("#VNACAL 3.x" =
// same layout, "#VNACAL 2.x" = E12 only, `sets:` list, per-frequency `e` matrix of [el, er, em] cells)
// for ANY type x dimensions x frequencies x z0 x property trees; nothing in it calls libvna.
//
// Shapes of the blocks (r = rows, c = columns, p = max(r, c)), from vnacal_layout.h and from what
// vnacal_save writes:
//   T8   ts[r] ti[r] tx[c] tm[c]                       (r <= c)      TE10: + el r x c, '~' on the diagonal
//   U8   um[r] ui[c] ux[r] us[c]                       (r >= c)      UE10: + el r x c, '~' on the diagonal
//   T16  ts r x p, ti r x p, tx c x p, tm c x p        (p = c)
//   U16  um p x r, ui p x c, ux p x r, us p x c        (p = r)
//   UE14 um r x c, ui 1 x c, ux r x c, us 1 x c (one column per driving port), el r x c with '~' diagonal
//   E12  el r x c, er r x c, em r x c (one column per driving port)
//   legacy 2.x (E12): e = r x c cells, each [el, er, em]
#pragma once
#include <yaml-cpp/yaml.h>
#include <complex>
#include <string>
#include <vector>
#include <cstdio>
#include <cstdlib>
#include <cstring>
#include <cmath>
#include "docmodel.hpp"

namespace calfile {

typedef std::complex<double> C;
enum Kind { VEC, MAT, MAT_NODIAG, CELL3 };

struct Shape {
    const char *name; int rows, cols; Kind kind;
    int count() const {
        switch (kind) {
        case VEC: return cols;
        case MAT: return rows * cols;
        case MAT_NODIAG: return rows * cols - (rows < cols ? rows : cols);
        default: return rows * cols * 3;
        }
    }
};

static inline bool type_is_t(const std::string &t) { return t == "T8" || t == "TE10" || t == "T16"; }
static inline const std::vector<std::string> &type_names() {
    static const std::vector<std::string> v = {"T8", "U8", "TE10", "UE10", "T16", "U16", "UE14", "E12"};
    return v;
}
// may this type have these dimensions (vnacal_new(3): T needs r <= c, U and E12 need r >= c)
static inline bool dims_ok(const std::string &t, int r, int c) { return r >= 1 && c >= 1 && (type_is_t(t) ? r <= c : r >= c); }

static inline std::vector<Shape> shapes(const std::string &t, int r, int c, bool legacy2 = false) {
    int p = r > c ? r : c;
    std::vector<Shape> s;
    if (legacy2) { s.push_back({"e", r, c, CELL3}); return s; }
    if (t == "T8" || t == "TE10") {
        s.push_back({"ts", 1, r, VEC}); s.push_back({"ti", 1, r, VEC}); s.push_back({"tx", 1, c, VEC}); s.push_back({"tm", 1, c, VEC});
        if (t == "TE10") s.push_back({"el", r, c, MAT_NODIAG});
    } else if (t == "U8" || t == "UE10") {
        s.push_back({"um", 1, r, VEC}); s.push_back({"ui", 1, c, VEC}); s.push_back({"ux", 1, r, VEC}); s.push_back({"us", 1, c, VEC});
        if (t == "UE10") s.push_back({"el", r, c, MAT_NODIAG});
    } else if (t == "T16") {
        s.push_back({"ts", r, p, MAT}); s.push_back({"ti", r, p, MAT}); s.push_back({"tx", c, p, MAT}); s.push_back({"tm", c, p, MAT});
    } else if (t == "U16") {
        s.push_back({"um", p, r, MAT}); s.push_back({"ui", p, c, MAT}); s.push_back({"ux", p, r, MAT}); s.push_back({"us", p, c, MAT});
    } else if (t == "UE14") {
        s.push_back({"um", r, c, MAT}); s.push_back({"ui", 1, c, MAT}); s.push_back({"ux", r, c, MAT}); s.push_back({"us", 1, c, MAT});
        s.push_back({"el", r, c, MAT_NODIAG});
    } else if (t == "E12") {
        s.push_back({"el", r, c, MAT}); s.push_back({"er", r, c, MAT}); s.push_back({"em", r, c, MAT});
    }
    return s;
}

// facts about how one real number was written
struct NumText {
    int digits = 0;       // significant decimal digits of the mantissa (0 for hex / inf / nan)
    bool hex = false;     // C99 hexadecimal floating point
};
struct Block {
    std::string name; int rows = 0, cols = 0; Kind kind = VEC;
    std::vector<C> v;                       // entries in file order (row major; '~' cells skipped)
    std::vector<NumText> re_txt, im_txt;    // filled by the reader
};
struct Freq { double f = 0; NumText ftxt; std::vector<Block> blocks; };
struct Cal {
    std::string name, type; int rows = 0, cols = 0, F = 0;
    C z0 = C(50, 0); NumText z0re, z0im;
    bool has_props = false; doc::NodeP props;
    bool legacy2 = false;                   // blocks are the legacy `e` matrix
    std::vector<Freq> data;
};
struct File {
    std::string version_line = "#VNACal 1.0";
    bool has_props = false; doc::NodeP props;
    std::string list_key = "calibrations";  // "sets" in legacy 2.x files
    std::vector<Cal> cals;
};

// ------------------------------------------------------------------ reader --
static inline bool parse_real(const std::string &s0, double &out, NumText &nt, std::string &err) {
    size_t a = 0, b = s0.size();
    while (a < b && (s0[a] == ' ' || s0[a] == '\t' || s0[a] == '\n')) a++;
    while (b > a && (s0[b - 1] == ' ' || s0[b - 1] == '\t' || s0[b - 1] == '\n')) b--;
    std::string s = s0.substr(a, b - a);
    if (s.empty()) { err = "empty number"; return false; }
    char *end = nullptr;
    out = strtod(s.c_str(), &end);
    if (end == s.c_str() || *end != '\0') { err = "not a number: '" + s + "'"; return false; }
    nt = NumText();
    size_t i = 0;
    if (s[i] == '+' || s[i] == '-') i++;
    if (s.compare(i, 2, "0x") == 0 || s.compare(i, 2, "0X") == 0) { nt.hex = true; return true; }
    for (; i < s.size() && s[i] != 'e' && s[i] != 'E'; i++) if (s[i] >= '0' && s[i] <= '9') nt.digits++;
    return true;
}
// "<re> <im>j" (what vnacal_save writes); a lone real is accepted too
static inline bool parse_complex(const std::string &s0, C &out, NumText &re, NumText &im, std::string &err) {
    std::string s = s0;
    while (!s.empty() && (s.back() == ' ' || s.back() == '\n' || s.back() == '\t')) s.pop_back();
    size_t a = 0; while (a < s.size() && (s[a] == ' ' || s[a] == '\t')) a++;
    s = s.substr(a);
    if (s.empty()) { err = "empty complex number"; return false; }
    char last = s.back();
    if (last == 'j' || last == 'i' || last == 'J' || last == 'I') {
        s.pop_back();
        size_t sp = s.find_first_of(" \t");
        if (sp == std::string::npos) { err = "complex number without a real part: '" + s0 + "'"; return false; }
        double r, i;
        if (!parse_real(s.substr(0, sp), r, re, err) || !parse_real(s.substr(sp + 1), i, im, err)) return false;
        out = C(r, i);
        return true;
    }
    double r;
    if (!parse_real(s, r, re, err)) return false;
    im = NumText(); out = C(r, 0);
    return true;
}

// yaml-cpp 0.7 decodes the double-quoted escapes \N (U+0085) and \_ (U+00A0), which libyaml's
// emitter uses, to the single Latin-1 bytes 0x85 / 0xA0 instead of UTF-8: put the UTF-8 form back
static inline std::string scalar_of(const YAML::Node &n) {
    const std::string &s = n.Scalar();
    std::string o; size_t i = 0;
    while (i < s.size()) {
        unsigned char ch = (unsigned char)s[i];
        size_t len = ch < 0x80 ? 1 : (ch & 0xE0) == 0xC0 ? 2 : (ch & 0xF0) == 0xE0 ? 3 : (ch & 0xF8) == 0xF0 ? 4 : 0;
        bool ok = len > 0 && i + len <= s.size();
        for (size_t k = 1; ok && k < len; k++) if (((unsigned char)s[i + k] & 0xC0) != 0x80) ok = false;
        if (ok) { o.append(s, i, len); i += len; continue; }
        if (ch == 0x85 || ch == 0xA0) o += '\xC2';
        o += (char)ch; i++;
    }
    return o;
}
// remove the descriptor quoting vnaproperty puts on map keys in the file (backslash quotes the next byte)
static inline std::string unquote_key(const std::string &k) {
    std::string o;
    for (size_t i = 0; i < k.size(); i++) { if (k[i] == '\\' && i + 1 < k.size()) i++; o += k[i]; }
    return o;
}
static inline doc::NodeP yaml_to_doc(const YAML::Node &n, std::string &err, int depth = 0) {
    using namespace doc;
    if (depth > 70) { err = "property tree too deep"; return nullptr; }
    if (!n.IsDefined() || n.IsNull()) return nullptr;
    if (n.IsScalar()) return Node::scalar(scalar_of(n));
    if (n.IsMap()) {
        NodeP m = Node::mk(Node::MAP);
        for (auto it = n.begin(); it != n.end(); ++it) {
            if (!it->first.IsScalar()) { err = "non-scalar property key"; return nullptr; }
            m->map.push_back({unquote_key(scalar_of(it->first)), yaml_to_doc(it->second, err, depth + 1)});
            if (!err.empty()) return nullptr;
        }
        return m;
    }
    if (n.IsSequence()) {
        NodeP l = Node::mk(Node::LIST);
        for (size_t i = 0; i < n.size(); i++) { l->list.push_back(yaml_to_doc(n[i], err, depth + 1)); if (!err.empty()) return nullptr; }
        return l;
    }
    err = "unexpected YAML node kind in properties";
    return nullptr;
}

static inline bool read_int(const YAML::Node &n, const char *what, int &out, std::string &err) {
    if (!n.IsDefined() || !n.IsScalar()) { err = std::string("missing or non-scalar '") + what + "'"; return false; }
    const std::string &s = n.Scalar();
    char *end = nullptr; long v = strtol(s.c_str(), &end, 10);
    if (end == s.c_str() || *end != '\0') { err = std::string("'") + what + "' is not an integer: '" + s + "'"; return false; }
    out = (int)v; return true;
}
static inline bool read_block(const YAML::Node &n, const Shape &sh, Block &b, std::string &err) {
    b.name = sh.name; b.rows = sh.rows; b.cols = sh.cols; b.kind = sh.kind;
    auto cell = [&](const YAML::Node &c) -> bool {
        if (!c.IsScalar()) { err = std::string("block '") + sh.name + "': cell is not a scalar"; return false; }
        C z; NumText r, i;
        if (!parse_complex(c.Scalar(), z, r, i, err)) { err = std::string("block '") + sh.name + "': " + err; return false; }
        b.v.push_back(z); b.re_txt.push_back(r); b.im_txt.push_back(i);
        return true;
    };
    if (!n.IsDefined() || !n.IsSequence()) { err = std::string("block '") + sh.name + "' missing or not a sequence"; return false; }
    if (sh.kind == VEC) {
        if ((int)n.size() != sh.cols) { err = std::string("block '") + sh.name + "': expected " + std::to_string(sh.cols) + " terms, found " + std::to_string(n.size()); return false; }
        for (size_t i = 0; i < n.size(); i++) if (!cell(n[i])) return false;
        return true;
    }
    if ((int)n.size() != sh.rows) { err = std::string("block '") + sh.name + "': expected " + std::to_string(sh.rows) + " rows, found " + std::to_string(n.size()); return false; }
    for (int r = 0; r < sh.rows; r++) {
        const YAML::Node row = n[r];
        if (!row.IsSequence() || (int)row.size() != sh.cols) { err = std::string("block '") + sh.name + "': row " + std::to_string(r) + " is not a sequence of " + std::to_string(sh.cols); return false; }
        for (int c = 0; c < sh.cols; c++) {
            const YAML::Node x = row[c];
            if (sh.kind == MAT_NODIAG && r == c) {
                if (!x.IsNull()) { err = std::string("block '") + sh.name + "': diagonal cell is not '~'"; return false; }
                continue;
            }
            if (sh.kind == CELL3) {
                if (!x.IsSequence() || x.size() != 3) { err = "block 'e': cell is not a sequence of 3 terms"; return false; }
                for (int k = 0; k < 3; k++) if (!cell(x[k])) return false;
                continue;
            }
            if (!cell(x)) return false;
        }
    }
    return true;
}

// Parse the whole text of a calibration file.  Strict: every calibration must carry exactly the
// blocks its type implies, `frequencies` entries of data, and nothing else.
static inline bool read(const std::string &text, File &out, std::string &err) {
    out = File();
    size_t nl = text.find('\n');
    if (nl == std::string::npos) { err = "no first line"; return false; }
    out.version_line = text.substr(0, nl);
    int major = 0, minor = 0; bool legacy2 = false;
    if (sscanf(out.version_line.c_str(), "#VNACal %d.%d", &major, &minor) == 2) { if (major != 1) { err = "unsupported version line"; return false; } }
    else if (sscanf(out.version_line.c_str(), "#VNACAL %d.%d", &major, &minor) == 2) { if (major == 2) legacy2 = true; else if (major != 3) { err = "unsupported legacy version line"; return false; } }
    else { err = "first line is not a version line: '" + out.version_line + "'"; return false; }
    YAML::Node root;
    try { root = YAML::Load(text.substr(nl + 1)); }
    catch (const std::exception &e) { err = std::string("yaml-cpp: ") + e.what(); return false; }
    try {
        if (!root.IsMap()) { err = "top level is not a map"; return false; }
        YAML::Node list;
        for (auto it = root.begin(); it != root.end(); ++it) {
            if (!it->first.IsScalar()) { err = "non-scalar top-level key"; return false; }
            const std::string k = it->first.Scalar();
            if (k == "properties") { out.has_props = true; out.props = yaml_to_doc(it->second, err); if (!err.empty()) return false; }
            else if (k == "calibrations" || (legacy2 && k == "sets")) { out.list_key = k; list = it->second; }
            else { err = "unexpected top-level key '" + k + "'"; return false; }
        }
        if (!list.IsDefined()) { err = "no calibrations list"; return false; }
        if (list.IsNull()) return true;
        if (!list.IsSequence()) { err = "calibrations is not a sequence"; return false; }
        for (size_t ci = 0; ci < list.size(); ci++) {
            const YAML::Node cn = list[ci];
            if (!cn.IsMap()) { err = "calibration is not a map"; return false; }
            Cal cal; cal.legacy2 = legacy2;
            YAML::Node data;
            bool have_name = false, have_z0 = false;
            for (auto it = cn.begin(); it != cn.end(); ++it) {
                const std::string k = it->first.Scalar();
                if (k == "name") { if (!it->second.IsScalar()) { err = "calibration name is not a (non-null) scalar"; return false; } cal.name = scalar_of(it->second); have_name = true; }
                else if (k == "type") { if (!it->second.IsScalar()) { err = "type is not a scalar"; return false; } cal.type = it->second.Scalar(); }
                else if (k == "rows") { if (!read_int(it->second, "rows", cal.rows, err)) return false; }
                else if (k == "columns") { if (!read_int(it->second, "columns", cal.cols, err)) return false; }
                else if (k == "frequencies") { if (!read_int(it->second, "frequencies", cal.F, err)) return false; }
                else if (k == "z0") { if (!it->second.IsScalar() || !parse_complex(it->second.Scalar(), cal.z0, cal.z0re, cal.z0im, err)) { err = "z0: " + err; return false; } have_z0 = true; }
                else if (k == "properties") { cal.has_props = true; cal.props = yaml_to_doc(it->second, err); if (!err.empty()) return false; }
                else if (k == "data") data = it->second;
                else { err = "unexpected calibration key '" + k + "'"; return false; }
            }
            if (!have_name) { err = "calibration without name"; return false; }
            if (legacy2) { if (cal.type.empty()) cal.type = "E12"; if (cal.type != "E12") { err = "legacy 2.x calibration with type " + cal.type; return false; } }
            bool known = false; for (auto &t : type_names()) if (t == cal.type) known = true;
            if (!known) { err = "unknown type '" + cal.type + "'"; return false; }
            if (cal.rows < 1 || cal.cols < 1 || cal.F < 0) { err = "bad dimensions"; return false; }
            (void)have_z0;
            if (!data.IsDefined() || !(data.IsSequence() || (cal.F == 0 && data.IsNull()))) { err = "data missing or not a sequence"; return false; }
            if ((int)data.size() != cal.F) { err = "calibration '" + cal.name + "': frequencies " + std::to_string(cal.F) + " but data has " + std::to_string(data.size()) + " entries"; return false; }
            std::vector<Shape> shs = shapes(cal.type, cal.rows, cal.cols, legacy2);
            for (int fi = 0; fi < cal.F; fi++) {
                const YAML::Node e = data[fi];
                if (!e.IsMap()) { err = "data entry is not a map"; return false; }
                Freq fr; bool have_f = false;
                size_t nkeys = 0;
                for (auto it = e.begin(); it != e.end(); ++it) {
                    nkeys++;
                    const std::string k = it->first.Scalar();
                    if (k == "f") { if (!it->second.IsScalar() || !parse_real(it->second.Scalar(), fr.f, fr.ftxt, err)) { err = "f: " + err; return false; } have_f = true; continue; }
                    bool ok = false; for (auto &sh : shs) if (k == sh.name) ok = true;
                    if (!ok) { err = "calibration '" + cal.name + "' (" + cal.type + "): unexpected block '" + k + "'"; return false; }
                }
                if (!have_f) { err = "data entry without f"; return false; }
                if (nkeys != shs.size() + 1) { err = "calibration '" + cal.name + "': data entry has " + std::to_string(nkeys) + " keys, expected " + std::to_string(shs.size() + 1); return false; }
                for (auto &sh : shs) {
                    Block b;
                    if (!read_block(e[sh.name], sh, b, err)) { err = "calibration '" + cal.name + "' f#" + std::to_string(fi) + ": " + err; return false; }
                    fr.blocks.push_back(b);
                }
                cal.data.push_back(fr);
            }
            out.cals.push_back(cal);
        }
    } catch (const std::exception &e) { err = std::string("yaml-cpp: ") + e.what(); return false; }
    return true;
}

// the E12 view of a legacy 2.x calibration: e[row][col] = [el, er, em]  ->  el, er, em (r x c each)
static inline Cal to_e12(const Cal &in) {
    if (!in.legacy2) return in;
    Cal o = in; o.legacy2 = false; o.type = "E12";
    for (auto &fr : o.data) {
        const Block e = fr.blocks.at(0);
        std::vector<Block> nb;
        static const char *nm[3] = {"el", "er", "em"};
        for (int k = 0; k < 3; k++) {
            Block b; b.name = nm[k]; b.rows = in.rows; b.cols = in.cols; b.kind = MAT;
            for (int cell = 0; cell < in.rows * in.cols; cell++) {
                b.v.push_back(e.v[cell * 3 + k]);
                if (!e.re_txt.empty()) { b.re_txt.push_back(e.re_txt[cell * 3 + k]); b.im_txt.push_back(e.im_txt[cell * 3 + k]); }
            }
            nb.push_back(b);
        }
        fr.blocks = nb;
    }
    return o;
}
// and back (used by the writer of legacy files)
static inline Cal to_legacy2(const Cal &in) {
    Cal o = in; o.legacy2 = true;
    for (auto &fr : o.data) {
        Block e; e.name = "e"; e.rows = in.rows; e.cols = in.cols; e.kind = CELL3;
        for (int cell = 0; cell < in.rows * in.cols; cell++) for (int k = 0; k < 3; k++) e.v.push_back(fr.blocks.at(k).v.at(cell));
        fr.blocks.assign(1, e);
    }
    return o;
}

// ------------------------------------------------------------------ writer --
struct NumFmt { int precision = 17; bool hex = false; };   // precision = significant digits ("%.*e" with precision-1)
struct WriteOpts {
    NumFmt ffmt, dfmt;
    bool yaml_header = true;     // "%YAML 1.1\n---\n" after the version line, as vnacal_save writes it
    bool all_flow = false;       // matrices as nested flow sequences instead of block rows
    bool end_marker = false;     // trailing "...\n"
};
static inline std::string fmt_real(double v, const NumFmt &f, bool plus) {
    char buf[1200];
    if (f.hex) snprintf(buf, sizeof buf, plus ? "%+a" : "%a", v);
    else snprintf(buf, sizeof buf, plus ? "%+.*e" : "%.*e", f.precision - 1, v);
    return buf;
}
static inline std::string fmt_complex(C z, const NumFmt &f) { return fmt_real(z.real(), f, true) + " " + fmt_real(z.imag(), f, true) + "j"; }

// YAML double-quoted scalar; every byte outside printable ASCII is written as an escape, so no
// line-break / BOM / control-character subtleties of either YAML library are involved
static inline std::string dq(const std::string &s) {
    std::string o = "\"";
    for (size_t i = 0; i < s.size();) {
        unsigned char ch = (unsigned char)s[i];
        if (ch < 0x80) {
            char b[8];
            if (ch == '"') o += "\\\""; else if (ch == '\\') o += "\\\\";
            else if (ch == '\n') o += "\\n"; else if (ch == '\t') o += "\\t";
            else if (ch < 0x20 || ch == 0x7f) { snprintf(b, sizeof b, "\\x%02X", ch); o += b; }
            else o += (char)ch;
            i++;
            continue;
        }
        uint32_t cp; int n;
        if ((ch & 0xE0) == 0xC0) { cp = ch & 0x1F; n = 1; } else if ((ch & 0xF0) == 0xE0) { cp = ch & 0x0F; n = 2; } else { cp = ch & 0x07; n = 3; }
        for (int k = 1; k <= n && i + k < s.size(); k++) cp = (cp << 6) | ((unsigned char)s[i + k] & 0x3F);
        char b[16];
        if (cp < 0x100) snprintf(b, sizeof b, "\\x%02X", cp); else if (cp < 0x10000) snprintf(b, sizeof b, "\\u%04X", cp); else snprintf(b, sizeof b, "\\U%08X", cp);
        o += b; i += n + 1;
    }
    return o + "\"";
}
// descriptor quoting of a property key, independent of vnaproperty_quote_key: backslash before
// every byte that is not a letter, digit (not first), '_' or a byte of a multi-byte UTF-8 sequence
static inline std::string quote_key(const std::string &k) {
    std::string o;
    for (size_t i = 0; i < k.size(); i++) {
        unsigned char ch = (unsigned char)k[i];
        bool plain = isalpha(ch) || ch == '_' || ch >= 0x80 || (i > 0 && (isdigit(ch) || ch == '-'));
        if (!plain) o += '\\';
        o += (char)ch;
    }
    return o;
}
static inline std::string doc_to_flow(const doc::NodeP &n) {
    using namespace doc;
    if (!n) return "~";
    switch (n->kind) {
    case Node::SCALAR: return dq(n->sval);
    case Node::MAP: { std::string o = "{"; bool first = true; for (auto &p : n->map) { if (!first) o += ", "; first = false; o += dq(quote_key(p.first)) + ": " + doc_to_flow(p.second); } return o + "}"; }
    default: { std::string o = "["; bool first = true; for (auto &e : n->list) { if (!first) o += ", "; first = false; o += doc_to_flow(e); } return o + "]"; }
    }
}
static inline void write_block(std::string &o, const Block &b, const WriteOpts &w, const std::string &ind) {
    o += ind + b.name + ":";
    size_t k = 0;
    if (b.kind == VEC) {
        o += " [";
        for (int c = 0; c < b.cols; c++) { if (c) o += ", "; o += fmt_complex(b.v.at(k++), w.dfmt); }
        o += "]\n";
        return;
    }
    auto row = [&](int r) {
        std::string s = "[";
        for (int c = 0; c < b.cols; c++) {
            if (c) s += ", ";
            if (b.kind == MAT_NODIAG && r == c) s += "~";
            else if (b.kind == CELL3) { s += "["; for (int t = 0; t < 3; t++) { if (t) s += ", "; s += fmt_complex(b.v.at(k++), w.dfmt); } s += "]"; }
            else s += fmt_complex(b.v.at(k++), w.dfmt);
        }
        return s + "]";
    };
    if (w.all_flow) { o += " ["; for (int r = 0; r < b.rows; r++) { if (r) o += ", "; o += row(r); } o += "]\n"; return; }
    o += "\n";
    for (int r = 0; r < b.rows; r++) o += ind + "- " + row(r) + "\n";
}
static inline std::string write(const File &f, const WriteOpts &w) {
    std::string o = f.version_line + "\n";
    if (w.yaml_header) o += "%YAML 1.1\n---\n";
    if (f.has_props) o += "properties: " + doc_to_flow(f.props) + "\n";
    o += f.list_key + ":";
    if (f.cals.empty()) o += " []\n"; else o += "\n";
    for (auto &c : f.cals) {
        o += "- name: " + dq(c.name) + "\n";
        if (!c.legacy2) o += "  type: " + c.type + "\n";
        o += "  rows: " + std::to_string(c.rows) + "\n  columns: " + std::to_string(c.cols) + "\n  frequencies: " + std::to_string(c.F) + "\n";
        o += "  z0: " + fmt_complex(c.z0, w.dfmt) + "\n";
        if (c.has_props) o += "  properties: " + doc_to_flow(c.props) + "\n";
        o += "  data:";
        if (c.data.empty()) { o += " []\n"; continue; }
        o += "\n";
        for (auto &fr : c.data) {
            o += "  - f: " + fmt_real(fr.f, w.ffmt, false) + "\n";
            for (auto &b : fr.blocks) write_block(o, b, w, "    ");
        }
    }
    if (w.end_marker) o += "...\n";
    return o;
}

// ------------------------------------------------------------- comparison --
// relative deviation of one real component from its reference; 0 when bit-identical
static inline double rel_dev(double got, double ref) {
    if (memcmp(&got, &ref, sizeof got) == 0) return 0.0;
    if (got == ref) return 0.0;                 // +0 / -0
    if (!std::isfinite(got) || !std::isfinite(ref)) return INFINITY;
    if (ref == 0.0) return INFINITY;
    return std::fabs(got - ref) / std::fabs(ref);
}
static inline bool same_bits(double a, double b) { return memcmp(&a, &b, sizeof a) == 0; }
static inline bool same_bits(C a, C b) { return same_bits(a.real(), b.real()) && same_bits(a.imag(), b.imag()); }

} // namespace calfile
