// apiexec_data.hpp -- part of apiexec.hpp: driver loop, vnadata, vnaproperty and vnaconv operations.
#pragma once

namespace apix {

inline void Exec::free_all() {
    // matching free functions; sometimes (decided when the object was created) vnacal_free is left to
    // reap the vnacal_new_t structures still attached to it
    while (!cals.empty()) cal_free((int)cals.size() - 1);
    while (!datas.empty()) { if (quiet) { vnadata_free(datas.back()->p); datas.pop_back(); } else data_free((int)datas.size() - 1); }
    while (!props.empty()) { vnaproperty_delete(&props.back()->root, "."); props.pop_back(); }
}

inline void Exec::run(size_t maxops, size_t mean) {
    for (size_t n = 0; (c.mark(), c.more(n, mean, maxops)); n++) { step++; one_op(); }
}

inline void Exec::one_op() {
    switch (c.weighted({30, 30, 25, 10, 3})) {
    case 0: op_new(); break;
    case 1: op_data(); break;
    case 2: op_cal(); break;
    case 3: op_prop(); break;
    default: op_conv(); break;
    }
}

// ================================================================================== vnadata ====
inline void Exec::gen_shape(int &type, int &rows, int &cols, bool &ok) {
    type = (int)c.range(0, 10);
    if (c.chance(1, 8)) {      // invalid class: negative / inconsistent dimensions, type out of the enum
        rows = (int)c.range(-1, 6); cols = (int)c.range(-1, 6);
        if (c.chance(1, 4)) type = c.boolean() ? 11 : -1;
    } else switch (type) {
        case VPT_UNDEF: rows = (int)c.range(0, 5); cols = (int)c.range(0, 5); break;
        case VPT_S: case VPT_Z: case VPT_Y: rows = cols = (int)c.range(0, 5); break;
        case VPT_ZIN: rows = 1; cols = (int)c.range(0, 5); break;
        default: rows = cols = 2; break;
    }
    ok = ArrayModel::shape_ok(type, rows, cols);
}

inline int Exec::need_data() {
    if (datas.empty()) data_new();
    return datas.empty() ? -1 : (int)c.draw(datas.size());
}

inline void Exec::data_new() {
    if (datas.size() >= 3) data_free((int)c.draw(datas.size()));
    auto d = std::make_unique<DataObj>();
    d->log.reset(new ErrLog);
    d->has_fn = !c.chance(1, 6);          // NULL error_fn is an optional pointer
    if (c.chance(1, 3)) {
        int type, rows, cols, F; bool ok;
        gen_shape(type, rows, cols, ok);
        F = c.chance(1, 10) ? -1 : (int)c.range(0, 6);
        if (F < 0) ok = false;
        if (type < 0) type = 11;      // inline function compiled into this C++ unit: keep the value inside the enum's range
        c.note("vnadata_alloc_and_init(%s, %s,%d,%d,%d)%s", d->has_fn ? "fn" : "NULL", type_name(type), rows, cols, F, ok ? "" : "  [invalid]");
        Call k = mk("vnadata_alloc_and_init", ok ? XP_OK : XP_FAIL, C_USAGE, ok ? "valid" : "bad-shape");
        k.log = d->log.get(); k.has_fn = d->has_fn;
        ErrLog *lg = d->log.get(); bool hf = d->has_fn;
        d->p = pcall<vnadata_t>(k, [&] { return vnadata_alloc_and_init(hf ? errlog_fn : nullptr, hf ? lg : nullptr, (vnadata_parameter_type_t)type, rows, cols, F); });
    } else {
        c.note("vnadata_alloc(%s)", d->has_fn ? "fn" : "NULL");
        Call k = mk("vnadata_alloc", XP_OK, C_SYSTEM, "valid");
        k.log = d->log.get(); k.has_fn = d->has_fn;
        ErrLog *lg = d->log.get(); bool hf = d->has_fn;
        d->p = pcall<vnadata_t>(k, [&] { return vnadata_alloc(hf ? errlog_fn : nullptr, hf ? lg : nullptr); });
    }
    if (d->p) datas.push_back(std::move(d));
}

inline void Exec::data_free(int i) {
    c.note("vnadata_free(d%d)", i);
    Call k = mk("vnadata_free", XP_EITHER, 0, "valid");
    vnadata_t *p = datas[i]->p;
    vcall(k, [&] { vnadata_free(p); });
    datas.erase(datas.begin() + i);
}

inline void Exec::data_shape(int i) {
    vnadata_t *v = datas[i]->p;
    int which = c.weighted({3, 5, 2, 2});
    if (which <= 1) {
        int type, rows, cols, F; bool ok;
        gen_shape(type, rows, cols, ok);
        F = c.chance(1, 12) ? -1 : (int)c.range(0, 6);
        if (F < 0) ok = false;
        const char *fn = which == 0 ? "vnadata_init" : "vnadata_resize";
        c.note("%s(d%d, %s,%d,%d,%d)%s", fn, i, type_name(type), rows, cols, F, ok ? "" : "  [invalid]");
        Call k = mk(fn, ok ? XP_OK : XP_FAIL, C_USAGE, ok ? "valid" : "bad-shape", O_DATA, i);
        k.late = which == 0;      // a failed init may leave the destination changed (usable only)
        if (which == 0) icall(k, [&] { return vnadata_init(v, (vnadata_parameter_type_t)type, rows, cols, F); });
        else icall(k, [&] { return vnadata_resize(v, (vnadata_parameter_type_t)type, rows, cols, F); });
    } else if (which == 2) {
        int type = c.chance(1, 8) ? (c.boolean() ? 11 : -1) : (int)c.range(0, 10);
        bool ok = ArrayModel::shape_ok(type, vnadata_get_rows(v), vnadata_get_columns(v));
        c.note("vnadata_set_type(d%d, %s)%s", i, type_name(type), ok ? "" : "  [invalid]");
        Call k = mk("vnadata_set_type", ok ? XP_OK : XP_FAIL, C_USAGE, ok ? "valid" : "bad-type", O_DATA, i);
        icall(k, [&] { return vnadata_set_type(v, (vnadata_parameter_type_t)type); });
    } else {
        // vnadata(3) does not say that a negative frequency is refused: either outcome
        double f = c.chance(1, 8) ? -1.0 : 1e6 * (double)c.range(0, 1000);
        c.note("vnadata_add_frequency(d%d, %g)", i, f);
        Call k = mk("vnadata_add_frequency", f < 0 ? XP_EITHER : XP_OK, C_USAGE, f < 0 ? "negative-frequency" : "valid", O_DATA, i);
        icall(k, [&] { return vnadata_add_frequency(v, f); });
    }
}

inline void Exec::data_getters(int i) {
    vnadata_t *v = datas[i]->p;
    int F = vnadata_get_frequencies(v), R = vnadata_get_rows(v), Cc = vnadata_get_columns(v), P = std::max(R, Cc);
    bool perf = vnadata_has_fz0(v);
    bool fok = true, rok = true, cok = true, pok = true;
    int fi = gidx(F, fok), r = gidx(R, rok), cc = gidx(Cc, cok), p = gidx(P, pok);
    c.note("getters(d%d: f=%d r=%d c=%d p=%d) on %dx%dx%d%s", i, fi, r, cc, p, F, R, Cc, perf ? " fz0" : "");
    {
        bool ok = fok && rok && cok;
        Call k = mk("vnadata_get_cell", ok ? XP_OK : XP_FAIL, C_USAGE, ok ? "valid" : "bad-index", O_DATA, i);
        ccall(k, [&] { return vnadata_get_cell(v, fi, r, cc); });
    }
    { Call k = mk("vnadata_get_frequency", fok ? XP_OK : XP_FAIL, C_USAGE, fok ? "valid" : "bad-index", O_DATA, i); dcall(k, [&] { return vnadata_get_frequency(v, fi); }); }
    { Call k = mk("vnadata_get_matrix", fok ? (R * Cc > 0 ? XP_OK : XP_EITHER) : XP_FAIL, C_USAGE, fok ? "valid" : "bad-index", O_DATA, i); if (R * Cc > 0) pcall<dcx>(k, [&] { return vnadata_get_matrix(v, fi); }); else pcall0<dcx>(k, [&] { return vnadata_get_matrix(v, fi); }); }
    {
        bool ok = rok && cok;
        Buf<dcx> vec((size_t)F);
        Call k = mk("vnadata_get_to_vector", ok ? XP_OK : XP_FAIL, C_USAGE, ok ? "valid" : "bad-index", O_DATA, i);
        icall(k, [&] { return vnadata_get_to_vector(v, r, cc, vec.p); });
    }
    {   // "If frequency-dependent impedances are in-use, vnadata_get_z0() and vnadata_get_z0_vector() return failure."
        bool ok = pok && !perf;
        Call k = mk("vnadata_get_z0", ok ? XP_OK : XP_FAIL, C_USAGE, !pok ? "bad-index" : perf ? "fz0-in-use" : "valid", O_DATA, i);
        ccall(k, [&] { return vnadata_get_z0(v, p); });
        Call k2 = mk("vnadata_get_z0_vector", perf ? XP_FAIL : (P > 0 ? XP_OK : XP_EITHER), C_USAGE, perf ? "fz0-in-use" : "valid", O_DATA, i);
        if (P > 0) pcall<const dcx>(k2, [&] { return vnadata_get_z0_vector(v); }); else pcall0<const dcx>(k2, [&] { return vnadata_get_z0_vector(v); });
    }
    { bool ok = fok && pok; Call k = mk("vnadata_get_fz0", ok ? XP_OK : XP_FAIL, C_USAGE, ok ? "valid" : "bad-index", O_DATA, i); ccall(k, [&] { return vnadata_get_fz0(v, fi, p); }); }
    { Call k = mk("vnadata_get_fz0_vector", fok ? (P > 0 ? XP_OK : XP_EITHER) : XP_FAIL, C_USAGE, fok ? "valid" : "bad-index", O_DATA, i); if (P > 0) pcall<const dcx>(k, [&] { return vnadata_get_fz0_vector(v, fi); }); else pcall0<const dcx>(k, [&] { return vnadata_get_fz0_vector(v, fi); }); }
    // fmin/fmax with no frequencies: vnadata(3) is silent
    { Call k = mk("vnadata_get_fmin", F > 0 ? XP_OK : XP_EITHER, C_USAGE, F > 0 ? "valid" : "no-frequencies", O_DATA, i); dcall(k, [&] { return vnadata_get_fmin(v); }); }
    { Call k = mk("vnadata_get_fmax", F > 0 ? XP_OK : XP_EITHER, C_USAGE, F > 0 ? "valid" : "no-frequencies", O_DATA, i); dcall(k, [&] { return vnadata_get_fmax(v); }); }
    // queries that cannot fail on a valid object
    (void)vnadata_get_type(v); (void)vnadata_get_frequency_vector(v); (void)vnadata_get_filetype(v);
    (void)vnadata_get_format(v); (void)vnadata_get_fprecision(v); (void)vnadata_get_dprecision(v);
    int t = c.chance(1, 6) ? (c.boolean() ? 11 : -1) : (int)c.range(0, 10);
    (void)vnadata_get_type_name((vnadata_parameter_type_t)t);
}

inline void Exec::data_setters(int i) {
    vnadata_t *v = datas[i]->p;
    int F = vnadata_get_frequencies(v), R = vnadata_get_rows(v), Cc = vnadata_get_columns(v);
    switch (c.weighted({3, 1, 5, 2, 2})) {
    case 0: {
        bool ok = true; int fi = gidx(F, ok); double f = 1e6 * (double)c.range(0, 1000);
        c.note("vnadata_set_frequency(d%d, %d, %g)", i, fi, f);
        Call k = mk("vnadata_set_frequency", ok ? XP_OK : XP_FAIL, C_USAGE, ok ? "valid" : "bad-index", O_DATA, i);
        icall(k, [&] { return vnadata_set_frequency(v, fi, f); });
        break;
    }
    case 1: {
        Buf<double> fv((size_t)F);
        for (int j = 0; j < F; j++) fv[j] = 1e6 * (double)c.range(0, 1000);
        c.note("vnadata_set_frequency_vector(d%d, [%d])", i, F);
        Call k = mk("vnadata_set_frequency_vector", XP_OK, C_USAGE, "valid", O_DATA, i);
        const double *farg = fv.p;
        if (F > 0 && alias_turn()) { farg = vnadata_get_frequency_vector(v); c.label("alias:vnadata_set_frequency_vector"); }     // the object's own vector
        icall(k, [&] { return vnadata_set_frequency_vector(v, farg); });
        break;
    }
    case 2: {
        bool ok = true; int fi = gidx(F, ok), r = gidx(R, ok), cc = gidx(Cc, ok); dcx val = gval();
        c.note("vnadata_set_cell(d%d, %d,%d,%d, %g%+gi)", i, fi, r, cc, re_(val), im_(val));
        Call k = mk("vnadata_set_cell", ok ? XP_OK : XP_FAIL, C_USAGE, ok ? "valid" : "bad-index", O_DATA, i);
        icall(k, [&] { return vnadata_set_cell(v, fi, r, cc, val); });
        break;
    }
    case 3: {
        bool ok = true; int fi = gidx(F, ok);
        Buf<dcx> m((size_t)(R * Cc));
        for (int j = 0; j < R * Cc; j++) m[j] = gval();
        c.note("vnadata_set_matrix(d%d, %d)", i, fi);
        Call k = mk("vnadata_set_matrix", ok ? XP_OK : XP_FAIL, C_USAGE, ok ? "valid" : "bad-index", O_DATA, i);
        icall(k, [&] { return vnadata_set_matrix(v, fi, m.p); });
        break;
    }
    default: {
        bool ok = true; int r = gidx(R, ok), cc = gidx(Cc, ok);
        Buf<dcx> vec((size_t)F);
        for (int j = 0; j < F; j++) vec[j] = gval();
        c.note("vnadata_set_from_vector(d%d, %d,%d)", i, r, cc);
        Call k = mk("vnadata_set_from_vector", ok ? XP_OK : XP_FAIL, C_USAGE, ok ? "valid" : "bad-index", O_DATA, i);
        icall(k, [&] { return vnadata_set_from_vector(v, r, cc, vec.p); });
        break;
    }
    }
}

inline void Exec::data_z0(int i) {
    vnadata_t *v = datas[i]->p;
    int F = vnadata_get_frequencies(v), P = std::max(vnadata_get_rows(v), vnadata_get_columns(v));
    switch (c.weighted({3, 1, 1, 3, 2})) {
    case 0: {
        bool ok = true; int p = gidx(P, ok); dcx z = gz0();
        c.note("vnadata_set_z0(d%d, %d, %g%+gi)", i, p, re_(z), im_(z));
        Call k = mk("vnadata_set_z0", ok ? XP_OK : XP_FAIL, C_USAGE, ok ? "valid" : "bad-index", O_DATA, i);
        icall(k, [&] { return vnadata_set_z0(v, p, z); });
        break;
    }
    case 1: {
        dcx z = gz0();
        c.note("vnadata_set_all_z0(d%d, %g%+gi)", i, re_(z), im_(z));
        Call k = mk("vnadata_set_all_z0", XP_OK, C_USAGE, "valid", O_DATA, i);
        icall(k, [&] { return vnadata_set_all_z0(v, z); });
        break;
    }
    case 2: {
        Buf<dcx> zv((size_t)P); for (int j = 0; j < P; j++) zv[j] = gz0();
        c.note("vnadata_set_z0_vector(d%d, [%d])", i, P);
        Call k = mk("vnadata_set_z0_vector", XP_OK, C_USAGE, "valid", O_DATA, i);
        const dcx *zarg = zv.p;
        // the object's own vector (ordinary mode only: in per-frequency mode vnadata_get_z0_vector fails by documentation)
        if (P > 0 && !vnadata_has_fz0(v) && alias_turn()) { const dcx *own = vnadata_get_z0_vector(v); datas[i]->log->clear(); if (own) { zarg = own; c.label("alias:vnadata_set_z0_vector"); } }
        // per-frequency mode: one of the object's own per-frequency rows (the setter frees them while switching back to ordinary mode)
        else if (P > 0 && F > 0 && vnadata_has_fz0(v) && alias_turn()) { const dcx *own = vnadata_get_fz0_vector(v, (int)(ncalls % (unsigned)F)); if (own) { zarg = own; c.label("alias:vnadata_set_z0_vector(per-frequency-row)"); } }
        icall(k, [&] { return vnadata_set_z0_vector(v, zarg); });
        break;
    }
    case 3: {
        bool ok = true; int fi = gidx(F, ok), p = gidx(P, ok); dcx z = gz0();
        c.note("vnadata_set_fz0(d%d, %d,%d, %g%+gi)", i, fi, p, re_(z), im_(z));
        Call k = mk("vnadata_set_fz0", ok ? XP_OK : XP_FAIL, C_USAGE, ok ? "valid" : "bad-index", O_DATA, i);
        icall(k, [&] { return vnadata_set_fz0(v, fi, p, z); });
        break;
    }
    default: {
        bool ok = true; int fi = gidx(F, ok);
        Buf<dcx> zv((size_t)P); for (int j = 0; j < P; j++) zv[j] = gz0();
        c.note("vnadata_set_fz0_vector(d%d, %d)", i, fi);
        Call k = mk("vnadata_set_fz0_vector", ok ? XP_OK : XP_FAIL, C_USAGE, ok ? "valid" : "bad-index", O_DATA, i);
        const dcx *zarg = zv.p;
        if (ok && P > 0 && alias_turn()) {
            // the object's own vector from vnadata_get_fz0_vector: one of its per-frequency rows, or -- in ordinary mode -- the ordinary
            // vector, which the setter has to copy before it switches the object to per-frequency mode (repaired in 25efa7b)
            const dcx *own = vnadata_get_fz0_vector(v, fi);
            if (own) { zarg = own; c.label(vnadata_has_fz0(v) ? "alias:vnadata_set_fz0_vector" : "alias:vnadata_set_fz0_vector(ordinary-vector)"); }
        }
        icall(k, [&] { return vnadata_set_fz0_vector(v, fi, zarg); });
        break;
    }
    }
}

inline void Exec::data_convert(int i) {
    vnadata_t *v = datas[i]->p;
    int nt = c.chance(1, 8) ? (c.boolean() ? 11 : -1) : (int)c.range(0, 10);
    int j = c.chance(1, 2) ? i : (int)c.draw(datas.size());       // in place, or into another pool object
    bool ok = ArrayModel::convert_ok(vnadata_get_type(v), nt, vnadata_get_rows(v), vnadata_get_columns(v));
    c.note("vnadata_convert(d%d -> d%d, %s -> %s) on %dx%d%s", i, j, type_name(vnadata_get_type(v)), type_name(nt), vnadata_get_rows(v), vnadata_get_columns(v), ok ? "" : "  [invalid]");
    Call k = mk("vnadata_convert", ok ? XP_OK : XP_FAIL, C_USAGE, ok ? "valid" : "bad-conversion", O_DATA, j);
    k.late = true;
    k.log = datas[i]->log.get(); k.has_fn = datas[i]->has_fn;      // errors are reported through the input's error function
    vnadata_t *o = datas[j]->p;
    if (j != i && datas[j]->has_fn != datas[i]->has_fn) k.expect = k.expect == XP_FAIL ? XP_FAIL : XP_EITHER;
    // the output object may report too (its own resize): collect both recorders
    ErrLog *lo = datas[j]->log.get();
    icall(k, [&] { int rc = vnadata_convert(v, o, (vnadata_parameter_type_t)nt); if (lo != k.log) { for (auto &r : lo->recs) k.log->recs.push_back(r); lo->clear(); } return rc; });
}

inline void Exec::data_fileopts(int i) {
    vnadata_t *v = datas[i]->p;
    switch (c.weighted({3, 2, 2})) {
    case 0: {
        static const char *const good[] = {"Sri", "sma", "SdB", "Zri", "Yma", "Hri", "Gma", "Tri", "UdB", "Ari", "Bma", "Zinri", "zinMA", "PRC", "prl", "SRC", "srl", "IL", "RL", "VSWR", "ri", "ma", "dB",
                                           "Sri,Zma", "SdB, Zinma ,VSWR", "ri,IL"};
        static const char *const bad[] = {"", "Qri", "Sxx", "S,,T", "ZindB", "Sri,", ",", "Zinn", "vsw", "S ri x", "\x80"};
        int how = c.weighted({8, 1, 3});
        const char *fmt = how == 0 ? good[c.draw(sizeof good / sizeof *good)] : how == 1 ? nullptr : bad[c.draw(sizeof bad / sizeof *bad)];
        c.note("vnadata_set_format(d%d, %s)%s", i, fmt ? ascii(std::string("\"") + fmt + "\"").c_str() : "NULL", how == 2 ? "  [invalid]" : "");
        if (how == 0 && alias_turn() && vnadata_get_format(v)) { fmt = vnadata_get_format(v); c.label("alias:vnadata_set_format"); c.note("   (format = the object's own string from vnadata_get_format)"); }
        Call k = mk("vnadata_set_format", how == 2 ? XP_FAIL : XP_OK, C_USAGE, how == 2 ? "bad-format" : how == 1 ? "null-format" : "valid", O_DATA, i);
        icall(k, [&] { return vnadata_set_format(v, fmt); });
        break;
    }
    case 1: {
        int ft = c.chance(1, 4) ? (c.boolean() ? 4 : -1) : (int)c.range(0, 3);
        bool ok = ft >= 0 && ft <= 3;
        c.note("vnadata_set_filetype(d%d, %d)%s", i, ft, ok ? "" : "  [invalid]");
        Call k = mk("vnadata_set_filetype", ok ? XP_OK : XP_FAIL, C_USAGE, ok ? "valid" : "bad-enum", O_DATA, i);
        icall(k, [&] { return vnadata_set_filetype(v, (vnadata_filetype_t)ft); });
        break;
    }
    default: {
        static const int pv[] = {1, 2, 3, 6, 7, 9, 12, 17, 40, VNADATA_MAX_PRECISION, 0, -1};
        int pr = pv[c.draw(sizeof pv / sizeof *pv)];
        bool ok = pr >= 1, fp = c.boolean();
        c.note("vnadata_set_%cprecision(d%d, %d)%s", fp ? 'f' : 'd', i, pr, ok ? "" : "  [invalid]");
        Call k = mk(fp ? "vnadata_set_fprecision" : "vnadata_set_dprecision", ok ? XP_OK : XP_FAIL, C_USAGE, ok ? "valid" : "bad-precision", O_DATA, i);
        if (fp) icall(k, [&] { return vnadata_set_fprecision(v, pr); }); else icall(k, [&] { return vnadata_set_dprecision(v, pr); });
        break;
    }
    }
}

static const char *const DATA_FILENAMES[] = {"a.npd", "a.ts", "a.s2p", "a.s1p", "a.s3p", "a.s4p", "noext", "a.txt"};

inline void Exec::data_save(int i) {
    vnadata_t *v = datas[i]->p;
    const char *fname = DATA_FILENAMES[c.draw(sizeof DATA_FILENAMES / sizeof *DATA_FILENAMES)];
    // whether the current filetype / format / type / impedances can be saved is a large rule set owned by
    // C06: here every save is "either"; what C11 checks is that a failure is reported as documented
    switch (c.weighted({3, 5, 2, 1})) {
    case 0: {
        c.note("vnadata_cksave(d%d, %s)", i, fname);
        Call k = mk("vnadata_cksave", XP_EITHER, C_USAGE | C_SYSTEM, "save-options", O_DATA, i); k.late = true;
        icall(k, [&] { return vnadata_cksave(v, fname); });
        break;
    }
    case 1: {
        MemOut out;
        c.note("vnadata_fsave(d%d, memstream, %s)", i, fname);
        Call k = mk("vnadata_fsave", XP_EITHER, C_USAGE | C_SYSTEM, "save-options", O_DATA, i); k.late = true;
        int rc = icall(k, [&] { return vnadata_fsave(v, out.fp, fname); });
        if (rc == 0) { did_saveload = true; if (dfiles.size() >= 4) dfiles.erase(dfiles.begin()); dfiles.push_back({fname, out.text()}); }
        break;
    }
    case 2: {
        // real path (memfd through /proc): the extension of the name decides the type, so link it under PBT_TMPDIR
        const char *td = getenv("PBT_TMPDIR"); if (!td) td = "/tmp";
        std::string path = std::string(td) + "/apix_" + std::to_string((int)getpid()) + "_" + fname;
        c.note("vnadata_save(d%d, $TMP/%s)", i, fname);
        Call k = mk("vnadata_save", XP_EITHER, C_USAGE | C_SYSTEM, "save-options", O_DATA, i); k.late = true;
        int rc = icall(k, [&] { return vnadata_save(v, path.c_str()); });
        if (rc == 0) {      // read the file back into a pool object (by name: the extension selects the parser)
            did_saveload = true;
            int j = (int)c.draw(datas.size());
            c.note("vnadata_load(d%d, $TMP/%s)", j, fname);
            Call kl = mk("vnadata_load", XP_EITHER, C_SYNTAX | C_VERSION | C_USAGE | C_SYSTEM, "own-output", O_DATA, j); kl.late = true;
            vnadata_t *w = datas[j]->p;
            icall(kl, [&] { return vnadata_load(w, path.c_str()); });
        }
        unlink(path.c_str());
        break;
    }
    default: {
        std::string path = "/nonexistent-dir-apix/" + std::string(fname);
        c.note("vnadata_save(d%d, %s)  [unwritable]", i, path.c_str());
        // either the options are refused (USAGE) or fopen fails (SYSTEM, ENOENT)
        Call k = mk("vnadata_save", XP_FAIL, C_USAGE | C_SYSTEM | C_MISSING, "unwritable-path", O_DATA, i); k.late = true;
        icall(k, [&] { return vnadata_save(v, path.c_str()); });
        break;
    }
    }
}

inline void Exec::data_load(int i) {
    vnadata_t *v = datas[i]->p;
    int how = c.weighted({dfiles.empty() ? 0u : 6u, 1, 1, 1});
    if (how == 0) {
        auto &f = dfiles[c.draw(dfiles.size())];
        c.note("vnadata_fload(d%d, text of an earlier fsave as %s, %zu bytes)", i, f.first.c_str(), f.second.size());
        FILE *fp = fmemopen((void *)f.second.data(), f.second.size(), "r");
        if (!fp) return;      // empty text: fmemopen refuses size 0
        // XP_EITHER: e.g. NPD files holding only scalar columns are not loadable (C06's domain)
        Call k = mk("vnadata_fload", XP_EITHER, C_SYNTAX | C_VERSION | C_USAGE | C_SYSTEM, "own-output", O_DATA, i); k.late = true;
        int rc = icall(k, [&] { return vnadata_fload(v, fp, f.first.c_str()); });
        fclose(fp);
        if (rc == 0) did_saveload = true;
    } else if (how == 3) {
        const char *fname = DATA_FILENAMES[c.draw(3)];
        std::string path = "/nonexistent-dir-apix/" + std::string(fname);
        c.note("vnadata_load(d%d, %s)  [missing]", i, path.c_str());
        Call k = mk("vnadata_load", XP_FAIL, C_SYSTEM | C_MISSING, "missing-file", O_DATA, i); k.late = true;
        icall(k, [&] { return vnadata_load(v, path.c_str()); });
    } else {
        // simple malformed inputs only (the parsers belong to C09): no recognisable content at all
        static const char *const junk[] = {"hello world\n", "!\n!\n", "# HZ S RI R 50\n1 2 3\nxyz\n", "#:version 9.9\n", "[Version] 7.0\n"};
        std::string text = junk[c.draw(sizeof junk / sizeof *junk)];
        const char *fname = DATA_FILENAMES[c.draw(3)];
        c.note("vnadata_fload(d%d, junk %s as %s)", i, ascii(text).c_str(), fname);
        FILE *fp = fmemopen((void *)text.data(), text.size(), "r");
        if (!fp) return;
        Call k = mk("vnadata_fload", XP_EITHER, C_SYNTAX | C_VERSION, "junk", O_DATA, i); k.late = true;
        icall(k, [&] { return vnadata_fload(v, fp, fname); });
        fclose(fp);
    }
}

inline void Exec::op_data() {
    int w = c.weighted({20, 2, 1, 4, 6, 8, 5, 3, 4, 4, 3});
    if (w == 1) { data_new(); return; }
    int i = need_data();
    if (i < 0) return;
    switch (w) {
    case 0: case 3: data_shape(i); break;
    case 2: data_free(i); break;
    case 4: data_getters(i); break;
    case 5: data_setters(i); break;
    case 6: data_z0(i); break;
    case 7: data_convert(i); break;
    case 8: data_fileopts(i); break;
    case 9: data_save(i); break;
    default: data_load(i); break;
    }
}

// =============================================================================== vnaproperty ====
// Operations on a property root: a stand-alone root (ok == O_PROP) or, with K != nullptr, the root of
// vnacal_t K addressed as calibration index ci through the vnacal_property_* functions.  Expectations
// come from the document model (docmodel.hpp) applied to the tree as read back through the API.
inline void Exec::prop_ops(vnaproperty_t **rootp, ObjKind ok, int oi, int ci, CalObj *K) {
    using namespace doc;
    std::string why;
    NodeP m = read_tree(*rootp, why);
    if (!why.empty()) throw pbt::Fail{"apix.walk_failed", "reading the property tree failed: " + why};
    const char *pfx = K ? "vnacal_property" : "vnaproperty";
    auto fnname = [&](const char *s) -> const char * {      // static strings for Call::fn
        static const char *const names[2][8] = {
            {"vnaproperty_set", "vnaproperty_set_subtree", "vnaproperty_delete", "vnaproperty_type", "vnaproperty_count", "vnaproperty_get", "vnaproperty_keys", "vnaproperty_get_subtree"},
            {"vnacal_property_set", "vnacal_property_set_subtree", "vnacal_property_delete", "vnacal_property_type", "vnacal_property_count", "vnacal_property_get", "vnacal_property_keys", "vnacal_property_get_subtree"}};
        static const char *const keys[8] = {"set", "set_subtree", "delete", "type", "count", "get", "keys", "get_subtree"};
        for (int q = 0; q < 8; q++) if (!strcmp(keys[q], s)) return names[K ? 1 : 0][q];
        return "?";
    };
    auto causes_of = [](const Res &r) -> unsigned { return r.err_any ? (C_USAGE | C_MISSING) : r.err == ENOENT ? C_MISSING : C_USAGE; };
    vnacal_t *vcp = K ? K->p : nullptr;
    switch (c.weighted({10, 3, 5, 8, 3, 3})) {
    case 0: {   // set
        Desc d = pg.gen_desc(m, true);
        bool isnull = c.chance(1, 5);
        std::string val = isnull ? "" : pg.gen_value();
        std::string ds = pg.print(d) + (isnull ? "#" : "=" + val);
        NodeP mm = clone(m);
        Res r = op_set(&mm, d, isnull, val);
        c.note("%s_set(%s%s)%s", pfx, K ? (std::to_string(ci) + ", ").c_str() : "", ascii(esc(ds)).c_str(), r.ok ? "" : "  [invalid]");
        Call k = mk(fnname("set"), r.ok ? XP_OK : XP_FAIL, C_USAGE, r.ok ? "valid" : "assign-to-collection", ok, oi); k.log = nullptr;
        // aliasing: the VALUE may be the library's own string -- the current value of the node being overwritten (set("a=%s", get("a")))
        // or of the first scalar of the root map -- and the KEY may come from vnaproperty_keys (when it needs no quoting)
        const char *own = nullptr; std::string dpart = pg.print(d);
        if (!isnull && r.ok && alias_turn()) {
            own = K ? vnacal_property_get(vcp, ci, "%s", dpart.c_str()) : vnaproperty_get(*rootp, "%s", dpart.c_str());
            if (!own && m && m->kind == Node::MAP) for (auto &kv : m->map) if (!own && kv.second && kv.second->kind == Node::SCALAR && !PropGen::needs_quote(kv.first)) own = K ? vnacal_property_get(vcp, ci, "%s", kv.first.c_str()) : vnaproperty_get(*rootp, "%s", kv.first.c_str());
        }
        if (own) {
            c.label(std::string("alias:") + fnname("set")); c.note("   (value = the library's own string %s)", ascii(esc(own)).c_str());
            if (K) icall(k, [&] { return vnacal_property_set(vcp, ci, "%s=%s", dpart.c_str(), own); });
            else icall(k, [&] { return vnaproperty_set(rootp, "%s=%s", dpart.c_str(), own); });
            break;
        }
        if (!K && m && m->kind == Node::MAP && !m->map.empty() && alias_turn(3)) {
            const char **keys = vnaproperty_keys(*rootp, ".");
            if (keys && keys[0] && !PropGen::needs_quote(keys[0])) {
                c.label("alias:vnaproperty_set(key)"); c.note("   then vnaproperty_set with the key pointer returned by vnaproperty_keys");
                Call k2 = mk(fnname("set"), XP_OK, C_USAGE, "valid", ok, oi); k2.log = nullptr;
                icall(k2, [&] { return vnaproperty_set(rootp, "%s=%s", keys[0], "k"); });
            }
            free((void *)keys);
        }
        if (K) icall(k, [&] { return vnacal_property_set(vcp, ci, "%s", ds.c_str()); });
        else icall(k, [&] { return vnaproperty_set(rootp, "%s", ds.c_str()); });
        break;
    }
    case 1: {   // set_subtree (valid), or with trailing tokens (refused)
        Desc d = pg.gen_desc(m, true);
        std::string ds = pg.print(d);
        bool bad = c.chance(1, 4);
        if (bad) ds += c.boolean() ? "=1" : "#";
        c.note("%s_set_subtree(%s)%s", pfx, ascii(esc(ds)).c_str(), bad ? "  [invalid]" : "");
        Call k = mk(fnname("set_subtree"), bad ? XP_FAIL : XP_OK, C_USAGE, bad ? "trailing-token" : "valid", ok, oi); k.log = nullptr;
        if (K) pcall<vnaproperty_t *>(k, [&] { return vnacal_property_set_subtree(vcp, ci, "%s", ds.c_str()); });
        else pcall<vnaproperty_t *>(k, [&] { return vnaproperty_set_subtree(rootp, "%s", ds.c_str()); });
        break;
    }
    case 2: {   // delete
        Desc d = pg.gen_desc(m, false);
        std::string ds = pg.print(d);
        NodeP mm = clone(m);
        Res r = op_delete(&mm, d);
        c.note("%s_delete(%s)%s", pfx, ascii(esc(ds)).c_str(), r.ok ? "" : "  [fails]");
        Call k = mk(fnname("delete"), r.ok ? XP_OK : XP_FAIL, causes_of(r), r.ok ? "valid" : r.err == ENOENT ? "missing-element" : "type-mismatch", ok, oi); k.log = nullptr;
        if (K) icall(k, [&] { return vnacal_property_delete(vcp, ci, "%s", ds.c_str()); });
        else icall(k, [&] { return vnaproperty_delete(rootp, "%s", ds.c_str()); });
        break;
    }
    case 3: {   // queries
        Desc d = pg.gen_desc(m, false);
        std::string ds = pg.print(d);
        NodeP *slot = nullptr; NodeP coll, mm = m;
        Res r = descend_ro(&mm, d, &slot, &coll);
        NodeP n = r.ok ? *slot : nullptr;
        c.note("%s queries(%s)%s", pfx, ascii(esc(ds)).c_str(), r.ok ? "" : "  [fails]");
        const char *w = r.ok ? "valid" : r.err_any ? "bad-path" : r.err == ENOENT ? "missing-element" : "type-mismatch";
        // a null node: type/count/get/keys return the failure value with undocumented errno; get_subtree returns NULL with errno untouched
        {
            Call k = mk(fnname("type"), !r.ok ? XP_FAIL : n ? XP_OK : XP_EITHER, r.ok ? C_ANY : causes_of(r), w, ok, oi); k.log = nullptr; k.check_errno = !(r.ok && !n);
            if (K) icall(k, [&] { return vnacal_property_type(vcp, ci, "%s", ds.c_str()); }); else icall(k, [&] { return vnaproperty_type(*rootp, "%s", ds.c_str()); });
        }
        {
            bool coll_ok = n && n->kind != Node::SCALAR;
            Call k = mk(fnname("count"), !r.ok ? XP_FAIL : coll_ok ? XP_OK : n ? XP_FAIL : XP_EITHER, !r.ok ? causes_of(r) : n ? C_USAGE : C_ANY, !r.ok ? w : coll_ok ? "valid" : "count-of-scalar", ok, oi); k.log = nullptr; k.check_errno = !(r.ok && !n);
            if (K) icall(k, [&] { return vnacal_property_count(vcp, ci, "%s", ds.c_str()); }); else icall(k, [&] { return vnaproperty_count(*rootp, "%s", ds.c_str()); });
        }
        {
            bool sc = n && n->kind == Node::SCALAR;
            Call k = mk(fnname("get"), !r.ok ? XP_FAIL : sc ? XP_OK : n ? XP_FAIL : XP_EITHER, !r.ok ? causes_of(r) : n ? C_USAGE : C_ANY, !r.ok ? w : sc ? "valid" : "get-of-collection", ok, oi); k.log = nullptr; k.check_errno = !(r.ok && !n);
            if (K) pcall<const char>(k, [&] { return vnacal_property_get(vcp, ci, "%s", ds.c_str()); }); else pcall<const char>(k, [&] { return vnaproperty_get(*rootp, "%s", ds.c_str()); });
        }
        {
            bool mp = n && n->kind == Node::MAP;
            Call k = mk(fnname("keys"), !r.ok ? XP_FAIL : mp ? XP_OK : n ? XP_FAIL : XP_EITHER, !r.ok ? causes_of(r) : n ? C_USAGE : C_ANY, !r.ok ? w : mp ? "valid" : "keys-of-non-map", ok, oi); k.log = nullptr; k.check_errno = !(r.ok && !n);
            const char **keys;
            if (K) keys = pcall<const char *>(k, [&] { return vnacal_property_keys(vcp, ci, "%s", ds.c_str()); }); else keys = pcall<const char *>(k, [&] { return vnaproperty_keys(*rootp, "%s", ds.c_str()); });
            free((void *)keys);
        }
        {   // NULL is also the successful answer for an empty subtree: failure = NULL with errno set
            Call k = mk(fnname("get_subtree"), !r.ok ? XP_FAIL : XP_OK, causes_of(r), w, ok, oi); k.log = nullptr;
            k.rk = R_PTR; pre(k);
            vnaproperty_t *st = K ? vnacal_property_get_subtree(vcp, ci, "%s", ds.c_str()) : vnaproperty_get_subtree(*rootp, "%s", ds.c_str());
            post(k, st == nullptr && errno != 0, st != nullptr);
        }
        break;
    }
    case 4: {   // malformed descriptor into a random function: failure (EINVAL; look-ups may meet a missing element first)
        std::string ds = pg.gen_malformed();
        int f = (int)c.draw(5);
        c.note("%s malformed(%s) fn %d", pfx, ascii(esc(ds)).c_str(), f);
        static const char *const key[5] = {"type", "get", "delete", "set_subtree", "set"};
        if (f == 4 && !ds.empty() && ds.back() == '\\') f = 3;     // a trailing backslash would quote the '='
        Call k = mk(fnname(key[f]), XP_FAIL, f >= 3 ? C_USAGE : (C_USAGE | C_MISSING), "malformed-descriptor", ok, oi); k.log = nullptr;
        switch (f) {
        case 0: if (K) icall(k, [&] { return vnacal_property_type(vcp, ci, "%s", ds.c_str()); }); else icall(k, [&] { return vnaproperty_type(*rootp, "%s", ds.c_str()); }); break;
        case 1: if (K) pcall<const char>(k, [&] { return vnacal_property_get(vcp, ci, "%s", ds.c_str()); }); else pcall<const char>(k, [&] { return vnaproperty_get(*rootp, "%s", ds.c_str()); }); break;
        case 2: if (K) icall(k, [&] { return vnacal_property_delete(vcp, ci, "%s", ds.c_str()); }); else icall(k, [&] { return vnaproperty_delete(rootp, "%s", ds.c_str()); }); break;
        case 3: if (K) pcall<vnaproperty_t *>(k, [&] { return vnacal_property_set_subtree(vcp, ci, "%s", ds.c_str()); }); else pcall<vnaproperty_t *>(k, [&] { return vnaproperty_set_subtree(rootp, "%s", ds.c_str()); }); break;
        default: if (K) icall(k, [&] { return vnacal_property_set(vcp, ci, "%s=v", ds.c_str()); }); else icall(k, [&] { return vnaproperty_set(rootp, "%s=v", ds.c_str()); }); break;
        }
        break;
    }
    default: {  // set refused for its form: no '=' / '#'
        Desc d = pg.gen_desc(m, true);
        std::string ds = pg.print(d);
        c.note("%s_set(%s)  [invalid: no = or #]", pfx, ascii(esc(ds)).c_str());
        Call k = mk(fnname("set"), XP_FAIL, C_USAGE, "no-assignment", ok, oi); k.log = nullptr;
        if (K) icall(k, [&] { return vnacal_property_set(vcp, ci, "%s", ds.c_str()); }); else icall(k, [&] { return vnaproperty_set(rootp, "%s", ds.c_str()); });
        break;
    }
    }
}

inline void Exec::op_prop() {
    if (props.empty() || (props.size() < 2 && c.chance(1, 6))) { props.push_back(std::make_unique<PropObj>()); }
    int i = (int)c.draw(props.size());
    PropObj &P = *props[i];
    switch (c.weighted({14, 2, 2, 3, 3, 1})) {
    case 0: prop_ops(&P.root, O_PROP, i, 0, nullptr); break;
    case 1: {   // copy between roots (or onto itself through a temporary)
        int j = (int)c.draw(props.size());
        c.note("vnaproperty_copy(p%d <- p%d)", i, j);
        Call k = mk("vnaproperty_copy", XP_OK, C_SYSTEM, "valid", O_PROP, i); k.log = nullptr;
        if (i == j) {
            vnaproperty_t *tmp = nullptr;
            icall(k, [&] { return vnaproperty_copy(&tmp, P.root); });
            vnaproperty_delete(&tmp, ".");
        } else icall(k, [&] { return vnaproperty_copy(&P.root, props[j]->root); });
        break;
    }
    case 2: {
        std::string key = pg.gen_key(true);
        c.note("vnaproperty_quote_key(%s)", ascii(doc::esc(key)).c_str());
        Call k = mk("vnaproperty_quote_key", XP_OK, C_SYSTEM, "valid"); k.log = nullptr;
        char *q = pcall<char>(k, [&] { return vnaproperty_quote_key(key.c_str()); });
        free(q);
        break;
    }
    case 3: {   // export
        MemOut out;
        bool hf = !c.chance(1, 5);
        c.note("vnaproperty_export_yaml_to_file(p%d, memstream, %s)", i, hf ? "fn" : "NULL");
        Call k = mk("vnaproperty_export_yaml_to_file", XP_OK, C_SYSTEM, "valid", O_PROP, i); k.log = &yaml_log; k.has_fn = hf;
        int rc = icall(k, [&] { return vnaproperty_export_yaml_to_file(P.root, out.fp, "export.yaml", hf ? errlog_fn : nullptr, hf ? &yaml_log : nullptr); });
        if (rc == 0) { did_saveload = true; if (yfiles.size() >= 3) yfiles.erase(yfiles.begin()); yfiles.push_back(out.text()); }
        break;
    }
    case 4: {   // import: own output, or a document with a YAML syntax error
        static const char *const bad[] = {"a: [1, 2\n", "{a: 1", "a: 'x\n", "- a\nb: 1\n", "\t- x: [\n"};
        bool good = !yfiles.empty() && !c.chance(1, 3);
        std::string text = good ? yfiles[c.draw(yfiles.size())] : std::string(bad[c.draw(sizeof bad / sizeof *bad)]);
        // a map entry with a non-scalar key is skipped with a WARNING (vnaproperty.3): a valid document
        if (!good && c.chance(1, 4)) { text = "a: 1\n? [x, y]\n: 2\nb: 3\n"; good = true; }
        bool from_file = c.boolean(), hf = !c.chance(1, 5);
        c.note("vnaproperty_import_yaml_from_%s(p%d, %s, %s)", from_file ? "file" : "string", i, good ? "own export" : ascii(text).c_str(), hf ? "fn" : "NULL");
        Call k = mk(from_file ? "vnaproperty_import_yaml_from_file" : "vnaproperty_import_yaml_from_string", good ? XP_OK : XP_FAIL, C_SYNTAX, good ? "valid" : "yaml-syntax", O_PROP, i);
        k.log = &yaml_log; k.has_fn = hf; k.late = true;
        if (from_file) {
            FILE *fp = fmemopen((void *)text.data(), text.size(), "r");
            if (!fp) break;
            icall(k, [&] { return vnaproperty_import_yaml_from_file(&P.root, fp, "import.yaml", hf ? errlog_fn : nullptr, hf ? &yaml_log : nullptr); });
            fclose(fp);
        } else icall(k, [&] { return vnaproperty_import_yaml_from_string(&P.root, text.c_str(), hf ? errlog_fn : nullptr, hf ? &yaml_log : nullptr); });
        if (good) did_saveload = true;
        break;
    }
    default: {  // drop the root (vnaproperty_delete "." is the matching free function)
        c.note("vnaproperty_delete(p%d, \".\") and forget", i);
        Call k = mk("vnaproperty_delete", XP_OK, C_USAGE, "valid", O_PROP, i); k.log = nullptr;
        icall(k, [&] { return vnaproperty_delete(&P.root, "."); });
        break;
    }
    }
}

// ================================================================================== vnaconv ====
// All functions return void and document no failure: only "no crash, no leak".
inline void Exec::op_conv() {
    dcx in[25], out[25], z0[5], zi[5];
    int n = (int)c.range(1, 5);
    bool zero = c.chance(1, 6);
    for (int i = 0; i < 25; i++) in[i] = zero ? mkc(0, 0) : gval();
    for (int i = 0; i < 5; i++) z0[i] = c.chance(1, 8) ? mkc(0, 0) : gz0();
    int f = (int)c.draw(12);
    c.note("vnaconv #%d n=%d%s", f, n, zero ? " (zero matrix)" : "");
    Call k = mk("vnaconv", XP_EITHER, 0, "valid");
    typedef const dcx (*M2)[2]; typedef dcx (*O2)[2];
    vcall(k, [&] {
        switch (f) {
        case 0: vnaconv_stot((M2)in, (O2)out); break;
        case 1: vnaconv_ttos((M2)in, (O2)out); break;
        case 2: vnaconv_stoz((M2)in, (O2)out, z0); break;
        case 3: vnaconv_ztos((M2)in, (O2)out, z0); break;
        case 4: vnaconv_stoa((M2)in, (O2)out, z0); break;
        case 5: vnaconv_atob((M2)in, (O2)out); break;
        case 6: vnaconv_htog((M2)in, (O2)out); break;
        case 7: vnaconv_stozi((M2)in, zi, z0); break;
        case 8: vnaconv_stozn(in, out, z0, n); break;
        case 9: vnaconv_ztosn(in, out, z0, n); break;
        case 10: vnaconv_stozin(in, zi, z0, n); break;
        default: vnaconv_ztoyn(in, out, n); break;
        }
    });
}

} // namespace apix
