// pbt_main.cpp -- driver for the tape engine: run / enum / replay / shrink.
#include "pbt.hpp"
#include <unistd.h>
#include <signal.h>
#include <fcntl.h>
#include <time.h>
#include <sys/mman.h>
#include <sys/wait.h>
#include <sys/stat.h>
#include <unordered_set>
#include <algorithm>
#include <exception>

using namespace pbt;

extern "C" int __lsan_do_recoverable_leak_check(void) __attribute__((weak));
extern "C" size_t __sanitizer_get_current_allocated_bytes(void) __attribute__((weak));
__attribute__((weak)) void pbt_global_setup() {}
__attribute__((weak)) void pbt_extra_json(FILE *) {}

static Shared *g_sh;
static int g_leak_every = 5000;
static std::string g_errfile;           // child stderr capture

static uint64_t now_ns() {
    struct timespec ts; clock_gettime(CLOCK_MONOTONIC, &ts);
    return (uint64_t)ts.tv_sec * 1000000000ull + ts.tv_nsec;
}

static uint64_t tape_hash(const Shared *sh, size_t n) {
    uint64_t h = 0xcbf29ce484222325ull;
    for (size_t i = 0; i < n; i++) h = mix(h, sh->tape[i]);
    return h;
}

static std::string json_escape(const std::string &s) {
    std::string o;
    for (unsigned char ch : s) {
        switch (ch) {
        case '"': o += "\\\""; break;
        case '\\': o += "\\\\"; break;
        case '\n': o += "\\n"; break;
        case '\t': o += "\\t"; break;
        case '\r': o += "\\r"; break;
        default:
            if (ch < 0x20 || ch >= 0x7f) { char b[8]; snprintf(b, sizeof b, "\\u%04x", ch); o += b; }
            else o += (char)ch;
        }
    }
    return o;
}

// Run one case in this process.  Returns 0 pass, 2 fail (code/msg in shared).
static int run_one(Ctx &c) {
    g_sh->tape_len = 0;
    g_sh->status = 0;
    g_sh->nmarks = 0;
    try {
        // Leak oracle: LeakSanitizer's check costs ~50 ms, so it runs (a) whenever the
        // heap grew across the case (a leak always does that; harness-side growth only
        // costs a confirming check) and (b) every g_leak_every-th case regardless.
        size_t before = __sanitizer_get_current_allocated_bytes ? __sanitizer_get_current_allocated_bytes() : 0;
        pbt_property(c);
        size_t after = __sanitizer_get_current_allocated_bytes ? __sanitizer_get_current_allocated_bytes() : 0;
        bool grew = after > before + (c.want_desc ? c.desc.capacity() + 64 : 0);
        if (__lsan_do_recoverable_leak_check && g_leak_every >= 0 &&
            (grew || (g_leak_every > 0 && (g_sh->evaluations % (uint64_t)g_leak_every) == 0))) {
            if (__lsan_do_recoverable_leak_check() != 0)
                throw Fail{"lsan.leak", "LeakSanitizer reported a leak after the case (see stderr)"};
        }
    } catch (const Fail &f) {
        snprintf((char *)g_sh->code, sizeof g_sh->code, "%s", f.code.c_str());
        snprintf((char *)g_sh->msg, sizeof g_sh->msg, "%s", f.msg.c_str());
        g_sh->flags = c.is_nontrivial ? 1 : 0;
        g_sh->status = 2;
        return 2;
    } catch (const std::exception &e) {
        snprintf((char *)g_sh->code, sizeof g_sh->code, "harness.exception");
        snprintf((char *)g_sh->msg, sizeof g_sh->msg, "%s", e.what());
        g_sh->status = 2;
        return 2;
    }
    g_sh->flags = c.is_nontrivial ? 1 : 0;
    g_sh->status = 1;
    return 0;
}

struct Options {
    std::string mode;
    uint64_t seed = 1;
    uint64_t count = 100;
    int max_size = 100;
    double max_seconds = 1e9;
    double hang_seconds = 20;
    std::string stats, replay_out, file, hashes;
    bool inproc = false;
    int shrink_budget = 3000;
    double shrink_seconds = 120;
    bool verbose = false;
    unsigned shard = 0, nshards = 1;     // enum mode: this process takes first-choice values == shard (mod nshards)
};

// ---------------------------------------------------------------- worker --
static int worker_run(const Options &o, bool enumerate) {
    pbt_global_setup();
    std::unordered_set<uint64_t> distinct;
    std::map<int, uint64_t> labels;
    std::map<int, double> maxima;
    std::vector<std::string> samples;
    uint64_t t0 = now_ns();
    bool truncated = false, exhausted = false;
    uint64_t overruns = 0;
    std::vector<uint64_t> prefix;
    uint64_t i = 0, n_eval = 0;
    int rc = 0;
    for (; i < o.count; i++) {
        if ((double)(now_ns() - t0) / 1e9 > o.max_seconds) { truncated = true; break; }
        Ctx c;
        c.sh = g_sh;
        c.exhaustive = enumerate;
        if (enumerate) { c.replay = true; c.in = prefix; c.size = o.max_size; }
        else {
            c.rng = mix(o.seed, i);
            c.size = (int)(i % (uint64_t)(o.max_size + 1));
        }
        c.want_desc = (i < 40) || (i % 500 == 0);
        g_sh->case_index = i; g_sh->case_seed = c.rng; g_sh->case_size = c.size;
        g_sh->case_start_ns = now_ns();
        rc = run_one(c);
        // enum sharding: tapes are partitioned into blocks by their first ENUM_L choices; a
        // block belongs to shard hash(block) % nshards.  One representative of every foreign
        // block is still run (it supplies the arities the odometer needs) but not counted.
        const size_t ENUM_L = 3;
        bool mine = true;
        if (enumerate && o.nshards > 1) {
            uint64_t h = 0x1234; for (size_t q = 0; q < ENUM_L; q++) h = mix(h, q < c.pos ? g_sh->tape[q] : 0);
            mine = (h % o.nshards) == o.shard;
        }
        if (rc != 0) { g_sh->evaluations = n_eval + 1; break; }
        if (!mine) {
            size_t n = std::min(c.pos, ENUM_L);
            prefix.assign(g_sh->tape, g_sh->tape + n);
            ssize_t k = (ssize_t)n - 1;
            while (k >= 0 && prefix[k] + 1 >= g_sh->arity[k]) k--;
            if (k < 0) { exhausted = true; break; }
            prefix[k]++; prefix.resize(k + 1);
            continue;
        }
        g_sh->evaluations = ++n_eval;
        for (int k = 0; k < c.nlabels; k++) labels[c.label_ids[k]]++;
        for (int k = 0; k < c.nmax; k++) { auto it = maxima.find(c.max_ids[k]); if (it == maxima.end() || c.max_vals[k] > it->second) maxima[c.max_ids[k]] = c.max_vals[k]; }
        if (c.is_nontrivial) {
            distinct.insert(tape_hash(g_sh, c.pos));
            g_sh->nontrivial = distinct.size();
            if (c.want_desc && samples.size() < 4 && !c.desc.empty()) samples.push_back(c.desc);
        }
        if (enumerate) {
            // odometer: advance the last position that can still be increased
            size_t n = c.pos;
            prefix.assign(g_sh->tape, g_sh->tape + n);
            ssize_t k = (ssize_t)n - 1;
            while (k >= 0 && prefix[k] + 1 >= g_sh->arity[k]) k--;
            if (k < 0) { exhausted = true; break; }
            prefix[k]++; prefix.resize(k + 1);
        } else if (c.overrun) overruns++;
    }
    if (rc != 0) return 3;   // supervisor picks the failing tape out of shared memory
    if (!o.hashes.empty()) {
        FILE *f = fopen(o.hashes.c_str(), "wb");
        if (f) { for (uint64_t h : distinct) fwrite(&h, 8, 1, f); fclose(f); }
    }
    if (!o.stats.empty()) {
        FILE *f = fopen(o.stats.c_str(), "w");
        if (!f) { perror(o.stats.c_str()); return 4; }
        fprintf(f, "{\n \"property\": \"%s\",\n \"mode\": \"%s\",\n \"seed\": %llu,\n", PBT_PROPERTY,
                enumerate ? "enum" : "run", (unsigned long long)o.seed);
        fprintf(f, " \"evaluations\": %llu,\n \"distinct_nontrivial\": %zu,\n", (unsigned long long)n_eval, distinct.size());
        fprintf(f, " \"truncated\": %s,\n \"exhausted\": %s,\n", truncated ? "true" : "false", exhausted ? "true" : "false");
        fprintf(f, " \"wall_s\": %.3f,\n", (double)(now_ns() - t0) / 1e9);
        fprintf(f, " \"labels\": {");
        bool first = true;
        for (auto &l : labels) { fprintf(f, "%s\"%s\": %llu", first ? "" : ", ", json_escape(Ctx::names()[l.first]).c_str(), (unsigned long long)l.second); first = false; }
        fprintf(f, "},\n \"maxima\": {");
        first = true;
        for (auto &m : maxima) { fprintf(f, "%s\"%s\": %.6g", first ? "" : ", ", json_escape(Ctx::names()[m.first]).c_str(), std::isfinite(m.second) ? m.second : 1e308); first = false; }
        fprintf(f, "},\n");
        pbt_extra_json(f);
        fprintf(f, " \"samples\": [");
        first = true;
        for (auto &s : samples) { fprintf(f, "%s\"%s\"", first ? "" : ", ", json_escape(s).c_str()); first = false; }
        fprintf(f, "],\n \"failure\": null\n}\n");
        fclose(f);
    }
    return 0;
}

// ------------------------------------------------------ child execution --
struct Outcome {
    int kind = 0;            // 0 pass, 1 oracle fail, 2 crash, 3 hang
    std::string code, msg;
    std::vector<uint64_t> tape;   // consumed tape
    std::vector<uint32_t> marks;  // structural boundaries
    bool nontrivial = false;
    std::string desc;
};

static std::string slurp(const std::string &path, size_t max = 1 << 20) {
    std::string s; FILE *f = fopen(path.c_str(), "r");
    if (!f) return s;
    char buf[65536]; size_t n;
    while ((n = fread(buf, 1, sizeof buf, f)) > 0 && s.size() < max) s.append(buf, n);
    fclose(f); return s;
}

// classify a crash from the child's stderr
static std::string crash_code(const std::string &err, int wstatus) {
    size_t p;
    if ((p = err.find("ERROR: AddressSanitizer: ")) != std::string::npos) {
        size_t b = p + strlen("ERROR: AddressSanitizer: ");
        size_t e = err.find_first_of(" \n", b);
        return "asan." + err.substr(b, e - b);
    }
    if ((p = err.find("runtime error: ")) != std::string::npos) {
        // "<file>:<line>:<col>: runtime error: <text>"
        size_t ls = err.rfind('\n', p); ls = (ls == std::string::npos) ? 0 : ls + 1;
        std::string loc = err.substr(ls, p - ls);
        // strip directory and column
        size_t sl = loc.rfind('/'); if (sl != std::string::npos) loc = loc.substr(sl + 1);
        size_t c1 = loc.find(':'); size_t c2 = (c1 == std::string::npos) ? c1 : loc.find(':', c1 + 1);
        if (c2 != std::string::npos) loc = loc.substr(0, c2);
        return "ubsan@" + loc;
    }
    if ((p = err.find("Assertion `")) != std::string::npos || (p = err.find("Assertion '")) != std::string::npos) {
        // "prog: file.c:123: func: Assertion `...' failed."
        size_t ls = err.rfind('\n', p); ls = (ls == std::string::npos) ? 0 : ls + 1;
        std::string line = err.substr(ls, p - ls);
        size_t c1 = line.find(": ");
        std::string loc = (c1 == std::string::npos) ? line : line.substr(c1 + 2);
        size_t sl = loc.rfind('/'); if (sl != std::string::npos) loc = loc.substr(sl + 1);
        size_t c2 = loc.find(':'); size_t c3 = (c2 == std::string::npos) ? c2 : loc.find(':', c2 + 1);
        if (c3 != std::string::npos) loc = loc.substr(0, c3);
        return "assert@" + loc;
    }
    if (err.find("ERROR: LeakSanitizer") != std::string::npos) return "lsan.leak";
    if (err.find("AddressSanitizer: stack-overflow") != std::string::npos) return "asan.stack-overflow";
    char b[64];
    if (WIFSIGNALED(wstatus)) snprintf(b, sizeof b, "signal.%d", WTERMSIG(wstatus));
    else snprintf(b, sizeof b, "exit.%d", WEXITSTATUS(wstatus));
    return b;
}

static Outcome run_child(const std::vector<uint64_t> &tape, int size, bool exhaustive, double timeout_s, bool want_desc) {
    Outcome out;
    g_sh->tape_len = 0; g_sh->status = 0; g_sh->flags = 0; g_sh->code[0] = 0; g_sh->msg[0] = 0;
    int dp[2] = {-1, -1};
    if (want_desc && pipe(dp) != 0) want_desc = false;
    fflush(stdout); fflush(stderr);
    pid_t pid = fork();
    if (pid == 0) {
        int fd = open(g_errfile.c_str(), O_WRONLY | O_CREAT | O_TRUNC, 0644);
        if (fd >= 0) { dup2(fd, 2); close(fd); }
        if (want_desc) close(dp[0]);
        pbt_global_setup();
        Ctx c; c.sh = g_sh; c.replay = true; c.in = tape; c.size = size; c.exhaustive = exhaustive; c.want_desc = want_desc;
        if (want_desc) c.desc_fd = dp[1];
        g_sh->evaluations = 0;
        g_sh->case_start_ns = now_ns();
        // describe even when the case fails
        int rc;
        g_sh->tape_len = 0; g_sh->status = 0;
        rc = run_one(c);
        if (want_desc) close(dp[1]);
        _exit(rc == 0 ? 0 : 3);
    }
    if (want_desc) close(dp[1]);
    std::string desc;
    uint64_t t0 = now_ns();
    int wstatus = 0; bool hung = false;
    if (want_desc) {   // read until EOF (child exit) -- bounded by timeout via alarm-less polling
        fcntl(dp[0], F_SETFL, O_NONBLOCK);
    }
    for (;;) {
        if (want_desc) { char b[4096]; ssize_t n; while ((n = read(dp[0], b, sizeof b)) > 0) desc.append(b, n); }
        pid_t r = waitpid(pid, &wstatus, WNOHANG);
        if (r == pid) break;
        if ((double)(now_ns() - t0) / 1e9 > timeout_s) { kill(pid, SIGKILL); waitpid(pid, &wstatus, 0); hung = true; break; }
        usleep(200);
    }
    if (want_desc) { char b[4096]; ssize_t n; while ((n = read(dp[0], b, sizeof b)) > 0) desc.append(b, n); close(dp[0]); }
    out.desc = desc;
    size_t n = g_sh->tape_len; if (n > TAPE_CAP) n = TAPE_CAP;
    out.tape.assign(g_sh->tape, g_sh->tape + n);
    { uint32_t nm = g_sh->nmarks; if (nm > MARK_CAP) nm = MARK_CAP; out.marks.assign(g_sh->marks, g_sh->marks + nm); }
    out.nontrivial = g_sh->flags & 1;
    if (hung) { out.kind = 3; out.code = "hang"; out.msg = "case did not finish within the watchdog limit"; return out; }
    if (WIFEXITED(wstatus) && WEXITSTATUS(wstatus) == 0 && g_sh->status == 1) { out.kind = 0; return out; }
    if (WIFEXITED(wstatus) && WEXITSTATUS(wstatus) == 3 && g_sh->status == 2) {
        out.kind = 1; out.code = (const char *)g_sh->code; out.msg = (const char *)g_sh->msg;
        if (out.code == "lsan.leak") { std::string e = slurp(g_errfile, 4000); out.msg += "\n" + e; }
        return out;
    }
    std::string err = slurp(g_errfile);
    out.kind = 2; out.code = crash_code(err, wstatus);
    out.msg = err.substr(0, 3000);
    return out;
}

// ------------------------------------------------------------- shrinking --
static Outcome shrink(Outcome best, int size, bool exhaustive, const Options &o) {
    uint64_t t0 = now_ns();
    int attempts = 0;
    double tmo = best.kind == 3 ? std::min(o.hang_seconds, 6.0) : o.hang_seconds;
    auto try_tape = [&](const std::vector<uint64_t> &cand) -> bool {
        if (attempts >= o.shrink_budget || (double)(now_ns() - t0) / 1e9 > o.shrink_seconds) return false;
        attempts++;
        Outcome r = run_child(cand, size, exhaustive, tmo, false);
        if (r.kind != 0 && r.code == best.code) {
            // adopt the tape as actually consumed (normalised, truncated)
            if (r.tape.size() < best.tape.size() || (r.tape.size() == best.tape.size() && r.tape < best.tape)) { best = r; return true; }
            if (r.tape.size() == best.tape.size() && r.tape == best.tape) return false;
        }
        return false;
    };
    bool progress = true;
    while (progress && attempts < o.shrink_budget && (double)(now_ns() - t0) / 1e9 < o.shrink_seconds) {
        progress = false;
        // 0. delete whole structural spans (operations), longest runs first
        for (size_t run = 8; run >= 1; run /= 2) {
            for (size_t i = 0; i < best.marks.size();) {
                std::vector<uint32_t> mk = best.marks; mk.push_back((uint32_t)best.tape.size());
                if (i + run >= mk.size()) break;
                size_t a = mk[i], b = mk[i + run];
                if (a >= b || b > best.tape.size()) { i++; continue; }
                std::vector<uint64_t> cand(best.tape.begin(), best.tape.begin() + a);
                cand.insert(cand.end(), best.tape.begin() + b, best.tape.end());
                if (try_tape(cand)) progress = true; else i++;
            }
            if (run == 1) break;
        }
        // 1. delete chunks
        for (size_t k = std::max<size_t>(1, best.tape.size() / 2); k >= 1; k /= 2) {
            for (size_t i = 0; i + k <= best.tape.size();) {
                std::vector<uint64_t> cand(best.tape.begin(), best.tape.begin() + i);
                cand.insert(cand.end(), best.tape.begin() + i + k, best.tape.end());
                if (try_tape(cand)) progress = true; else i += k;
            }
            if (k == 1) break;
        }
        // 2. zero chunks
        for (size_t k = 8; k >= 1; k /= 2) {
            for (size_t i = 0; i + k <= best.tape.size(); i += k) {
                bool allz = true; for (size_t j = i; j < i + k; j++) if (best.tape[j]) allz = false;
                if (allz) continue;
                std::vector<uint64_t> cand = best.tape;
                for (size_t j = i; j < i + k; j++) cand[j] = 0;
                if (try_tape(cand)) progress = true;
            }
            if (k == 1) break;
        }
        // 3. lower single values (binary search towards 0)
        for (size_t i = 0; i < best.tape.size(); i++) {
            uint64_t v = best.tape[i];
            if (v == 0) continue;
            uint64_t lo = 0, hi = v;   // invariant: hi fails
            std::vector<uint64_t> cand = best.tape; cand[i] = v - 1;
            if (!try_tape(cand)) continue;
            progress = true;
            if (i >= best.tape.size()) break;
            hi = best.tape[i];
            while (lo < hi && attempts < o.shrink_budget) {
                uint64_t mid = lo + (hi - lo) / 2;
                if (i >= best.tape.size()) break;
                cand = best.tape; cand[i] = mid;
                if (try_tape(cand)) { if (i >= best.tape.size()) break; hi = best.tape[i]; }
                else lo = mid + 1;
            }
        }
    }
    fprintf(stderr, "[pbt] shrink: %d attempts, tape length %zu\n", attempts, best.tape.size());
    return best;
}

static void write_replay(const std::string &path, const Outcome &f, int size, bool exhaustive) {
    FILE *fp = fopen(path.c_str(), "w");
    if (!fp) { perror(path.c_str()); return; }
    fprintf(fp, "# libvna-verif replay file (tape engine)\nproperty: %s\ncode: %s\nsize: %d\nexhaustive: %d\ntape:", PBT_PROPERTY, f.code.c_str(), size, exhaustive ? 1 : 0);
    for (uint64_t v : f.tape) fprintf(fp, " %llu", (unsigned long long)v);
    fprintf(fp, "\n# --- message ---\n");
    std::string m = f.msg; size_t p = 0;
    while (p < m.size()) { size_t e = m.find('\n', p); if (e == std::string::npos) e = m.size(); fprintf(fp, "# %s\n", m.substr(p, e - p).c_str()); p = e + 1; }
    fprintf(fp, "# --- case ---\n");
    m = f.desc; p = 0;
    while (p < m.size()) { size_t e = m.find('\n', p); if (e == std::string::npos) e = m.size(); fprintf(fp, "# %s\n", m.substr(p, e - p).c_str()); p = e + 1; }
    fclose(fp);
}

static bool read_replay(const std::string &path, std::vector<uint64_t> &tape, int &size, bool &exhaustive, std::string &code) {
    FILE *fp = fopen(path.c_str(), "r");
    if (!fp) { perror(path.c_str()); return false; }
    char *line = nullptr; size_t cap = 0; bool got = false;
    while (getline(&line, &cap, fp) > 0) {
        if (!strncmp(line, "size:", 5)) size = atoi(line + 5);
        else if (!strncmp(line, "exhaustive:", 11)) exhaustive = atoi(line + 11) != 0;
        else if (!strncmp(line, "code:", 5)) { code = line + 5; while (!code.empty() && (code.back() == '\n' || code.back() == ' ')) code.pop_back(); while (!code.empty() && code[0] == ' ') code.erase(0, 1); }
        else if (!strncmp(line, "tape:", 5)) {
            got = true; char *p = line + 5;
            for (;;) { char *e; unsigned long long v = strtoull(p, &e, 10); if (e == p) break; tape.push_back(v); p = e; }
        }
    }
    free(line); fclose(fp);
    return got;
}

static void print_failure_json(const Options &o, const Outcome &f, uint64_t evals, uint64_t nontriv, const std::string &replay) {
    if (o.stats.empty()) return;
    FILE *fp = fopen(o.stats.c_str(), "w");
    if (!fp) return;
    fprintf(fp, "{\n \"property\": \"%s\",\n \"seed\": %llu,\n \"evaluations\": %llu,\n \"distinct_nontrivial\": %llu,\n \"truncated\": false, \"exhausted\": false, \"labels\": {}, \"maxima\": {}, \"samples\": [],\n",
            PBT_PROPERTY, (unsigned long long)o.seed, (unsigned long long)evals, (unsigned long long)nontriv);
    fprintf(fp, " \"failure\": {\"kind\": %d, \"code\": \"%s\", \"msg\": \"%s\", \"replay\": \"%s\", \"tape_len\": %zu}\n}\n",
            f.kind, json_escape(f.code).c_str(), json_escape(f.msg.substr(0, 1500)).c_str(), json_escape(replay).c_str(), f.tape.size());
    fclose(fp);
}

// ------------------------------------------------------------------ main --
int main(int argc, char **argv) {
    Options o;
    if (argc < 2) { fprintf(stderr, "usage: %s run|enum|replay|shrink [options]\n", argv[0]); return 2; }
    o.mode = argv[1];
    for (int i = 2; i < argc; i++) {
        std::string a = argv[i];
        auto val = [&]() -> const char * { if (i + 1 >= argc) { fprintf(stderr, "missing value for %s\n", a.c_str()); exit(2); } return argv[++i]; };
        if (a == "--seed") o.seed = strtoull(val(), 0, 10);
        else if (a == "--count") o.count = strtoull(val(), 0, 10);
        else if (a == "--max-size") o.max_size = atoi(val());
        else if (a == "--max-seconds") o.max_seconds = atof(val());
        else if (a == "--hang-seconds") o.hang_seconds = atof(val());
        else if (a == "--stats") o.stats = val();
        else if (a == "--hashes") o.hashes = val();
        else if (a == "--replay-out") o.replay_out = val();
        else if (a == "--file") o.file = val();
        else if (a == "--leak-every") g_leak_every = atoi(val());
        else if (a == "--inproc") o.inproc = true;
        else if (a == "--shrink-budget") o.shrink_budget = atoi(val());
        else if (a == "--shrink-seconds") o.shrink_seconds = atof(val());
        else if (a == "--enum-shard") { const char *v = val(); o.shard = (unsigned)atoi(v); const char *sl = strchr(v, '/'); o.nshards = sl ? (unsigned)atoi(sl + 1) : 1; if (o.nshards < 1) o.nshards = 1; }
        else if (a == "-v") o.verbose = true;
        else { fprintf(stderr, "unknown option %s\n", a.c_str()); return 2; }
    }
    g_sh = (Shared *)mmap(nullptr, sizeof(Shared), PROT_READ | PROT_WRITE, MAP_SHARED | MAP_ANONYMOUS, -1, 0);
    if (g_sh == MAP_FAILED) { perror("mmap"); return 2; }
    memset((void *)g_sh, 0, offsetof(Shared, tape));
    {
        const char *td = getenv("PBT_TMPDIR"); if (!td) td = "/tmp";
        char b[512]; snprintf(b, sizeof b, "%s/pbt-%s-%d.err", td, PBT_PROPERTY, (int)getpid());
        g_errfile = b;
    }
    int ret = 0;
    if (o.mode == "replay") {
        std::vector<uint64_t> tape; int size = 30; bool ex = false; std::string code;
        if (!read_replay(o.file, tape, size, ex, code)) { fprintf(stderr, "cannot read tape from %s\n", o.file.c_str()); return 2; }
        if (o.inproc) {
            pbt_global_setup();
            Ctx c; c.sh = g_sh; c.replay = true; c.in = tape; c.size = size; c.exhaustive = ex; c.want_desc = true;
            int rc = run_one(c);
            fputs(c.desc.c_str(), stdout);
            if (rc) printf("REPLAY-FAIL code=%s msg=%s\n", (const char *)g_sh->code, (const char *)g_sh->msg); else printf("REPLAY-PASS\n");
            return rc ? 1 : 0;
        }
        Outcome r = run_child(tape, size, ex, o.hang_seconds, true);
        if (o.verbose) fputs(r.desc.c_str(), stdout);
        if (r.kind == 0) { printf("REPLAY-PASS expected=%s\n", code.c_str()); ret = 0; }
        else {
            std::string m = r.msg; if (!o.verbose && m.size() > 600) m.resize(600);
            printf("REPLAY-FAIL kind=%d code=%s expected=%s\n%s\n", r.kind, r.code.c_str(), code.c_str(), m.c_str());
            ret = 1;
        }
    } else if (o.mode == "run" || o.mode == "enum") {
        bool enumerate = (o.mode == "enum");
        fflush(stdout);
        pid_t pid = fork();
        if (pid == 0) {
            int fd = open(g_errfile.c_str(), O_WRONLY | O_CREAT | O_TRUNC, 0644);
            if (fd >= 0) { dup2(fd, 2); close(fd); }
            _exit(worker_run(o, enumerate));
        }
        int wstatus = 0; bool hung = false;
        g_sh->case_start_ns = now_ns();
        for (;;) {
            pid_t r = waitpid(pid, &wstatus, WNOHANG);
            if (r == pid) break;
            uint64_t st = g_sh->case_start_ns;
            if (st && (double)(now_ns() - st) / 1e9 > o.hang_seconds) { kill(pid, SIGKILL); waitpid(pid, &wstatus, 0); hung = true; break; }
            usleep(20000);
        }
        if (!hung && WIFEXITED(wstatus) && WEXITSTATUS(wstatus) == 0) { ret = 0; }
        else if (!hung && WIFEXITED(wstatus) && WEXITSTATUS(wstatus) == 4) { ret = 2; }
        else {
            Outcome f;
            size_t n = g_sh->tape_len; if (n > TAPE_CAP) n = TAPE_CAP;
            f.tape.assign(g_sh->tape, g_sh->tape + n);
            int size = (int)g_sh->case_size; if (enumerate) size = o.max_size;
            uint64_t evals = g_sh->evaluations, nontriv = g_sh->nontrivial;
            if (hung) { f.kind = 3; f.code = "hang"; }
            else if (WIFEXITED(wstatus) && WEXITSTATUS(wstatus) == 3 && g_sh->status == 2) { f.kind = 1; f.code = (const char *)g_sh->code; f.msg = (const char *)g_sh->msg; }
            else { std::string err = slurp(g_errfile); f.kind = 2; f.code = crash_code(err, wstatus); f.msg = err.substr(0, 3000); }
            fprintf(stderr, "[pbt] %s: case %llu failed: %s; shrinking (tape %zu)\n", PBT_PROPERTY, (unsigned long long)g_sh->case_index, f.code.c_str(), f.tape.size());
            // confirm by replay, then shrink
            Outcome r0 = run_child(f.tape, size, enumerate, f.kind == 3 ? o.hang_seconds : o.hang_seconds, false);
            if (r0.kind == 0 || r0.code != f.code) {
                fprintf(stderr, "[pbt] warning: failure did not reproduce from its tape (got kind=%d code=%s)\n", r0.kind, r0.code.c_str());
                f.msg = "NOT REPRODUCED FROM TAPE (state leaked between cases?)\n" + f.msg;
                f.code = "pbt.unreproducible:" + f.code;
            } else {
                f = shrink(r0, size, enumerate, o);
            }
            Outcome fin = run_child(f.tape, size, enumerate, o.hang_seconds, true);
            if (fin.kind != 0) { f.desc = fin.desc; if (fin.code == f.code) f.msg = fin.msg; }
            std::string rp = o.replay_out.empty() ? std::string("replay-") + PBT_PROPERTY + ".txt" : o.replay_out;
            write_replay(rp, f, size, enumerate);
            print_failure_json(o, f, evals, nontriv, rp);
            printf("FAILURE property=%s code=%s replay=%s\n", PBT_PROPERTY, f.code.c_str(), rp.c_str());
            ret = 1;
        }
    } else if (o.mode == "shrink") {
        std::vector<uint64_t> tape; int size = 30; bool ex = false; std::string code;
        if (!read_replay(o.file, tape, size, ex, code)) return 2;
        Outcome r0 = run_child(tape, size, ex, o.hang_seconds, false);
        if (r0.kind == 0) { printf("SHRINK: case passes\n"); ret = 0; }
        else {
            Outcome f = shrink(r0, size, ex, o);
            Outcome fin = run_child(f.tape, size, ex, o.hang_seconds, true);
            f.desc = fin.desc;
            std::string rp = o.replay_out.empty() ? o.file + ".min" : o.replay_out;
            write_replay(rp, f, size, ex);
            printf("FAILURE property=%s code=%s replay=%s\n", PBT_PROPERTY, f.code.c_str(), rp.c_str());
            ret = 1;
        }
    } else { fprintf(stderr, "unknown mode %s\n", o.mode.c_str()); ret = 2; }
    unlink(g_errfile.c_str());
    return ret;
}
