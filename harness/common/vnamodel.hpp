// vnamodel.hpp -- physical E-term model of a VNA (independent of libvna's algebra):
//     M = El + Er (I - S Em)^-1 S Et
// with P = max(rows, cols) ports, El rows x cols, Er rows x P, Et P x cols, Em P x P.
// The calibration type only restricts which entries may be non-zero:
//   T8/U8     all four blocks diagonal
//   TE10/UE10 El full, others diagonal
//   T16/U16   all full
//   UE14/E12  one independent (El(:,j), diag Er_j, diag Em_j, scalar Et_j) per driving column j
// Also: small long-double complex linear algebra, singular values (one-sided Jacobi) and the
// identifiability test (numeric Jacobian of the usable measured cells w.r.t. the box parameters).
#pragma once
#include <complex>
#include <vector>
#include <cmath>
#include <algorithm>
#include <functional>

namespace vm {

typedef std::complex<long double> C;
typedef long double R;

struct Mat {
    int r = 0, c = 0;
    std::vector<C> a;
    Mat() {}
    Mat(int r_, int c_) : r(r_), c(c_), a((size_t)r_ * c_, C(0, 0)) {}
    C &operator()(int i, int j) { return a[(size_t)i * c + j]; }
    const C &operator()(int i, int j) const { return a[(size_t)i * c + j]; }
    static Mat eye(int n) { Mat m(n, n); for (int i = 0; i < n; i++) m(i, i) = 1; return m; }
};
static inline Mat mul(const Mat &A, const Mat &B) {
    Mat X(A.r, B.c);
    for (int i = 0; i < A.r; i++) for (int k = 0; k < A.c; k++) { C v = A(i, k); if (v == C(0, 0)) continue; for (int j = 0; j < B.c; j++) X(i, j) += v * B(k, j); }
    return X;
}
static inline Mat add(const Mat &A, const Mat &B, R sb = 1) { Mat X = A; for (size_t i = 0; i < X.a.size(); i++) X.a[i] += sb * B.a[i]; return X; }
// Solve A X = B by Gaussian elimination with complete pivoting.  Returns false if a pivot is 0.
static inline bool solve(Mat A, Mat B, Mat &X) {
    int n = A.r; std::vector<int> colperm(n); for (int i = 0; i < n; i++) colperm[i] = i;
    for (int k = 0; k < n; k++) {
        int pi = k, pj = k; R best = -1;
        for (int i = k; i < n; i++) for (int j = k; j < n; j++) { R v = std::abs(A(i, j)); if (v > best) { best = v; pi = i; pj = j; } }
        if (!(best > 0)) return false;
        if (pi != k) { for (int j = 0; j < n; j++) std::swap(A(k, j), A(pi, j)); for (int j = 0; j < B.c; j++) std::swap(B(k, j), B(pi, j)); }
        if (pj != k) { for (int i = 0; i < n; i++) std::swap(A(i, k), A(i, pj)); std::swap(colperm[k], colperm[pj]); }
        for (int i = k + 1; i < n; i++) {
            C f = A(i, k) / A(k, k); if (f == C(0, 0)) continue;
            for (int j = k; j < n; j++) A(i, j) -= f * A(k, j);
            for (int j = 0; j < B.c; j++) B(i, j) -= f * B(k, j);
        }
    }
    Mat Y(n, B.c);
    for (int k = n - 1; k >= 0; k--) for (int j = 0; j < B.c; j++) { C s = B(k, j); for (int t = k + 1; t < n; t++) s -= A(k, t) * Y(t, j); Y(k, j) = s / A(k, k); }
    X = Mat(n, B.c);
    for (int k = 0; k < n; k++) for (int j = 0; j < B.c; j++) X(colperm[k], j) = Y(k, j);
    return true;
}
static inline bool inverse(const Mat &A, Mat &X) { return solve(A, Mat::eye(A.r), X); }
// Singular values (descending) by one-sided Jacobi on the columns.
static inline std::vector<R> singular_values(Mat A) {
    if (A.r < A.c) { Mat T(A.c, A.r); for (int i = 0; i < A.r; i++) for (int j = 0; j < A.c; j++) T(j, i) = std::conj(A(i, j)); A = T; }
    int m = A.r, n = A.c;
    for (int sweep = 0; sweep < 60; sweep++) {
        R off = 0;
        for (int p = 0; p < n - 1; p++) for (int q = p + 1; q < n; q++) {
            R app = 0, aqq = 0; C apq(0, 0);
            for (int i = 0; i < m; i++) { app += std::norm(A(i, p)); aqq += std::norm(A(i, q)); apq += std::conj(A(i, p)) * A(i, q); }
            R g = std::abs(apq);
            if (g <= 1e-30L * std::sqrt(app * aqq) || g == 0) continue;
            off = std::max(off, g / std::sqrt(app * aqq + 1e-4000L));
            C ph = apq / g;                       // rotate phase so the 2x2 problem is real
            R tau = (aqq - app) / (2 * g);
            R t = (tau >= 0 ? 1 : -1) / (std::fabs(tau) + std::sqrt(1 + tau * tau));
            R cs = 1 / std::sqrt(1 + t * t), sn = cs * t;
            for (int i = 0; i < m; i++) {
                C x = A(i, p), y = A(i, q) * std::conj(ph);
                A(i, p) = cs * x - sn * y;
                A(i, q) = (sn * x + cs * y) * ph;
            }
        }
        if (off < 1e-17L) break;
    }
    std::vector<R> s(n);
    for (int j = 0; j < n; j++) { R v = 0; for (int i = 0; i < m; i++) v += std::norm(A(i, j)); s[j] = std::sqrt(v); }
    std::sort(s.begin(), s.end(), std::greater<R>());
    return s;
}
static inline R cond2(const Mat &A) { auto s = singular_values(A); if (s.empty() || s.back() == 0) return INFINITY; return s.front() / s.back(); }

enum Type { T8 = 0, U8, TE10, UE10, T16, U16, UE14, E12 };
static inline bool is_T(int t) { return t == T8 || t == TE10 || t == T16; }
static inline bool is_16(int t) { return t == T16 || t == U16; }
static inline bool is_colsys(int t) { return t == UE14 || t == E12; }
static inline bool has_leakage(int t) { return t != T8 && t != U8; }
static inline const char *tname(int t) { static const char *n[] = {"T8", "U8", "TE10", "UE10", "T16", "U16", "UE14", "E12"}; return n[t]; }

struct Box {
    int type = T8, r = 1, c = 1, P = 1;
    Mat El, Er, Et, Em;                     // non-column types
    std::vector<Mat> Erc, Emc; std::vector<C> Etc;   // column systems (El columns live in El)

    void shape(int t, int r_, int c_) {
        type = t; r = r_; c = c_; P = std::max(r, c);
        El = Mat(r, c); Er = Mat(r, P); Et = Mat(P, c); Em = Mat(P, P);
        Erc.clear(); Emc.clear(); Etc.clear();
        if (is_colsys(t)) { for (int j = 0; j < c; j++) { Erc.push_back(Mat(r, P)); Emc.push_back(Mat(P, P)); Etc.push_back(C(1, 0)); } }
    }
    // M (r x c) measured for a device with full S (P x P).  false if (I - S Em) is singular.
    bool measure(const Mat &S, Mat &M) const {
        M = El;
        if (!is_colsys(type)) {
            Mat A = add(Mat::eye(P), mul(S, Em), -1), X;
            if (!solve(A, mul(S, Et), X)) return false;
            M = add(El, mul(Er, X));
            return true;
        }
        for (int j = 0; j < c; j++) {
            Mat A = add(Mat::eye(P), mul(S, Emc[j]), -1), X, rhs(P, 1);
            for (int i = 0; i < P; i++) rhs(i, 0) = S(i, j) * Etc[j];
            if (!solve(A, rhs, X)) return false;
            Mat col = mul(Erc[j], X);
            for (int i = 0; i < r; i++) M(i, j) = El(i, j) + col(i, 0);
        }
        return true;
    }
    // pointers to every free parameter of the box (the entries the type allows to be non-zero)
    std::vector<C *> params() {
        std::vector<C *> p;
        int d = std::min(r, c);
        if (is_colsys(type)) {
            for (int j = 0; j < c; j++) {
                for (int i = 0; i < r; i++) p.push_back(&El(i, j));
                for (int i = 0; i < r; i++) p.push_back(&Erc[j](i, i));
                for (int i = 0; i < P; i++) p.push_back(&Emc[j](i, i));
                p.push_back(&Etc[j]);
            }
            return p;
        }
        if (type == T8 || type == U8) for (int i = 0; i < d; i++) p.push_back(&El(i, i));
        else for (int i = 0; i < r; i++) for (int j = 0; j < c; j++) p.push_back(&El(i, j));
        if (is_16(type)) {
            for (auto &x : Er.a) p.push_back(&x);
            for (auto &x : Et.a) p.push_back(&x);
            for (auto &x : Em.a) p.push_back(&x);
        } else {
            for (int i = 0; i < r; i++) p.push_back(&Er(i, i));
            for (int j = 0; j < c; j++) p.push_back(&Et(j, j));
            for (int i = 0; i < P; i++) p.push_back(&Em(i, i));
        }
        return p;
    }
    // dimension of the scaling freedom (Er -> a Er, Et -> Et / a), one per independent system
    int gauge() const { return is_colsys(type) ? c : 1; }
};

// One measured cell that carries usable information: standard index s, row i, column j.
struct Cell { int s, i, j; };

// Identifiability: singular values of d(usable measured cells)/d(parameters).
// stds: full true S of every standard; cells: usable cells.
struct Ident { bool determining = false; R kappa = INFINITY; int rank_expected = 0; R smax = 0, smin = 0, sgauge = 0; int nparams = 0, ncells = 0; };
struct SRef { int s, i, j; };     // an S cell of standard s
// extra: unknown standard parameters, each a list of S cells it drives (perturbed together)
static inline Ident identifiability(Box box, std::vector<Mat> stds, const std::vector<Cell> &cells, R kappa_limit = 1e5L,
                                    const std::vector<std::vector<SRef>> *extra = nullptr) {
    Ident id;
    auto ps = box.params();
    int nbox = (int)ps.size(), nx = extra ? (int)extra->size() : 0;
    int np = nbox + nx, nc = (int)cells.size();
    id.nparams = np; id.ncells = nc; id.rank_expected = np - box.gauge();
    if (nc < id.rank_expected) return id;
    const R h = 1e-7L;
    Mat J(nc, np);
    for (int k = nbox; k < np; k++) {     // unknown standard parameters
        const auto &refs = (*extra)[k - nbox];
        std::vector<Mat> Mp(stds.size()), Mm(stds.size());
        for (auto &r : refs) stds[r.s](r.i, r.j) += h;
        for (size_t s = 0; s < stds.size(); s++) if (!box.measure(stds[s], Mp[s])) return id;
        for (auto &r : refs) stds[r.s](r.i, r.j) -= 2 * h;
        for (size_t s = 0; s < stds.size(); s++) if (!box.measure(stds[s], Mm[s])) return id;
        for (auto &r : refs) stds[r.s](r.i, r.j) += h;
        for (int q = 0; q < nc; q++) J(q, k) = (Mp[cells[q].s](cells[q].i, cells[q].j) - Mm[cells[q].s](cells[q].i, cells[q].j)) / (2 * h);
    }
    for (int k = 0; k < nbox; k++) {
        C save = *ps[k];
        std::vector<Mat> Mp(stds.size()), Mm(stds.size());
        *ps[k] = save + h; for (size_t s = 0; s < stds.size(); s++) if (!box.measure(stds[s], Mp[s])) { *ps[k] = save; return id; }
        *ps[k] = save - h; for (size_t s = 0; s < stds.size(); s++) if (!box.measure(stds[s], Mm[s])) { *ps[k] = save; return id; }
        *ps[k] = save;
        for (int q = 0; q < nc; q++) J(q, k) = (Mp[cells[q].s](cells[q].i, cells[q].j) - Mm[cells[q].s](cells[q].i, cells[q].j)) / (2 * h);
    }
    auto sv = singular_values(J);
    id.smax = sv[0];
    int re = id.rank_expected;
    if (re <= 0 || re > (int)sv.size()) return id;
    id.smin = sv[re - 1];
    id.sgauge = re < (int)sv.size() ? sv[re] : 0;
    id.kappa = id.smin > 0 ? id.smax / id.smin : INFINITY;
    id.determining = id.kappa < kappa_limit && id.sgauge < 1e-6L * id.smax;
    return id;
}

} // namespace vm
