// docmodel.hpp -- abstract document model of vnaproperty(3): nested ordered maps,
// lists, scalars and nulls, updated by descriptor ASTs (never by strings).
#pragma once
#include <memory>
#include <string>
#include <vector>
#include <utility>
#include <cerrno>

namespace doc {

struct Node;
typedef std::shared_ptr<Node> NodeP;     // nullptr == null node ("~")
struct Node {
    enum Kind { SCALAR, MAP, LIST } kind = SCALAR;
    std::string sval;
    std::vector<std::pair<std::string, NodeP>> map;   // insertion ordered
    std::vector<NodeP> list;
    static NodeP scalar(const std::string &s) { auto n = std::make_shared<Node>(); n->kind = SCALAR; n->sval = s; return n; }
    static NodeP mk(Kind k) { auto n = std::make_shared<Node>(); n->kind = k; return n; }
    NodeP *find(const std::string &k) { for (auto &p : map) if (p.first == k) return &p.second; return nullptr; }
};

static inline NodeP clone(const NodeP &n) {
    if (!n) return nullptr;
    auto c = std::make_shared<Node>(); c->kind = n->kind; c->sval = n->sval;
    for (auto &p : n->map) c->map.push_back({p.first, clone(p.second)});
    for (auto &e : n->list) c->list.push_back(clone(e));
    return c;
}
static inline bool equal(const NodeP &a, const NodeP &b) {
    if (!a || !b) return !a && !b;
    if (a->kind != b->kind) return false;
    switch (a->kind) {
    case Node::SCALAR: return a->sval == b->sval;
    case Node::MAP:
        if (a->map.size() != b->map.size()) return false;
        for (size_t i = 0; i < a->map.size(); i++) if (a->map[i].first != b->map[i].first || !equal(a->map[i].second, b->map[i].second)) return false;
        return true;
    default:
        if (a->list.size() != b->list.size()) return false;
        for (size_t i = 0; i < a->list.size(); i++) if (!equal(a->list[i], b->list[i])) return false;
        return true;
    }
}
static inline std::string esc(const std::string &s) {
    std::string o = "\"";
    for (unsigned char c : s) { if (c == '"' || c == '\\') { o += '\\'; o += (char)c; } else if (c < 0x20 || c == 0x7f) { char b[8]; snprintf(b, sizeof b, "\\x%02x", c); o += b; } else o += (char)c; }
    return o + "\"";
}
static inline std::string show(const NodeP &n) {
    if (!n) return "~";
    switch (n->kind) {
    case Node::SCALAR: return esc(n->sval);
    case Node::MAP: { std::string o = "{"; bool f = true; for (auto &p : n->map) { if (!f) o += ", "; f = false; o += esc(p.first) + ": " + show(p.second); } return o + "}"; }
    default: { std::string o = "["; bool f = true; for (auto &e : n->list) { if (!f) o += ", "; f = false; o += show(e); } return o + "]"; }
    }
}

// ---- descriptor AST --------------------------------------------------------
struct Elem { enum T { KEY, IDX, INS, APP } t = KEY; std::string key; int idx = 0; };
struct Desc {
    bool leading_dot = false;
    std::vector<Elem> path;
    enum Tail { NONE, MAPT, LISTT, DOT } tail = NONE;
    bool is_root() const { return path.empty() && tail == NONE; }   // printed as "."
    bool has_insert() const { for (auto &e : path) if (e.t == Elem::INS || e.t == Elem::APP) return true; return false; }
};

struct Res {           // result of a model operation
    bool ok = true;
    int err = 0;       // expected errno on failure
    bool err_any = false;   // errno not determined by the documentation (do not compare)
    static Res fail(int e) { Res r; r.ok = false; r.err = e; return r; }
    static Res fail_any() { Res r; r.ok = false; r.err_any = true; return r; }
};

// Descend WITHOUT modifying (get/type/count/keys/get_subtree/delete).  On success *out is the
// address of the slot, *coll the collection holding it (or null), per vnaproperty(3) ERRORS.
static inline Res descend_ro(NodeP *root, const Desc &d, NodeP **out, NodeP *coll) {
    NodeP *slot = root; NodeP c;
    bool amb = d.has_insert();   // two documented causes may apply: do not pin errno
    for (auto &e : d.path) {
        NodeP n = *slot;
        if (e.t == Elem::KEY) {
            if (!n) return amb ? Res::fail_any() : Res::fail(ENOENT);
            if (n->kind != Node::MAP) return amb ? Res::fail_any() : Res::fail(EINVAL);
            NodeP *s = n->find(e.key);
            if (!s) return amb ? Res::fail_any() : Res::fail(ENOENT);
            c = n; slot = s;
        } else {
            if (!n) return amb ? Res::fail_any() : Res::fail(ENOENT);
            if (n->kind != Node::LIST) return amb ? Res::fail_any() : Res::fail(EINVAL);
            if (e.t != Elem::IDX) return Res::fail(EINVAL);      // insert/append in a non-set function
            if (e.idx >= (int)n->list.size()) return amb ? Res::fail_any() : Res::fail(ENOENT);
            c = n; slot = &n->list[e.idx];
        }
    }
    if (d.tail == Desc::MAPT || d.tail == Desc::LISTT) {
        NodeP n = *slot;
        if (!n) return Res::fail(ENOENT);
        if (n->kind != (d.tail == Desc::MAPT ? Node::MAP : Node::LIST)) return Res::fail(EINVAL);
        c = nullptr;
    }
    if (d.tail == Desc::DOT) c = nullptr;
    *out = slot; if (coll) *coll = c;
    return Res();
}

// Descend forcing the tree to conform (set / set_subtree).
static inline NodeP *descend_set(NodeP *root, const Desc &d) {
    NodeP *slot = root;
    for (auto &e : d.path) {
        if (e.t == Elem::KEY) {
            if (!*slot || (*slot)->kind != Node::MAP) *slot = Node::mk(Node::MAP);
            NodeP n = *slot;
            NodeP *s = n->find(e.key);
            if (!s) { n->map.push_back({e.key, nullptr}); s = &n->map.back().second; }
            slot = s;
        } else {
            if (!*slot || (*slot)->kind != Node::LIST) *slot = Node::mk(Node::LIST);
            NodeP n = *slot;
            if (e.t == Elem::APP) { n->list.push_back(nullptr); slot = &n->list.back(); }
            else if (e.idx >= (int)n->list.size()) { n->list.resize(e.idx + 1); slot = &n->list[e.idx]; }
            else if (e.t == Elem::INS) { n->list.insert(n->list.begin() + e.idx, nullptr); slot = &n->list[e.idx]; }
            else slot = &n->list[e.idx];
        }
    }
    if (d.tail == Desc::MAPT) { if (!*slot || (*slot)->kind != Node::MAP) *slot = Node::mk(Node::MAP); }
    if (d.tail == Desc::LISTT) { if (!*slot || (*slot)->kind != Node::LIST) *slot = Node::mk(Node::LIST); }
    return slot;
}

// vnaproperty_set(desc=value) / (desc#)
static inline Res op_set(NodeP *root, const Desc &d, bool is_null, const std::string &value) {
    if (d.tail == Desc::MAPT || d.tail == Desc::LISTT) return Res::fail(EINVAL);   // cannot assign to a map or list
    NodeP *slot = descend_set(root, d);
    *slot = is_null ? nullptr : Node::scalar(value);
    return Res();
}
static inline Res op_delete(NodeP *root, const Desc &d) {
    NodeP *slot; NodeP coll;
    Res r = descend_ro(root, d, &slot, &coll);
    if (!r.ok) return r;
    if (d.tail == Desc::NONE && !d.path.empty()) {
        const Elem &e = d.path.back();
        if (e.t == Elem::KEY) { for (size_t i = 0; i < coll->map.size(); i++) if (coll->map[i].first == e.key) { coll->map.erase(coll->map.begin() + i); break; } }
        else coll->list.erase(coll->list.begin() + e.idx);
        return Res();
    }
    *slot = nullptr;
    return Res();
}

} // namespace doc
