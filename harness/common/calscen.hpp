// calscen.hpp -- calibration scenarios for C01/C02/C17/C18/C20: random error boxes (vnamodel),
// standards through every vnacal_new_add_* entry point with port maps / abbreviated matrices /
// a-b form, and the driver that feeds them to libvna.
#pragma once
#include "pbt.hpp"
#include <memory>
#include "vna.hpp"
#include "vnamodel.hpp"

namespace cs {
using vm::C; using vm::R; using vm::Mat; using vm::Box;

static const vnacal_type_t LIBTYPE[8] = {VNACAL_T8, VNACAL_U8, VNACAL_TE10, VNACAL_UE10, VNACAL_T16, VNACAL_U16, VNACAL_UE14, VNACAL_E12};

static inline C polar(R mag, R ang) { return C(mag * cosl(ang), mag * sinl(ang)); }
static inline C rnd_disk(pbt::Ctx &c, R rmin, R rmax) { return polar(rmin + (rmax - rmin) * c.unit(), 2 * M_PIl * c.unit()); }

// ---- S-parameter cell of a standard ------------------------------------------------------
struct SCell {
    enum Kind { MATCH = 0, OPEN = 1, SHORT = 2, SCALAR = 3, VECTOR = 4 } kind = MATCH;   // 0..2 are the predefined handles
    std::vector<C> v;        // value at each calibration frequency
    int handle = -1;         // libvna parameter handle once created
    int uparam = -1;         // >= 0: index into Scenario::uparams (unknown / correlated parameter; v holds the TRUTH)
    std::vector<double> kf;  // VECTOR cells only, optional: the parameter's OWN knot frequencies ...
    std::vector<C> kv;       // ... and values there (v then holds what a low-order rational through them gives at the calibration frequencies)
};
struct Standard {
    enum Entry { SINGLE = 0, DOUBLE = 1, THROUGH = 2, LINE = 3, MAPPED = 4 } entry = SINGLE;
    std::vector<int> ports;            // 0-based VNA port of each port of the standard (standard order)
    int k = 1;                         // ports of the standard
    std::vector<SCell> cells;          // k*k (row-major); SINGLE: 1, DOUBLE: 2 (diag), THROUGH: 0, LINE: 4, MAPPED: k*k
    bool abbrev_rows = false, abbrev_cols = false;
    bool null_map = false;             // MAPPED over all ports in order with port_map == NULL
    std::vector<Mat> Sfull;            // true full P x P S at each frequency (incl. unconnected block)
    std::vector<Mat> noise;            // optional: relative perturbation (r x c) of the measured cells per frequency
    std::vector<Mat> Afix;             // optional: the 'a' matrix to use (else random), per frequency
    std::vector<Mat> add_noise;        // optional: absolute additive noise (r x c) on the measured cells per frequency
    bool connected(int p) const { for (int q : ports) if (q == p) return true; return false; }
    std::string describe() const {
        static const char *en[] = {"single_reflect", "double_reflect", "through", "line", "mapped_matrix"};
        std::string s = en[entry]; s += " ports=[";
        for (size_t i = 0; i < ports.size(); i++) { if (i) s += ","; s += std::to_string(ports[i] + 1); }
        s += "]"; if (null_map) s += " map=NULL";
        s += abbrev_rows ? " rows=abbrev" : " rows=full"; s += abbrev_cols ? " cols=abbrev" : " cols=full";
        s += " s={";
        for (size_t i = 0; i < cells.size(); i++) { static const char *kn[] = {"match", "open", "short", "scalar", "vector"}; if (i) s += ","; if (cells[i].uparam >= 0) s += "UNKNOWN#" + std::to_string(cells[i].uparam) + ":"; s += kn[cells[i].kind]; if (cells[i].kind >= 3 && !cells[i].v.empty()) { char b[64]; snprintf(b, sizeof b, "(%.3Lg%+.3Lgi)", cells[i].v[0].real(), cells[i].v[0].imag()); s += b; } }
        return s + "}";
    }
};

// unknown or correlated standard parameter (self-calibration)
struct UParam {
    bool correlated = false;
    std::vector<C> truth, guess;       // per calibration frequency
    bool guess_vector = false;         // initial guess given as a vector parameter (else scalar = guess[0])
    int other = -1;                    // correlated: index of another UParam, or -1 => a known scalar of value other_value
    C other_value = C(0, 0);
    double sigma = 1e-3;               // correlated: sigma (frequency independent)
    int handle = -1, guess_handle = -1;
};

struct Scenario {
    std::vector<UParam> uparams;
    int type = 0, r = 1, c = 1, P = 1, F = 1;
    bool ab = false;
    std::vector<double> freq;
    std::vector<Box> box;              // per frequency
    std::vector<Standard> stds;
    std::vector<Mat> dut;              // per frequency P x P
    std::string describe() const {
        char b[256]; snprintf(b, sizeof b, "%s %dx%d F=%d %s, %zu standards", vm::tname(type), r, c, F, ab ? "a/b" : "m", stds.size());
        return b;
    }
};

// ---- generators --------------------------------------------------------------------------
static inline void gen_dims(pbt::Ctx &c, int type, int maxdim, int &r, int &cc) {
    int a = std::min(maxdim, 1 + c.weighted({4, 5, 3, 1}));
    if (!c.chance(1, 4)) { r = cc = a; return; }          // square
    int b = std::min(maxdim, 1 + c.weighted({4, 5, 3, 1}));
    int lo = std::min(a, b), hi = std::max(a, b);
    if (vm::is_T(type)) { r = lo; cc = hi; } else { r = hi; cc = lo; }   // T: rows <= cols; U/E: rows >= cols
}

// An ideal test port is valid input (a simulated VNA, a well corrected one): directivity, leakage and port
// match terms drawn below 0.004 become exactly zero (2-5 % of the terms; no tape position is added).
static inline void snap_ideal(Mat &m) { for (int i = 0; i < m.r; i++) for (int j = 0; j < m.c; j++) if (std::abs(m(i, j)) < 0.004L) m(i, j) = C(0, 0); }
static inline Box gen_box_raw(pbt::Ctx &c, int type, int r, int cc);
static inline Box gen_box(pbt::Ctx &c, int type, int r, int cc) {
    Box b = gen_box_raw(c, type, r, cc);
    snap_ideal(b.El); snap_ideal(b.Em);
    for (auto &m : b.Emc) snap_ideal(m);
    return b;
}
static inline Box gen_box_raw(pbt::Ctx &c, int type, int r, int cc) {
    Box b; b.shape(type, r, cc);
    int P = b.P, d = std::min(r, cc);
    auto track = [&]() { return polar(0.6L + 0.6L * c.unit(), 2 * M_PIl * c.unit()); };
    if (vm::is_colsys(type)) {
        for (int j = 0; j < cc; j++) {
            for (int i = 0; i < r; i++) b.El(i, j) = rnd_disk(c, 0, i == j ? 0.2L : 0.1L);
            for (int i = 0; i < r; i++) b.Erc[j](i, i) = track();
            for (int i = 0; i < P; i++) b.Emc[j](i, i) = rnd_disk(c, 0, 0.2L);
            b.Etc[j] = track();
        }
        return b;
    }
    if (type == vm::T8 || type == vm::U8) for (int i = 0; i < d; i++) b.El(i, i) = rnd_disk(c, 0, 0.2L);
    else for (int i = 0; i < r; i++) for (int j = 0; j < cc; j++) b.El(i, j) = rnd_disk(c, 0, i == j ? 0.2L : 0.1L);
    bool full = vm::is_16(type);
    for (int i = 0; i < r; i++) for (int j = 0; j < P; j++) if (i == j) b.Er(i, j) = track(); else if (full) b.Er(i, j) = rnd_disk(c, 0, 0.08L);
    for (int i = 0; i < P; i++) for (int j = 0; j < cc; j++) if (i == j) b.Et(i, j) = track(); else if (full) b.Et(i, j) = rnd_disk(c, 0, 0.08L);
    for (int i = 0; i < P; i++) for (int j = 0; j < P; j++) if (i == j) b.Em(i, j) = rnd_disk(c, 0, 0.2L); else if (full) b.Em(i, j) = rnd_disk(c, 0, 0.08L);
    return b;
}

// a cell whose value is `base` at every frequency, rotated slightly per frequency when VECTOR
static inline SCell make_cell(pbt::Ctx &c, int F, C base, bool allow_predef = true) {
    SCell s;
    if (allow_predef && base == C(0, 0) && c.boolean()) { s.kind = SCell::MATCH; s.v.assign(F, C(0, 0)); return s; }
    if (allow_predef && base == C(1, 0) && c.boolean()) { s.kind = SCell::OPEN; s.v.assign(F, C(1, 0)); return s; }
    if (allow_predef && base == C(-1, 0) && c.boolean()) { s.kind = SCell::SHORT; s.v.assign(F, C(-1, 0)); return s; }
    if (c.chance(1, 3)) {
        s.kind = SCell::VECTOR;
        R dphi = 0.3L * (c.unit() - 0.5L);
        for (int f = 0; f < F; f++) s.v.push_back(base * polar(1, dphi * f));
    } else {
        // scalar values whose real part falls within 0.03 of +1 / -1 get it EXACTLY (the imaginary part stays): a user
        // value next to a predefined one (open / short) must still be a parameter of its own (no tape position added)
        if (std::fabs(base.real() - 1) < 0.03L && std::fabs(base.imag()) > 1e-3L) base = C(1, base.imag());
        else if (std::fabs(base.real() + 1) < 0.03L && std::fabs(base.imag()) > 1e-3L) base = C(-1, base.imag());
        s.kind = SCell::SCALAR; s.v.assign(F, base);
    }
    return s;
}

static inline std::vector<std::pair<int,int>> leakage_uncovered(const Scenario &sc);

struct Gen {
    pbt::Ctx &c; Scenario &sc;
    Gen(pbt::Ctx &c_, Scenario &s) : c(c_), sc(s) {}

    void finish(Standard &st) {     // compute Sfull from the cells + random unconnected block
        st.Sfull.clear();
        int P = sc.P;
        std::vector<int> unconn; for (int p = 0; p < P; p++) if (!st.connected(p)) unconn.push_back(p);
        for (int f = 0; f < sc.F; f++) {
            Mat S(P, P);
            switch (st.entry) {
            case Standard::SINGLE: S(st.ports[0], st.ports[0]) = st.cells[0].v[f]; break;
            case Standard::DOUBLE: S(st.ports[0], st.ports[0]) = st.cells[0].v[f]; S(st.ports[1], st.ports[1]) = st.cells[1].v[f]; break;
            case Standard::THROUGH: S(st.ports[0], st.ports[1]) = 1; S(st.ports[1], st.ports[0]) = 1; break;
            default: for (int i = 0; i < st.k; i++) for (int j = 0; j < st.k; j++) S(st.ports[i], st.ports[j]) = st.cells[i * st.k + j].v[f]; break;
            }
            // "the S-parameters measured by the unused VNA ports don't matter as long as they remain
            //  constant ... and have no through signal to or from the ports under test"
            for (int p : unconn) for (int q : unconn) S(p, q) = rnd_disk(c, 0, p == q ? 0.8L : 0.4L);
            st.Sfull.push_back(S);
        }
    }
    // measurement shape: abbreviated rows/cols only where the man page allows and the ports can detect/drive
    void gen_shape(Standard &st, bool force_full) {
        bool rows_ok = true, cols_ok = true;
        for (int p : st.ports) { if (p >= sc.r) rows_ok = false; if (p >= sc.c) cols_ok = false; }
        if (sc.type == vm::T16) cols_ok = false;
        if (sc.type == vm::U16) rows_ok = false;
        st.abbrev_rows = !force_full && rows_ok && c.chance(1, 3);
        st.abbrev_cols = !force_full && cols_ok && c.chance(1, 3);
    }
    C gen_refl(int which, R theta) {
        switch (which) {
        case 0: return c.chance(1, 3) ? C(-1, 0) : polar(0.75L + 0.25L * c.unit(), theta + M_PIl + 0.6L * (c.unit() - 0.5L));
        case 1: return c.chance(1, 3) ? C(1, 0) : polar(0.75L + 0.25L * c.unit(), theta + 0.6L * (c.unit() - 0.5L));
        default: return c.chance(1, 3) ? C(0, 0) : rnd_disk(c, 0, 0.2L);
        }
    }
    Standard single(int port, C gamma, bool force_full = false) {
        Standard st; st.entry = Standard::SINGLE; st.k = 1; st.ports = {port};
        // a single reflect may also be entered as a 1x1 mapped matrix
        if (c.chance(1, 5)) st.entry = Standard::MAPPED;
        st.cells.push_back(make_cell(c, sc.F, gamma));
        gen_shape(st, force_full); finish(st); return st;
    }
    // two reflects; entered through vnacal_new_add_double_reflect, or (explicit == 1) as the equivalent line /
    // mapped matrix whose off-diagonal cells are the predefined VNACAL_ZERO handle
    Standard dbl(int p1, int p2, C g1, C g2, bool force_full = false, int explicit_zero = -1) {
        Standard st; st.entry = Standard::DOUBLE; st.k = 2; st.ports = {p1, p2};
        if (explicit_zero < 0) explicit_zero = c.chance(1, 3) ? 1 : 0;
        if (explicit_zero) {
            st.entry = c.boolean() ? Standard::LINE : Standard::MAPPED;
            SCell z; z.kind = SCell::MATCH; z.v.assign(sc.F, C(0, 0));
            st.cells = {make_cell(c, sc.F, g1), z, z, make_cell(c, sc.F, g2)};
            c.label("explicit-zero-off-diagonal");
        } else { st.cells.push_back(make_cell(c, sc.F, g1)); st.cells.push_back(make_cell(c, sc.F, g2)); }
        gen_shape(st, force_full); finish(st); return st;
    }
    Standard through(int p1, int p2, bool force_full = false) {
        Standard st; st.k = 2; st.ports = {p1, p2};
        int how = c.weighted({3, 2, 1});
        if (how == 0) st.entry = Standard::THROUGH;
        else {
            st.entry = how == 1 ? Standard::LINE : Standard::MAPPED;
            bool ideal = c.boolean();
            C s11 = ideal ? C(0, 0) : rnd_disk(c, 0, 0.3L), s22 = ideal ? C(0, 0) : rnd_disk(c, 0, 0.3L);
            C s12 = ideal ? C(1, 0) : rnd_disk(c, 0.5L, 1.0L), s21 = ideal ? C(1, 0) : (c.boolean() ? s12 : rnd_disk(c, 0.5L, 1.0L));
            st.cells = {make_cell(c, sc.F, s11), make_cell(c, sc.F, s12), make_cell(c, sc.F, s21), make_cell(c, sc.F, s22)};
        }
        gen_shape(st, force_full); finish(st); return st;
    }
    // random fully known k-port standard on the given ports (all P ports in order => may use NULL map)
    Standard full_random(const std::vector<int> &ports, bool force_full = false) {
        Standard st; st.entry = Standard::MAPPED; st.k = (int)ports.size(); st.ports = ports;
        for (int i = 0; i < st.k; i++) for (int j = 0; j < st.k; j++)
            st.cells.push_back(make_cell(c, sc.F, i == j ? rnd_disk(c, 0, 0.6L) : rnd_disk(c, 0.2L, 0.8L), false));
        bool inorder = st.k == sc.P; for (int i = 0; i < st.k; i++) if (ports[i] != i) inorder = false;
        st.null_map = inorder && c.boolean();
        gen_shape(st, force_full); finish(st); return st;
    }
    // sparse k-port standard (k >= 3): a few signal paths between its ports (chains, possibly one-directional),
    // every other off-diagonal cell the predefined VNACAL_ZERO handle -- the connectivity classes of such a
    // standard are formed transitively, through ports that are not the first of their class
    Standard sparse_multiport(const std::vector<int> &ports, bool force_full = false) {
        Standard st; st.entry = Standard::MAPPED; st.k = (int)ports.size(); st.ports = ports;
        int k = st.k;
        SCell z; z.kind = SCell::MATCH; z.v.assign(sc.F, C(0, 0));
        st.cells.assign((size_t)k * k, z);
        for (int i = 0; i < k; i++) st.cells[i * k + i] = make_cell(c, sc.F, rnd_disk(c, 0, 0.6L));
        // random edge order over a random spanning chain, optionally dropping one edge (two classes) and
        // optionally adding a chord; edges are reciprocal or one-directional
        std::vector<int> order; for (int i = 0; i < k; i++) order.push_back(i);
        for (int i = k; i > 1; i--) std::swap(order[i - 1], order[c.draw(i)]);
        int drop = c.chance(1, 4) ? (int)c.draw(k - 1) : -1;
        auto edge = [&](int a, int b) {
            int how = c.weighted({3, 1, 1});
            C v = rnd_disk(c, 0.4L, 0.9L);
            if (how != 2) st.cells[a * k + b] = make_cell(c, sc.F, v, false);
            if (how != 1) st.cells[b * k + a] = make_cell(c, sc.F, how == 0 ? v : rnd_disk(c, 0.4L, 0.9L), false);
        };
        for (int i = 0; i + 1 < k; i++) if (i != drop) edge(order[i], order[i + 1]);
        if (k >= 4 && c.chance(1, 3)) edge(order[0], order[k - 1]);
        bool inorder = k == sc.P; for (int i = 0; i < k; i++) if (ports[i] != i) inorder = false;
        st.null_map = inorder && c.boolean();
        c.label("sparse-multiport-standard");
        gen_shape(st, force_full); finish(st); return st;
    }
    std::vector<int> perm_ports(int n) {    // random n distinct ports in random order
        std::vector<int> all; for (int p = 0; p < sc.P; p++) all.push_back(p);
        std::vector<int> out;
        for (int i = 0; i < n; i++) { size_t k = c.draw(all.size()); out.push_back(all[k]); all.erase(all.begin() + k); }
        return out;
    }

    // sufficient baseline: three mutually distant reflects on every diagonal port (all ports for the
    // column-system types need them; harmless for the others), through/line between every diagonal
    // port and every other port, plus for 16-term types random full P-port standards.
    void baseline() {
        int d = std::min(sc.r, sc.c), P = sc.P;
        std::vector<R> theta(P); for (auto &t : theta) t = 2 * M_PIl * c.unit();
        for (int w = 0; w < 3; w++) {
            // pair reflects into double reflects sometimes
            std::vector<int> todo; for (int p = 0; p < d; p++) todo.push_back(p);
            while (!todo.empty()) {
                int p = todo.back(); todo.pop_back();
                if (!todo.empty() && c.chance(1, 3)) { int q = todo.back(); todo.pop_back(); bool sw = c.boolean(); int w2 = (w + 1 + (int)c.draw(2)) % 3; (void)w2;
                    C g1 = gen_refl(w, theta[p]), g2 = gen_refl(w, theta[q]);
                    sc.stds.push_back(sw ? dbl(q, p, g2, g1) : dbl(p, q, g1, g2)); }
                else sc.stds.push_back(single(p, gen_refl(w, theta[p])));
            }
        }
        for (int p1 = 0; p1 < d; p1++) for (int p2 = p1 + 1; p2 < P; p2++) { bool sw = c.boolean(); sc.stds.push_back(sw ? through(p2, p1) : through(p1, p2)); }
        if (vm::is_16(sc.type)) {
            int eq = sc.r * sc.c, unk = 2 * sc.r * sc.c + 2 * P * P;
            int n = (unk + eq - 1) / eq + 2;
            std::vector<int> inorder; for (int p = 0; p < P; p++) inorder.push_back(p);
            for (int i = 0; i < n; i++) sc.stds.push_back(full_random(c.boolean() ? inorder : perm_ports(P)));
        }
    }
    void extras() {
        int n = (int)c.draw(4);
        for (int i = 0; i < n; i++) {
            switch (c.weighted({3, 2, 3, 2, sc.P >= 3 ? 4u : 0u})) {
            case 4: { int k = 3 + (int)c.draw(sc.P - 2); sc.stds.push_back(sparse_multiport(perm_ports(k))); } break;
            case 0: sc.stds.push_back(single((int)c.draw(sc.P), rnd_disk(c, 0, 1.0L))); break;
            case 1: if (sc.P >= 2) { auto pp = perm_ports(2); sc.stds.push_back(dbl(pp[0], pp[1], rnd_disk(c, 0, 1.0L), rnd_disk(c, 0, 1.0L))); } break;
            case 2: if (sc.P >= 2) { auto pp = perm_ports(2); sc.stds.push_back(through(pp[0], pp[1])); } break;
            default: { int k = 1 + (int)c.draw(sc.P); sc.stds.push_back(full_random(perm_ports(k))); } break;
            }
        }
    }
    // make the set sufficient for the leakage terms too: full-matrix double reflects on uncovered pairs
    void cover_leakage() {
        for (int guard = 0; guard < 32; guard++) {
            auto un = leakage_uncovered(sc);
            if (un.empty()) return;
            c.label("leakage-cover-added");
            int i = un[0].first, j = un[0].second;
            sc.stds.push_back(dbl(i, j, rnd_disk(c, 0, 1.0L), rnd_disk(c, 0, 1.0L), true));
        }
    }
    void shuffle() { for (size_t i = sc.stds.size(); i > 1; i--) { size_t j = c.draw(i); std::swap(sc.stds[i - 1], sc.stds[j]); } }
};

// rows / columns of the measurement matrix actually supplied for a standard
static inline std::vector<int> supplied_rows(const Scenario &sc, const Standard &st) {
    std::vector<int> v;
    if (st.abbrev_rows) { v = st.ports; std::sort(v.begin(), v.end()); } else for (int i = 0; i < sc.r; i++) v.push_back(i);
    return v;
}
static inline std::vector<int> supplied_cols(const Scenario &sc, const Standard &st) {
    std::vector<int> v;
    if (st.abbrev_cols) { v = st.ports; std::sort(v.begin(), v.end()); } else for (int j = 0; j < sc.c; j++) v.push_back(j);
    return v;
}
// cells a calibration can draw information from (see DESIGN C01): supplied, and not between two
// unconnected ports; for 16-term types only standards that connect every port.
static inline std::vector<vm::Cell> usable_cells(const Scenario &sc) {
    std::vector<vm::Cell> out;
    for (size_t s = 0; s < sc.stds.size(); s++) {
        const Standard &st = sc.stds[s];
        if (vm::is_16(sc.type) && (int)st.ports.size() != sc.P) continue;
        for (int i : supplied_rows(sc, st)) for (int j : supplied_cols(sc, st)) {
            if (!st.connected(i) && !st.connected(j)) continue;
            if (!vm::has_leakage(sc.type) && (!st.connected(i) || !st.connected(j))) continue;
            out.push_back(vm::Cell{(int)s, i, j});
        }
    }
    return out;
}
// Leakage terms of TE10/UE10/UE14/E12 are determined only from measured cells between ports that have
// no signal path through the standard (vnacal_new(3): the full matrix "is useful for determining leakage
// terms"); a leakage cell never sampled that way is taken as zero.  "Sufficient" therefore includes: every
// off-diagonal cell is supplied at least once by a standard in which its two ports are in different
// connectivity classes (classes: union over off-diagonal S cells not known to be zero; all ports the
// standard does not connect are in one unknown class).
static inline std::vector<std::pair<int,int>> leakage_uncovered(const Scenario &sc) {
    std::vector<std::pair<int,int>> out;
    if (!vm::has_leakage(sc.type) || vm::is_16(sc.type)) return out;
    std::vector<char> cov((size_t)sc.r * sc.c, 0);
    for (auto &st : sc.stds) {
        int P = sc.P; std::vector<int> cls(P);
        for (int p = 0; p < P; p++) cls[p] = st.connected(p) ? p : -1;      // -1: the unknown class
        auto merge = [&](int a, int b) { int ca = cls[a], cb = cls[b]; if (ca == cb) return; for (auto &x : cls) if (x == cb) x = ca; };
        if (st.entry == Standard::THROUGH) merge(st.ports[0], st.ports[1]);
        else if (st.entry >= Standard::LINE) for (int i = 0; i < st.k; i++) for (int j = 0; j < st.k; j++) if (i != j) {
            const SCell &cell = st.cells[i * st.k + j];
            bool known_zero = cell.kind == SCell::MATCH || (cell.kind == SCell::SCALAR && cell.v[0] == C(0, 0));
            if (!known_zero) merge(st.ports[i], st.ports[j]);
        }
        for (int i : supplied_rows(sc, st)) for (int j : supplied_cols(sc, st)) if (i != j && cls[i] != cls[j]) cov[(size_t)i * sc.c + j] = 1;
    }
    for (int i = 0; i < sc.r; i++) for (int j = 0; j < sc.c; j++) if (i != j && !cov[(size_t)i * sc.c + j]) out.push_back({i, j});
    return out;
}

// identifiability including unknown standard parameters: each parameter perturbs every S cell it appears in
static inline vm::Ident ident_with_unknowns(const Scenario &sc, int f) {
    std::vector<Mat> S; for (auto &st : sc.stds) S.push_back(st.Sfull[f]);
    std::vector<std::vector<vm::SRef>> extra(sc.uparams.size());
    for (size_t s = 0; s < sc.stds.size(); s++) {
        const Standard &st = sc.stds[s];
        auto put = [&](const SCell &cell, int i, int j) { if (cell.uparam >= 0) extra[cell.uparam].push_back(vm::SRef{(int)s, i, j}); };
        switch (st.entry) {
        case Standard::SINGLE: put(st.cells[0], st.ports[0], st.ports[0]); break;
        case Standard::DOUBLE: put(st.cells[0], st.ports[0], st.ports[0]); put(st.cells[1], st.ports[1], st.ports[1]); break;
        case Standard::THROUGH: break;
        default: for (int i = 0; i < st.k; i++) for (int j = 0; j < st.k; j++) put(st.cells[i * st.k + j], st.ports[i], st.ports[j]); break;
        }
    }
    return vm::identifiability(sc.box[f], S, usable_cells(sc), 1e5L, &extra);
}

// 16-term types: determinacy decided on the DOCUMENTED linear equations themselves (vnacal_layout.h):
//   T16:  Ts S + Ti - M Tx S - M Tm = 0   one equation per measured row i and KNOWN S column j
//   U16:  Um M + Ui - S Ux M - S Us = 0   one equation per KNOWN S row i and measured column j
// A column (row) of S is known for every port the standard connects (its cells towards the ports the standard leaves
// open are zero: no signal path); the block among the unconnected ports is unknown and not needed.  The equations use
// whole rows (columns) of M, so a standard contributes only when its measurement matrix was supplied in full.
// With exact data the set determines the error terms iff this system has full column rank; kappa = its 2-norm
// condition number after fixing the unity term (Tm11 / Um11).  This counts the partial standards (reflects, throughs
// on a subset of the ports) that the Jacobian test of the physical model has to leave out for these types.
static inline vm::Ident ident16(const Scenario &sc, int f) {
    vm::Ident id;
    int r = sc.r, c = sc.c, P = sc.P; bool T = vm::is_T(sc.type);
    // unknown index: four blocks; T: Ts r x P, Ti r x P, Tx c x P, Tm c x P;  U: Um P x r, Ui P x c, Ux P x r, Us P x c
    int d0r = T ? r : P, d0c = T ? P : r, d1r = T ? r : P, d1c = T ? P : c, d2r = T ? c : P, d2c = T ? P : r, d3r = T ? c : P, d3c = T ? P : c;
    int o1 = d0r * d0c, o2 = o1 + d1r * d1c, o3 = o2 + d2r * d2c, nall = o3 + d3r * d3c;
    int unity = T ? o3 : 0;      // Tm11 resp. Um11
    auto col = [&](int blk, int i, int j) { int k = blk == 0 ? i * d0c + j : blk == 1 ? o1 + i * d1c + j : blk == 2 ? o2 + i * d2c + j : o3 + i * d3c + j; if (k == unity) return -1; return k > unity ? k - 1 : k; };
    int nu = nall - 1;
    std::vector<std::vector<C>> rows; std::vector<C> rhs;
    for (auto &st : sc.stds) {
        if (st.abbrev_rows || st.abbrev_cols) { if ((int)st.ports.size() != P) continue; }
        Mat M; if (!sc.box[f].measure(st.Sfull[f], M)) return id;
        const Mat &S = st.Sfull[f];
        if (T) {
            for (int i = 0; i < r; i++) for (int j = 0; j < P; j++) if (st.connected(j)) {
                std::vector<C> a(nu, C(0, 0)); C b(0, 0);
                auto add = [&](int k, C v) { if (k < 0) b -= v; else a[k] += v; };
                for (int k = 0; k < P; k++) if (st.connected(k) || k == j) add(col(0, i, k), S(k, j));        // Ts(i,k) S(k,j): S(k,j) = 0 for unconnected k
                add(col(1, i, j), C(1, 0));
                for (int k = 0; k < c; k++) for (int l = 0; l < P; l++) if (st.connected(l)) add(col(2, k, l), -M(i, k) * S(l, j));
                for (int k = 0; k < c; k++) add(col(3, k, j), -M(i, k));
                rows.push_back(a); rhs.push_back(b);
            }
        } else {
            for (int i = 0; i < P; i++) if (st.connected(i)) for (int j = 0; j < c; j++) {
                std::vector<C> a(nu, C(0, 0)); C b(0, 0);
                auto add = [&](int k, C v) { if (k < 0) b -= v; else a[k] += v; };
                for (int k = 0; k < r; k++) add(col(0, i, k), M(k, j));
                add(col(1, i, j), C(1, 0));
                for (int l = 0; l < P; l++) if (st.connected(l)) { for (int k = 0; k < r; k++) add(col(2, l, k), -S(i, l) * M(k, j)); add(col(3, l, j), -S(i, l)); }
                rows.push_back(a); rhs.push_back(b);
            }
        }
    }
    id.nparams = nu; id.ncells = (int)rows.size(); id.rank_expected = nu;
    if ((int)rows.size() < nu) return id;
    Mat A((int)rows.size(), nu); for (size_t i = 0; i < rows.size(); i++) for (int k = 0; k < nu; k++) A((int)i, k) = rows[i][k];
    // column scaling (the terms differ in magnitude by construction; the solver's accuracy follows the scaled conditioning)
    for (int k = 0; k < nu; k++) { R n2 = 0; for (int i = 0; i < A.r; i++) n2 += std::norm(A(i, k)); if (n2 == 0) return id; R sc2 = 1 / std::sqrt(n2); for (int i = 0; i < A.r; i++) A(i, k) *= sc2; }
    auto sv = vm::singular_values(A);
    id.smax = sv.front(); id.smin = sv[nu - 1];
    id.kappa = id.smin > 0 ? id.smax / id.smin : INFINITY;
    id.determining = id.kappa < 1e5L;
    return id;
}

static inline vm::Ident ident_at(const Scenario &sc, int f) {
    if (vm::is_16(sc.type)) return ident16(sc, f);
    std::vector<Mat> S; for (auto &st : sc.stds) S.push_back(st.Sfull[f]);
    return vm::identifiability(sc.box[f], S, usable_cells(sc));
}

// ---- equation / unknown counts as vnacal_new(3) describes them -------------------------------
// number of measured cells with a signal path, per independent system, as vnacal_new(3) counts equations
// (T types: measured row x S column; U types: S row x measured column; both need a path)
static inline std::vector<int> count_equations(const Scenario &sc, size_t nstd) {
    int nsys = vm::is_colsys(sc.type) ? sc.c : 1;
    std::vector<int> eq(nsys, 0);
    for (size_t s = 0; s < nstd; s++) {
        const Standard &st = sc.stds[s];
        // connectivity classes as in leakage_uncovered()
        int P = sc.P; std::vector<int> cls(P);
        for (int p = 0; p < P; p++) cls[p] = st.connected(p) ? p : -1;
        auto merge = [&](int a, int b) { int ca = cls[a], cb = cls[b]; if (ca == cb) return; for (auto &x : cls) if (x == cb) x = ca; };
        if (st.entry == Standard::THROUGH) merge(st.ports[0], st.ports[1]);
        else if (st.entry >= Standard::LINE) for (int i = 0; i < st.k; i++) for (int j = 0; j < st.k; j++) if (i != j) {
            const SCell &cell = st.cells[i * st.k + j];
            bool kz = cell.kind == SCell::MATCH || (cell.kind == SCell::SCALAR && cell.v[0] == C(0, 0));
            if (!kz) merge(st.ports[i], st.ports[j]);
        }
        if (vm::is_16(sc.type)) {
            // 16-term: one equation per (measured row x known S column) for T, (known S row x measured column)
            // for U -- a row/column of S is known for every port the standard connects
            int nconn = 0; for (int p = 0; p < P; p++) if (st.connected(p)) nconn++;
            eq[0] += sc.type == vm::T16 ? (int)supplied_rows(sc, st).size() * nconn : nconn * (int)supplied_cols(sc, st).size();
            continue;
        }
        for (int i : supplied_rows(sc, st)) for (int j : supplied_cols(sc, st)) {
            if (!st.connected(i) || !st.connected(j)) continue;          // needs known S row/column
            if (!vm::is_16(sc.type) && cls[i] != cls[j]) continue;       // no path: leakage sample, not an equation
            eq[vm::is_colsys(sc.type) ? j : 0]++;
        }
    }
    return eq;
}
static inline int unknowns_per_system(const Scenario &sc) {
    int r = sc.r, cc = sc.c, P = sc.P;
    switch (sc.type) {
    case vm::T8: case vm::U8: case vm::TE10: case vm::UE10: return 2 * r + 2 * cc - 1;
    case vm::T16: return 2 * r * cc + 2 * cc * cc - 1;
    case vm::U16: return 2 * r * cc + 2 * r * r - 1;
    default: return 2 * P + 1;        // UE14/E12: um(r) ui(1) ux(r) us(1) minus the unity term, per column
    }
}


// ---- driver: feed a scenario to libvna -----------------------------------------------------
struct MatVec {       // matrix of per-frequency vectors in the layout libvna wants
    int rows = 0, cols = 0, F = 0;
    std::vector<std::vector<dcx>> store; std::vector<dcx *> ptr;
    void init(int r, int c, int f) { rows = r; cols = c; F = f; store.assign((size_t)r * c, std::vector<dcx>(f)); ptr.resize((size_t)r * c); for (size_t i = 0; i < ptr.size(); i++) ptr[i] = store[i].data(); }
    void set(int i, int j, int f, C v) { store[(size_t)i * cols + j][f] = mkc((double)v.real(), (double)v.imag()); }
    dcx **p() { return ptr.data(); }
};

struct Runner {
    pbt::Ctx &c; Scenario &sc;
    ErrLog log;
    vnacal_t *vcp = nullptr; vnacal_new_t *vnp = nullptr;
    std::vector<int> to_delete;
    C ab_scale = C(1, 0);              // common factor applied to a and b of every standard (C17 T4)
    pbt::Ctx *rnd;                     // source of the random 'a' matrices (default: the case's own tape)
    bool borrowed_vcp = false;         // the vnacal_t belongs to another Runner (several vnacal_new_t in one vnacal_t)
    Runner(pbt::Ctx &c_, Scenario &s) : c(c_), sc(s), rnd(&c_) {}
    ~Runner() { if (vnp) vnacal_new_free(vnp); if (vcp && !borrowed_vcp) vnacal_free(vcp); }

    void create() {
        // parameter handles belong to one vnacal_t: forget those of an earlier run of the same scenario
        for (auto &st : sc.stds) for (auto &cell : st.cells) cell.handle = -1;
        for (auto &u : sc.uparams) u.handle = u.guess_handle = -1;
        vcp = vnacal_create(errlog_fn, &log);
        PBT_CHECK(c, vcp != nullptr, "cal.create", "vnacal_create failed");
    }
    // unrelated parameters made before anything else, two thirds of them deleted again: the handles of the scenario's
    // own parameters become sparse and partly recycled (hash chains of the vnacal_new_t's parameter table collide)
    void make_fillers(int n, pbt::Ctx &d) {
        std::vector<int> h;
        for (int i = 0; i < n; i++) { int x = vnacal_make_scalar_parameter(vcp, mkc(0.11 + 0.01 * i, -0.07)); PBT_CHECK(c, x >= 3, "cal.make_parameter", "make filler parameter failed: %s", log.text().c_str()); h.push_back(x); }
        // delete a run of them (a hole at a random height) plus scattered single ones
        size_t lo = d.draw(h.size()), len = 1 + d.draw(h.size() - lo);
        for (size_t i = 0; i < h.size(); i++) if ((i >= lo && i < lo + len) || d.chance(1, 4)) vnacal_delete_parameter(vcp, h[i]);
    }
    void alloc() {
        vnp = vnacal_new_alloc(vcp, LIBTYPE[sc.type], sc.r, sc.c, sc.F);
        PBT_CHECK(c, vnp != nullptr, "cal.new_alloc", "vnacal_new_alloc(%s,%d,%d,%d) failed: %s", vm::tname(sc.type), sc.r, sc.c, sc.F, log.text().c_str());
        int rc = vnacal_new_set_frequency_vector(vnp, sc.freq.data());
        PBT_CHECK(c, rc == 0, "cal.set_frequency_vector", "failed: %s", log.text().c_str());
    }
    int uparam_handle(int k) {
        UParam &u = sc.uparams[k];
        if (u.handle >= 0) return u.handle;
        if (u.correlated) {
            int oh;
            if (u.other >= 0) oh = uparam_handle(u.other);
            else { oh = vnacal_make_scalar_parameter(vcp, mkc((double)u.other_value.real(), (double)u.other_value.imag())); if (oh >= 3) to_delete.push_back(oh); }
            PBT_CHECK(c, oh >= 0, "cal.make_parameter", "make 'other' parameter failed: %s", log.text().c_str());
            double sg = u.sigma;
            u.handle = vnacal_make_correlated_parameter(vcp, oh, nullptr, 1, &sg);
        } else {
            if (u.guess_vector) { std::vector<dcx> g; for (auto &x : u.guess) g.push_back(mkc((double)x.real(), (double)x.imag())); u.guess_handle = vnacal_make_vector_parameter(vcp, sc.freq.data(), sc.F, g.data()); }
            else u.guess_handle = vnacal_make_scalar_parameter(vcp, mkc((double)u.guess[0].real(), (double)u.guess[0].imag()));
            PBT_CHECK(c, u.guess_handle >= 0, "cal.make_parameter", "make guess parameter failed: %s", log.text().c_str());
            if (u.guess_handle >= 3) to_delete.push_back(u.guess_handle);
            u.handle = vnacal_make_unknown_parameter(vcp, u.guess_handle);
        }
        PBT_CHECK(c, u.handle >= 3, "cal.make_parameter", "make unknown/correlated parameter failed: %s", log.text().c_str());
        to_delete.push_back(u.handle);
        return u.handle;
    }
    int handle_of(SCell &s) {
        if (s.uparam >= 0) return uparam_handle(s.uparam);
        if (s.kind <= SCell::SHORT) return (int)s.kind;
        if (s.handle >= 0) return s.handle;
        if (s.kind == SCell::SCALAR) s.handle = vnacal_make_scalar_parameter(vcp, mkc((double)s.v[0].real(), (double)s.v[0].imag()));
        else if (!s.kf.empty()) {
            std::vector<dcx> g; for (auto &x : s.kv) g.push_back(mkc((double)x.real(), (double)x.imag()));
            s.handle = vnacal_make_vector_parameter(vcp, s.kf.data(), (int)s.kf.size(), g.data());
        } else {
            std::vector<dcx> g; for (auto &x : s.v) g.push_back(mkc((double)x.real(), (double)x.imag()));
            s.handle = vnacal_make_vector_parameter(vcp, sc.freq.data(), sc.F, g.data());
        }
        PBT_CHECK(c, s.handle >= 0, "cal.make_parameter", "make parameter failed: %s", log.text().c_str());
        if (s.handle >= 3) to_delete.push_back(s.handle);     // 0, 1, -1 map onto the predefined handles
        return s.handle;
    }
    // measurement matrices of standard st (M = model of the true full S), a/b if sc.ab
    void measure(const Standard &st, const std::vector<Mat> &Sfull, MatVec &A, MatVec &B) {
        auto rows = supplied_rows(sc, st), cols = supplied_cols(sc, st);
        int br = (int)rows.size(), bc = (int)cols.size();
        B.init(br, bc, sc.F);
        bool colsys = vm::is_colsys(sc.type);
        if (sc.ab) A.init(colsys ? 1 : bc, bc, sc.F);
        for (int f = 0; f < sc.F; f++) {
            Mat M;
            PBT_CHECK(c, sc.box[f].measure(Sfull[f], M), "gen.model_singular", "model (I - S Em) singular");
            Mat Ms(br, bc);
            for (int i = 0; i < br; i++) for (int j = 0; j < bc; j++) Ms(i, j) = M(rows[i], cols[j]) * (st.noise.empty() ? C(1, 0) : C(1, 0) + st.noise[f](rows[i], cols[j])) + (st.add_noise.empty() ? C(0, 0) : st.add_noise[f](rows[i], cols[j]));
            if (!sc.ab) { for (int i = 0; i < br; i++) for (int j = 0; j < bc; j++) B.set(i, j, f, Ms(i, j)); continue; }
            if (colsys) {
                for (int j = 0; j < bc; j++) { C a = (st.Afix.empty() ? polar(0.5L + rnd->unit(), 2 * M_PIl * rnd->unit()) : st.Afix[f](0, cols[j])) * ab_scale; A.set(0, j, f, a); for (int i = 0; i < br; i++) B.set(i, j, f, Ms(i, j) * a); }
            } else {
                Mat Am(bc, bc);
                for (int i = 0; i < bc; i++) for (int j = 0; j < bc; j++) Am(i, j) = (st.Afix.empty() ? (i == j ? polar(0.5L + rnd->unit(), 2 * M_PIl * rnd->unit()) : rnd_disk(*rnd, 0, 0.15L)) : st.Afix[f](cols[i], cols[j])) * ab_scale;
                Mat Bm = vm::mul(Ms, Am);
                for (int i = 0; i < bc; i++) for (int j = 0; j < bc; j++) A.set(i, j, f, Am(i, j));
                for (int i = 0; i < br; i++) for (int j = 0; j < bc; j++) B.set(i, j, f, Bm(i, j));
            }
        }
    }
    // add one standard; returns libvna's return code
    int add(Standard &st) {
        MatVec A, B;
        measure(st, st.Sfull, A, B);
        dcx **a = sc.ab ? A.p() : nullptr;
        int ar = A.rows, ac = A.cols, br = B.rows, bc = B.cols;
        std::vector<int> h; for (auto &s : st.cells) h.push_back(handle_of(s));
        std::vector<int> map; for (int p : st.ports) map.push_back(p + 1);
        log.clear();
        switch (st.entry) {
        case Standard::SINGLE:
            return sc.ab ? vnacal_new_add_single_reflect(vnp, a, ar, ac, B.p(), br, bc, h[0], map[0])
                         : vnacal_new_add_single_reflect_m(vnp, B.p(), br, bc, h[0], map[0]);
        case Standard::DOUBLE:
            return sc.ab ? vnacal_new_add_double_reflect(vnp, a, ar, ac, B.p(), br, bc, h[0], h[1], map[0], map[1])
                         : vnacal_new_add_double_reflect_m(vnp, B.p(), br, bc, h[0], h[1], map[0], map[1]);
        case Standard::THROUGH:
            return sc.ab ? vnacal_new_add_through(vnp, a, ar, ac, B.p(), br, bc, map[0], map[1])
                         : vnacal_new_add_through_m(vnp, B.p(), br, bc, map[0], map[1]);
        case Standard::LINE:
            return sc.ab ? vnacal_new_add_line(vnp, a, ar, ac, B.p(), br, bc, h.data(), map[0], map[1])
                         : vnacal_new_add_line_m(vnp, B.p(), br, bc, h.data(), map[0], map[1]);
        default:
            return sc.ab ? vnacal_new_add_mapped_matrix(vnp, a, ar, ac, B.p(), br, bc, h.data(), st.k, st.k, st.null_map ? nullptr : map.data())
                         : vnacal_new_add_mapped_matrix_m(vnp, B.p(), br, bc, h.data(), st.k, st.k, st.null_map ? nullptr : map.data());
        }
    }
    bool apply_supported() const { return sc.r == sc.c || sc.P == 2; }
    // apply calibration ci to the model's measurement of the DUT; out = corrected S per frequency
    int apply(int ci, const std::vector<Mat> &dut, std::vector<Mat> &out, vnadata_t **keep = nullptr) {
        int P = sc.P;
        MatVec A, B; B.init(P, P, sc.F);
        bool colsys = vm::is_colsys(sc.type);
        if (sc.ab) A.init(colsys ? 1 : P, P, sc.F);
        for (int f = 0; f < sc.F; f++) {
            Mat M2(P, P);
            if (sc.r == sc.c) { Mat M; PBT_CHECK(c, sc.box[f].measure(dut[f], M), "gen.model_singular", "model singular for the DUT"); M2 = M; }
            else {
                // 1x2 / 2x1: second row (column) comes from the measurement of the DUT turned around
                Mat Mf, Mr, Sr(2, 2);
                Sr(0, 0) = dut[f](1, 1); Sr(0, 1) = dut[f](1, 0); Sr(1, 0) = dut[f](0, 1); Sr(1, 1) = dut[f](0, 0);
                PBT_CHECK(c, sc.box[f].measure(dut[f], Mf) && sc.box[f].measure(Sr, Mr), "gen.model_singular", "model singular for the DUT");
                if (sc.r == 1) { M2(0, 0) = Mf(0, 0); M2(0, 1) = Mf(0, 1); M2(1, 0) = Mr(0, 1); M2(1, 1) = Mr(0, 0); }
                else { M2(0, 0) = Mf(0, 0); M2(1, 0) = Mf(1, 0); M2(0, 1) = Mr(1, 0); M2(1, 1) = Mr(0, 0); }
            }
            if (!sc.ab) { for (int i = 0; i < P; i++) for (int j = 0; j < P; j++) B.set(i, j, f, M2(i, j)); continue; }
            if (colsys) { for (int j = 0; j < P; j++) { C a = polar(0.5L + rnd->unit(), 2 * M_PIl * rnd->unit()); A.set(0, j, f, a); for (int i = 0; i < P; i++) B.set(i, j, f, M2(i, j) * a); } }
            else {
                Mat Am(P, P);
                for (int i = 0; i < P; i++) for (int j = 0; j < P; j++) Am(i, j) = i == j ? polar(0.5L + rnd->unit(), 2 * M_PIl * rnd->unit()) : rnd_disk(*rnd, 0, 0.15L);
                Mat Bm = vm::mul(M2, Am);
                for (int i = 0; i < P; i++) for (int j = 0; j < P; j++) { A.set(i, j, f, Am(i, j)); B.set(i, j, f, Bm(i, j)); }
            }
        }
        vnadata_t *vd = vnadata_alloc(errlog_fn, &log);
        PBT_CHECK(c, vd != nullptr, "cal.vnadata_alloc", "vnadata_alloc failed");
        log.clear();
        int rc = sc.ab ? vnacal_apply(vcp, ci, sc.freq.data(), sc.F, A.p(), A.rows, A.cols, B.p(), P, P, vd)
                       : vnacal_apply_m(vcp, ci, sc.freq.data(), sc.F, B.p(), P, P, vd);
        if (rc == 0) {
            out.clear();
            for (int f = 0; f < sc.F; f++) { Mat S(P, P); for (int i = 0; i < P; i++) for (int j = 0; j < P; j++) { dcx z = vnadata_get_cell(vd, f, i, j); S(i, j) = C(re_(z), im_(z)); } out.push_back(S); }
        }
        if (keep) *keep = vd; else vnadata_free(vd);
        return rc;
    }
};

static inline std::vector<Mat> gen_dut(pbt::Ctx &c, int P, int F) {
    std::vector<Mat> d;
    Mat base(P, P); for (auto &x : base.a) x = rnd_disk(c, 0, 0.9L);
    for (int f = 0; f < F; f++) { Mat S = base; for (auto &x : S.a) x *= polar(1, 0.2L * f); d.push_back(S); }
    return d;
}
static inline std::vector<double> gen_freqs(pbt::Ctx &c, int F) {
    std::vector<double> v; double f = 1e6 * (double)c.range(1, 1000);
    for (int i = 0; i < F; i++) { v.push_back(f); f *= 1.0 + 0.05 * (double)c.range(1, 40); }
    return v;
}

} // namespace cs
