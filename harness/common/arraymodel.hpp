// arraymodel.hpp -- abstract model of vnadata_t as documented in vnadata(3):
// type + F x (rows x cols) array stored flat row-major per frequency, cells
// beyond the logical size hold 0; frequency vector; z0 in ordinary or
// per-frequency mode with the documented preserve / reset rules.
#pragma once
#include "vna.hpp"
#include <algorithm>

struct ArrayModel {
    int type = VPT_UNDEF, rows = 0, cols = 0, F = 0;
    std::vector<double> freq;
    std::vector<std::vector<dcx>> data;       // F x (rows*cols)
    bool perf = false;                        // per-frequency z0 in use
    std::vector<dcx> z0;                      // [ports]        (ordinary mode)
    std::vector<std::vector<dcx>> fz0;        // [F][ports]     (per-frequency mode)

    int ports() const { return std::max(rows, cols); }
    static dcx dflt() { return mkc(VNADATA_DEFAULT_Z0, 0.0); }

    static bool shape_ok(int type, int r, int c) {
        if (r < 0 || c < 0) return false;
        switch (type) {
        case VPT_UNDEF: return true;
        case VPT_S: case VPT_Z: case VPT_Y: return r == c;
        case VPT_T: case VPT_U: case VPT_H: case VPT_G: case VPT_A: case VPT_B: return r == 2 && c == 2;
        case VPT_ZIN: return r == 1;
        default: return false;
        }
    }
    static bool is_nxn(int t) { return t == VPT_S || t == VPT_Z || t == VPT_Y; }
    static bool is_2x2only(int t) { return t == VPT_T || t == VPT_U || t == VPT_H || t == VPT_G || t == VPT_A || t == VPT_B; }
    // conversion table of vnadata(3) / vnadata_convert: which (from,to,dims) are accepted
    static bool convert_ok(int from, int to, int r, int c) {
        if (to < 0 || to > VPT_ZIN) return false;
        if (from == VPT_UNDEF) return to == VPT_UNDEF;
        if (from == VPT_ZIN) return to == VPT_ZIN && (r == 1 || c == 1);
        if (to == VPT_UNDEF) return false;
        if (to == from) { if (is_2x2only(from)) return r == 2 && c == 2; if (from == VPT_S) return true; return r == c; }
        if (to == VPT_ZIN) { if (is_nxn(from)) return r == c; return r == 2 && c == 2; }
        if (is_nxn(from) && is_nxn(to)) return r == c;
        return r == 2 && c == 2;
    }

    void reset_empty() { type = VPT_UNDEF; rows = cols = F = 0; freq.clear(); data.clear(); perf = false; z0.clear(); fz0.clear(); }

    void resize(int t, int r, int c, int nf) {
        int ncells = r * c, nports = std::max(r, c);
        for (auto &d : data) d.resize(ncells, mkc(0, 0));   // flat prefix preserved, rest zero
        data.resize(nf, std::vector<dcx>(ncells, mkc(0, 0)));
        freq.resize(nf, 0.0);
        if (perf) {
            for (auto &z : fz0) z.resize(nports, dflt());
            fz0.resize(nf, std::vector<dcx>(nports, dflt()));
        } else z0.resize(nports, dflt());
        type = t; rows = r; cols = c; F = nf;
    }
    void init(int t, int r, int c, int nf) { reset_empty(); resize(t, r, c, nf); }
    void add_frequency(double f) {
        resize(type, rows, cols, F + 1);
        freq[F - 1] = f;
    }
    // "discards all frequency-dependent z0 values and returns to ordinary system
    //  impedances with all other impedance values initialized to 50 ohms"
    void to_ordinary() { if (perf) { perf = false; fz0.clear(); z0.assign(ports(), dflt()); } }
    // "establish frequency-dependent system impedances, preserving the ordinary
    //  system impedances for all other entries"
    void to_perf() { if (!perf) { perf = true; fz0.assign(F, z0); z0.clear(); } }

    void after_inplace_convert(int nt, vnadata_t *v) {
        if (nt == VPT_ZIN && type != VPT_ZIN) {
            int n = std::min(rows, cols);
            resize(nt, 1, n, F);      // "dimensions and contents of a freshly built 1 x ports object"
            for (int f = 0; f < F; f++) { data[f].assign(n, mkc(0, 0)); }
        }
        type = nt;
        for (int f = 0; f < F; f++)
            for (int i = 0; i < rows * cols; i++) data[f][i] = v->vd_data[f][i];
    }

    static bool is_fail(dcx z) { return re_(z) == HUGE_VAL; }

    // compare every getter with the model; valid getters must not call the error function
    bool equals_object(vnadata_t *v, ErrLog &log, std::string &why) const {
        char b[512];
        size_t nlog = log.recs.size();
#define AM_FAIL(...) do { snprintf(b, sizeof b, __VA_ARGS__); why = b; return false; } while (0)
        if ((int)vnadata_get_type(v) != type) AM_FAIL("type: object %s, model %s", type_name(vnadata_get_type(v)), type_name(type));
        if (vnadata_get_rows(v) != rows || vnadata_get_columns(v) != cols || vnadata_get_frequencies(v) != F)
            AM_FAIL("dimensions: object %dx%dx%d, model %dx%dx%d", vnadata_get_rows(v), vnadata_get_columns(v), vnadata_get_frequencies(v), rows, cols, F);
        const double *fv = vnadata_get_frequency_vector(v);
        for (int f = 0; f < F; f++) {
            double x = vnadata_get_frequency(v, f);
            if (!same_bits(x, freq[f]) || !same_bits(fv[f], freq[f])) AM_FAIL("frequency[%d]: object %g, model %g", f, x, freq[f]);
            const dcx *mat = vnadata_get_matrix(v, f);
            if (mat == nullptr && rows * cols > 0) AM_FAIL("get_matrix(%d) returned NULL", f);
            for (int r = 0; r < rows; r++) for (int c = 0; c < cols; c++) {
                dcx x1 = vnadata_get_cell(v, f, r, c), x2 = mat[r * cols + c], e = data[f][r * cols + c];
                if (!same_bits(x1, e) || !same_bits(x2, e))
                    AM_FAIL("cell[%d][%d][%d]: object %g%+gi, model %g%+gi", f, r, c, re_(x1), im_(x1), re_(e), im_(e));
            }
        }
        if (F > 0) {
            if (!same_bits(vnadata_get_fmin(v), freq[0]) || !same_bits(vnadata_get_fmax(v), freq[F - 1])) AM_FAIL("fmin/fmax differ from first/last frequency");
        }
        bool hp = vnadata_has_fz0(v);
        if (hp != perf) AM_FAIL("has_fz0: object %d, model %d", (int)hp, (int)perf);
        int np = ports();
        if (!perf) {
            const dcx *zv = vnadata_get_z0_vector(v);
            if (np > 0 && zv == nullptr) AM_FAIL("get_z0_vector returned NULL in ordinary mode");
            for (int p = 0; p < np; p++) {
                dcx x1 = vnadata_get_z0(v, p);
                if (!same_bits(x1, z0[p]) || !same_bits(zv[p], z0[p])) AM_FAIL("z0[%d]: object %g%+gi, model %g%+gi", p, re_(x1), im_(x1), re_(z0[p]), im_(z0[p]));
                for (int f = 0; f < F; f++) {
                    dcx x2 = vnadata_get_fz0(v, f, p);
                    if (!same_bits(x2, z0[p])) AM_FAIL("get_fz0(%d,%d) in ordinary mode: object %g%+gi, model %g%+gi", f, p, re_(x2), im_(x2), re_(z0[p]), im_(z0[p]));
                }
            }
            if (log.recs.size() != nlog) AM_FAIL("valid getter called the error function: %s", log.text().c_str());
        } else {
            for (int f = 0; f < F; f++) {
                const dcx *zv = vnadata_get_fz0_vector(v, f);
                if (np > 0 && zv == nullptr) AM_FAIL("get_fz0_vector(%d) returned NULL", f);
                for (int p = 0; p < np; p++) {
                    dcx x1 = vnadata_get_fz0(v, f, p);
                    if (!same_bits(x1, fz0[f][p]) || !same_bits(zv[p], fz0[f][p]))
                        AM_FAIL("fz0[%d][%d]: object %g%+gi, model %g%+gi", f, p, re_(x1), im_(x1), re_(fz0[f][p]), im_(fz0[f][p]));
                }
            }
            if (log.recs.size() != nlog) AM_FAIL("valid getter called the error function: %s", log.text().c_str());
            // "If frequency-dependent impedances are in-use, vnadata_get_z0() and
            //  vnadata_get_z0_vector() return failure."
            if (np > 0) {
                errno = 0;
                dcx x = vnadata_get_z0(v, 0);
                if (!is_fail(x)) AM_FAIL("get_z0 succeeded while per-frequency z0 in use");
                if (vnadata_get_z0_vector(v) != nullptr) AM_FAIL("get_z0_vector succeeded while per-frequency z0 in use");
                log.recs.resize(nlog);
            }
        }
        return true;
    }

    // boundary-index getters: index outside [0,n) => failure value + EINVAL
    bool check_getters(vnadata_t *v, ErrLog &log, int fi, int r, int c, int p, std::string &why) const {
        char b[512];
        bool fok = fi >= 0 && fi < F, rok = r >= 0 && r < rows, cok = c >= 0 && c < cols, pok = p >= 0 && p < ports();
        {
            errno = 0; log.clear();
            dcx x = vnadata_get_cell(v, fi, r, c); int e = errno;
            if (fok && rok && cok) { if (!same_bits(x, data[fi][r * cols + c])) AM_FAIL("get_cell(%d,%d,%d) wrong value", fi, r, c); }
            else { if (!is_fail(x) || e != EINVAL) AM_FAIL("get_cell(%d,%d,%d) on %dx%dx%d not refused (re=%g errno=%d)", fi, r, c, F, rows, cols, re_(x), e);
                   if (log.n_nonwarning() < 1) AM_FAIL("get_cell refusal did not call the error function"); }
        }
        {
            errno = 0; log.clear();
            double x = vnadata_get_frequency(v, fi); int e = errno;
            if (fok) { if (!same_bits(x, freq[fi])) AM_FAIL("get_frequency(%d) wrong value", fi); }
            else if (x != HUGE_VAL || e != EINVAL) AM_FAIL("get_frequency(%d) with F=%d not refused", fi, F);
        }
        {
            errno = 0; log.clear();
            const dcx *mp = vnadata_get_matrix(v, fi); int e = errno;
            if (fok) { if (!mp && rows * cols > 0) AM_FAIL("get_matrix(%d) NULL", fi); }
            else if (mp != nullptr || e != EINVAL) AM_FAIL("get_matrix(%d) with F=%d not refused", fi, F);
        }
        {
            std::vector<dcx> vec(F + 1, mkc(-7, -7));
            errno = 0; log.clear();
            int rc = vnadata_get_to_vector(v, r, c, vec.data()); int e = errno;
            if (rok && cok) { if (rc != 0) AM_FAIL("get_to_vector(%d,%d) failed", r, c);
                for (int f = 0; f < F; f++) if (!same_bits(vec[f], data[f][r * cols + c])) AM_FAIL("get_to_vector(%d,%d)[%d] wrong", r, c, f); }
            else if (rc != -1 || e != EINVAL) AM_FAIL("get_to_vector(%d,%d) on %dx%d not refused", r, c, rows, cols);
        }
        {
            errno = 0; log.clear();
            dcx x = vnadata_get_z0(v, p); int e = errno;
            if (pok && !perf) { if (!same_bits(x, z0[p])) AM_FAIL("get_z0(%d) wrong value", p); }
            else if (!is_fail(x) || e != EINVAL) AM_FAIL("get_z0(%d) with %d ports (per-frequency=%d) not refused (re=%g errno=%d)", p, ports(), (int)perf, re_(x), e);
        }
        {
            errno = 0; log.clear();
            dcx x = vnadata_get_fz0(v, fi, p); int e = errno;
            if (fok && pok) { dcx want = perf ? fz0[fi][p] : z0[p]; if (!same_bits(x, want)) AM_FAIL("get_fz0(%d,%d) wrong value", fi, p); }
            else if (!is_fail(x) || e != EINVAL) AM_FAIL("get_fz0(%d,%d) with F=%d ports=%d not refused (re=%g errno=%d)", fi, p, F, ports(), re_(x), e);
        }
        {
            errno = 0; log.clear();
            const dcx *zp = vnadata_get_fz0_vector(v, fi); int e = errno;
            if (fok) { if (ports() > 0 && !zp) AM_FAIL("get_fz0_vector(%d) NULL", fi); }
            else if (zp != nullptr || e != EINVAL) AM_FAIL("get_fz0_vector(%d) with F=%d not refused", fi, F);
        }
        if (F == 0) {
            errno = 0; log.clear();
            double x = vnadata_get_fmin(v); int e = errno;
            if (x != HUGE_VAL || e != EINVAL) AM_FAIL("get_fmin with no frequencies not refused");
            errno = 0;
            x = vnadata_get_fmax(v); e = errno;
            if (x != HUGE_VAL || e != EINVAL) AM_FAIL("get_fmax with no frequencies not refused");
        }
        log.clear();
        return true;
#undef AM_FAIL
    }
};
