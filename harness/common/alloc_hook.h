/*
 * alloc_hook.h -- compile-time allocation-failure injection for property C12.
 *
 * Force-included (clang -include) into every translation unit of libvna in the
 * "fi" build variant (see bin/vbuild.py), and into nothing else.  It pulls in the
 * real prototypes first and then maps the allocating functions libvna uses
 * (malloc, calloc, realloc, strdup, vasprintf -- `grep` of /repo/src finds no
 * strndup/asprintf/reallocarray/getline users) to counting wrappers implemented
 * in alloc_hook.c, which is linked into the harness.  free() is left alone.
 * libyaml, libm and libc keep the real allocator: only allocations requested by
 * libvna code are counted and can be failed, which is exactly the quantifier of
 * property C12.
 *
 * The wrappers receive the call site (__FILE__, __LINE__) so that the harness
 * can report which allocation sites of the library were reached and failed.
 *
 * The harness side (alloc_hook.c, C12.cpp) includes this header with
 * VERIF_FI_HARNESS defined and gets only the control API, no macros.
 */
#ifndef VERIF_ALLOC_HOOK_H
#define VERIF_ALLOC_HOOK_H

#ifndef VERIF_FI_HARNESS
/* archdep.h does "#define _GNU_SOURCE" (empty) for vasprintf: use the identical
 * definition so that the later one is a benign redefinition */
#ifndef _GNU_SOURCE
#define _GNU_SOURCE
#endif
#endif

#include <stddef.h>
#include <stdarg.h>
#include <stdlib.h>
#include <string.h>
#include <stdio.h>

#ifdef __cplusplus
extern "C" {
#endif

/* ---- wrappers called from libvna (via the macros below) ------------------- */
extern void *verif_malloc(size_t size, const char *file, int line);
extern void *verif_calloc(size_t nmemb, size_t size, const char *file, int line);
extern void *verif_realloc(void *ptr, size_t size, const char *file, int line);
extern char *verif_strdup(const char *s, const char *file, int line);
extern int verif_vasprintf(char **strp, const char *format, va_list ap, const char *file, int line);

/* ---- control API used by the harness -------------------------------------- */
/* forget everything: counter = 0, disarmed, not fired (the site table is kept) */
extern void verif_fi_reset(void);
/* the allocation with index k (0-based, counted from the last reset) fails once */
extern void verif_fi_arm(long k);
extern void verif_fi_disarm(void);
/* number of libvna allocations since the last reset */
extern long verif_fi_count(void);
/* 1 if the armed fault has been delivered */
extern int verif_fi_fired(void);
/* site and function of the allocation that was failed ("" / 0 if none) */
extern const char *verif_fi_fired_file(void);
extern int verif_fi_fired_line(void);
extern const char *verif_fi_fired_func(void);
/* while paused (> 0) allocations are neither counted nor failed: used by the
 * harness around its own observation calls (getters, save for the digest) */
extern void verif_fi_pause(void);
extern void verif_fi_resume(void);
/* table of distinct allocation sites seen since process start */
extern int verif_fi_nsites(void);
extern int verif_fi_site(int i, const char **file, int *line, const char **func, long *calls, long *failed);

#ifdef __cplusplus
}
#endif

#ifndef VERIF_FI_HARNESS
/*
 * Function-like macros: they only fire on a call "malloc(...)"; attribute
 * spellings such as __attribute__((malloc)) and the declarations in the headers
 * included above (guarded against re-inclusion) are unaffected.
 */
#undef malloc
#undef calloc
#undef realloc
#undef strdup
#undef vasprintf
#define malloc(size)                 verif_malloc((size), __FILE__, __LINE__)
#define calloc(nmemb, size)          verif_calloc((nmemb), (size), __FILE__, __LINE__)
#define realloc(ptr, size)           verif_realloc((ptr), (size), __FILE__, __LINE__)
#define strdup(s)                    verif_strdup((s), __FILE__, __LINE__)
#define vasprintf(strp, format, ap)  verif_vasprintf((strp), (format), (ap), __FILE__, __LINE__)
#endif /* !VERIF_FI_HARNESS */

#endif /* VERIF_ALLOC_HOOK_H */
